(** * C02, rung 2 (syntax), the DOCTYPE rung, part 3: markup declarations, the internal subset, the
    document type declaration, and the document with or without one.

    [syn_document]: when the production `document` of the regenerated grammar derives the whole
    string and the typed document satisfies [ok_doc] -- the names at Name positions are Names
    (exclusion of finding D04) and there is no parameter-entity declaration or reference (those
    XmlDocument::new refuses) -- [Spec.XmlWF.parse_document] accepts the string and returns the
    translation [x_doc] of the typed document. *)
From Coq Require Import List NArith Arith Lia Bool.
From XmlRs Require Import Base.CPred Spec.XmlChars Model.Peg Gen.XmlcharGen Gen.GrammarXmlGen Model.ParseActions Model.Info Model.Display
     Proofs.XmlcharProofs Proofs.PegTermination Proofs.PegLemmas Proofs.PegInv Proofs.Expansion
     Proofs.DisplayLex Proofs.ActionLemmas Proofs.DisplayElem Proofs.DisplayDoc Proofs.DisplayDtd
     Proofs.ParseInv Proofs.ParseInvElem Proofs.ParseInvBuild Proofs.ParseInvDtd
     Proofs.XmlWFSyntaxLex Proofs.XmlWFSyntaxElem Proofs.XmlWFSyntaxDoc Proofs.XmlWFSyntaxDtd Proofs.XmlWFSyntaxDtdElem.
From XmlRs Require Spec.XmlWF.
Import ListNotations.
Local Open Scope N_scope.

(** ** translation *)
Definition x_markup (m : markup) : W.decl :=
  match m with
  | MkElement d => W.DElement (d_qname (del_name d))
  | MkAttributes d => x_attlist d
  | MkEntity (DeGeneral n d) => W.DEntity n (x_entdef d)
  | MkEntity (DeParameter n _) => W.DPEntity n (W.EdValue [])      (* excluded by [ok_markup] *)
  | MkNotation d => x_notation d
  | MkPI p => W.DPI (pi_target p) (pi_value p)
  | MkComment s => W.DComment s
  end.
Definition ok_markup (m : markup) : bool :=
  match m with
  | MkElement _ | MkComment _ => true
  | MkAttributes d => d04_attlist d
  | MkEntity (DeGeneral n d) => is_Name n && d04_entdef d
  | MkEntity (DeParameter _ _) => false
  | MkNotation d => is_Name (dn_name d)
  | MkPI p => d04_pi p
  end.
Definition x_subset_item (x : int_subset) : list W.decl :=
  match x with IsMarkup m => [x_markup m] | IsPeReference n => [W.DPERef n] | IsWhitespace _ => [] end.
Definition x_subset (l : list int_subset) : list W.decl := flat_map x_subset_item l.
Definition ok_subset_item (x : int_subset) : bool :=
  match x with IsMarkup m => ok_markup m | IsPeReference _ => false | IsWhitespace _ => true end.
Definition ok_subset (l : list int_subset) : bool := forallb ok_subset_item l.
Definition x_doctype (dd : decl_doc) : W.doctype :=
  {| W.dt_name := d_qname (dd_name dd); W.dt_extid := option_map x_extid (dd_external_id dd);
     W.dt_subset := x_subset (dd_internal_subset dd) |}.

(** ** [29] markupdecl *)
Lemma markupdecl_comment fuel r : W.p_markupdecl fuel (W.s_comment_open ++ r) =
  W.bind (W.p_comment_body r) (fun '(b, r1) => Some (W.DComment b, r1)).
Proof. reflexivity. Qed.
Lemma markupdecl_pi fuel r : W.p_markupdecl fuel (W.s_pi_open ++ r) =
  W.bind (W.bind (W.strip W.s_pi_open (W.s_pi_open ++ r)) (fun r0 => Some r0)) (fun r0 => W.bind (W.p_pi_body r0) (fun '(tg, d, r1) => Some (W.DPI tg d, r1))).
Proof. reflexivity. Qed.

Lemma al_decl_element_inv q v m :
  apply_label L_model_DeclarationMarkup_element (apply_label L_model_DeclarationElement_from (VPair (VQName q) v)) = VMarkup m ->
  exists c, m = MkElement (DeclElement q c).
Proof.
  change (apply_label L_model_DeclarationElement_from (VPair (VQName q) v))
    with (match v with VDeclContent c => VDeclElement (DeclElement q c) | _ => VBad end).
  destruct v; intros H; try discriminate H.
  change (VMarkup (MkElement (DeclElement q c)) = VMarkup m) in H. injection H as <-. eauto.
Qed.

Lemma spec_gedecl_head fuel r1 x : spec_gedecl fuel r1 = Some x ->
  match r1 with c :: t => (if c =? W.c_pct then @None (W.decl * str) else spec_gedecl fuel r1) = Some x | [] => False end.
Proof. unfold spec_gedecl at 1. destruct r1 as [|c t]; [discriminate|]. destruct (c =? W.c_pct) eqn:E; [discriminate|]. intros H. unfold spec_gedecl. rewrite E. exact H. Qed.

(** ** the first character of a production, computed from the grammar: every derivation of [e] starts with it *)
Fixpoint fc (k : nat) : pexpr -> option N :=
  fix go (e : pexpr) : option N :=
  match e with
  | Tag (c :: _) => Some c
  | Seq a _ | SeqL a _ | SeqR a _ => go a
  | Map _ a | Recognize a | VerifyEq _ _ a | TakeExcept a _ => go a
  | Alt a b => match go a, go b with Some x, Some y => if x =? y then Some x else None | _, _ => None end
  | NT n => match k with O => None | Datatypes.S k' => fc k' (body G_xml n) end
  | _ => None
  end.

Lemma fc_sound : forall k e c, fc k e = Some c -> forall s t r, S e s t r -> exists s0, s = c :: s0 /\ (length r < length s)%nat.
Proof.
  assert (forall k, (forall n c, match k with O => None | Datatypes.S k' => fc k' (body G_xml n) end = Some c ->
                       forall s t r, S (body G_xml n) s t r -> exists s0, s = c :: s0 /\ (length r < length s)%nat) ->
            forall e c, fc k e = Some c -> forall s t r, S e s t r -> exists s0, s = c :: s0 /\ (length r < length s)%nat) as Hstep.
  { intros k Hnt.
    induction e as [a|p|p|a IHa b IHb|a IHa b IHb|a IHa b IHb|a IHa b IHb|e IHe|e IHe|e IHe|sp IHs e IHe|sp IHs e IHe|e IHe|l e IHe|e IHe pat|e IHe pat|p1 p2 e IHe|n];
      intros c Hc inp t r H; destruct k as [|k']; cbn [fc] in Hc; try discriminate Hc.
    all: try (match type of Hc with match ?a with [] => _ | _ :: _ => _ end = _ => destruct a as [|c0 a0]; [discriminate Hc|]; injection Hc as <-; inv H; cbn [app length]; eexists; split; [reflexivity|lia] end).
    all: try (match goal with IHa : forall c : N, fc _ ?a = Some c -> _ |- _ => idtac end; inv H;
              match goal with H1 : succ _ ?a _ _ _, H2 : succ _ ?b _ _ _, IHa : forall c : N, fc _ ?a = Some c -> _ |- _ =>
                destruct (IHa _ Hc _ _ _ H1) as [s0 [-> Hl]]; apply succ_suffix in H2; apply suffix_length in H2; eexists; split; [reflexivity|slia] end).
    all: try (match type of Hc with match ?x with _ => _ end = _ => destruct x as [x1|] eqn:E1; [|discriminate Hc] end;
              match type of Hc with match ?y with _ => _ end = _ => destruct y as [y1|] eqn:E2; [|discriminate Hc] end;
              destruct (N.eqb_spec x1 y1) as [->|]; [|discriminate Hc]; injection Hc as <-; inv H;
              match goal with IHa : forall c : N, fc _ ?a = Some c -> _, H1 : succ _ ?a _ _ _ |- _ => eapply IHa; [eassumption|eassumption] end).
    all: try (inv H; match goal with IHe : forall c : N, fc _ ?e = Some c -> _, H1 : succ _ ?e _ _ _ |- _ => eapply IHe; eassumption end).
    all: try (inv H; match goal with H1 : succ _ (body _ ?n) _ _ _ |- _ => eapply (Hnt n); eassumption end).
    - destruct a as [|c0 a0]; [discriminate Hc|]. injection Hc as <-. inv H. cbn [app length]. eexists. split; [reflexivity|cbn [length]; rewrite ?app_length; slia].
    - destruct a as [|c0 a0]; [discriminate Hc|]. injection Hc as <-. inv H. cbn [app length]. eexists. split; [reflexivity|cbn [length]; rewrite ?app_length; slia]. }
  induction k as [|k IHk]; apply Hstep.
  - intros n c Hc. discriminate Hc.
  - intros n c Hc s t r H. eapply IHk; eassumption.
Qed.

Lemma markup_decl_shape s t r : S (NT nt_markup_decl) s t r -> exists s0, s = 60 :: s0 /\ (length r < length s)%nat.
Proof. apply (fc_sound 4 (NT nt_markup_decl) 60). vm_compute. reflexivity. Qed.

Lemma syn_markup_decl s t r : S (NT nt_markup_decl) s t r -> forall m, eval_tree t = VMarkup m ->
  ok_markup m = true -> forall fuel, (length s <= fuel)%nat -> W.p_markupdecl fuel s = Some (x_markup m, r).
Proof.
  intros H m Hm. inv_nt H body_markup_decl. repeat inv_alt.
  - (* ELEMENT *)
    match goal with H : succ _ (Map _ _) _ _ _ |- _ => inv H end.
    match goal with H : succ _ (NT nt_element_decl) _ _ _ |- _ => apply syn_element_decl in H; destruct H as [q [tcs [-> Hp]]] end.
    cbn [eval_tree] in Hm. rewrite eval_tree_qname in Hm.
    apply al_decl_element_inv in Hm. destruct Hm as [c ->].
    intros _ fuel Hf. cbn [x_markup del_name]. apply Hp. exact Hf.
  - (* ATTLIST *)
    match goal with H : succ _ (Map _ _) _ _ _ |- _ => inv H end.
    match goal with H : succ _ (NT nt_attlist_decl) _ _ _ |- _ => apply syn_attlist_decl in H; destruct H as [d [Ed Hp]] end.
    cbn [eval_tree] in Hm. rewrite Ed in Hm. change (VMarkup (MkAttributes d) = VMarkup m) in Hm. injection Hm as <-.
    cbn [ok_markup x_markup]. intros Hok fuel Hf. apply (Hp Hok). exact Hf.
  - (* ENTITY *)
    match goal with H : succ _ (Map _ _) _ _ _ |- _ => inv H end.
    match goal with H : succ _ (NT nt_entity_decl) _ _ _ |- _ => inv_nt H body_entity_decl end. inv_alt.
    + match goal with H : succ _ (Map _ _) _ _ _ |- _ => inv H end.
      match goal with H : succ _ (NT nt_ge_decl) _ _ _ |- _ => apply syn_ge_decl in H; destruct H as [n [d [s' [Ed [Es Hp]]]]] end.
      cbn [eval_tree] in Hm. rewrite Ed in Hm. change (VMarkup (MkEntity (DeGeneral n d)) = VMarkup m) in Hm. injection Hm as <-.
      cbn [ok_markup x_markup]. intros Hok fuel Hf. apply andb_prop in Hok. destruct Hok as [Hn Hd].
      destruct (Hp Hn Hd fuel Hf) as [r1 [E1 E2]]. rewrite Es. rewrite markupdecl_entity, E1. cbn [W.bind].
      pose proof (spec_gedecl_head _ _ _ E2) as E3. destruct r1 as [|c0 t0]; [contradiction|]. destruct (c0 =? W.c_pct); [discriminate E3|exact E3].
    + match goal with H : succ _ (Map _ _) _ _ _ |- _ => inv H end.
      match goal with H : succ _ (NT nt_pe_decl) _ _ _ |- _ => inv H end.
      destruct body_pe_decl_map as [e Ee].
      match goal with H : succ _ (body _ _) _ _ _ |- _ => rewrite Ee in H; inv H end.
      cbn [eval_tree] in Hm.
      match goal with Hm : context [apply_label L_model_DeclarationParameterEntity_from ?v] |- _ => destruct (al_pe_shape v) as [Eb|[n [d Eb]]]; rewrite Eb in Hm end.
      * change (VBad = VMarkup m) in Hm. discriminate Hm.
      * change (VMarkup (MkEntity (DeParameter n d)) = VMarkup m) in Hm. injection Hm as <-. intros Hok. discriminate Hok.
  - (* NOTATION *)
    match goal with H : succ _ (Map _ _) _ _ _ |- _ => inv H end.
    match goal with H : succ _ (NT nt_notation_decl) _ _ _ |- _ => apply syn_notation_decl in H; destruct H as [d [Ed Hp]] end.
    cbn [eval_tree] in Hm. rewrite Ed in Hm. change (VMarkup (MkNotation d) = VMarkup m) in Hm. injection Hm as <-.
    cbn [ok_markup x_markup]. intros Hok fuel Hf. apply (Hp Hok).
  - (* PI *)
    match goal with H : succ _ (Map _ _) _ _ _ |- _ => inv H end.
    match goal with H : succ _ (NT nt_pi) _ _ _ |- _ => apply syn_pi in H; destruct H as [p [s' [Ep [-> Hp]]]] end.
    cbn [eval_tree] in Hm. rewrite Ep in Hm. change (VMarkup (MkPI p) = VMarkup m) in Hm. injection Hm as <-.
    cbn [ok_markup x_markup]. intros Hok fuel Hf. rewrite markupdecl_pi, Wstrip_app. cbn [W.bind]. rewrite (Hp Hok). reflexivity.
  - (* comment *)
    match goal with H : succ _ (Map _ _) _ _ _ |- _ => inv H end.
    match goal with H : succ _ (NT nt_comment) _ _ _ |- _ => apply syn_comment in H; destruct H as [c [s' [Ec [-> Hp]]]] end.
    cbn [eval_tree] in Hm. rewrite Ec in Hm. change (VMarkup (MkComment c) = VMarkup m) in Hm. injection Hm as <-.
    intros _ fuel Hf. rewrite markupdecl_comment, Hp. reflexivity.
Qed.

(** ** [28b] intSubset *)
Lemma intsubset_eq f (s : str) : W.p_intsubset (Datatypes.S f) s =
  match W.skipS s with
  | c :: t =>
    if c =? W.c_rbr then Some ([], t)
    else if c =? W.c_pct then
      match W.p_Name t with
      | Some (nm, c2 :: r) => if c2 =? W.c_semi then W.bind (W.p_intsubset f r) (fun '(l, rest) => Some (W.DPERef nm :: l, rest)) else None
      | _ => None
      end
    else W.bind (W.p_markupdecl f (W.skipS s)) (fun '(d, r) => W.bind (W.p_intsubset f r) (fun '(l, rest) => Some (d :: l, rest)))
  | [] => None
  end.
Proof. reflexivity. Qed.

Lemma syn_subset_items s ts r rest : SM subset_item s ts r -> r = 93 :: rest ->
  forall l, all_some (map as_int_subset (map eval_tree ts)) = Some l ->
  ok_subset l = true -> forall fuel, (length s < fuel)%nat -> W.p_intsubset fuel s = Some (x_subset l, rest).
Proof.
  intros H Hr. remember subset_item as ex eqn:Ee. induction H as [ex s|ex s t r1 ts r Hs Hlt Hm IH]; intros l Hl Hok fuel Hf; subst ex.
  - injection Hl as <-. destruct fuel as [|f]; [lia|]. rewrite intsubset_eq. subst s. reflexivity.
  - cbn [map all_some] in Hl. destruct (as_int_subset (eval_tree t)) as [x|] eqn:Ex; [|discriminate].
    destruct (all_some (map as_int_subset (map eval_tree ts))) as [l'|] eqn:El; [|discriminate]. injection Hl as <-.
    cbn [ok_subset forallb] in Hok. apply andb_prop in Hok. destruct Hok as [Hokx Hokl].
    specialize (IH eq_refl Hr l' eq_refl Hokl). apply as_int_subset_some in Ex.
    unfold subset_item in Hs. inv_alt.
    + (* a markup declaration *)
      match goal with H : succ _ (Map _ _) _ _ _ |- _ => inv H end. cbn [eval_tree] in Ex.
      apply al_is_from_inv in Ex. destruct Ex as [[m [Em ->]]|[n ->]]; [|discriminate Hokx].
      match goal with H : succ _ (NT nt_markup_decl) _ _ _ |- _ => destruct (markup_decl_shape _ _ _ H) as [s0 [-> _]];
        pose proof (syn_markup_decl _ _ _ H m Em Hokx) as Hp end.
      destruct fuel as [|f]; [lia|]. rewrite intsubset_eq. rewrite (skipS_stops (60 :: s0)) by reflexivity.
      change (60 =? W.c_rbr) with false. change (60 =? W.c_pct) with false. cbv iota.
      rewrite (Hp f) by slia. cbn [W.bind]. rewrite (IH f) by slia. reflexivity.
    + match goal with H : succ _ (NT nt_decl_sep) _ _ _ |- _ => inv_nt H body_decl_sep end. inv_alt.
      * (* a parameter-entity reference: excluded *)
        match goal with H : succ _ (Map _ _) _ _ _ |- _ => inv H end.
        match goal with H : succ _ (NT nt_pe_reference) _ _ _ |- _ => apply inv_pe_reference in H; destruct H as [n [-> Hn]] end.
        change (VIntSubset (IsPeReference n) = VIntSubset x) in Ex. injection Ex as <-. discriminate Hokx.
      * (* white space *)
        match goal with H : succ _ (Map _ _) _ _ _ |- _ => inv H end.
        match goal with H : succ _ (Chars1 ws) _ _ _ |- _ => apply inv_ws1 in H; destruct H as [a [-> [Hne [Ha [Hst ->]]]]] end.
        change (VIntSubset (IsWhitespace a) = VIntSubset x) in Ex. injection Ex as <-.
        cbn [x_subset flat_map x_subset_item app]. fold (x_subset l').
        destruct fuel as [|f]; [lia|]. rewrite app_length in Hf.
        rewrite <- (IH (Datatypes.S f)) by lia. rewrite !intsubset_eq. rewrite (skipS_app a r1 Ha Hst), (skipS_stops r1 Hst). reflexivity.
Qed.

(** ** [28] doctypedecl *)
Definition doctype_val (n : qname) (X S0 : val) : val :=
  match as_opt as_external_id X, as_opt (as_list as_int_subset) S0 with
  | Some x', Some s' => VDeclDoc (DeclDoc n x' (match s' with Some i => i | None => [] end))
  | _, _ => VBad
  end.
Lemma doctype_val_eq n X S0 : apply_label L_model_DeclarationDoc_from (VPair (VQName n) (VPair X S0)) = doctype_val n X S0.
Proof. reflexivity. Qed.

Lemma ws_name_end_or (r1 : str) : (exists a c t, forallb (eval ws) a = true /\ r1 = a ++ c :: t /\ (c = 91 \/ c = 62)) ->
  stops (eval is_name_char) r1.
Proof.
  intros [a [c [t [Ha [-> Hc]]]]]. destruct a as [|x a]; [cbn [app stops]; destruct Hc as [->| ->]; reflexivity|].
  apply ws_name_end; [discriminate|exact Ha].
Qed.

Lemma no_extid_here (r1 : str) : (exists a c t, forallb (eval ws) a = true /\ r1 = a ++ c :: t /\ (c = 91 \/ c = 62)) ->
  W.bind (W.p_S r1) (fun r' => W.p_ExternalID false r') = None.
Proof.
  intros [a [c [t [Ha [-> Hc]]]]]. destruct a as [|x a].
  - cbn [app]. rewrite p_S_stops; [reflexivity|]. destruct Hc as [->| ->]; reflexivity.
  - srw (p_S_app (x :: a) (c :: t)); [|discriminate|exact Ha|destruct Hc as [->| ->]; reflexivity].
    cbn [W.bind]. destruct Hc as [->| ->]; reflexivity.
Qed.

Lemma syn_doctype_decl s t r : S (NT nt_doctype_decl) s t r -> forall dd, eval_tree t = VDeclDoc dd ->
  exists s', s = W.s_doctype ++ s' /\
    (ok_subset (dd_internal_subset dd) = true -> forall fuel, (length s < fuel)%nat -> W.p_doctype fuel s' = Some (x_doctype dd, r)).
Proof.
  intros H dd Hd. inv_nt H body_doctype_decl.
  match goal with H : succ _ (Map _ _) _ _ _ |- _ => inv H end.
  match goal with H : succ _ (Seq (SeqR _ _) _) _ _ _ |- _ => inv H end.
  match goal with H : succ _ (Seq (SeqL _ _) _) _ _ _ |- _ => inv H end.
  match goal with H : succ _ (SeqR (Seq (Tag _) _) _) _ _ _ |- _ => pose proof (succ_suffix _ _ _ _ _ H) as HsA; inv H end.
  match goal with H : succ _ (Seq (Tag _) (Chars1 ws)) _ _ _ |- _ => inv H end.
  match goal with H : succ _ (Tag [60;33;68;79;67;84;89;80;69]) _ _ _ |- _ => inv H end.
  match goal with H : succ _ (SeqL (Opt (SeqR (Chars1 ws) _)) _) _ _ _ |- _ => pose proof (succ_suffix _ _ _ _ _ H) as HsB; inv H end.
  match goal with H : succ _ (SeqL (Opt (SeqR (Tag [91]) _)) _) _ _ _ |- _ => inv H end.
  match goal with H : succ _ (Tag [62]) _ _ _ |- _ => inv H end.
  match goal with H : succ _ (Chars1 ws) _ _ _ |- _ => apply syn_ws1 in H; destruct H as [Hw1 _] end.
  match goal with H : succ _ (Chars0 ws) _ _ _ |- _ => apply inv_ws0 in H; destruct H as [a2 [-> [Ha2 Hst2]]] end.
  apply suffix_length in HsA, HsB. cbn [app length] in HsA.
  eexists. split; [reflexivity|].
  assert (forall fuel q (id : option W.extid) (rr : str) rest l', 
            (forall l, Some l' = Some l -> ok_subset l = true -> forall fuel, (length rr < fuel)%nat -> W.p_intsubset fuel rr = Some (x_subset l, rest)) ->
            ok_subset l' = true -> (length rr < fuel)%nat -> tag_end rest false r ->
            W.bind (W.p_intsubset fuel rr) (fun '(l, r5) => W.bind (W.p_close r5) (fun r6 =>
              Some ({| W.dt_name := q; W.dt_extid := id; W.dt_subset := l |}, r6))) =
            Some ({| W.dt_name := q; W.dt_extid := id; W.dt_subset := x_subset l' |}, r)) as Hfin.
  { intros fuel q id rr rest l' Hsub Hok Hf Hend. rewrite (Hsub l' eq_refl Hok fuel Hf). cbn [W.bind]. rewrite (p_close_end _ _ Hend). reflexivity. }
  (* the subset *)
  match goal with H : succ _ (Opt (SeqR (Tag [91]) _)) _ _ _ |- _ => inv H end.
  - match goal with H : succ _ (SeqR (Tag [91]) _) _ _ _ |- _ => inv H end.
    match goal with H : succ _ (SeqL (NT nt_int_subset) _) _ _ _ |- _ => inv H end.
    match goal with H : succ _ (Seq (Tag [93]) _) _ _ _ |- _ => inv H end.
    match goal with H : succ _ (Tag [91]) _ _ _ |- _ => inv H end.
    match goal with H : succ _ (Tag [93]) _ _ _ |- _ => inv H end.
    match goal with H : succ _ (Chars0 ws) _ _ _ |- _ => apply inv_ws0 in H; destruct H as [a3 [-> [Ha3 _]]] end.
    match goal with H : succ _ (NT nt_int_subset) _ _ _ |- _ => inv_nt H body_int_subset end.
    match goal with H : succ _ (Many0 _) _ _ _ |- _ => inv H end.
    match goal with H : succ_many _ _ _ _ _ |- _ => pose proof (syn_subset_items _ _ _ _ H eq_refl) as Hsub end.
    assert (tag_end (a3 ++ [62] ++ r) false r) as Hend by (exists a3; split; [exact Ha3|reflexivity]).
    rewrite ?app_length in HsB. cbn [app length] in HsB.
    (* the external identifier *)
    match goal with H : succ _ (Opt (SeqR (Chars1 ws) _)) _ _ _ |- _ => inv H end.
    + match goal with H : succ _ (SeqR (Chars1 ws) _) _ _ _ |- _ => inv H end.
      match goal with H : succ _ (Chars1 ws) _ _ _ |- _ => pose proof (ws1_follow _ _ _ H) as Hfw; apply syn_ws1 in H; destruct H as [Hw2 _] end.
      match goal with H : succ _ (NT nt_external_id) _ _ _ |- _ => apply syn_external_id in H; destruct H as [x [Ex [Hx _]]] end.
      match goal with H : succ _ (NT nt_qname) _ _ _ |- _ => apply syn_qname in H;
        [|destruct Hfw as [a [r' [Hn [Ha ->]]]]; apply ws_name_end; assumption]; destruct H as [q [-> [Hq [_ Hp]]]] end.
      cbn [eval_tree] in Hd. rewrite eval_tree_qname, Ex, doctype_val_eq in Hd. unfold doctype_val in Hd. cbn [as_opt as_external_id eval_tree as_list] in Hd.
      match type of Hd with context [all_some ?l0] => destruct (all_some l0) as [l'|] eqn:El; [|discriminate Hd] end. injection Hd as <-.
      cbn [dd_internal_subset]. intros Hok fuel Hf. unfold W.p_doctype. rewrite Hw1. cbn [W.bind]. rewrite Hp. cbn [W.bind].
      rewrite Hw2. cbn [W.bind]. rewrite Hx. cbn [W.bind]. rewrite (skipS_app a2 _ Ha2) by reflexivity. cbn [app].
      change (91 =? W.c_lbr) with true. cbv iota. rewrite extid_of_x. unfold x_doctype. cbn [dd_name dd_external_id dd_internal_subset option_map].
      eapply Hfin; [exact Hsub|exact Hok| |exact Hend]. cbn [app length] in Hf. slia.
    + match goal with H : succ _ (NT nt_qname) _ _ _ |- _ => apply syn_qname in H;
        [|apply ws_name_end_or; exists a2; eexists; eexists; split; [exact Ha2|split; [reflexivity|left; reflexivity]]]; destruct H as [q [-> [Hq [_ Hp]]]] end.
      cbn [eval_tree] in Hd. rewrite eval_tree_qname, doctype_val_eq in Hd. unfold doctype_val in Hd. cbn [as_opt as_external_id eval_tree as_list] in Hd.
      match type of Hd with context [all_some ?l0] => destruct (all_some l0) as [l'|] eqn:El; [|discriminate Hd] end. injection Hd as <-.
      cbn [dd_internal_subset]. intros Hok fuel Hf. unfold W.p_doctype. rewrite Hw1. cbn [W.bind]. rewrite Hp. cbn [W.bind].
      rewrite no_extid_here by (exists a2; eexists; eexists; split; [exact Ha2|split; [reflexivity|left; reflexivity]]).
      cbn [W.bind]. rewrite (skipS_app a2 _ Ha2) by reflexivity. cbn [app].
      change (91 =? W.c_lbr) with true. cbv iota. unfold x_doctype. cbn [dd_name dd_external_id dd_internal_subset option_map].
      eapply Hfin; [exact Hsub|exact Hok| |exact Hend]. cbn [app length] in Hf. slia.
  - (* no internal subset *)
    match goal with H : succ _ (Opt (SeqR (Chars1 ws) _)) _ _ _ |- _ => inv H end.
    + match goal with H : succ _ (SeqR (Chars1 ws) _) _ _ _ |- _ => inv H end.
      match goal with H : succ _ (Chars1 ws) _ _ _ |- _ => pose proof (ws1_follow _ _ _ H) as Hfw; apply syn_ws1 in H; destruct H as [Hw2 _] end.
      match goal with H : succ _ (NT nt_external_id) _ _ _ |- _ => apply syn_external_id in H; destruct H as [x [Ex [Hx _]]] end.
      match goal with H : succ _ (NT nt_qname) _ _ _ |- _ => apply syn_qname in H;
        [|destruct Hfw as [a [r' [Hn [Ha ->]]]]; apply ws_name_end; assumption]; destruct H as [q [-> [Hq [_ Hp]]]] end.
      cbn [eval_tree] in Hd. rewrite eval_tree_qname, Ex, doctype_val_eq in Hd. unfold doctype_val in Hd. cbn [as_opt as_external_id] in Hd. injection Hd as <-.
      intros _ fuel Hf. unfold W.p_doctype. rewrite Hw1. cbn [W.bind]. rewrite Hp. cbn [W.bind].
      rewrite Hw2. cbn [W.bind]. rewrite Hx. cbn [W.bind]. rewrite (skipS_app a2 _ Ha2) by reflexivity. cbn [app].
      change (62 =? W.c_lbr) with false. change (62 =? W.c_gt) with true. cbv iota. rewrite extid_of_x. reflexivity.
    + match goal with H : succ _ (NT nt_qname) _ _ _ |- _ => apply syn_qname in H;
        [|apply ws_name_end_or; exists a2; eexists; eexists; split; [exact Ha2|split; [reflexivity|right; reflexivity]]]; destruct H as [q [-> [Hq [_ Hp]]]] end.
      cbn [eval_tree] in Hd. rewrite eval_tree_qname, doctype_val_eq in Hd. unfold doctype_val in Hd. cbn [as_opt as_external_id] in Hd. injection Hd as <-.
      intros _ fuel Hf. unfold W.p_doctype. rewrite Hw1. cbn [W.bind]. rewrite Hp. cbn [W.bind].
      rewrite no_extid_here by (exists a2; eexists; eexists; split; [exact Ha2|split; [reflexivity|right; reflexivity]]).
      cbn [W.bind]. rewrite (skipS_app a2 _ Ha2) by reflexivity. cbn [app].
      change (62 =? W.c_lbr) with false. change (62 =? W.c_gt) with true. cbv iota. reflexivity.
Qed.

(** ** [1] document, with or without a document type declaration *)
Definition x_doc (pd : pdoc) : W.xdoc :=
  {| W.x_decl := option_map x_xmldecl (pr_declaration_xml (d_prolog pd));
     W.x_misc1 := x_miscs (pr_heads (d_prolog pd));
     W.x_doctype := option_map x_doctype (pr_declaration_doc (d_prolog pd));
     W.x_misc2 := x_miscs (pr_tails (d_prolog pd));
     W.x_root := x_elem (d_element pd);
     W.x_misc3 := x_miscs (d_miscs pd) |}.

Definition ok_doc (pd : pdoc) : bool :=
  forallb d04_misc (pr_heads (d_prolog pd))
  && match pr_declaration_doc (d_prolog pd) with Some dd => ok_subset (dd_internal_subset dd) | None => true end
  && forallb d04_misc (pr_tails (d_prolog pd))
  && d04_elem (d_element pd) && forallb d04_misc (d_miscs pd).

Lemma doctype_start_tests (s' : str) : misc_stop (W.s_doctype ++ s') /\ W.strip W.s_xmldecl_open (W.s_doctype ++ s') = None.
Proof. repeat split. Qed.

Lemma xmldecl_step_none (s : str) : match W.strip W.s_xmldecl_open s with Some r' => W.p_xmldecl r' = None | None => True end ->
  match W.strip W.s_xmldecl_open s with
  | Some r => match W.p_xmldecl r with Some (d, r') => Some (Some d, r') | None => Some (None, s) end
  | None => Some (None, s) end = Some (None, s).
Proof. intros H. destruct (W.strip W.s_xmldecl_open s); [rewrite H|]; reflexivity. Qed.

Lemma prolog_val_some_inv x hs v ms p : prolog_val x hs (VSome (VPair v ms)) = VProlog p -> exists dd, v = VDeclDoc dd.
Proof.
  unfold prolog_val. destruct (as_opt as_decl_xml x); [|discriminate]. destruct (as_list as_misc hs); [|discriminate].
  cbn [as_opt as_doc_tail]. destruct v; try discriminate. eauto.
Qed.

Theorem syn_document s t pd :
  S (NT nt_document) s t [] -> eval_tree t = VDocument pd -> ok_doc pd = true -> W.parse_document s = Some (x_doc pd).
Proof.
  intros H Et Hd. inv_nt H body_document.
  match goal with H : succ _ (Map _ _) _ _ _ |- _ => inv H end.
  match goal with H : succ _ (Seq (NT nt_prolog) _) _ _ _ |- _ => inv H end.
  match goal with H : succ _ (Seq (NT nt_element) _) _ _ _ |- _ => inv H end.
  match goal with H : succ _ (Many0 _) _ _ _ |- _ => inv H end.
  match goal with H : succ _ (NT nt_element) _ _ _ |- _ => pose proof (element_start _ _ _ H) as Hstart;
    destruct (syn_element _ _ _ _ (le_n _) H) as [e [s' [Ee [Es [Hle He]]]]] end.
  match goal with H : succ_many _ (NT nt_misc) _ _ _ |- _ => destruct (syn_miscs _ _ _ H misc_stop_nil) as [m3 [Em3 Hm3]] end.
  match goal with H : succ _ (NT nt_prolog) _ _ _ |- _ => pose proof (succ_suffix _ _ _ _ _ H) as Hsuf0; inv_nt H body_prolog end.
  match goal with H : succ _ (Map _ _) _ _ _ |- _ => inv H end.
  match goal with H : succ _ (Seq (Opt (NT nt_xml_decl)) _) _ _ _ |- _ => inv H end.
  match goal with H : succ _ (Seq (Many0 _) _) _ _ _ |- _ => inv H end.
  match goal with H : succ _ (Many0 _) _ _ _ |- _ => inv H end.
  cbn [eval_tree] in Et. rewrite Ee, Em3, prolog_val_eq in Et.
  destruct (document_val _ _ _ _ Et) as [p [Ep ->]].
  destruct Hstart as [c [s0 [Es' Hc]]]. injection Es' as ->. destruct (start_tests c s0 Hc) as [Hstop [Hnox Hnodt]].
  apply suffix_length in Hsuf0.
  (* the part that is the same in all cases: root element and trailing Misc *)
  assert (forall fuel, (length (60%N :: c :: s0) < fuel)%nat -> d04_elem e = true -> forallb d04_misc m3 = true ->
            forall xd m1 dt m2,
            W.bind (W.p_element fuel (60 :: c :: s0)) (fun '(root, r3) => let (m3', r4) := W.p_miscs fuel r3 in
              match r4 with [] => Some {| W.x_decl := xd; W.x_misc1 := m1; W.x_doctype := dt; W.x_misc2 := m2; W.x_root := root; W.x_misc3 := m3' |} | _ :: _ => None end)
            = Some {| W.x_decl := xd; W.x_misc1 := m1; W.x_doctype := dt; W.x_misc2 := m2; W.x_root := x_elem e; W.x_misc3 := x_miscs m3 |}) as Htail.
  { intros fuel Hf Hd2 Hd3 xd m1 dt m2. unfold W.p_element. change (60 =? W.c_lt) with true. cbv iota.
    cbn [length] in *. rewrite (He Hd2) by slia. cbn [W.bind]. rewrite (Hm3 Hd3) by slia. reflexivity. }
  match goal with H : succ _ (Opt (Seq (NT nt_doctype_decl) _)) _ _ _ |- _ => inv H end.
  - (* with a document type declaration *)
    match goal with H : succ _ (Seq (NT nt_doctype_decl) _) _ _ _ |- _ => inv H end.
    match goal with H : succ _ (Many0 _) _ _ _ |- _ => inv H end.
    match goal with H : succ_many _ (NT nt_misc) _ _ (60 :: c :: s0) |- _ => destruct (syn_miscs _ _ _ H Hstop) as [m2 [Em2 Hm2]] end.
    match goal with H : succ _ (NT nt_doctype_decl) _ _ _ |- _ => pose proof (succ_suffix _ _ _ _ _ H) as Hsufd; pose proof (syn_doctype_decl _ _ _ H) as Hdt end.
    cbn [eval_tree] in Ep. rewrite Em2 in Ep.
    destruct (prolog_val_some_inv _ _ _ _ _ Ep) as [d Etd]. rewrite Etd in Ep.
    destruct (Hdt d Etd) as [s'' [Es'' Hpd]]. destruct (doctype_start_tests s'') as [Hstopd Hnoxd]. rewrite <- Es'' in Hstopd, Hnoxd.
    match goal with H : succ_many _ (NT nt_misc) _ _ r2 |- _ => pose proof H as Hm1; destruct (syn_miscs _ _ _ H Hstopd) as [m1 [Em1 Hm1']] end.
    rewrite Em1 in Ep. apply suffix_length in Hsufd.
    match goal with H : succ_many _ (NT nt_misc) r3 _ _ |- _ => pose proof (sm_length _ _ _ _ H) as Hl3 end.
    pose proof (sm_length _ _ _ _ Hm1) as Hl2.
    match goal with H : succ _ (Opt (NT nt_xml_decl)) _ _ _ |- _ => pose proof (succ_suffix _ _ _ _ _ H) as Hsuf1; inv H end.
    + match goal with H : succ _ (NT nt_xml_decl) _ _ _ |- _ => apply syn_xml_decl in H; destruct H as [x [sx [Ex [-> Hx]]]] end.
      cbn [eval_tree] in Ep. rewrite Ex in Ep. rewrite <- prolog_val_eq in Ep. rewrite (al_prolog_some (Some x) m1 d m2) in Ep. injection Ep as <-.
      unfold ok_doc in Hd. cbn [d_prolog pr_heads pr_declaration_doc pr_tails d_element d_miscs] in Hd.
      apply andb_prop in Hd. destruct Hd as [Hd Hd5]. apply andb_prop in Hd. destruct Hd as [Hd Hd4].
      apply andb_prop in Hd. destruct Hd as [Hd Hd3]. apply andb_prop in Hd. destruct Hd as [Hd1 Hd2].
      apply suffix_length in Hsuf1.
      unfold W.parse_document. rewrite Wstrip_app, Hx. cbn [W.bind].
      rewrite (Hm1' Hd1) by slia. rewrite Wstrip_app. rewrite (Hpd Hd2) by slia. cbn [W.bind].
      rewrite (Hm2 Hd3) by slia. cbn [W.bind]. apply Htail; [slia|exact Hd4|exact Hd5].
    + cbn [eval_tree] in Ep. rewrite <- prolog_val_eq in Ep. rewrite (al_prolog_some None m1 d m2) in Ep. injection Ep as <-.
      unfold ok_doc in Hd. cbn [d_prolog pr_heads pr_declaration_doc pr_tails d_element d_miscs] in Hd.
      apply andb_prop in Hd. destruct Hd as [Hd Hd5]. apply andb_prop in Hd. destruct Hd as [Hd Hd4].
      apply andb_prop in Hd. destruct Hd as [Hd Hd3]. apply andb_prop in Hd. destruct Hd as [Hd1 Hd2].
      pose proof (no_xmldecl_here _ _ _ Hm1 Hnoxd) as Hno.
      unfold W.parse_document. rewrite (xmldecl_step_none _ Hno). cbn [W.bind].
      rewrite (Hm1' Hd1) by slia. rewrite Wstrip_app. rewrite (Hpd Hd2) by slia. cbn [W.bind].
      rewrite (Hm2 Hd3) by slia. cbn [W.bind]. apply Htail; [slia|exact Hd4|exact Hd5].
  - (* without *)
    match goal with H : succ_many _ (NT nt_misc) _ _ _ |- _ => pose proof H as Hm1; destruct (syn_miscs _ _ _ H Hstop) as [m1 [Em1 Hm1']] end.
    cbn [eval_tree] in Ep. rewrite Em1 in Ep.
    match goal with H : succ _ (Opt (NT nt_xml_decl)) _ _ _ |- _ => pose proof (succ_suffix _ _ _ _ _ H) as Hsuf1; inv H end.
    + match goal with H : succ _ (NT nt_xml_decl) _ _ _ |- _ => apply syn_xml_decl in H; destruct H as [x [sx [Ex [-> Hx]]]] end.
      cbn [eval_tree] in Ep. rewrite Ex in Ep. rewrite <- prolog_val_eq in Ep. rewrite (al_prolog_none (Some x) m1) in Ep. injection Ep as <-.
      unfold ok_doc in Hd. cbn [d_prolog pr_heads pr_declaration_doc pr_tails d_element d_miscs forallb] in Hd.
      apply andb_prop in Hd. destruct Hd as [Hd Hd5]. apply andb_prop in Hd. destruct Hd as [Hd Hd4].
      apply andb_prop in Hd. destruct Hd as [Hd _]. apply andb_prop in Hd. destruct Hd as [Hd1 _].
      apply suffix_length in Hsuf1.
      unfold W.parse_document. rewrite Wstrip_app, Hx. cbn [W.bind].
      rewrite (Hm1' Hd1) by slia. rewrite Hnodt. cbn [W.bind]. apply Htail; [slia|exact Hd4|exact Hd5].
    + cbn [eval_tree] in Ep. rewrite <- prolog_val_eq in Ep. rewrite (al_prolog_none None m1) in Ep. injection Ep as <-.
      unfold ok_doc in Hd. cbn [d_prolog pr_heads pr_declaration_doc pr_tails d_element d_miscs forallb] in Hd.
      apply andb_prop in Hd. destruct Hd as [Hd Hd5]. apply andb_prop in Hd. destruct Hd as [Hd Hd4].
      apply andb_prop in Hd. destruct Hd as [Hd _]. apply andb_prop in Hd. destruct Hd as [Hd1 _].
      pose proof (no_xmldecl_here _ _ _ Hm1 Hnox) as Hno.
      unfold W.parse_document. rewrite (xmldecl_step_none _ Hno). cbn [W.bind].
      rewrite (Hm1' Hd1) by slia. rewrite Hnodt. cbn [W.bind]. apply Htail; [slia|exact Hd4|exact Hd5].
Qed.

(** at the entry point xml_parser::document of the model *)
Theorem parse_document_syntax (s : str) (pd : pdoc) :
  ParseActions.parse_document s = POk (pd, []) -> ok_doc pd = true -> W.parse_document s = Some (x_doc pd).
Proof.
  unfold ParseActions.parse_document, parse_with. intros Hp Hd.
  destruct (run G_xml G_xml_R nt_document s) as [[t rest]| |] eqn:Er; try discriminate.
  destruct (eval_tree t) eqn:Et; try discriminate. injection Hp as -> ->.
  apply run_succ in Er. eapply syn_document; eassumption.
Qed.
