(** Observation of the grammar models for the [prod] correspondence: one production on one
    string -> number of characters consumed, or failure. *)
From Coq Require Import List NArith Arith.
From XmlRs Require Import Base.CPred Model.Peg Gen.GrammarXmlGen Gen.GrammarXPathGen.
Import ListNotations.

Inductive obs := ObsOk (consumed : N) | ObsErr | ObsOof | ObsUnknown.

Fixpoint index_of (name : list N) (l : list (list N)) (i : nat) : option nat :=
  match l with
  | [] => None
  | x :: l' => if list_eq_dec N.eq_dec name x then Some i else index_of name l' (S i)
  end.

Definition run_prod (G : list pexpr) (names : list (list N)) (R : nat) (name s : list N) : obs :=
  match index_of name names 0 with
  | None => ObsUnknown
  | Some n =>
    match run G R n s with
    | Ok (_, r) => ObsOk (N.of_nat (length s - length r))
    | Fail => ObsErr
    | Oof => ObsOof
    end
  end.

Definition xml_prod := run_prod G_xml G_xml_names GrammarXmlGen.G_xml_R.
Definition xpath_prod := run_prod G_xpath G_xpath_names GrammarXPathGen.G_xpath_R.
