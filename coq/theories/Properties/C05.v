(** C05 -- XPath evaluation returns the value XPath 1.0 prescribes.
    This file only names the theorems; proofs live in Proofs/XPathRefine*.v (and Proofs/XPathCanon.v).

    Specification: [Spec/XPath10.v] ([spec_query], sections 2-5 of the recommendation on tree
    positions) + [Spec/XPathCore.v] (section 4 on scalars, property C09).
    Model: [Model/XPathEval.v] ([query]), tied to the code by the `xpath` correspondence.

    FULL STATEMENT, PROVED in round 2 ([C05_eval_refines_spec], closed under the global context):

      forall doc c e,
        DocInv doc -> SpecShape doc -> NamesOk doc ->
        ns_lookup (c_ns c) None = None -> supported (c_ns c) e ->
        value_abs (fst (query doc e c)) = spec_query doc (c_ns c) (get_position c) (get_size c) e.

    [value_abs] maps [XNodes l] to [SNodes (map Row l)], scalars to themselves, an error (or a panic,
    or exhausted fuel) to [None]: the model fails exactly when the specification says the expression
    is in error.  The induction covers every construct of the language: or / and / = != < <= > >=
    (with the existential semantics on node-sets) / + - * div mod / unary minus / union / location
    paths with all axes but [namespace], abbreviated or not, [/] and [//], node tests, PREDICATES
    on steps and on filter expressions (position and size on the context stacks) / literals,
    numbers, variable references (an error) / function calls: last, position, count, sum,
    local-name, namespace-uri, name, lang and the scalar library (through the theorems of C09).
    [C05_eval_refines_spec_at] is the same statement at any node of the tree with any context
    position / size (what a predicate sees), including "a value leaves the context unchanged".

    Hypotheses (all decidable; the checkers [doc_inv_b], [spec_shape_b], [names_ok_b] are extracted
    and evaluated on every generated document by checks/C05.py, which reports how many documents
    satisfy them):
      [DocInv]     the table is well formed and order keys increase along it (fails for DTD-default
                   attributes and namespace nodes with key 0: D19);
      [SpecShape]  the table is the pre-order walk of the tree of section 5 (the rows read by
                   [all_nodes] are increasing); a listed attribute is an attribute whose parent
                   observation is the listing element; a listed child has the listing node as
                   parent observation and a kind with siblings; row 0 is a document node whose
                   children are one element, comments, processing instructions, the document type;
                   entity references carry no data; only documents, elements (and attributes)
                   have children;
      [NamesOk]    expanded names are those of Namespaces in XML (the statement of C10); a processing
                   instruction reports (target, no prefix, no URI); documents, text, comments report
                   no name;
      no default namespace binding in the context (XPath 1.0 has none for names in expressions).
    [supported ns e] (decidable, syntactic: [supported_b] in Proofs/XPathRefineSupp.v) excludes
      - the namespace axis (namespace nodes have no usable order key and no owner: D19, refuted below);
      - [id()] (outside the property);
      - number literals that are not Numbers of the grammar (the parser never builds them);
      - name tests whose prefix is not bound in [ns]: XPath 1.0 makes an undeclared prefix an error,
        the implementation reports it only when a node of the principal node type is tested
        ([C05_refuted_undeclared_prefix], found in round 2);
      - in a string-typed parameter of a core function and in the argument of [lang]: an argument
        whose SHAPE allows a negative-zero number (arithmetic, unary minus, number(), sum(),
        floor(), ceiling(), round()) -- finding D34b of C09: the implementation prints the number
        negative zero as "-0".
    Earlier rungs (kept: they are the bricks):
      rung 0  the model's canonical form of a node list (de-duplicate and sort by ORDER KEY) is the
              specification's node-set (by TREE POSITION); every node-set value is in document order;
      rung 1  child, attribute, self, descendant(-or-self), parent, ancestor(-or-self) axes,
              string-values, node tests, predicate-free location paths (with the hypothesis
              [ParentsOk], which the full theorem no longer needs: for the nodes of the tree the
              parent of the specification is derived from [SpecShape], so documents with a document
              type declaration are covered);
      rung 2  ALL axes except [namespace] as LISTS ([C05_rung2_axes_partial]), the key sort of a step
              ([C05_rung2_sort_partial]), the string-value of every node of the tree.
    What is still only TESTED (checks/C05.py evaluates implementation, model and specification on
    the same generated cases on every run): expressions outside [supported], documents outside the
    hypotheses, and -- as for every property -- that the model is the code (the correspondence).

    The statement is moreover false where the dom's data model departs from section 5 (with
    witnesses below and a classifier in checks/xpath_common.py): DTD-default attributes and
    namespace nodes have order key 0 and namespace nodes have no owner element (D19).  Repaired
    departures, now Examples of the equality: the document-type node was a child of the root (D16),
    attributes had no parent (D22b) and had their value items as children (D55), lang() compared
    for equality and read any attribute named lang (D17). *)
From Coq Require Import List NArith Bool Sorting.Sorted.
From XmlRs Require Import Base.CPred Model.XPathAst Model.XDoc Model.XDocCheck Model.XPathEval.
From XmlRs Require Import Spec.XPath10.
From XmlRs Require Import Proofs.XPathNav Proofs.XPathSort Proofs.XPathAstPred Proofs.XPathCanon Proofs.XPathRefine
  Proofs.XPathRefinePaths Proofs.XPathRefineTree Proofs.XPathRefineAxes Proofs.XPathRefineVal
  Proofs.XPathRefineSupp Proofs.XPathRefineEval Proofs.XPathUnion Proofs.XPathDocCheck
  Proofs.XPathExamples Proofs.XPathRefineExamples Proofs.XPathWitness.
Import ListNotations.

(** what the model's value denotes in the specification *)
Definition value_abs (r : res xvalue) : option sval :=
  match r with
  | Ok (XBool b) => Some (SBool b)
  | Ok (XNum x) => Some (SNum x)
  | Ok (XText s) => Some (SStr s)
  | Ok (XNodes l) => Some (SNodes (map Row l))
  | _ => None
  end.

(** rung 0 *)
Theorem C05_rung0_nodeset_partial :
  forall (doc : xdoc) (l : list node), DocInv doc -> Forall (good doc) l ->
    map Row (union_finish doc l) = nodeset doc (map Row l).
Proof. intros doc l Hinv. exact (canon_agrees doc Hinv l). Qed.

(** rung 1, navigation *)
Theorem C05_rung1_axis_child_partial :
  forall (doc : xdoc) (i : node), SpecShape doc -> valid doc i ->
    axis_nodes doc (AxisName AxChild) i = Ok (xchildren doc i) /\
    s_axis doc AxChild (Row i) = map Row (xchildren doc i).
Proof. intros doc i Hs. exact (axis_child_agrees doc Hs i). Qed.

Theorem C05_rung1_axis_attribute_partial :
  forall (doc : xdoc) (i : node), kind doc i = KElement ->
    axis_nodes doc (AxisName AxAttribute) i = Ok (attributes doc i) /\
    s_axis doc AxAttribute (Row i) = map Row (attributes doc i).
Proof. exact axis_attribute_agrees. Qed.

Theorem C05_rung1_axis_self_partial :
  forall (doc : xdoc) (i : node),
    axis_nodes doc (AxisName AxCurrent) i = Ok [i] /\ s_axis doc AxCurrent (Row i) = [Row i].
Proof. exact axis_self_agrees. Qed.

Theorem C05_rung1_axis_descendant_partial :
  forall (doc : xdoc) (i : node), DocInv doc -> SpecShape doc -> valid doc i ->
    axis_nodes doc (AxisName AxDescendant) i = Ok (desc doc i) /\
    s_axis doc AxDescendant (Row i) = map Row (desc doc i).
Proof. intros doc i Hinv Hs. exact (axis_descendant_agrees doc Hinv Hs i). Qed.

Theorem C05_rung1_axis_descendant_or_self_partial :
  forall (doc : xdoc) (i : node), DocInv doc -> SpecShape doc -> valid doc i ->
    axis_nodes doc (AxisName AxDescendantOrSelf) i = Ok (i :: desc doc i) /\
    s_axis doc AxDescendantOrSelf (Row i) = map Row (i :: desc doc i).
Proof. intros doc i Hinv Hs. exact (axis_descendant_or_self_agrees doc Hinv Hs i). Qed.

Theorem C05_rung1_string_value_element_partial :
  forall (doc : xdoc) (i : node), DocInv doc -> SpecShape doc -> valid doc i -> kind doc i = KElement ->
    string_value doc i = Ok (s_string_value doc (Row i)).
Proof. intros doc i Hinv Hs. exact (string_value_agrees doc Hinv Hs i). Qed.

(** node tests *)
Theorem C05_rung1_node_test_partial :
  forall (doc : xdoc), NamesOk doc ->
  forall (ns : list (option str * str)), ns_lookup ns None = None ->
  forall (a : axis_spec) (t : node_test) (i : node), good doc i -> test_bound ns t ->
    test_rel (eval_node_test doc ns a t i) (s_test doc ns (axis_of a) t (Row i)).
Proof. exact node_test_agrees. Qed.

(** a query that is one predicate-free location path over the child, attribute, self, descendant,
    descendant-or-self, parent, ancestor, ancestor-or-self axes (abbreviated or not: [@], [.], [..]),
    any node tests with bound prefixes, steps joined by [/] or [//], relative or absolute, has the
    value XPath 1.0 prescribes: the same nodes in the same order, and the context is returned
    unchanged.  [ParentsOk]: the dom's parent observation is the parent in the tree (decidable; it
    fails for documents with a document type declaration, whose row has the document as dom parent
    but is not a node of the data model: the theorem does not speak about those documents). *)
Theorem C05_rung1_paths_partial :
  forall (doc : xdoc), DocInv doc -> SpecShape doc -> NamesOk doc -> ParentsOk doc ->
  forall (ns : list (option str * str)), ns_lookup ns None = None ->
  forall (p : path_expr) (c : ctx) (pos size : N), c_ns c = ns -> simple_path ns p ->
  exists lm : list node,
    query doc (path_query p) c = (Ok (XNodes lm), c) /\
    spec_query doc ns pos size (path_query p) = Some (SNodes (map Row lm)).
Proof. exact path_query_agrees. Qed.

(** round 2, rung 2: ALL axes except [namespace], at the level of lists.  For a node [i] of the tree
    ([T doc i]: row [i] is reached by the specification's walk of the document) the model's axis
    returns a duplicate-free list of tree nodes, the specification's axis is the increasing list of
    rows with the same elements: following-sibling, preceding-sibling, following, preceding
    included.  Sorting the model's list by order key therefore gives the specification's list
    ([C05_rung2_sort_partial]), which is what a step does before it numbers the nodes for its
    predicates. *)
Theorem C05_rung2_axes_partial :
  forall (doc : xdoc), DocInv doc -> SpecShape doc ->
  forall (a : axis_spec) (i : node), T doc i -> not_ns_axis a = true ->
  exists l l' : list node,
    axis_nodes doc a i = Ok l /\ NoDup l /\ Forall (T doc) l /\
    s_axis doc (axis_of a) (Row i) = map Row l' /\ StronglySorted N.lt l' /\
    (forall x, In x l' <-> In x l).
Proof. intros doc Hinv Hs a i. exact (axis_agrees doc Hinv Hs a i). Qed.

Theorem C05_rung2_sort_partial :
  forall (doc : xdoc), DocInv doc -> SpecShape doc ->
  forall l l' : list node, NoDup l -> Forall (T doc) l -> StronglySorted N.lt l' ->
    (forall x, In x l' <-> In x l) -> sort_by_key doc l = l'.
Proof. intros doc Hinv Hs. exact (sort_is_spec_list doc Hinv Hs). Qed.

(** the string-value of every node of the tree -- the document node, elements, attributes, text,
    comments, processing instructions -- is the one of section 5 *)
Theorem C05_rung2_string_value_partial :
  forall (doc : xdoc) (i : node), DocInv doc -> SpecShape doc -> T doc i ->
    string_value doc i = Ok (s_string_value doc (Row i)).
Proof. intros doc i Hinv Hs. exact (sv_agrees doc Hinv Hs i). Qed.

(** THE PROPERTY (round 2): for every document table satisfying the four decidable hypotheses, every
    context without default namespace binding and every SUPPORTED expression, [query] returns the
    value XPath 1.0 prescribes -- the same boolean, number, string, or the same nodes in document
    order -- and it fails exactly when XPath 1.0 says the expression is in error.
    [supported ns e] ([supported_b], Proofs/XPathRefineSupp.v) is a syntactic class: no namespace
    axis (D19), no [id()], number literals are Numbers of the grammar, the prefixes of name tests are
    bound in [ns], and no argument in a string-typed parameter of a core function (or of [lang]) has
    the shape of an expression that can be a negative-zero number (D34b of C09). *)
Theorem C05_eval_refines_spec :
  forall (doc : xdoc) (c : ctx) (e : expr),
    DocInv doc -> SpecShape doc -> NamesOk doc ->
    ns_lookup (c_ns c) None = None -> supported (c_ns c) e ->
    value_abs (fst (query doc e c)) = spec_query doc (c_ns c) (get_position c) (get_size c) e.
Proof.
  intros doc c e Hinv Hs Hn Hd Hsup.
  exact (eval_refines_spec_lemma doc Hinv Hs Hn (c_ns c) Hd c e eq_refl Hsup).
Qed.

(** every syntactic category, not only whole queries: the statement for an expression evaluated at
    any node of the tree with any position / size on the context stacks (what a predicate sees),
    together with "a value leaves the context as it was" *)
Theorem C05_eval_refines_spec_at :
  forall (doc : xdoc), DocInv doc -> SpecShape doc -> NamesOk doc ->
  forall (c : ctx) (e : expr) (n : node),
    ns_lookup (c_ns c) None = None -> supported (c_ns c) e -> T doc n ->
    rrel (vrel doc) c (eval_expr doc e n c) (s_or doc (c_ns c) e (Row n) (get_position c) (get_size c)).
Proof.
  intros doc Hinv Hs Hn c e n Hd Hsup Tn.
  destruct (refine_all doc Hinv Hs Hn (c_ns c) Hd) as [Hor _]. exact (Hor e Hsup n c Tn eq_refl).
Qed.

Theorem C05_supported_decidable : forall ns e, supported ns e <-> supported_b ns e = true.
Proof. intros ns e. reflexivity. Qed.

(** the hypotheses are satisfiable by non-trivial documents and expressions, and the theorem then
    gives the values: on <r a="1"><b>t<e/></b><c><f/></c><d/></r>
    //e/following::star, (//star)[2], //c | //b, //b[nosuch()] (an error on both sides),
    //star[position() = last()]; on <r><a/><?p x?><?q y?></r>
    count(//processing-instruction()), substring("ab", 0), //a/following-sibling::node() *)
Example C05_example_full_hypotheses :
  (DocInv ex_doc /\ SpecShape ex_doc /\ NamesOk ex_doc) /\
  (DocInv pi_doc /\ SpecShape pi_doc /\ NamesOk pi_doc) /\
  ns_lookup (c_ns ctx_default) None = None /\
  supported (c_ns ctx_default) ex_doc_e0 /\ supported (c_ns ctx_default) ex_doc_e1 /\
  supported (c_ns ctx_default) ex_doc_e2 /\ supported (c_ns ctx_default) ex_doc_e4 /\
  supported (c_ns ctx_default) ex_doc_e6 /\ supported (c_ns ctx_default) pi_doc_e1 /\
  supported (c_ns ctx_default) pi_doc_e3 /\ supported (c_ns ctx_default) pi_doc_e4.
Proof.
  split; [|split].
  - split; [apply doc_inv_b_sound; vm_compute; reflexivity|].
    split; [apply spec_shape_b_sound; vm_compute; reflexivity|apply names_ok_b_sound; vm_compute; reflexivity].
  - split; [apply doc_inv_b_sound; vm_compute; reflexivity|].
    split; [apply spec_shape_b_sound; vm_compute; reflexivity|apply names_ok_b_sound; vm_compute; reflexivity].
  - repeat split; vm_compute; reflexivity.
Qed.

Example C05_example_full_values :
  spec_query ex_doc [] 0 0 ex_doc_e0 = Some (SNodes [Row 9; Row 11; Row 13]%N) /\
  spec_query ex_doc [] 0 0 ex_doc_e1 = Some (SNodes [Row 4]%N) /\
  spec_query ex_doc [] 0 0 ex_doc_e4 = None /\
  spec_query ex_doc [] 0 0 ex_doc_e6 = Some (SNodes [Row 1; Row 7; Row 11; Row 13]%N) /\
  spec_query pi_doc [] 0 0 pi_doc_e4 = Some (SNodes [Row 5; Row 6]%N) /\
  value_abs (fst (query ex_doc ex_doc_e6 ctx_default)) = Some (SNodes [Row 1; Row 7; Row 11; Row 13]%N).
Proof.
  assert (H6 := C05_eval_refines_spec ex_doc ctx_default ex_doc_e6).
  destruct C05_example_full_hypotheses as [[H1 [H2 H3]] [_ [Hd [_ [_ [_ [_ [S6 _]]]]]]]].
  specialize (H6 H1 H2 H3 Hd S6).
  assert (E : spec_query ex_doc [] 0 0 ex_doc_e6 = Some (SNodes [Row 1; Row 7; Row 11; Row 13]%N)) by (vm_compute; reflexivity).
  split; [vm_compute; reflexivity|]. split; [vm_compute; reflexivity|]. split; [vm_compute; reflexivity|].
  split; [exact E|]. split; [vm_compute; reflexivity|]. rewrite H6. exact E.
Qed.

(** a document WITH a document type declaration (its row is a child of the document node in the
    dom, not a node of the data model: [ParentsOk] fails, the theorem applies all the same):
    <!DOCTYPE r [<!ELEMENT r ANY>]><!--c--><r xml:lang="en"><a x="1"/>t<b><a/></b><?p q?></r> with
    (//a)[2]/preceding::node()[position() < 3],
    count(//b/preceding-sibling::node()) + string-length(string(/r)) * 2,
    /r[lang("en")]/b/a/ancestor::star[last()],
    //node()[. = "t"][not(self::b)] | //@star[name() = "xml:lang"] *)
Example C05_example_doctype_hypotheses :
  DocInv dt_doc /\ SpecShape dt_doc /\ NamesOk dt_doc /\ parents_ok_b dt_doc = false /\
  supported [] dt_doc_e0 /\ supported [] dt_doc_e1 /\ supported [] dt_doc_e2 /\ supported [] dt_doc_e3.
Proof.
  split; [apply doc_inv_b_sound; vm_compute; reflexivity|].
  split; [apply spec_shape_b_sound; vm_compute; reflexivity|].
  split; [apply names_ok_b_sound; vm_compute; reflexivity|].
  repeat split; vm_compute; reflexivity.
Qed.

Example C05_example_doctype_values :
  value_abs (fst (query dt_doc dt_doc_e0 ctx_default)) = spec_query dt_doc [] 0 0 dt_doc_e0 /\
  value_abs (fst (query dt_doc dt_doc_e1 ctx_default)) = spec_query dt_doc [] 0 0 dt_doc_e1 /\
  value_abs (fst (query dt_doc dt_doc_e2 ctx_default)) = spec_query dt_doc [] 0 0 dt_doc_e2 /\
  value_abs (fst (query dt_doc dt_doc_e3 ctx_default)) = spec_query dt_doc [] 0 0 dt_doc_e3 /\
  spec_query dt_doc [] 0 0 dt_doc_e0 = Some (SNodes [Row 6; Row 9]%N) /\
  spec_query dt_doc [] 0 0 dt_doc_e2 = Some (SNodes [Row 3]%N) /\
  spec_query dt_doc [] 0 0 dt_doc_e3 = Some (SNodes [Row 3; Row 5; Row 9]%N).
Proof.
  destruct C05_example_doctype_hypotheses as [H1 [H2 [H3 [_ [S0 [S1 [S2 S3]]]]]]].
  split; [exact (C05_eval_refines_spec dt_doc ctx_default dt_doc_e0 H1 H2 H3 eq_refl S0)|].
  split; [exact (C05_eval_refines_spec dt_doc ctx_default dt_doc_e1 H1 H2 H3 eq_refl S1)|].
  split; [exact (C05_eval_refines_spec dt_doc ctx_default dt_doc_e2 H1 H2 H3 eq_refl S2)|].
  split; [exact (C05_eval_refines_spec dt_doc ctx_default dt_doc_e3 H1 H2 H3 eq_refl S3)|].
  repeat split; vm_compute; reflexivity.
Qed.

(** outside [supported]: a name test with an UNDECLARED prefix.  XPath 1.0 (2.3) makes it an error;
    the implementation (and its model) resolves the prefix only when a node of the principal node
    type is tested, so //text()/self::u:x on the document above is the empty node-set for the model
    and an error for the specification (difference found in round 2; [supported] asks the prefixes
    of name tests to be bound) *)
Definition c05_unbound_prefix : expr :=
  path_query (PAbs LpDescendantOrSelfNode
    (ERelPath (StepTest (AxisAbbreviated []) (TestType NtText) ExprNil)
       (StepopCons LpCurrent (StepTest (AxisName AxCurrent) (TestName (NameQName (QPrefixed [117]%N [120]%N))) ExprNil)
          StepopNil))).

Theorem C05_refuted_undeclared_prefix :
  value_abs (fst (query ex_doc c05_unbound_prefix ctx_default)) = Some (SNodes []) /\
  spec_query ex_doc [] 0 0 c05_unbound_prefix = None /\
  supported_b [] c05_unbound_prefix = false.
Proof. vm_compute. repeat split; reflexivity. Qed.

Theorem C05_names_ok_decidable : forall doc : xdoc, names_ok_b doc = true -> NamesOk doc.
Proof. exact names_ok_b_sound. Qed.
Theorem C05_parents_ok_decidable : forall doc : xdoc, parents_ok_b doc = true -> ParentsOk doc.
Proof. exact parents_ok_b_sound. Qed.

Theorem C05_spec_shape_decidable : forall doc : xdoc, spec_shape_b doc = true -> SpecShape doc.
Proof. exact spec_shape_b_sound. Qed.

(** the hypotheses are satisfiable, and on the example the whole equality holds *)
Example C05_example_hypotheses : DocInv ex_doc /\ SpecShape ex_doc.
Proof. split; [exact ex_doc_inv|apply spec_shape_b_sound; vm_compute; reflexivity]. Qed.

(** <r xmlns:p="urn:p" a="1"><b p:x="2">t<p:e/></b><c><f/></c><d/></r> with p bound to urn:p:
    //b/p:e, /r//node(), //@star, r/b/@p:x, //f/ancestor-or-self::star and //p:e/../@p:x are instances of
    [C05_rung1_paths_partial] *)
Definition c05_ctx : ctx := add_ns (Some [112]%N) [117;114;110;58;112]%N ctx_default.
Example C05_example_paths_hypotheses :
  DocInv path_doc /\ SpecShape path_doc /\ NamesOk path_doc /\ ParentsOk path_doc /\
  ns_lookup (c_ns c05_ctx) None = None.
Proof.
  split; [apply Proofs.XPathDocCheck.doc_inv_b_sound; vm_compute; reflexivity|].
  split; [apply spec_shape_b_sound; vm_compute; reflexivity|].
  split; [apply names_ok_b_sound; vm_compute; reflexivity|].
  split; [apply parents_ok_b_sound; vm_compute; reflexivity|reflexivity].
Qed.
Example C05_example_paths_values :
  fst (query path_doc path_doc_e0 c05_ctx) = Ok (XNodes [9]%N) /\
  spec_query path_doc (c_ns c05_ctx) 0 0 path_doc_e0 = Some (SNodes [Row 9%N]) /\
  value_abs (fst (query path_doc path_doc_e1 c05_ctx)) = spec_query path_doc (c_ns c05_ctx) 0 0 path_doc_e1 /\
  value_abs (fst (query path_doc path_doc_e3 c05_ctx)) = spec_query path_doc (c_ns c05_ctx) 0 0 path_doc_e3 /\
  fst (query path_doc path_doc_e3 c05_ctx) = Ok (XNodes [7]%N) /\
  value_abs (fst (query path_doc path_doc_e4 c05_ctx)) = spec_query path_doc (c_ns c05_ctx) 0 0 path_doc_e4 /\
  fst (query path_doc path_doc_e4 c05_ctx) = Ok (XNodes [1; 11; 13]%N) /\
  value_abs (fst (query path_doc path_doc_e5 c05_ctx)) = spec_query path_doc (c_ns c05_ctx) 0 0 path_doc_e5 /\
  fst (query path_doc path_doc_e5 c05_ctx) = Ok (XNodes [7]%N).
Proof. vm_compute. repeat split; reflexivity. Qed.

Example C05_example_refines :
  value_abs (fst (query ex_doc ex_doc_e0 ctx_default)) = spec_query ex_doc [] 0 0 ex_doc_e0 /\
  value_abs (fst (query ex_doc ex_doc_e1 ctx_default)) = spec_query ex_doc [] 0 0 ex_doc_e1 /\
  value_abs (fst (query ex_doc ex_doc_e6 ctx_default)) = spec_query ex_doc [] 0 0 ex_doc_e6 /\
  value_abs (fst (query c05_doc c05_doc_e5 ctx_default)) = spec_query c05_doc [] 0 0 c05_doc_e5.
Proof. vm_compute. repeat split; reflexivity. Qed.

(** repaired departures from the data model, now equalities (document
    <!DOCTYPE r [<!ATTLIST r d CDATA "dv">]><r a="1" xml:lang="en-US"><b>t</b></r>): the document type
    is not a node (D16: /node()), the parent of an attribute is its element (D22b: //@a/..), an
    attribute has no children (D55: //@a/node()), the content of its element follows an attribute
    (//@a/following::node()), lang() follows 4.3 (D17: /r[lang("en")]) *)
Example C05_example_repaired :
  value_abs (fst (query c05_doc c05_doc_e0 ctx_default)) = spec_query c05_doc [] 0 0 c05_doc_e0 /\
  spec_query c05_doc [] 0 0 c05_doc_e0 = Some (SNodes [Row 2%N]) /\
  value_abs (fst (query c05_doc c05_doc_e1 ctx_default)) = spec_query c05_doc [] 0 0 c05_doc_e1 /\
  spec_query c05_doc [] 0 0 c05_doc_e1 = Some (SNodes [Row 2%N]) /\
  value_abs (fst (query c05_doc c05_doc_e2 ctx_default)) = spec_query c05_doc [] 0 0 c05_doc_e2 /\
  spec_query c05_doc [] 0 0 c05_doc_e2 = Some (SNodes []) /\
  value_abs (fst (query c05_doc c05_doc_e6 ctx_default)) = spec_query c05_doc [] 0 0 c05_doc_e6 /\
  spec_query c05_doc [] 0 0 c05_doc_e6 = Some (SNodes [Row 7; Row 9]%N) /\
  value_abs (fst (query c05_doc c05_doc_e4 ctx_default)) = spec_query c05_doc [] 0 0 c05_doc_e4 /\
  spec_query c05_doc [] 0 0 c05_doc_e4 = Some (SNodes [Row 2%N]).
Proof. vm_compute. repeat split; reflexivity. Qed.

(** the full statement is still false where namespace nodes are involved: they have no owner in the
    dom (no parent: //namespace::star/..) and no usable order key (D19) *)
Theorem C05_refuted_namespace_parent_D19 :
  value_abs (fst (query c05_doc c05_doc_e7 ctx_default)) = Some (SNodes []) /\
  spec_query c05_doc [] 0 0 c05_doc_e7 = Some (SNodes [Row 2; Row 7]%N).
Proof. vm_compute. split; reflexivity. Qed.

Theorem C05_refuted_namespace_nodes_D19 :               (* //namespace::* on <r xmlns:p="u"><b/></r> *)
  value_abs (fst (query ns_doc ns_doc_e0 ctx_default)) = Some (SNodes [Row 3; Row 2]%N) /\
  spec_query ns_doc [] 0 0 ns_doc_e0 = Some (SNodes [NsOf 1 2; NsOf 1 3; NsOf 4 2; NsOf 4 5]%N).
Proof. vm_compute. split; reflexivity. Qed.

Print Assumptions C05_rung0_nodeset_partial.
Print Assumptions C05_rung1_axis_child_partial.
Print Assumptions C05_rung1_axis_descendant_partial.
Print Assumptions C05_rung1_axis_descendant_or_self_partial.
Print Assumptions C05_rung1_string_value_element_partial.
Print Assumptions C05_rung1_node_test_partial.
Print Assumptions C05_rung1_paths_partial.
Print Assumptions C05_rung2_axes_partial.
Print Assumptions C05_rung2_sort_partial.
Print Assumptions C05_rung2_string_value_partial.
Print Assumptions C05_eval_refines_spec.
Print Assumptions C05_eval_refines_spec_at.
