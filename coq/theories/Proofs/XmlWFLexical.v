(** * Lexical rung of C02 / C01: the productions of the REGENERATED grammar [G_xml] against the
    recognisers of [Spec.XmlWF], one production at a time, for every string.

    Each theorem is an equation (or a pair of inclusions) between [run G_xml R nt_p s] -- the
    semantics of the nom parser of production p as translated by T2 -- and the function of
    Spec/XmlWF.v that reads the same production from the recommendation.  They are closed and
    universally quantified over the input string. *)
From Coq Require Import List NArith Arith Lia Bool.
From XmlRs Require Import Base.CPred Spec.XmlChars Model.Peg Gen.XmlcharGen Gen.GrammarXmlGen
  Proofs.XmlcharProofs Proofs.PegTermination Proofs.NameLanguage.
From XmlRs Require Spec.XmlWF.
Import ListNotations.
Local Open Scope nat_scope.

Module W := Spec.XmlWF.

(** ** the two developments define the same string helpers *)
Lemma span_same f s : W.span f s = span f s.
Proof.
  induction s as [|c s IH]; cbn [W.span span]; [reflexivity|].
  destruct (f c); [|reflexivity]. now rewrite IH.
Qed.

Lemma strip_same p s : W.strip p s = prefix p s.
Proof. reflexivity. Qed.

Lemma prefix_app p r : prefix p (p ++ r) = Some r.
Proof. induction p as [|x p IH]; cbn [prefix app]; [reflexivity|]. now rewrite N.eqb_refl. Qed.

Lemma prefix_spec p s r : prefix p s = Some r -> s = p ++ r.
Proof.
  revert s; induction p as [|x p IH]; intros [|y s]; cbn [prefix]; intros H; try discriminate.
  - now injection H as <-.
  - now injection H as <-.
  - destruct (N.eqb_spec x y) as [->|]; [|discriminate]. cbn [app]. f_equal. now apply IH.
Qed.

(** ** one-step evaluation of the remaining constructors *)
Lemma den_Tag f a s : denote G_xml f (Tag a) s = match prefix a s with Some r => Ok (TStr a, r) | None => Fail end.
Proof. rewrite denote_eq. reflexivity. Qed.
Lemma den_SeqR f a b s : denote G_xml f (SeqR a b) s =
  bind (denote G_xml f a s) (fun x => bind (denote G_xml f b (snd x)) (fun y => Ok (fst y, snd y))).
Proof. rewrite denote_eq. reflexivity. Qed.
Lemma den_SeqL f a b s : denote G_xml f (SeqL a b) s =
  bind (denote G_xml f a s) (fun x => bind (denote G_xml f b (snd x)) (fun y => Ok (fst x, snd y))).
Proof. rewrite denote_eq. reflexivity. Qed.
Lemma den_Seq f a b s : denote G_xml f (Seq a b) s =
  bind (denote G_xml f a s) (fun x => bind (denote G_xml f b (snd x)) (fun y => Ok (TPair (fst x) (fst y), snd y))).
Proof. rewrite denote_eq. reflexivity. Qed.
Lemma den_Alt f a b s : denote G_xml f (Alt a b) s =
  match denote G_xml f a s with Fail => denote G_xml f b s | x => x end.
Proof. rewrite denote_eq. reflexivity. Qed.
Lemma den_Map f l e s : denote G_xml f (Map l e) s = bind (denote G_xml f e s) (fun x => Ok (TMap l (fst x), snd x)).
Proof. rewrite denote_eq. reflexivity. Qed.
Lemma den_Opt f e s : denote G_xml f (Opt e) s =
  match denote G_xml f e s with Ok (t, r) => Ok (TSome t, r) | Fail => Ok (TNone, s) | Oof => Oof end.
Proof. rewrite denote_eq. reflexivity. Qed.
Lemma den_Recognize f e s : denote G_xml f (Recognize e) s =
  bind (denote G_xml f e s) (fun x => Ok (TStr (consumed s (snd x)), snd x)).
Proof. rewrite denote_eq. reflexivity. Qed.
Lemma den_Many0 f e s : denote G_xml f (Many0 e) s = many_loop (S (length s)) (denote G_xml f e) s [].
Proof. rewrite denote_eq. reflexivity. Qed.
Lemma den_TakeUntil f e pat s : denote G_xml f (TakeUntil e pat) s =
  bind (denote G_xml f e s) (fun x =>
    let v := consumed s (snd x) in
    match find_sub pat v with
    | Some i => Ok (TStr (firstn i s), skipn i s)
    | None => Ok (TStr v, snd x)
    end).
Proof. rewrite denote_eq. reflexivity. Qed.

Definition ws : cpred := InR [(32,32);(9,9);(13,13);(10,10)]%N.
Lemma ws_is_S c : eval ws c = W.isS c.
Proof. reflexivity. Qed.

(** what a production leaves unread: [Some rest] when it succeeds *)
Definition rest_of (x : res (tree * str)) : option str :=
  match x with Ok (_, r) => Some r | _ => None end.

Lemma fuel6 s : exists k, fuel_bound R s = S (S (S (S (S (S k))))).
Proof. unfold fuel_bound. exists (length s * S (S R) + R + R - 2). unfold R. cbn. lia. Qed.

(** ** [3] S (nom's multispace1, inlined by T2 as [Chars1 ws]) and [25] Eq *)
Theorem S_language : forall f s, rest_of (denote G_xml f (Chars1 ws) s) = W.spec_S s.
Proof.
  intros f s. rewrite den_Chars1. unfold W.spec_S, W.p_S.
  change (W.span W.isS s) with (span (eval ws) s).
  destruct (span (eval ws) s) as [[|x a] b]; reflexivity.
Qed.

Lemma body_eq : body G_xml nt_eq = SeqR (Chars0 ws) (SeqL (Tag [61%N]) (Chars0 ws)).
Proof. reflexivity. Qed.

Theorem eq_language : forall s, rest_of (run G_xml R nt_eq s) = W.spec_Eq s.
Proof.
  intros s. unfold run. destruct (fuel6 s) as [k ->]. rewrite den_NT, body_eq.
  rewrite den_SeqR, den_Chars0. unfold W.spec_Eq, W.p_Eq, W.skipS.
  change (W.span W.isS s) with (span (eval ws) s).
  destruct (span (eval ws) s) as [a b]. cbn [bind fst snd].
  rewrite den_SeqL, den_Tag. destruct b as [|c t]; cbn [prefix bind]; [reflexivity|].
  unfold W.c_eq. rewrite (N.eqb_sym c 61). destruct (N.eqb 61 c); cbn [bind fst snd]; [|reflexivity].
  rewrite den_Chars0. change (W.span W.isS t) with (span (eval ws) t).
  destruct (span (eval ws) t) as [a' b']. reflexivity.
Qed.

(** ** [66] CharRef *)
Lemma in_range_le c lo hi : in_range c (lo, hi) = (N.leb lo c && N.leb c hi)%bool.
Proof.
  unfold in_range. cbn [fst snd]. f_equal.
  destruct (N.ltb_spec c (hi + 1)), (N.leb_spec c hi); try reflexivity; lia.
Qed.

Lemma digit_class c : eval (InR [(48,57)]%N) c = W.isDigit c.
Proof. cbn [eval existsb]. rewrite in_range_le, orb_false_r. reflexivity. Qed.

Lemma hex_class c : eval (InR [(48,57);(65,70);(97,102)]%N) c = W.isHex c.
Proof. cbn [eval existsb]. rewrite !in_range_le, orb_false_r. unfold W.isHex, W.isDigit. now rewrite orb_assoc. Qed.

Lemma body_char_ref : body G_xml nt_char_ref =
  Alt (Map L_model_Reference_digit (SeqR (Tag [38;35]%N) (SeqL (Chars1 (InR [(48,57)]%N)) (Tag [59%N]))))
      (Map L_model_Reference_hex (SeqR (Tag [38;35;120]%N) (SeqL (Chars1 (InR [(48,57);(65,70);(97,102)]%N)) (Tag [59%N])))).
Proof. reflexivity. Qed.

(** digits then ";" : the rest *)
Definition digits_semi (f : char -> bool) (s : str) : option str :=
  match span f s with
  | (_ :: _, c :: r) => if N.eqb c 59 then Some r else None
  | _ => None
  end.

Lemma digits_semi_spec base f s : option_map snd (W.p_digits_semi base f s) = digits_semi f s.
Proof.
  unfold W.p_digits_semi, digits_semi. change (W.span f s) with (span f s).
  destruct (span f s) as [[|d ds] [|c r]]; try reflexivity.
  unfold W.c_semi. destruct (N.eqb c 59); reflexivity.
Qed.

Lemma den_digits_semi f p cls s : (forall c, eval p c = cls c) ->
  rest_of (denote G_xml f (SeqL (Chars1 p) (Tag [59%N])) s) = digits_semi cls s.
Proof.
  intros Hp. rewrite den_SeqL, den_Chars1. rewrite (span_ext _ cls s Hp). unfold digits_semi.
  destruct (span cls s) as [[|d ds] b]; [reflexivity|]. cbn [bind fst snd]. rewrite den_Tag.
  destruct b as [|c r]; cbn [prefix]; [reflexivity|]. rewrite (N.eqb_sym 59 c).
  destruct (N.eqb c 59); reflexivity.
Qed.

Definition charref_rest (s : str) : option str :=
  match s with
  | c1 :: c2 :: u =>
    if (N.eqb c1 38 && N.eqb c2 35)%bool then
      match u with
      | x :: v => if N.eqb x 120 then digits_semi W.isHex v else digits_semi W.isDigit u
      | [] => None
      end
    else None
  | _ => None
  end.

Lemma rest_of_map l (x : res (tree * str)) : rest_of (bind x (fun y => Ok (TMap l (fst y), snd y))) = rest_of x.
Proof. destruct x as [[t r]| |]; reflexivity. Qed.

Lemma rest_of_fail_iff (x : res (tree * str)) : x <> Oof -> (rest_of x = None <-> x = Fail).
Proof. destruct x as [[t r]| |]; cbn; intros H; split; intros H'; try discriminate; try reflexivity. now elim H. Qed.

Lemma den_digits_fail f p s c : eval p c = false -> denote G_xml f (SeqL (Chars1 p) (Tag [59%N])) (c :: s) = Fail.
Proof. intros H. rewrite den_SeqL, den_Chars1. cbn [span]. rewrite H. reflexivity. Qed.

Lemma rest_of_bind_id (x : res (tree * str)) : rest_of (bind x (fun y => Ok (fst y, snd y))) = rest_of x.
Proof. destruct x as [[t r]| |]; reflexivity. Qed.

Lemma den_char_ref f s : rest_of (denote G_xml (S f) (NT nt_char_ref) s) = charref_rest s.
Proof.
  rewrite den_NT, body_char_ref. rewrite den_Alt.
  rewrite !den_Map, !den_SeqR, !den_Tag.
  destruct s as [|c1 [|c2 u]]; cbn [prefix bind charref_rest]; try reflexivity.
  - destruct (N.eqb 38 c1); reflexivity.
  - rewrite (N.eqb_sym 38 c1), (N.eqb_sym 35 c2).
    destruct (N.eqb c1 38) eqn:E1; cbn [andb bind]; [|reflexivity].
    destruct (N.eqb c2 35) eqn:E2; cbn [andb bind fst snd]; [|reflexivity].
    destruct u as [|x v].
    + cbn [prefix]. rewrite den_SeqL, den_Chars1. cbn [span bind]. reflexivity.
    + cbn [prefix]. rewrite (N.eqb_sym 120 x).
      destruct (N.eqb x 120) eqn:Ex.
      * (* hexadecimal: the decimal alternative fails on the letter x *)
        apply N.eqb_eq in Ex. subst x.
        rewrite (den_digits_fail f _ v 120%N) by reflexivity. cbn [bind fst snd].
        rewrite rest_of_map, rest_of_bind_id. apply den_digits_semi, hex_class.
      * pose proof (den_digits_semi f _ W.isDigit (x :: v) digit_class) as Hd.
        destruct (denote G_xml f (SeqL (Chars1 (InR [(48, 57)]%N)) (Tag [59%N])) (x :: v)) as [[t r]| |] eqn:Ed;
          cbn [bind fst snd rest_of] in *; exact Hd.
Qed.

Theorem char_ref_language : forall s, rest_of (run G_xml R nt_char_ref s) = charref_rest s.
Proof. intros s. unfold run. destruct (fuel6 s) as [k ->]. apply den_char_ref. Qed.

Lemma spec_reference_charref u : W.spec_reference (38 :: 35 :: u)%N = charref_rest (38 :: 35 :: u)%N.
Proof.
  unfold W.spec_reference, charref_rest, W.p_ref. cbn [N.eqb Pos.eqb andb W.c_amp W.c_hash].
  destruct u as [|x v]; [reflexivity|]. unfold W.c_x.
  destruct (N.eqb x 120).
  - rewrite <- (digits_semi_spec 16). destruct (W.p_digits_semi 16 W.isHex v) as [[? ?]|]; reflexivity.
  - rewrite <- (digits_semi_spec 10). destruct (W.p_digits_semi 10 W.isDigit (x :: v)) as [[? ?]|]; reflexivity.
Qed.

(** ** scanning up to a delimiter: nom's helper::take_until against [W.scan_to] / [W.spec_chardata] *)
Lemma prefix_none_nil pat : pat <> [] -> prefix pat [] = None.
Proof. destruct pat; [intros H; now elim H|reflexivity]. Qed.

Lemma find_sub_nil pat : pat <> [] -> find_sub pat [] = None.
Proof. intros H. cbn [find_sub]. now rewrite prefix_none_nil. Qed.

Section TakeUntilFacts.
Variable cls : char -> bool.
Variable pat : str.
Hypothesis pat_cls : forallb cls pat = true.
Hypothesis pat_ne : pat <> [].

Lemma prefix_app_l p a b x : prefix p a = Some x -> prefix p (a ++ b) = Some (x ++ b).
Proof.
  revert a; induction p as [|y p IH]; intros a; cbn [prefix].
  - intros H; now injection H as <-.
  - destruct a as [|z a]; [discriminate|]. cbn [app prefix]. destruct (N.eqb y z); [apply IH|discriminate].
Qed.

Lemma prefix_in_span s r : prefix pat s = Some r -> exists x, prefix pat (fst (span cls s)) = Some x.
Proof.
  revert s r pat_cls. clear pat_ne. induction pat as [|y p IH]; intros s r Hc; cbn [prefix].
  - eauto.
  - destruct s as [|z s]; [discriminate|]. destruct (N.eqb_spec y z) as [->|]; [|discriminate].
    cbn [forallb] in Hc. apply andb_true_iff in Hc. destruct Hc as [Hz Hc]. intros H.
    cbn [span]. rewrite Hz. destruct (span cls s) as [a b] eqn:E. cbn [fst prefix]. rewrite N.eqb_refl.
    specialize (IH s r Hc H). rewrite E in IH. exact IH.
Qed.


(** what [TakeUntil (Chars0 cls) pat] leaves, and what is left after a following [Tag pat] *)
Definition tu_rest (s : str) : str :=
  let (v, b) := span cls s in match find_sub pat v with Some i => skipn i s | None => b end.

Lemma tu_rest_cons_stop c t : cls c = false -> tu_rest (c :: t) = c :: t.
Proof. intros H. unfold tu_rest. cbn [span]. rewrite H. now rewrite (find_sub_nil pat pat_ne). Qed.

Lemma tu_rest_cons_hit s r : prefix pat s = Some r -> tu_rest s = s.
Proof.
  intros H. unfold tu_rest. destruct (prefix_in_span s r H) as [x Hx].
  destruct (span cls s) as [v b]. cbn [fst] in Hx.
  destruct v as [|c v]; cbn [find_sub]; rewrite Hx; reflexivity.
Qed.

Lemma tu_rest_cons_go c t : cls c = true -> prefix pat (c :: t) = None -> tu_rest (c :: t) = tu_rest t.
Proof.
  intros Hc Hp. unfold tu_rest. cbn [span]. rewrite Hc.
  destruct (span cls t) as [v b] eqn:E. cbn [find_sub].
  destruct (prefix pat (c :: v)) as [x|] eqn:Ex.
  - exfalso. destruct (span_spec _ _ _ _ E) as (-> & _ & _).
    change (c :: v ++ b) with ((c :: v) ++ b) in Hp. rewrite (prefix_app_l _ _ b _ Ex) in Hp. discriminate.
  - destruct (find_sub pat v) as [i|]; reflexivity.
Qed.
End TakeUntilFacts.

(** [W.scan_to pat] = take_until over Chars, then the delimiter *)
Lemma scan_to_tu pat : forallb W.isChar pat = true -> pat <> [] ->
  forall s, option_map snd (W.scan_to pat s) = prefix pat (tu_rest W.isChar pat s).
Proof.
  intros Hc Hne. induction s as [|c t IH].
  - cbn [W.scan_to]. change (W.strip pat []) with (prefix pat []). rewrite (prefix_none_nil pat Hne).
    unfold tu_rest. cbn [span]. rewrite (find_sub_nil pat Hne). now rewrite (prefix_none_nil pat Hne).
  - cbn [W.scan_to]. change (W.strip pat (c :: t)) with (prefix pat (c :: t)).
    destruct (prefix pat (c :: t)) as [r|] eqn:Ep.
    + rewrite (tu_rest_cons_hit W.isChar pat Hc _ _ Ep). now rewrite Ep.
    + destruct (W.isChar c) eqn:Ec.
      * rewrite (tu_rest_cons_go W.isChar pat c t Ec Ep). rewrite <- IH.
        destruct (W.scan_to pat t) as [[a r]|]; reflexivity.
      * rewrite (tu_rest_cons_stop W.isChar pat Hne c t Ec). now rewrite Ep.
Qed.

Lemma body_multichar0 : body G_xml nt_multichar0 = Chars0 is_char.
Proof. reflexivity. Qed.

Lemma isChar_class c : eval is_char c = W.isChar c.
Proof. apply is_char_equiv. Qed.

(** the generated [TakeUntil (NT multichar0) pat] computes [tu_rest] *)
Lemma den_tu_multichar f pat s :
  rest_of (denote G_xml (S f) (TakeUntil (NT nt_multichar0) pat) s) = Some (tu_rest W.isChar pat s).
Proof.
  rewrite den_TakeUntil, den_NT, body_multichar0, den_Chars0.
  rewrite (span_ext _ W.isChar s isChar_class). unfold tu_rest.
  destruct (span W.isChar s) as [v b] eqn:E. cbn [bind fst snd].
  destruct (span_spec _ _ _ _ E) as (-> & _ & _). rewrite consumed_app.
  destruct (find_sub pat v); reflexivity.
Qed.

(** ** [18] CDSect *)
Lemma body_cdsect : body G_xml nt_cdsect =
  Map L_model_CData_from (SeqR (Tag [60;33;91;67;68;65;84;65;91]%N)
    (SeqL (TakeUntil (NT nt_multichar0) [93;93;62]%N) (Tag [93;93;62]%N))).
Proof. reflexivity. Qed.

Lemma rest_of_seql_tag f e pat s r :
  rest_of (denote G_xml f e s) = Some r ->
  rest_of (denote G_xml f (SeqL e (Tag pat)) s) = prefix pat r.
Proof.
  intros H. rewrite den_SeqL. destruct (denote G_xml f e s) as [[t r']| |]; try discriminate.
  cbn [rest_of] in H. injection H as ->. cbn [bind fst snd]. rewrite den_Tag.
  destruct (prefix pat r); reflexivity.
Qed.

Theorem cdsect_language : forall s, rest_of (run G_xml R nt_cdsect s) = W.spec_cdsect s.
Proof.
  intros s. unfold run. destruct (fuel6 s) as [k ->]. rewrite den_NT, body_cdsect.
  rewrite den_Map, rest_of_map, den_SeqR, den_Tag. unfold W.spec_cdsect.
  change (W.strip W.s_cdata_open s) with (prefix [60;33;91;67;68;65;84;65;91]%N s).
  destruct (prefix [60;33;91;67;68;65;84;65;91]%N s) as [r|]; [|reflexivity].
  cbn [bind fst snd W.bind]. rewrite rest_of_bind_id.
  rewrite (rest_of_seql_tag _ _ _ _ _ (den_tu_multichar _ _ r)).
  rewrite <- (scan_to_tu [93;93;62]%N eq_refl) by discriminate.
  change W.s_cdata_close with [93;93;62]%N.
  destruct (W.scan_to [93;93;62]%N r) as [[a r']|]; reflexivity.
Qed.

(** ** [14] CharData *)
Definition cd_class (c : char) : bool := (W.isChar c && negb (N.eqb c 60) && negb (N.eqb c 38))%bool.

Lemma cd_class_eval c : eval (is_char_except [60;38]%N) c = cd_class c.
Proof.
  rewrite is_char_except_equiv. unfold cd_class, W.isChar. cbn [existsb].
  rewrite orb_false_r, negb_orb. now rewrite andb_assoc.
Qed.

Lemma body_char_data : body G_xml nt_char_data = TakeUntil (xc_char_except0 [60;38]%N) [93;93;62]%N.
Proof. reflexivity. Qed.

Lemma tu_rest_nil cls pat : pat <> [] -> tu_rest cls pat [] = [].
Proof. intros H. unfold tu_rest. cbn [span]. now rewrite (find_sub_nil pat H). Qed.

Lemma chardata_tu : forall s, tu_rest cd_class [93;93;62]%N s = W.spec_chardata s.
Proof.
  assert (Hc : forallb cd_class [93;93;62]%N = true) by reflexivity.
  assert (Hne : [93;93;62]%N <> []) by discriminate.
  induction s as [|c t IH].
  - now rewrite tu_rest_nil.
  - cbn [W.spec_chardata]. unfold W.starts.
    change (W.strip W.s_cdata_close (c :: t)) with (prefix [93;93;62]%N (c :: t)).
    change (W.isChar c && negb (N.eqb c W.c_lt) && negb (N.eqb c W.c_amp))%bool with (cd_class c).
    destruct (prefix [93;93;62]%N (c :: t)) as [r|] eqn:Ep.
    + rewrite (tu_rest_cons_hit cd_class _ Hc _ _ Ep). cbn [negb]. now rewrite andb_false_r.
    + cbn [negb]. rewrite andb_true_r. destruct (cd_class c) eqn:Ec.
      * rewrite (tu_rest_cons_go cd_class _ c t Ec Ep). exact IH.
      * now rewrite (tu_rest_cons_stop cd_class _ Hne c t Ec).
Qed.

(** char_data never fails; what it leaves is what [14] CharData leaves *)
Theorem char_data_language : forall s, rest_of (run G_xml R nt_char_data s) = Some (W.spec_chardata s).
Proof.
  intros s. unfold run. destruct (fuel6 s) as [k ->]. rewrite den_NT, body_char_data.
  rewrite den_TakeUntil. unfold xc_char_except0. rewrite den_Chars0.
  rewrite (span_ext _ cd_class s cd_class_eval). rewrite <- chardata_tu. unfold tu_rest.
  destruct (span cd_class s) as [v b] eqn:E. cbn [bind fst snd].
  destruct (span_spec _ _ _ _ E) as (-> & _ & _). rewrite consumed_app.
  destruct (find_sub [93;93;62]%N v); reflexivity.
Qed.

(** ** [15] Comment *)
Definition nd (c : char) : bool := (W.isChar c && negb (N.eqb c 45))%bool.   (* Char - '-' *)

Lemma nd_eval c : eval (is_char_except [45%N]) c = nd c.
Proof. rewrite is_char_except_equiv. unfold nd, W.isChar. cbn [existsb]. now rewrite orb_false_r. Qed.

(** where the loop  ( '-'? (Char - '-')+ )*  stops *)
Fixpoint cm_rest (s : str) : str :=
  match s with
  | [] => []
  | c :: t =>
    if N.eqb c 45 then
      match t with
      | c2 :: t2 => if nd c2 then cm_rest t2 else s
      | [] => s
      end
    else if nd c then cm_rest t else s
  end.

Lemma nd_not_dash c : nd c = true -> N.eqb c 45 = false.
Proof. unfold nd. intros H. apply andb_true_iff in H. destruct H as [_ H]. now apply negb_true_iff in H. Qed.

Lemma cm_rest_nd c t : nd c = true -> cm_rest (c :: t) = cm_rest t.
Proof. intros H. cbn [cm_rest]. now rewrite (nd_not_dash c H), H. Qed.

Lemma cm_rest_run a b : forallb nd a = true -> cm_rest (a ++ b) = cm_rest b.
Proof.
  induction a as [|c a IH]; cbn [forallb app]; [reflexivity|]. intros H.
  apply andb_true_iff in H. destruct H as [Hc Ha]. rewrite (cm_rest_nd c _ Hc). now apply IH.
Qed.


(** the specification's comment body against [cm_rest] *)
Lemma comment_body_cm : forall s, option_map snd (W.p_comment_body s) = prefix [45;45;62]%N (cm_rest s).
Proof.
  assert (H : forall n s, length s <= n -> option_map snd (W.p_comment_body s) = prefix [45;45;62]%N (cm_rest s)).
  { induction n as [|n IH]; intros [|c t] Hl; cbn [length] in Hl; try lia; try reflexivity.
    cbn [W.p_comment_body cm_rest]. unfold W.c_dash, W.c_gt.
    destruct (N.eqb_spec c 45) as [->|Hc].
    - destruct t as [|c2 t2]; [reflexivity|].
      destruct (N.eqb_spec c2 45) as [->|Hc2].
      + change (nd 45%N) with false. cbn [prefix]. rewrite !N.eqb_refl.
        destruct t2 as [|c3 r]; [reflexivity|]. cbn [prefix]. rewrite (N.eqb_sym 62 c3).
        destruct (N.eqb c3 62); reflexivity.
      + unfold nd. replace (N.eqb c2 45) with false by (symmetry; now apply N.eqb_neq).
        cbn [negb]. rewrite andb_true_r. destruct (W.isChar c2) eqn:E2.
        * cbn [length] in Hl. rewrite <- (IH t2) by lia.
          destruct (W.p_comment_body t2) as [[a r]|]; reflexivity.
        * cbn [prefix]. rewrite N.eqb_refl. replace (N.eqb 45 c2) with false by (symmetry; apply N.eqb_neq; congruence).
          reflexivity.
    - unfold nd. replace (N.eqb c 45) with false by (symmetry; now apply N.eqb_neq).
      cbn [negb]. rewrite andb_true_r. destruct (W.isChar c) eqn:E.
      + rewrite <- (IH t) by lia. destruct (W.p_comment_body t) as [[a r]|]; reflexivity.
      + cbn [prefix]. replace (N.eqb 45 c) with false by (symmetry; apply N.eqb_neq; congruence). reflexivity. }
  intros s. apply (H (length s)). lia.
Qed.

Definition cm_item : pexpr := Seq (Opt (Tag [45%N])) (xc_char_except1 [45%N]).

Lemma cm_item_step f s :
  (denote G_xml f cm_item s = Fail /\ cm_rest s = s) \/
  (exists t r, denote G_xml f cm_item s = Ok (t, r) /\ length r < length s /\ cm_rest r = cm_rest s).
Proof.
  unfold cm_item. rewrite den_Seq, den_Opt, den_Tag. unfold xc_char_except1.
  destruct s as [|c t].
  - left. cbn [prefix bind fst snd]. rewrite den_Chars1. cbn [span]. auto.
  - cbn [prefix]. rewrite (N.eqb_sym 45 c). cbn [cm_rest]. destruct (N.eqb c 45) eqn:Ec.
    + cbn [bind fst snd]. rewrite den_Chars1. rewrite (span_ext _ nd t nd_eval).
      destruct t as [|c2 t2]; [left; cbn [span]; auto|]. cbn [span]. destruct (nd c2) eqn:E2.
      * right. destruct (span nd t2) as [a b] eqn:E. cbn [bind fst snd].
        destruct (span_spec _ _ _ _ E) as (-> & Ha & _). do 2 eexists. split; [reflexivity|].
        split; [cbn [length]; rewrite app_length; lia|]. symmetry. now apply cm_rest_run.
      * left. auto.
    + cbn [bind fst snd]. rewrite den_Chars1. rewrite (span_ext _ nd (c :: t) nd_eval).
      cbn [span]. destruct (nd c) eqn:E1.
      * right. destruct (span nd t) as [a b] eqn:E. cbn [bind fst snd].
        destruct (span_spec _ _ _ _ E) as (-> & Ha & _). do 2 eexists. split; [reflexivity|].
        split; [cbn [length]; rewrite app_length; lia|]. symmetry. now apply cm_rest_run.
      * left. auto.
Qed.

Lemma cm_loop f : forall n s, length s <= n -> forall k acc, n < k ->
  exists l, many_loop k (denote G_xml f cm_item) s acc = Ok (TList l, cm_rest s).
Proof.
  induction n as [|n IH]; intros s Hl k acc Hk; (destruct k as [|k]; [lia|]); cbn [many_loop].
  - destruct s; [|cbn in Hl; lia]. destruct (cm_item_step f []) as [[-> _]|(t & r & _ & Hr & _)]; [eauto|cbn in Hr; lia].
  - destruct (cm_item_step f s) as [[-> Hs]|(t & r & -> & Hr & Hc)].
    + rewrite Hs. eauto.
    + destruct (Nat.ltb_spec (length r) (length s)); [|lia].
      rewrite <- Hc. apply IH; lia.
Qed.

Lemma body_comment : body G_xml nt_comment =
  Map L_model_Comment_from (SeqR (Tag [60;33;45;45]%N) (SeqL (Recognize (Many0 cm_item)) (Tag [45;45;62]%N))).
Proof. reflexivity. Qed.

Theorem comment_language : forall s, rest_of (run G_xml R nt_comment s) = W.spec_comment s.
Proof.
  intros s. unfold run. destruct (fuel6 s) as [k ->]. rewrite den_NT, body_comment.
  rewrite den_Map, rest_of_map, den_SeqR, den_Tag. unfold W.spec_comment.
  change (W.strip W.s_comment_open s) with (prefix [60;33;45;45]%N s).
  destruct (prefix [60;33;45;45]%N s) as [r|]; [|reflexivity].
  cbn [bind fst snd W.bind]. rewrite rest_of_bind_id.
  assert (Hr : rest_of (denote G_xml (S (S (S (S (S k))))) (Recognize (Many0 cm_item)) r) = Some (cm_rest r)).
  { rewrite den_Recognize, den_Many0.
    destruct (cm_loop (S (S (S (S (S k))))) (length r) r (le_n _) (S (length r)) [] (Nat.lt_succ_diag_r _)) as [l ->].
    reflexivity. }
  rewrite (rest_of_seql_tag _ _ _ _ _ Hr). rewrite <- comment_body_cm.
  destruct (W.p_comment_body r) as [[a r']|]; reflexivity.
Qed.
(** ** [5] Name as read by the specification against the grammar's name (a run of NameChars):
    they differ exactly on the strings of finding D04 *)
Lemma p_Name_run s :
  W.p_Name s = if KnownD04 (fst (span NC s)) then None else Some (span NC s).
Proof.
  unfold W.p_Name. destruct s as [|c t]; [reflexivity|]. change (eval spec_NameStartChar c) with (NSC c).
  change (W.span (eval spec_NameChar) t) with (span NC t). cbn [span].
  destruct (NC c) eqn:Ec.
  - destruct (span NC t) as [a b]. cbn [fst KnownD04]. rewrite Ec. cbn [andb].
    destruct (NSC c); reflexivity.
  - cbn [fst KnownD04]. destruct (NSC c) eqn:En; [|reflexivity].
    rewrite (NSC_NC _ En) in Ec. discriminate.
Qed.

(** ** [16] PI, [17] PITarget *)
Lemma body_pi : body G_xml nt_pi =
  Map L_model_PI_from (SeqR (Tag [60;63]%N)
    (SeqL (Seq (NT nt_pi_target) (Opt (SeqR (Chars1 ws) (TakeUntil (NT nt_multichar0) [63;62]%N)))) (Tag [63;62]%N))).
Proof. reflexivity. Qed.

(** what the generated parser does on the text after "<?" *)
Definition pi_rest (r0 : str) : option str :=
  let (tg, d) := span NC r0 in
  if is_xml_ci tg then None
  else match span W.isS d with
       | ([], _) => prefix [63;62]%N d
       | (_, d') => prefix [63;62]%N (tu_rest W.isChar [63;62]%N d')
       end.

Lemma den_pi_target f s :
  denote G_xml (S (S (S f))) (NT nt_pi_target) s =
  (let (c, d) := span NC s in if is_xml_ci c then Fail else Ok (TStr c, d)).
Proof.
  rewrite den_NT, body_pi_target. rewrite denote_eq. cbn [den1]. rewrite den_name.
  unfold name_spec. destruct (span NC s) as [c d] eqn:E. cbn [bind fst snd].
  destruct (span_spec _ _ _ _ E) as (-> & _ & _). rewrite consumed_app, ci_reject_xml. reflexivity.
Qed.

Theorem pi_language_exact : forall s,
  rest_of (run G_xml R nt_pi s) = match prefix [60;63]%N s with Some r0 => pi_rest r0 | None => None end.
Proof.
  intros s. unfold run. destruct (fuel6 s) as [k ->]. rewrite den_NT, body_pi.
  rewrite den_Map, rest_of_map, den_SeqR, den_Tag.
  destruct (prefix [60;63]%N s) as [r0|]; [|reflexivity].
  cbn [bind fst snd]. rewrite rest_of_bind_id. unfold pi_rest.
  rewrite den_SeqL, den_Seq, den_pi_target.
  destruct (span NC r0) as [tg d]. destruct (is_xml_ci tg); [reflexivity|].
  cbn [bind fst snd]. rewrite den_Opt, den_SeqR, den_Chars1.
  change (eval ws) with W.isS.
  destruct (span W.isS d) as [[|x a] d'] eqn:Es.
  - cbn [bind fst snd]. rewrite den_Tag. destruct (prefix [63;62]%N d); reflexivity.
  - cbn [bind fst snd].
    pose proof (den_tu_multichar (S (S (S (S k)))) [63;62]%N d') as Ht.
    destruct (denote G_xml (S (S (S (S (S k))))) (TakeUntil (NT nt_multichar0) [63;62]%N) d') as [[t r]| |]; try discriminate.
    cbn [rest_of] in Ht. injection Ht as ->. cbn [bind fst snd]. rewrite den_Tag.
    destruct (prefix [63;62]%N (tu_rest W.isChar [63;62]%N d')); reflexivity.
Qed.

(** the specification, in the same terms, for a target that is not a D04 name *)
Lemma spec_pi_rest r0 : KnownD04 (fst (span NC r0)) = false ->
  option_map (fun x => snd x) (W.p_pi_body r0) = pi_rest r0.
Proof.
  intros Hk. unfold W.p_pi_body, pi_rest. rewrite p_Name_run, Hk.
  destruct (span NC r0) as [tg d]. cbn [W.bind]. destruct (is_xml_ci tg); [reflexivity|].
  change (W.strip W.s_pi_close d) with (prefix [63;62]%N d).
  unfold W.p_S. change (W.span W.isS d) with (span W.isS d).
  destruct (prefix [63;62]%N d) as [r'|] eqn:Ep.
  - (* "?>" directly: no white space in front *)
    destruct d as [|c d0]; [discriminate|]. cbn [prefix] in Ep.
    destruct (N.eqb_spec 63 c) as [<-|]; [|discriminate].
    cbn [span]. change (W.isS 63%N) with false. reflexivity.
  - destruct (span W.isS d) as [[|x a] d'] eqn:Es.
    + reflexivity.
    + cbn [W.bind]. rewrite <- (scan_to_tu [63;62]%N eq_refl) by discriminate.
      change W.s_pi_close with [63;62]%N.
      destruct (W.scan_to [63;62]%N d') as [[b r]|]; reflexivity.
Qed.

Theorem pi_language_except_D04 : forall s r0, prefix [60;63]%N s = Some r0 ->
  KnownD04 (fst (span NC r0)) = false ->
  rest_of (run G_xml R nt_pi s) = W.spec_pi s.
Proof.
  intros s r0 Hp Hk. rewrite pi_language_exact, Hp. unfold W.spec_pi.
  change (W.strip W.s_pi_open s) with (prefix [60;63]%N s). rewrite Hp. cbn [W.bind].
  rewrite <- (spec_pi_rest r0 Hk). destruct (W.p_pi_body r0) as [[[t dd] r]|]; reflexivity.
Qed.

(** every PI of the specification is a PI of the parser, with the same rest (direction of C01) *)
Theorem pi_complete : forall s r, W.spec_pi s = Some r -> rest_of (run G_xml R nt_pi s) = Some r.
Proof.
  intros s r H. unfold W.spec_pi in H. change (W.strip W.s_pi_open s) with (prefix [60;63]%N s) in H.
  destruct (prefix [60;63]%N s) as [r0|] eqn:Hp; [|discriminate]. cbn [W.bind] in H.
  assert (Hk : KnownD04 (fst (span NC r0)) = false).
  { unfold W.p_pi_body in H. rewrite p_Name_run in H.
    destruct (KnownD04 (fst (span NC r0))); [discriminate|reflexivity]. }
  rewrite (pi_language_except_D04 s r0 Hp Hk). unfold W.spec_pi.
  change (W.strip W.s_pi_open s) with (prefix [60;63]%N s). rewrite Hp. exact H.
Qed.

(** the parser accepts PIs that [16]/[17] do not allow: finding D04 *)
Theorem pi_language_refuted : exists s r, rest_of (run G_xml R nt_pi s) = Some r /\ W.spec_pi s = None.
Proof. exists [60;63;49;63;62]%N, []. split; vm_compute; reflexivity. Qed.
(** ** [68] EntityRef, [67] Reference *)
Lemma body_entity_ref : body G_xml nt_entity_ref =
  Map L_model_Reference_entity (SeqR (Tag [38%N]) (SeqL (NT nt_name) (Tag [59%N]))).
Proof. reflexivity. Qed.
Lemma body_reference : body G_xml nt_reference = Alt (NT nt_entity_ref) (NT nt_char_ref).
Proof. reflexivity. Qed.

Definition ent_rest (s : str) : option str :=
  match s with
  | c :: t => if N.eqb c 38 then let (nm, d) := span NC t in prefix [59%N] d else None
  | [] => None
  end.

Lemma den_entity_ref f s :
  (denote G_xml (S (S (S (S f)))) (NT nt_entity_ref) s = Fail /\ ent_rest s = None) \/
  (exists t r, denote G_xml (S (S (S (S f)))) (NT nt_entity_ref) s = Ok (t, r) /\ ent_rest s = Some r).
Proof.
  rewrite den_NT, body_entity_ref, den_Map, den_SeqR, den_Tag.
  destruct s as [|c t]; [left; split; reflexivity|]. cbn [prefix]. rewrite (N.eqb_sym 38 c).
  unfold ent_rest. destruct (N.eqb c 38); [|left; split; reflexivity]. cbn [bind fst snd].
  rewrite den_SeqL, den_name. unfold name_spec. destruct (span NC t) as [nm d]. cbn [bind fst snd].
  rewrite den_Tag. destruct (prefix [59%N] d) as [r|]; cbn [bind fst snd];
    [right; do 2 eexists; split; reflexivity|left; split; reflexivity].
Qed.

(** the name position of a reference is a D04 name (and the reference is not a character reference) *)
Definition ref_D04 (s : str) : bool :=
  match s with
  | c :: t => if N.eqb c 38 then
                match t with
                | x :: _ => if N.eqb x 35 then false else KnownD04 (fst (span NC t))
                | [] => true
                end
              else false
  | [] => false
  end.

Lemma hash_not_NC : NC 35%N = false.
Proof. reflexivity. Qed.

Lemma charref_rest_amp_hash s : charref_rest s <> None -> exists u, s = (38 :: 35 :: u)%N.
Proof.
  unfold charref_rest. destruct s as [|c1 [|c2 u]]; try (intros H; now elim H).
  destruct (N.eqb_spec c1 38) as [->|]; [|intros H; now elim H].
  destruct (N.eqb_spec c2 35) as [->|]; [|intros H; now elim H]. eauto.
Qed.

Ltac ent_cases k He :=
  match goal with
  | |- context [denote G_xml _ (NT nt_entity_ref) ?s] =>
    destruct (den_entity_ref (S k) s) as [[-> He]|(? & ? & -> & He)]
  end.

Theorem reference_language_except_D04 : forall s, ref_D04 s = false ->
  rest_of (run G_xml R nt_reference s) = W.spec_reference s.
Proof.
  intros s Hd. unfold run. destruct (fuel6 s) as [k ->]. rewrite den_NT, body_reference, den_Alt.
  pose proof (den_char_ref (S (S (S (S k)))) s) as Hc.
  destruct s as [|c t]; [ent_cases k He; [exact Hc|discriminate]|].
  unfold W.spec_reference. unfold ref_D04 in Hd. unfold W.c_amp.
  destruct (N.eqb_spec c 38) as [->|Hne].
  - destruct t as [|x v]; [discriminate|].
    destruct (N.eqb_spec x 35) as [->|Hx].
    + (* character reference *)
      ent_cases k He.
      * rewrite Hc. symmetry. apply spec_reference_charref.
      * exfalso. cbn [ent_rest span] in He. rewrite N.eqb_refl in He. rewrite hash_not_NC in He. cbn [prefix] in He.
        change (N.eqb 59 35) with false in He. discriminate.
    + (* entity reference *)
      unfold W.p_ref. unfold W.c_hash. replace (N.eqb x 35) with false by (symmetry; now apply N.eqb_neq).
      rewrite p_Name_run, Hd. cbn [W.bind].
      ent_cases k He; unfold ent_rest in He; rewrite N.eqb_refl in He; destruct (span NC (x :: v)) as [nm d].
      * rewrite Hc. unfold charref_rest. rewrite N.eqb_refl. replace (N.eqb x 35) with false by (symmetry; now apply N.eqb_neq).
        cbn [andb]. destruct d as [|y r]; [reflexivity|]. cbn [prefix] in He. unfold W.c_semi. rewrite (N.eqb_sym y 59).
        destruct (N.eqb 59 y); [discriminate|reflexivity].
      * cbn [rest_of]. destruct d as [|y r']; [discriminate|]. cbn [prefix] in He. unfold W.c_semi. rewrite (N.eqb_sym y 59).
        destruct (N.eqb 59 y); [injection He as ->; reflexivity|discriminate].
  - replace (N.eqb c 38) with false by (symmetry; now apply N.eqb_neq).
    ent_cases k He.
    + rewrite Hc. unfold charref_rest. destruct t; [reflexivity|].
      replace (N.eqb c 38) with false by (symmetry; now apply N.eqb_neq). reflexivity.
    + cbn [ent_rest] in He. replace (N.eqb c 38) with false in He by (symmetry; now apply N.eqb_neq). discriminate.
Qed.

Theorem reference_language_refuted : exists s r, rest_of (run G_xml R nt_reference s) = Some r /\ W.spec_reference s = None /\ ref_D04 s = true.
Proof. exists [38;59]%N, []. repeat split; vm_compute; reflexivity. Qed.
(** ** loop-free, call-free expressions never run out of fuel *)
Fixpoint simple (e : pexpr) : bool :=
  match e with
  | Tag _ | Chars0 _ | Chars1 _ => true
  | Seq a b | SeqL a b | SeqR a b | Alt a b => simple a && simple b
  | Opt e | Recognize e | Map _ e | TakeUntil e _ | TakeExcept e _ => simple e
  | _ => false
  end.

Lemma simple_no_oof e : simple e = true -> forall f s, denote G_xml f e s <> Oof.
Proof.
  induction e as [a|p|p|a IHa b IHb|a IHa b IHb|a IHa b IHb|a IHa b IHb|e IHe|e IHe|e IHe|sp IHs e IHe|sp IHs e IHe
                 |e IHe|l e IHe|e IHe pat|e IHe pat|p1 p2 e IHe|n];
    cbn [simple]; intros Hs f s; try discriminate; rewrite denote_eq; cbn [den1];
    try (apply andb_true_iff in Hs; destruct Hs as [Ha Hb]).
  - destruct (prefix a s); discriminate.
  - destruct (span (eval p) s); discriminate.
  - destruct (span (eval p) s) as [[|? ?] ?]; discriminate.
  - specialize (IHa Ha f s). destruct (denote G_xml f a s) as [[t r]| |]; cbn [bind]; try discriminate; [|congruence].
    specialize (IHb Hb f r). cbn [snd]. destruct (denote G_xml f b r) as [[t' r']| |]; cbn [bind]; try discriminate; congruence.
  - specialize (IHa Ha f s). destruct (denote G_xml f a s) as [[t r]| |]; cbn [bind]; try discriminate; [|congruence].
    specialize (IHb Hb f r). cbn [snd]. destruct (denote G_xml f b r) as [[t' r']| |]; cbn [bind]; try discriminate; congruence.
  - specialize (IHa Ha f s). destruct (denote G_xml f a s) as [[t r]| |]; cbn [bind]; try discriminate; [|congruence].
    specialize (IHb Hb f r). cbn [snd]. destruct (denote G_xml f b r) as [[t' r']| |]; cbn [bind]; try discriminate; congruence.
  - specialize (IHa Ha f s). specialize (IHb Hb f s). destruct (denote G_xml f a s) as [[t r]| |]; try discriminate; congruence.
  - specialize (IHe Hs f s). destruct (denote G_xml f e s) as [[t r]| |]; try discriminate; congruence.
  - specialize (IHe Hs f s). destruct (denote G_xml f e s) as [[t r]| |]; cbn [bind]; try discriminate; congruence.
  - specialize (IHe Hs f s). destruct (denote G_xml f e s) as [[t r]| |]; cbn [bind]; try discriminate; congruence.
  - specialize (IHe Hs f s). destruct (denote G_xml f e s) as [[t r]| |]; cbn [bind]; try discriminate; [|congruence].
    destruct (find_sub pat (consumed s (snd (t, r)))); discriminate.
  - specialize (IHe Hs f s). destruct (denote G_xml f e s) as [[t r]| |]; cbn [bind]; try discriminate; [|congruence].
    destruct (ci_reject pat (consumed s (snd (t, r)))); discriminate.
Qed.

Lemma res_cases (x : res (tree * str)) : x <> Oof ->
  (x = Fail /\ rest_of x = None) \/ (exists t r, x = Ok (t, r) /\ rest_of x = Some r).
Proof. destruct x as [[t r]| |]; intros H; [right; eauto|left; auto|now elim H]. Qed.

Lemma den_char_ref_cases f s :
  (denote G_xml (S f) (NT nt_char_ref) s = Fail /\ charref_rest s = None) \/
  (exists t r, denote G_xml (S f) (NT nt_char_ref) s = Ok (t, r) /\ charref_rest s = Some r).
Proof.
  rewrite <- den_char_ref with (f := f). apply res_cases.
  rewrite den_NT, body_char_ref. apply simple_no_oof. reflexivity.
Qed.

(** [67] Reference, exactly *)
Definition ref_rest (s : str) : option str :=
  match ent_rest s with Some r => Some r | None => charref_rest s end.

Lemma den_reference_cases f s :
  (denote G_xml (S (S (S (S (S f))))) (NT nt_reference) s = Fail /\ ref_rest s = None) \/
  (exists t r, denote G_xml (S (S (S (S (S f))))) (NT nt_reference) s = Ok (t, r) /\ ref_rest s = Some r).
Proof.
  rewrite den_NT, body_reference, den_Alt. unfold ref_rest.
  destruct (den_entity_ref f s) as [[-> ->]|(t & r & -> & ->)]; [|right; eauto].
  apply den_char_ref_cases.
Qed.

(** ** [10] AttValue *)
Definition av_cls (q c : char) : bool :=
  (W.isChar c && negb (N.eqb c 60) && negb (N.eqb c 38) && negb (N.eqb c q))%bool.

Lemma av_cls_eval q c : eval (is_char_except [60;38;q]%N) c = av_cls q c.
Proof.
  rewrite is_char_except_equiv. unfold av_cls, W.isChar. cbn [existsb].
  rewrite orb_false_r, !negb_orb. now rewrite !andb_assoc.
Qed.

Definition av_item (q : char) : pexpr :=
  Alt (Map L_model_AttributeValue_from (xc_char_except1 [60;38;q]%N)) (Map L_model_AttributeValue_from (NT nt_reference)).

Lemma body_att_value : body G_xml nt_att_value =
  Alt (SeqR (Tag [34%N]) (SeqL (Many0 (av_item 34%N)) (Tag [34%N])))
      (SeqR (Tag [39%N]) (SeqL (Many0 (av_item 39%N)) (Tag [39%N]))).
Proof. reflexivity. Qed.

Lemma av_item_run f q c t : av_cls q c = true ->
  exists tr, denote G_xml f (av_item q) (c :: t) = Ok (tr, snd (span (av_cls q) (c :: t))).
Proof.
  intros Hc. unfold av_item. rewrite den_Alt, den_Map. unfold xc_char_except1. rewrite den_Chars1.
  rewrite (span_ext _ (av_cls q) _ (av_cls_eval q)). cbn [span]. rewrite Hc.
  destruct (span (av_cls q) t) as [a b]. cbn [bind fst snd]. eauto.
Qed.

Lemma av_item_ref f q s : match s with c :: _ => av_cls q c = false | [] => True end ->
  (denote G_xml (S (S (S (S (S f))))) (av_item q) s = Fail /\ ref_rest s = None) \/
  (exists tr r, denote G_xml (S (S (S (S (S f))))) (av_item q) s = Ok (tr, r) /\ ref_rest s = Some r).
Proof.
  intros Hc. unfold av_item. rewrite den_Alt, den_Map. unfold xc_char_except1. rewrite den_Chars1.
  rewrite (span_ext _ (av_cls q) _ (av_cls_eval q)).
  assert (Hs : fst (span (av_cls q) s) = []).
  { destruct s as [|c t]; [reflexivity|]. cbn [span]. now rewrite Hc. }
  destruct (span (av_cls q) s) as [a b]. cbn [fst] in Hs. subst a. cbn [bind].
  rewrite den_Map. destruct (den_reference_cases f s) as [[-> ->]|(t & r & -> & ->)]; [left; auto|right; cbn [bind fst snd]; eauto].
Qed.

Lemma ref_rest_shape s r : ref_rest s = Some r -> (exists t, s = 38%N :: t) /\ length r < length s.
Proof.
  unfold ref_rest, ent_rest, charref_rest. destruct s as [|c t]; [discriminate|].
  destruct (N.eqb_spec c 38) as [->|Hc].
  - intros H. split; [eauto|]. destruct (span NC t) as [nm d] eqn:E.
    destruct (span_spec _ _ _ _ E) as (-> & _ & _).
    destruct (prefix [59%N] d) as [r'|] eqn:Ep.
    + injection H as ->. apply prefix_spec in Ep. subst d. cbn [length]. rewrite app_length. cbn [length app]. lia.
    + destruct (nm ++ d) as [|c2 u] eqn:Eu; [discriminate|]. cbn [andb] in H.
      destruct (N.eqb c2 35); [|discriminate]. cbn [andb] in H.
      assert (Hd : forall f v r0, digits_semi f v = Some r0 -> length r0 < length v).
      { intros f v r0. unfold digits_semi. destruct (span f v) as [[|x ds] [|y r1]] eqn:Es; try discriminate.
        destruct (N.eqb y 59); [|discriminate]. intros H0; injection H0 as ->.
        destruct (span_spec _ _ _ _ Es) as (-> & _ & _). cbn [length]. rewrite app_length. cbn [length]. lia. }
      destruct u as [|x v]; [discriminate|]. destruct (N.eqb x 120).
      * apply Hd in H. cbn [length] in *. lia.
      * apply Hd in H. cbn [length] in *. lia.
  - destruct t as [|c2 u]; [discriminate|]. replace (N.eqb c 38) with false by (symmetry; now apply N.eqb_neq). discriminate.
Qed.

Lemma ref_rest_spec s : ref_D04 s = false -> ref_rest s = W.spec_reference s.
Proof.
  intros Hd. rewrite <- (reference_language_except_D04 s Hd). unfold run. destruct (fuel6 s) as [k ->].
  destruct (den_reference_cases (S k) s) as [[-> ->]|(t & r & -> & ->)]; reflexivity.
Qed.

(** every reference of the remaining input is well-named: the side condition under which the parser's
    AttValue and [10] agree *)
Fixpoint no_D04 (s : str) : bool :=
  match s with [] => true | _ :: t => negb (ref_D04 s) && no_D04 t end.

Lemma no_D04_suffix a b : no_D04 (a ++ b) = true -> no_D04 b = true.
Proof.
  induction a as [|c a IH]; cbn [app]; [auto|]. cbn [no_D04]. intros H.
  apply andb_true_iff in H. destruct H as [_ H]. now apply IH.
Qed.

Lemma suffix_of_shorter (s r : str) : (exists a, s = a ++ r) -> no_D04 s = true -> no_D04 r = true.
Proof. intros [a ->]. apply no_D04_suffix. Qed.

(** the rest of a reference is a suffix of the input *)
Lemma ref_rest_suffix s r : ref_rest s = Some r -> exists a, s = a ++ r.
Proof.
  unfold ref_rest, ent_rest, charref_rest. destruct s as [|c t]; [discriminate|].
  assert (Hd : forall f v r0, digits_semi f v = Some r0 -> exists a, v = a ++ r0).
  { intros f v r0. unfold digits_semi. destruct (span f v) as [[|x ds] [|y r1]] eqn:Es; try discriminate.
    destruct (N.eqb y 59); [|discriminate]. intros H0; injection H0 as ->.
    destruct (span_spec _ _ _ _ Es) as (-> & _ & _). exists ((x :: ds) ++ [y]). now rewrite <- app_assoc. }
  destruct (N.eqb c 38).
  - destruct (span NC t) as [nm d] eqn:E. destruct (span_spec _ _ _ _ E) as (Et & _ & _).
    destruct (prefix [59%N] d) as [r'|] eqn:Ep.
    + intros H; injection H as ->. apply prefix_spec in Ep. subst d t. exists (c :: nm ++ [59%N]).
      cbn [app]. now rewrite <- app_assoc.
    + destruct t as [|c2 u]; [discriminate|]. destruct (N.eqb c2 35); cbn [andb]; [|discriminate].
      destruct u as [|x v]; [discriminate|]. destruct (N.eqb x 120); intros H; apply Hd in H; destruct H as [a Ha].
      * exists (c :: c2 :: x :: a). cbn [app]. now rewrite Ha.
      * exists (c :: c2 :: a). cbn [app]. now rewrite Ha.
  - destruct t as [|c2 u]; discriminate.
Qed.

Lemma spec_reference_amp t : W.spec_reference (38%N :: t) = option_map snd (W.p_ref t).
Proof. unfold W.spec_reference. change (N.eqb 38 W.c_amp) with true. destruct (W.p_ref t) as [[rf r]|]; reflexivity. Qed.

Lemma pieces_run q a : forallb (av_cls q) a = true -> forall b fuel, length a + length b < fuel ->
  option_map snd (W.p_pieces fuel (Some q) W.c_lt (a ++ b)) = option_map snd (W.p_pieces (fuel - length a) (Some q) W.c_lt b).
Proof.
  unfold W.c_lt. induction a as [|c a IH]; cbn [forallb app length]; intros Ha b fuel Hf.
  - now rewrite Nat.sub_0_r.
  - apply andb_true_iff in Ha. destruct Ha as [Hc Ha]. destruct fuel as [|fuel]; [lia|].
    cbn [W.p_pieces Nat.sub]. unfold av_cls in Hc. unfold W.c_amp.
    apply andb_true_iff in Hc. destruct Hc as [Hc H4]. apply andb_true_iff in Hc. destruct Hc as [Hc H3].
    apply andb_true_iff in Hc. destruct Hc as [H1 H2].
    apply negb_true_iff in H2, H3, H4. rewrite H2, H3, H4, H1.
    rewrite <- (IH Ha b fuel) by lia.
    destruct (W.p_pieces fuel (Some q) 60%N (a ++ b)) as [[ps rest]|]; reflexivity.
Qed.

Definition S5 (f : nat) : nat := S (S (S (S (S f)))).

Lemma av_loop f q : q = 34%N \/ q = 39%N -> forall n s, length s <= n -> no_D04 s = true ->
  forall k acc fuel, length s < k -> length s < fuel ->
  rest_of (bind (many_loop k (denote G_xml (S5 f) (av_item q)) s acc)
                (fun x => bind (denote G_xml (S5 f) (Tag [q]) (snd x)) (fun y => Ok (fst x, snd y))))
  = option_map snd (W.p_pieces fuel (Some q) W.c_lt s).
Proof.
  intros Hq. assert (Hq38 : N.eqb 38 q = false) by (destruct Hq; subst q; reflexivity).
  assert (Hq60 : N.eqb 60 q = false) by (destruct Hq; subst q; reflexivity).
  unfold S5, W.c_lt.
  induction n as [|n IH]; intros s Hl Hd k acc fuel Hk Hf;
    (destruct k as [|k]; [lia|]); (destruct fuel as [|fuel]; [lia|]); cbn [many_loop].
  - destruct s; [|cbn in Hl; lia].
    destruct (av_item_ref f q [] I) as [[E _]|(tr & r & _ & Hr)]; [|apply ref_rest_shape in Hr; destruct Hr as [[t Ht] _]; discriminate].
    rewrite E. cbn [bind fst snd]. rewrite den_Tag. reflexivity.
  - destruct s as [|c t].
    { destruct (av_item_ref f q [] I) as [[E _]|(tr & r & _ & Hr)]; [|apply ref_rest_shape in Hr; destruct Hr as [[t Ht] _]; discriminate].
      rewrite E. cbn [bind fst snd]. rewrite den_Tag. reflexivity. }
    destruct (av_cls q c) eqn:Ec.
    + (* a run of ordinary characters *)
      destruct (av_item_run (S (S (S (S (S f))))) q c t Ec) as [tr E]. rewrite E.
      destruct (span (av_cls q) (c :: t)) as [a b] eqn:Es. cbn [snd].
      destruct (span_spec _ _ _ _ Es) as (Eab & Ha & _).
      assert (Hne : a <> []) by (cbn [span] in Es; rewrite Ec in Es; destruct (span (av_cls q) t); injection Es as <- _; discriminate).
      assert (Hlen : length b < length (c :: t)) by (rewrite Eab, app_length; destruct a; [now elim Hne|cbn [length]; lia]).
      destruct (Nat.ltb_spec (length b) (length (c :: t))); [|lia].
      pose proof Hd as Hdb. rewrite Eab in Hdb. apply no_D04_suffix in Hdb.
      assert (Hlb : length b <= n) by (cbn [length] in Hl, Hlen; lia).
      assert (Hla : length a + length b = length (c :: t)) by (now rewrite Eab, app_length).
      rewrite (IH b Hlb Hdb k (tr :: acc) (S fuel - length a)) by lia.
      rewrite Eab. symmetry. apply (pieces_run q a Ha b (S fuel)). lia.
    + pose proof (av_item_ref f q (c :: t) Ec) as Hitem.
      destruct (N.eqb_spec c 38) as [->|Hc38].
      * (* a reference *)
        assert (Hd0 : ref_D04 (38%N :: t) = false).
        { cbn [no_D04] in Hd. apply andb_true_iff in Hd. destruct Hd as [Hd _]. now apply negb_true_iff in Hd. }
        pose proof (ref_rest_spec _ Hd0) as Hrs. rewrite spec_reference_amp in Hrs.
        cbn [W.p_pieces]. unfold W.c_amp. rewrite Hq38. change (N.eqb 38 60) with false. rewrite N.eqb_refl.
        destruct Hitem as [[E Hr]|(tr & r & E & Hr)]; rewrite E.
        -- pose proof (eq_trans (eq_sym Hrs) Hr) as Hp. clear Hrs. destruct (W.p_ref t) as [[rf t']|]; [discriminate|].
           cbn [bind fst snd W.bind]. rewrite den_Tag. cbn [prefix]. rewrite (N.eqb_sym q 38), Hq38. reflexivity.
        -- pose proof (eq_trans (eq_sym Hrs) Hr) as Hp. clear Hrs. destruct (W.p_ref t) as [[rf t']|]; [|discriminate]. cbn [option_map snd] in Hp.
           injection Hp as ->. cbn [W.bind].
           destruct (ref_rest_shape _ _ Hr) as [_ Hlen]. destruct (ref_rest_suffix _ _ Hr) as [pre Hpre].
           cbn [length] in Hlen |- *. destruct (Nat.ltb_spec (length r) (S (length t))); [|lia].
           pose proof Hd as Hdr. rewrite Hpre in Hdr. apply no_D04_suffix in Hdr.
           cbn [length] in Hl, Hlen, Hf, Hk.
           rewrite (IH r) with (fuel := fuel) by (try assumption; lia).
           destruct (W.p_pieces fuel (Some q) 60%N r) as [[ps rest]|]; reflexivity.
      * (* anything else ends the loop: the closing quote, or an error *)
        destruct Hitem as [[E _]|(tr & r & _ & Hr)];
          [|apply ref_rest_shape in Hr; destruct Hr as [[t0 Ht] _]; injection Ht as ->; now elim Hc38].
        rewrite E. cbn [bind fst snd W.p_pieces]. rewrite den_Tag. cbn [prefix]. rewrite (N.eqb_sym q c).
        unfold W.c_amp. destruct (N.eqb_spec c q) as [->|Hcq]; [reflexivity|].
        cbn [rest_of]. destruct (N.eqb_spec c 60) as [->|Hc60]; [reflexivity|].
        replace (N.eqb c 38) with false by (symmetry; now apply N.eqb_neq).
        unfold av_cls in Ec. replace (N.eqb c 60) with false in Ec by (symmetry; now apply N.eqb_neq).
        replace (N.eqb c 38) with false in Ec by (symmetry; now apply N.eqb_neq).
        replace (N.eqb c q) with false in Ec by (symmetry; now apply N.eqb_neq).
        cbn [negb] in Ec. rewrite !andb_true_r in Ec. rewrite Ec. reflexivity.
Qed.

Lemma av_quoted f q t : q = 34%N \/ q = 39%N -> no_D04 t = true ->
  rest_of (denote G_xml (S5 f) (SeqL (Many0 (av_item q)) (Tag [q])) t)
  = option_map snd (W.p_pieces (S (S (length t))) (Some q) W.c_lt t).
Proof.
  intros Hq Hd. rewrite den_SeqL, den_Many0.
  apply (av_loop f q Hq (length t) t (le_n _) Hd (S (length t)) [] (S (S (length t)))); lia.
Qed.

Theorem att_value_language_except_D04 : forall s, no_D04 s = true ->
  rest_of (run G_xml R nt_att_value s) = W.spec_attvalue s.
Proof.
  intros s Hd. unfold run. destruct (fuel6 s) as [k ->]. rewrite den_NT, body_att_value, den_Alt.
  rewrite !den_SeqR, !den_Tag. unfold W.spec_attvalue, W.p_AttValue.
  destruct s as [|c t]; [reflexivity|]. cbn [prefix length]. unfold W.isQuote, W.c_quot, W.c_apos.
  assert (Hdt : no_D04 t = true) by (cbn [no_D04] in Hd; apply andb_true_iff in Hd; tauto).
  rewrite (N.eqb_sym 34 c), (N.eqb_sym 39 c).
  destruct (N.eqb_spec c 34) as [->|H34].
  - cbn [bind fst snd orb]. change (N.eqb 34 39) with false. cbn [bind].
    pose proof (av_quoted k 34%N t (or_introl eq_refl) Hdt) as Hq. unfold S5 in Hq.
    match goal with |- _ = W.bind ?P' _ => match type of Hq with _ = option_map snd ?P => change P' with P end end.
    match type of Hq with _ = option_map snd ?P => destruct P as [[ps r']|] end;
      destruct (denote G_xml (S (S (S (S (S k))))) (SeqL (Many0 (av_item 34%N)) (Tag [34%N])) t) as [[tr r]| |];
      cbn [bind fst snd rest_of option_map W.bind] in *; congruence.
  - cbn [bind orb]. destruct (N.eqb_spec c 39) as [->|H39]; [|reflexivity].
    cbn [bind fst snd]. rewrite rest_of_bind_id.
    pose proof (av_quoted k 39%N t (or_intror eq_refl) Hdt) as Hq. unfold S5 in Hq.
    rewrite Hq. match goal with |- _ = W.bind ?P' _ => match type of Hq with _ = option_map snd ?P => change P' with P; destruct P as [[ps r']|] end end; reflexivity.
Qed.

Theorem att_value_language_refuted : exists s r,
  rest_of (run G_xml R nt_att_value s) = Some r /\ W.spec_attvalue s = None /\ no_D04 s = false.
Proof. exists [34;38;59;34]%N, []. repeat split; vm_compute; reflexivity. Qed.
