(* cli spec: `<doc dump> | <frag dump> | <kinds>` -> done:<dump> | refuse
   the oracle is replace_spec_strict (Spec/XeStrict.v): replace_spec, refusing also when the replacement cannot stand at SOME
   selected node wherever it lies (C17_strict_refines: it answers replace_spec's document whenever it answers) *)
let () = register_line "xe" (fun line ->
  match String.split_on_char '|' line with
  | [d; f; kinds] ->
    (try
       let (doc, sel) = doc_of (parse_sx (String.trim d)) in
       let frag = frag_of (parse_sx (String.trim f)) in
       if String.contains kinds 'o' then "refuse"
       else (match replace_spec_strict sel frag doc with
        | Some d' -> "done:" ^ show_doc d'
        | None -> "refuse")
     with Failure m -> "badinput:" ^ m)
  | _ -> "badinput")
