(** * C04, the converse direction: what the parser returns satisfies the printer's invariants.

    For every production P of [G_xml]:  [S (NT P) s t r -> exists x, eval_tree t = V x /\ ok_P x]
    where [S = succ G_xml] is the big-step success relation of Proofs/PegInv.v (every successful
    [denote]/[run] is such a derivation: [run_succ]).  The conclusions are exactly the hypotheses of
    the rungs of Proofs/DisplayLex.v / DisplayElem.v / DisplayDoc.v / DisplayDtd.v; they also show
    that the parse tree always has the shape the map functions expect (no [PBadTree]). *)
From Coq Require Import List NArith Arith Lia Bool.
From XmlRs Require Import Base.CPred Model.Peg Gen.XmlcharGen Gen.GrammarXmlGen Model.ParseActions
     Proofs.PegTermination Proofs.GrammarTermination Proofs.PegLemmas Proofs.PegInv Proofs.Expansion
     Proofs.DisplayLex Proofs.ActionLemmas.
Import ListNotations.
Local Open Scope N_scope.

Notation S := (succ G_xml).
Notation SM := (succ_many G_xml).

Lemma G_xml_nosep : forallb nosep G_xml = true.
Proof. vm_compute. reflexivity. Qed.

Lemma run_succ n s t r : run G_xml G_xml_R n s = Ok (t, r) -> S (NT n) s t r.
Proof. intros H. apply (denote_succ G_xml G_xml_nosep _ (NT n) eq_refl s t r H). Qed.

Ltac inv H := inversion H; subst; clear H.

(** one inversion step on a hypothesis about a composite expression *)
Ltac inv1 :=
  match goal with
  | H : succ _ (Seq _ _) _ _ _ |- _ => inv H
  | H : succ _ (SeqL _ _) _ _ _ |- _ => inv H
  | H : succ _ (SeqR _ _) _ _ _ |- _ => inv H
  | H : succ _ (Map _ _) _ _ _ |- _ => inv H
  | H : succ _ (Tag _) _ _ _ |- _ => inv H
  | H : succ _ (Chars0 _) _ _ _ |- _ => inv H
  | H : succ _ (Chars1 _) _ _ _ |- _ => inv H
  | H : succ _ (Recognize _) _ _ _ |- _ => inv H
  | H : succ _ (Opt _) _ _ _ |- _ => inv H
  | H : succ _ (TakeExcept _ _) _ _ _ |- _ => inv H
  | H : succ _ (VerifyEq _ _ _) _ _ _ |- _ => inv H
  | H : succ _ (Many0 _) _ _ _ |- _ => inv H
  end.
Ltac invs := repeat inv1.
Ltac inv_nt H lem := inv H; match goal with H' : succ _ (body _ _) _ _ _ |- _ => rewrite lem in H' end.
Ltac inv_alt := match goal with H : succ _ (Alt _ _) _ _ _ |- _ => inv H end.

(** ** Name, NCName, QName *)
Lemma inv_name s t r : S (NT nt_name) s t r -> exists n : str, t = TStr n /\ name_ok n /\ s = n ++ r /\ stops (eval is_name_char) r.
Proof.
  intros H. inv_nt H body_name. invs.
  match goal with H : succ _ (NT nt_multinamestartchar0) _ _ _ |- _ => inv_nt H body_mnsc0 end.
  match goal with H : succ _ (NT nt_multinamechar0) _ _ _ |- _ => inv_nt H body_mnc0 end. invs.
  match goal with H : ?c ++ ?r = _ ++ _ ++ ?r |- _ => rewrite app_assoc in H; apply app_inv_tail in H; subst c end.
  eexists. split; [reflexivity|]. split; [|split; [reflexivity|assumption]].
  unfold name_ok. rewrite forallb_app. apply andb_true_intro. split; [|assumption].
  match goal with H : forallb (eval is_name_start_char) ?a = true |- forallb _ ?a = true =>
    rewrite forallb_forall in *; intros x Hx; apply name_start_is_name; apply H; exact Hx end.
Qed.

Lemma inv_ncname s t r : S (NT nt_ncname) s t r -> exists n : str, t = TStr n /\ ncname_ok n /\ s = n ++ r.
Proof.
  intros H. inv_nt H body_ncname. invs.
  match goal with H : ?c ++ ?r = _ ++ _ ++ ?r |- _ => rewrite app_assoc in H; apply app_inv_tail in H; subst c end.
  eexists. split; [reflexivity|]. split; [|reflexivity].
  match goal with H : ?a <> [] |- ncname_ok (?a ++ ?b) => destruct a as [|c a']; [contradiction|] end.
  cbn [app ncname_ok]. match goal with H : forallb _ (c :: a') = true |- _ => cbn [forallb] in H; apply andb_prop in H; destruct H as [Hc Ha] end.
  split; [exact Hc|]. rewrite forallb_app. apply andb_true_intro. split; [|assumption].
  rewrite forallb_forall in *. intros x Hx. apply name_start_except_colon. apply Ha. exact Hx.
Qed.

Lemma inv_qname s t r : S (NT nt_qname) s t r -> exists q, t = tree_qname q /\ qname_ok q.
Proof.
  intros H. inv_nt H body_qname. inv_alt; invs.
  - match goal with H : succ _ (NT nt_prefixed_name) _ _ _ |- _ => inv_nt H body_prefixed_name end. invs.
    repeat match goal with H : succ _ (NT nt_ncname) _ _ _ |- _ => apply inv_ncname in H; destruct H as [? [-> [? ?]]] end.
    eexists (Prefixed _ _). split; [reflexivity|]. split; assumption.
  - match goal with H : succ _ (NT nt_ncname) _ _ _ |- _ => apply inv_ncname in H; destruct H as [? [-> [? ?]]] end.
    eexists (Unprefixed _). split; [reflexivity|assumption].
Qed.

(** ** references *)
Lemma inv_reference s t r : S (NT nt_reference) s t r -> exists x, eval_tree t = VReference x /\ reference_ok x.
Proof.
  intros H. inv_nt H body_reference. inv_alt.
  - match goal with H : succ _ (NT nt_entity_ref) _ _ _ |- _ => inv_nt H body_entity_ref end. invs.
    match goal with H : succ _ (NT nt_name) _ _ _ |- _ => apply inv_name in H; destruct H as [n [-> [Hn _]]] end.
    exists (RefEntity n). split; [reflexivity|exact Hn].
  - match goal with H : succ _ (NT nt_char_ref) _ _ _ |- _ => inv_nt H body_char_ref end. inv_alt; invs.
    + eexists (RefChar _ Dec). split; [reflexivity|]. split; assumption.
    + eexists (RefChar _ Hex). split; [reflexivity|]. split; assumption.
Qed.
