(* wfdoc (spec side): `<mode> <document>` -> verdict of Spec.XmlWF (XML 1.0 / XML 1.0 + Namespaces)
   `wf` | `notwf:<reason code>` | `unsupported`, as `x10=<v> ns=<v>` *)
let show_verdict v = match v with
  | WF -> "wf"
  | NotWF r -> "notwf:" ^ string_of_int (int_of_n (reason_code r))
  | Unsupported -> "unsupported"

let () = register "wfdoc" (fun words ->
  match words with
  | [_mode; doc] ->
    let s = dec doc in
    Printf.sprintf "x10=%s ns=%s" (show_verdict (verdict10 s)) (show_verdict (verdict_ns s))
  | _ -> "badinput")
