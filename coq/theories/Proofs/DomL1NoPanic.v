(** * C13: which calls of the model can panic

    [step] answers [Panicked] in exactly one situation: one of the three factories whose Rust
    signature has no [Result] ([create_text_node], [create_comment], [create_cdata_section]) is
    handed a string that the node cannot hold; the code unwraps the validation result (defect
    D42, kept as a finding: turning the panic into an error needs an API change). *)
From Coq Require Import List NArith Bool Lia.
From XmlRs Require Import Base.CPred Model.Store Model.DomOps.
Import ListNotations.
Open Scope N_scope.

(** the finding class D42, as a decidable predicate on the call *)
Definition Known42 (o : op) : bool :=
  match o with
  | CreateTextNode _ d => negb (valid_str KTx (d_str d))
  | CreateComment _ d => negb (valid_str KCm (d_str d))
  | CreateCDataSection _ d => negb (valid_str KCd (d_str d))
  | _ => false
  end.

Definition calm {A} (r : A * outcome) : Prop := snd r <> Panicked.

Lemma on_node_calm w r f : (forall s k, calm (f s k)) -> calm (on_node w r f).
Proof.
  intros H. unfold on_node, calm. destruct (doc_at w (fst r)) as [s|]; [|cbn; discriminate].
  destruct (kind_of s (snd r)) as [k|]; [|cbn; discriminate].
  specialize (H s k). destruct (f s k) as [s1 o]. exact H.
Qed.

Lemma on_element_calm w r f : (forall s, calm (f s)) -> calm (on_element w r f).
Proof. intros H. apply on_node_calm. intros s k. destruct k; try (cbn; discriminate). apply H. Qed.

Lemma on_document_calm w r f : (forall s, calm (f s)) -> calm (on_document w r f).
Proof. intros H. apply on_node_calm. intros s k. destruct k; try (cbn; discriminate). apply H. Qed.

Lemma factory_calm k s it : calm (factory k s it).
Proof. unfold factory, calm. destruct (create s it). cbn. discriminate. Qed.

Lemma dom_insert_before_calm w r n ref : calm (dom_insert_before w r n ref).
Proof.
  unfold dom_insert_before, calm. destruct (doc_at w (fst r)) as [s|]; [|cbn; discriminate].
  destruct (kind_in w r) as [k|]; [|cbn; discriminate].
  destruct (container k); [|cbn; discriminate].
  destruct (wrong_doc w r n); [cbn; discriminate|].
  destruct ref as [f|].
  - destruct (wrong_doc w r f); [cbn; discriminate|].
    destruct (info_insert_before s (snd r) (snd n) (snd f)) as [s1 [e|]]; [destruct e|]; cbn; discriminate.
  - destruct (info_append s (snd r) (snd n)) as [s1 [e|]]; cbn; discriminate.
Qed.

Lemma dom_remove_child_calm w r o : calm (dom_remove_child w r o).
Proof.
  unfold dom_remove_child, calm. destruct (doc_at w (fst r)) as [s|]; [|cbn; discriminate].
  destruct (kind_in w r) as [k|]; [|cbn; discriminate].
  destruct (container k); [|cbn; discriminate].
  destruct (wrong_doc w r o); [cbn; discriminate|].
  destruct (info_delete s (snd r) (snd o)) as [s1 [|]]; cbn; discriminate.
Qed.

Lemma dom_set_attribute_node_calm w k s e a : calm (dom_set_attribute_node w k s e a).
Proof.
  unfold dom_set_attribute_node, calm. destruct (negb (fst a =? k)); [cbn; discriminate|].
  destruct (parent_of s (snd a)); [cbn; discriminate|].
  destruct (get s (snd a)) as [ait|]; [|cbn; discriminate].
  destruct (kind_eqb (ikind ait) KAt && has_kind s KEl e); [|cbn; discriminate].
  destruct (remove_attribute_q s e (iprefix ait) (ilocal ait)). cbn. discriminate.
Qed.

Lemma edit_data_calm s n k off cnt x : calm (edit_data s n k off cnt x).
Proof.
  unfold edit_data, calm. destruct (len (data_of s n) <? off); [cbn; discriminate|].
  destruct (valid_str k _); cbn; discriminate.
Qed.

Lemma delete_data_calm s n off cnt : calm (delete_data s n off cnt).
Proof. unfold delete_data. destruct (kind_of s n); [apply edit_data_calm | unfold calm; cbn; discriminate]. Qed.

Lemma pi_set_calm s n d : calm (pi_set s n d).
Proof. unfold pi_set, calm. destruct (d_pi d) as [[c|]|]; cbn; discriminate. Qed.

Lemma split_text_calm k s n kd off : calm (split_text k s n kd off).
Proof.
  unfold split_text, calm. destruct (len (data_of s n) <? off); [cbn; discriminate|].
  destruct (parent_of s n) as [p|]; [|destruct kd; cbn; discriminate].
  destruct (kind_of s p) as [kp|]; [|destruct kd; cbn; discriminate].
  match goal with |- snd (if ?c then _ else _) <> _ => destruct c end; [|destruct kd; cbn; discriminate].
  destruct (create _ _) as [i s2].
  destruct (info_insert_after s2 p i n) as [s3 [e|]]; [|cbn; discriminate].
  destruct e; try (cbn; discriminate).
  destruct (info_append s3 p i) as [s4 [e4|]]; cbn; discriminate.
Qed.

Lemma set_values_result s a d o1 o2 :
  calm (match set_values s a d with (s1, true) => (s1, o1) | (s1, false) => (s1, o2) end) <->
  (snd (set_values s a d) = true -> o1 <> Panicked) /\ (snd (set_values s a d) = false -> o2 <> Panicked).
Proof.
  unfold calm. destruct (set_values s a d) as [s1 [|]]; cbn; split; intros H; try tauto;
    try (split; [intros _; exact H | intros E; discriminate]);
    try (split; [intros E; discriminate | intros _; exact H]).
Qed.

(** every call outside the finding class returns *)
Theorem step_no_panic_but_D42 : forall w o, Known42 o = false -> snd (step w o) <> Panicked.
Proof.
  intros w o K. change (calm (step w o)). destruct o; cbn [step]; cbn [Known42] in K.
  - destruct (kind_in w r) as [k|]; [|discriminate]. destruct (node_mut k); [|discriminate].
    destruct (exists_in w n); [apply dom_insert_before_calm | discriminate].
  - destruct (kind_in w r) as [k|]; [|discriminate]. destruct (node_mut k); [|discriminate].
    destruct (exists_in w n && exists_in w f); [apply dom_insert_before_calm | discriminate].
  - destruct (kind_in w r) as [k|]; [|discriminate]. destruct (node_mut k); [|discriminate].
    destruct (exists_in w n && exists_in w o); [|discriminate].
    pose proof (dom_insert_before_calm w r n (Some o)) as H.
    destruct (dom_insert_before w r n (Some o)) as [w1 oc]. destruct oc; try exact H.
    apply dom_remove_child_calm.
  - destruct (kind_in w r) as [k|]; [|discriminate]. destruct (node_mut k); [|discriminate].
    destruct (exists_in w o); [apply dom_remove_child_calm | discriminate].
  - (* SetAttribute *)
    apply on_element_calm. intros s. destruct (n_attr name) as [[p l]|]; [|unfold calm; cbn; discriminate].
    destruct (create s (new_item KAt p l [] false None)) as [a s1].
    destruct (attribute_q s1 (snd r) p l) as [present|].
    + unfold calm. destruct (set_values s1 present value) as [s2 [|]]; cbn; discriminate.
    + unfold calm. destruct (set_values s1 a value) as [s2 [|]]; [|cbn; discriminate].
      pose proof (dom_set_attribute_node_calm w (fst r) s2 (snd r) (fst r, a)) as H.
      destruct (dom_set_attribute_node w (fst r) s2 (snd r) (fst r, a)) as [s3 oc].
      destruct oc; try exact H. cbn. discriminate.
  - destruct (attr_local w a) as [nm|]; [|discriminate]. apply on_element_calm. intros s. apply dom_set_attribute_node_calm.
  - apply on_element_calm. intros s. unfold calm. cbn. discriminate.
  - destruct (attr_q w a) as [[p l]|]; [|discriminate]. apply on_element_calm. intros s. unfold calm.
    destruct (attribute_q s (snd r) p l) as [f|]; [|cbn; discriminate].
    destruct ((f =? snd a) && (fst a =? fst r)); cbn; discriminate.
  - destruct (attr_local w a) as [nm|]; [|discriminate]. apply on_element_calm. intros s. apply dom_set_attribute_node_calm.
  - apply on_element_calm. intros s. unfold calm.
    destruct (get_attribute_node s (snd r) name); cbn; discriminate.
  - apply on_document_calm. intros s. destruct (n_elem name) as [[p l]|]; [apply factory_calm | unfold calm; cbn; discriminate].
  - apply on_document_calm. intros s. destruct (n_attr name) as [[p l]|]; [apply factory_calm | unfold calm; cbn; discriminate].
  - apply on_document_calm. intros s. apply negb_false_iff in K. rewrite K. apply factory_calm.
  - apply on_document_calm. intros s. apply negb_false_iff in K. rewrite K. apply factory_calm.
  - apply on_document_calm. intros s. apply negb_false_iff in K. rewrite K. apply factory_calm.
  - apply on_document_calm. intros s. destruct (n_pi target) as [t|]; [|unfold calm; cbn; discriminate].
    destruct (d_pi data) as [[c|]|]; try apply factory_calm. unfold calm; cbn; discriminate.
  - apply on_document_calm. intros s. destruct (n_ref name); [|unfold calm; cbn; discriminate].
    destruct (entity_declared s (n_str name)); [apply factory_calm | unfold calm; cbn; discriminate].
  - apply on_document_calm. intros s. apply factory_calm.
  - (* SetNodeValue *)
    apply on_node_calm. intros s k. destruct k; try (unfold calm; cbn; discriminate).
    + unfold calm. destruct (set_values s (snd r) v) as [s1 [|]]; cbn; discriminate.
    + apply edit_data_calm.
    + apply edit_data_calm.
    + apply pi_set_calm.
    + apply edit_data_calm.
  - apply on_node_calm. intros s k. destruct (chardata k); [apply edit_data_calm | unfold calm; cbn; discriminate].
  - apply on_node_calm. intros s k. destruct (chardata k); [apply edit_data_calm | unfold calm; cbn; discriminate].
  - apply on_node_calm. intros s k. destruct (chardata k); [apply edit_data_calm | unfold calm; cbn; discriminate].
  - apply on_node_calm. intros s k. destruct (chardata k); [apply delete_data_calm | unfold calm; cbn; discriminate].
  - apply on_node_calm. intros s k. destruct (chardata k); [apply edit_data_calm | unfold calm; cbn; discriminate].
  - apply on_node_calm. intros s k. destruct k; try (unfold calm; cbn; discriminate); apply split_text_calm.
  - apply on_node_calm. intros s k. destruct k; try (unfold calm; cbn; discriminate). apply pi_set_calm.
  - discriminate.
Qed.

(** the full-strength statement is refuted by the faithful model: [create_comment("--")] *)
Definition w42 : world :=
  mkWorld [mkStore (fun i => if i =? 1 then Some (new_item KDoc None [] [] false None) else None) 2 [] 1 [] true].
Definition op42 : op := CreateComment (0, 1) (mkData [45; 45] false false false None None).

Theorem step_no_panic_refuted : exists w o, snd (step w o) = Panicked.
Proof. exists w42, op42. vm_compute. reflexivity. Qed.

Example known42_witness : Known42 op42 = true.
Proof. vm_compute. reflexivity. Qed.

(** the premise of the conditional theorem is satisfiable by a non-trivial call *)
Example known42_false_nontrivial :
  Known42 (CreateComment (0, 1) (mkData [97; 45; 98] false true false None None)) = false
  /\ exists n, snd (step w42 (CreateComment (0, 1) (mkData [97; 45; 98] false true false None None))) = Ok (RNode n).
Proof. split; [vm_compute; reflexivity | eexists; vm_compute; reflexivity]. Qed.

(** histories: a run never meets a panic unless one of its calls is in the class *)
Theorem run_no_panic : forall ops w, forallb (fun o => negb (Known42 o)) ops = true ->
  forall pre o post, ops = pre ++ o :: post -> snd (step (run w pre) o) <> Panicked.
Proof.
  intros ops w H pre o post E. subst ops. rewrite forallb_app in H. apply andb_true_iff in H.
  destruct H as [_ H]. cbn [forallb] in H. apply andb_true_iff in H. destruct H as [H _].
  apply step_no_panic_but_D42. apply negb_true_iff. exact H.
Qed.
