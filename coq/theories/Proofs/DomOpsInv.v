(** * Every editing function of the model preserves the tree invariant *)
From Coq Require Import List NArith Bool Lia.
From XmlRs Require Import Base.CPred Model.Store Model.DomOps Proofs.DomBase Proofs.DomTree Proofs.DomAnc.
Import ListNotations.
Open Scope N_scope.

Lemma with_attrs_same l it : with_attrs (iattrs it) (with_children l it) = with_children l it.
Proof. reflexivity. Qed.
Lemma with_children_same a it : with_attrs a (with_children (ichildren it) it) = with_attrs a it.
Proof. reflexivity. Qed.

Lemma invalidate_inv s : TreeInv s -> TreeInv (invalidate s).
Proof. intros T. apply (shape_inv s (invalidate s) T (shape_rel_refl s)); reflexivity. Qed.

Lemma anc_has_parent s c a : anc s c a -> exists q, par s q a /\ (q = c \/ anc s c q).
Proof.
  induction 1 as [c p H | c p a H _ [q [Hq Hc]]].
  - exists c. split; [exact H | left; reflexivity].
  - exists q. split; [exact Hq|]. right. destruct Hc as [->|Hc]; [apply anc1; exact H | eapply ancS; eassumption].
Qed.

(** ** delete_by_id / unlink *)
Lemma delete_by_id_spec s p x pit :
  TreeInv s -> get s p = Some pit -> In x (ichildren pit) ->
  TreeInv (delete_by_id s p x)
  /\ x <> p
  /\ get (delete_by_id s p x) p = Some (with_children (remove_first x (ichildren pit)) pit)
  /\ get (delete_by_id s p x) x = option_map (with_parent None) (get s x)
  /\ (forall y, y <> p -> y <> x -> get (delete_by_id s p x) y = get s y).
Proof.
  intros T Hp Hin.
  assert (Hne : x <> p).
  { intros ->. apply (not_self_listed s T p). exists pit. split; [exact Hp | left; exact Hin]. }
  unfold delete_by_id. unfold children_of. rewrite Hp.
  assert (M : mem x (ichildren pit) = true) by (apply mem_spec; exact Hin). rewrite M.
  assert (Gp : get (upd (upd s p (fun it => with_children (remove_first x (ichildren it)) it)) x (with_parent None)) p
               = Some (with_children (remove_first x (ichildren pit)) pit)).
  { rewrite get_upd_other by (intros E; apply Hne; symmetry; exact E). rewrite get_upd_same, Hp. reflexivity. }
  assert (Gx : get (upd (upd s p (fun it => with_children (remove_first x (ichildren it)) it)) x (with_parent None)) x
               = option_map (with_parent None) (get s x)).
  { rewrite get_upd_same. rewrite get_upd_other by exact Hne. reflexivity. }
  assert (Go : forall y, y <> p -> y <> x ->
               get (upd (upd s p (fun it => with_children (remove_first x (ichildren it)) it)) x (with_parent None)) y = get s y).
  { intros y H1 H2. rewrite get_upd_other by exact H2. rewrite get_upd_other by exact H1. reflexivity. }
  split; [|repeat split; assumption].
  pose proof (ti_nodup_c s T p pit Hp) as Hnd.
  eapply (detach_inv s _ p pit (remove_first x (ichildren pit)) (iattrs pit) T Hp).
  - rewrite !next_upd. reflexivity.
  - rewrite !sroot_upd. reflexivity.
  - intros c Hc. eapply remove_first_in. exact Hc.
  - tauto.
  - apply remove_first_nodup. exact Hnd.
  - eapply (ti_nodup_a s T); exact Hp.
  - rewrite with_attrs_same. exact Gp.
  - intros y Hyp Hr.
    assert (y = x) as ->.
    { destruct Hr as [[H1 H2]|[H1 H2]]; [|contradiction].
      destruct (N.eq_dec y x) as [E|E]; [exact E|]. exfalso. apply H2. apply remove_first_in_ne; assumption. }
    exact Gx.
  - intros y Hyp Hr. apply Go; [exact Hyp|]. intros ->. apply Hr. left. split; [exact Hin|].
    apply remove_first_notin. exact Hnd.
Qed.

Lemma delete_by_id_inv s p x : TreeInv s -> TreeInv (delete_by_id s p x).
Proof.
  intros T. destruct (mem x (children_of s p)) eqn:M.
  - apply mem_spec in M. unfold children_of in M. destruct (get s p) as [pit|] eqn:Hp; [|contradiction].
    apply (delete_by_id_spec s p x pit T Hp M).
  - unfold delete_by_id. rewrite M. exact T.
Qed.

(** what [link] needs to know about the store after [unlink] *)
Lemma unlink_spec s x xit :
  TreeInv s -> get s x = Some xit -> ikind xit <> KAt ->
  let s1 := unlink s x in
  TreeInv s1
  /\ next s1 = next s /\ sroot s1 = sroot s
  /\ get s1 x = Some (with_parent None xit)
  /\ (forall y it1, get s1 y = Some it1 -> exists it, get s y = Some it /\ ikind it = ikind it1
                                            /\ (forall c, In c (ichildren it1) -> In c (ichildren it))
                                            /\ iattrs it1 = iattrs it)
  /\ (forall y it, get s y = Some it -> exists it1, get s1 y = Some it1)
  /\ (forall c q, par s1 c q -> par s c q).
Proof.
  intros T Hx Hk. cbn zeta. unfold unlink, parent_of. rewrite Hx.
  destruct (iparent xit) as [p|] eqn:Hpar.
  - assert (Hl : lists s p x) by (apply (ti_par_lists s T); exists xit; split; assumption).
    destruct Hl as [pit [Hp Hin]]. rewrite Hp.
    destruct Hin as [Hin|Hin].
    2:{ exfalso. destruct (ti_attr_kind s T p pit x xit Hp Hin Hx) as [_ E]. contradiction. }
    assert (Hc : container (ikind pit) = true).
    { eapply child_ok_container. eapply (ti_child_kind s T p pit x xit); eassumption. }
    rewrite Hc.
    destruct (delete_by_id_spec s p x pit T Hp Hin) as [T1 [Hne [Gp [Gx Go]]]].
    split; [exact T1|].
    split; [unfold delete_by_id; destruct (mem x (children_of s p)); rewrite ?next_upd; reflexivity|].
    split; [unfold delete_by_id; destruct (mem x (children_of s p)); rewrite ?sroot_upd; reflexivity|].
    split; [rewrite Gx, Hx; reflexivity|].
    split.
    { intros y it1 Hy. destruct (N.eq_dec y p) as [->|Hyp].
      - rewrite Gp in Hy. inversion Hy; subst it1. exists pit. split; [exact Hp|]. split; [reflexivity|].
        split; [cbn; intros c Hc'; eapply remove_first_in; exact Hc' | reflexivity].
      - destruct (N.eq_dec y x) as [->|Hyx].
        + rewrite Gx, Hx in Hy. cbn in Hy. inversion Hy; subst it1. exists xit.
          split; [exact Hx|]. split; [reflexivity|]. split; [cbn; tauto | reflexivity].
        + rewrite (Go y Hyp Hyx) in Hy. exists it1. split; [exact Hy|]. split; [reflexivity|]. split; [tauto | reflexivity]. }
    split.
    { intros y it Hy. destruct (N.eq_dec y p) as [->|Hyp]; [eexists; exact Gp|].
      destruct (N.eq_dec y x) as [->|Hyx]; [rewrite Gx, Hx; cbn; eexists; reflexivity|].
      rewrite (Go y Hyp Hyx). eexists; exact Hy. }
    { intros c q [cit [H1 H2]]. destruct (N.eq_dec c p) as [->|Hcp].
      - rewrite Gp in H1. inversion H1; subst cit. cbn in H2. exists pit. split; assumption.
      - destruct (N.eq_dec c x) as [->|Hcx].
        + rewrite Gx, Hx in H1. cbn in H1. inversion H1; subst cit. cbn in H2. discriminate.
        + rewrite (Go c Hcp Hcx) in H1. exists cit. split; assumption. }
  - split; [exact T|]. split; [reflexivity|]. split; [reflexivity|].
    split; [rewrite Hx; f_equal; destruct xit; cbn in *; subst; reflexivity|].
    split; [intros y it1 Hy; exists it1; split; [exact Hy|]; split; [reflexivity|]; split; [tauto | reflexivity]|].
    split; [intros y it Hy; eexists; exact Hy | tauto].
Qed.

(** ** check_insert *)
Lemma find_none_forall {A} (f : A -> bool) l : find f l = None -> forall y, In y l -> f y = false.
Proof. intros H y Hy. eapply find_none; eassumption. Qed.

Lemma check_insert_ok s recv x :
  TreeInv s -> check_insert s recv x = None ->
  exists pit xit, get s recv = Some pit /\ get s x = Some xit /\ x <> recv /\ ~ anc s recv x
    /\ child_ok (ikind pit) (ikind xit) = true
    /\ (recv = sroot s -> ikind xit = KEl -> forall y, In y (ichildren pit) -> has_kind s KEl y = false)
    /\ (recv = sroot s -> ikind xit = KDt -> forall y, In y (ichildren pit) -> has_kind s KDt y = false).
Proof.
  intros T H. unfold check_insert, kind_of in H.
  destruct (get s recv) as [pit|] eqn:Hp; cbn [option_map] in H; [|discriminate].
  destruct (get s x) as [xit|] eqn:Hx; cbn [option_map] in H; [|destruct (ikind pit); discriminate].
  exists pit, xit. split; [reflexivity|]. split; [reflexivity|].
  destruct (ikind pit) eqn:Kp; try discriminate.
  - (* document *)
    assert (Hroot : recv = sroot s) by (eapply (ti_doc_root s T); eassumption).
    assert (Hne : x <> recv).
    { intros ->. rewrite Hp in Hx. inversion Hx; subst xit. rewrite Kp in H. discriminate. }
    assert (Hna : ~ anc s recv x).
    { intros Ha. assert (exists q, par s recv q) as [q Hq] by (inversion Ha; eauto).
      rewrite Hroot in Hq. eapply root_no_parent; eassumption. }
    assert (Hch : children_of s (sroot s) = ichildren pit) by (unfold children_of; rewrite <- Hroot, Hp; reflexivity).
    split; [exact Hne|]. split; [exact Hna|].
    destruct (ikind xit) eqn:Kx; try discriminate.
    + (* element *)
      unfold doc_element in H. destruct (find (has_kind s KEl) (children_of s (sroot s))) eqn:F; [discriminate|].
      split; [reflexivity|]. split; [|intros; discriminate].
      intros _ _ y Hy. eapply find_none_forall; [exact F | rewrite Hch; exact Hy].
    + split; [reflexivity|]. split; intros; discriminate.
    + split; [reflexivity|]. split; intros; discriminate.
    + (* doctype *)
      unfold doc_decl, doc_element in H.
      destruct (find (has_kind s KDt) (children_of s (sroot s))) eqn:F; [discriminate|].
      destruct (find (has_kind s KEl) (children_of s (sroot s))) eqn:F2; [discriminate|].
      split; [reflexivity|]. split; [intros; discriminate|].
      intros _ _ y Hy. eapply find_none_forall; [exact F | rewrite Hch; exact Hy].
  - (* element *)
    destruct ((x =? recv) || ancestor s recv x) eqn:E; [discriminate|].
    apply orb_false_iff in E. destruct E as [E1 E2]. apply N.eqb_neq in E1.
    split; [exact E1|]. split; [apply ancestor_false; assumption|].
    assert (Hnr : recv <> sroot s).
    { intros E. destruct (ti_root s T) as [rit [Hr Hk]]. rewrite <- E, Hp in Hr. inversion Hr; subst. congruence. }
    destruct (ikind xit); try discriminate; (split; [reflexivity | split; intros; contradiction]).
  - (* attribute *)
    destruct ((x =? recv) || ancestor s recv x) eqn:E; [discriminate|].
    apply orb_false_iff in E. destruct E as [E1 E2]. apply N.eqb_neq in E1.
    split; [exact E1|]. split; [apply ancestor_false; assumption|].
    assert (Hnr : recv <> sroot s).
    { intros E. destruct (ti_root s T) as [rit [Hr Hk]]. rewrite <- E, Hp in Hr. inversion Hr; subst. congruence. }
    destruct (ikind xit); try discriminate; (split; [reflexivity | split; intros; contradiction]).
Qed.

(** ** link *)
Lemma link_inv s recv x ref pit xit :
  TreeInv s -> get s recv = Some pit -> get s x = Some xit -> x <> recv -> ~ anc s recv x ->
  child_ok (ikind pit) (ikind xit) = true ->
  (recv = sroot s -> ikind xit = KEl -> forall y, In y (ichildren pit) -> has_kind s KEl y = false) ->
  (recv = sroot s -> ikind xit = KDt -> forall y, In y (ichildren pit) -> has_kind s KDt y = false) ->
  TreeInv (link s recv x ref).
Proof.
  intros T Hp Hx Hne Hna Hok Hel Hdt.
  assert (Hk : ikind xit <> KAt) by (apply child_ok_not_at in Hok; tauto).
  destruct (unlink_spec s x xit T Hx Hk) as [T1 [Hn1 [Hr1 [Gx1 [Hback [Hfwd Hparsub]]]]]].
  destruct (Hfwd recv pit Hp) as [pit1 Hp1].
  destruct (Hback recv pit1 Hp1) as [pit0 [Hp0 [Hkp [Hsub Hat]]]].
  rewrite Hp in Hp0. inversion Hp0; subst pit0. clear Hp0.
  set (s1 := unlink s x) in *.
  set (nl := match ref with
             | Some r => match index_of r (ichildren pit1) with
                         | Some n => insert_at n x (ichildren pit1)
                         | None => ichildren pit1 ++ [x]
                         end
             | None => ichildren pit1 ++ [x]
             end).
  assert (Hnotin : ~ In x (ichildren pit1)).
  { intros Hin. eapply (no_parent_not_listed s1 T1 x (with_parent None xit) recv Gx1); [reflexivity|].
    exists pit1. split; [exact Hp1 | left; exact Hin]. }
  assert (Hnl_in : forall y, In y nl <-> y = x \/ In y (ichildren pit1)).
  { intros y. unfold nl. destruct ref as [r|]; [destruct (index_of r (ichildren pit1))|];
      [apply insert_at_in | apply in_app_single | apply in_app_single]. }
  assert (Hnl_nd : NoDup nl).
  { pose proof (ti_nodup_c s1 T1 recv pit1 Hp1) as Hnd.
    unfold nl. destruct ref as [r|]; [destruct (index_of r (ichildren pit1))|];
      [apply insert_at_nodup | apply nodup_app_single | apply nodup_app_single]; assumption. }
  unfold link. fold s1.
  eapply (attach_inv s1 _ recv x pit1 (with_parent None xit) nl (iattrs pit1) T1 Hp1 Gx1 Hne).
  - reflexivity.
  - intros Ha. apply Hna. eapply anc_mono; [|exact Ha]. exact Hparsub.
  - rewrite !next_upd. reflexivity.
  - rewrite !sroot_upd. reflexivity.
  - rewrite get_upd_same. rewrite get_upd_other by (intros E; apply Hne; symmetry; exact E). rewrite Hp1. cbn [option_map].
    f_equal.
  - rewrite get_upd_other by exact Hne. rewrite get_upd_same, Gx1. reflexivity.
  - intros y H1 H2. rewrite get_upd_other by exact H1. rewrite get_upd_other by exact H2. reflexivity.
  - intros y Hy. apply Hnl_in. exact Hy.
  - intros y Hy. apply Hnl_in. right. exact Hy.
  - tauto.
  - tauto.
  - left. apply Hnl_in. left. reflexivity.
  - exact Hnl_nd.
  - eapply (ti_nodup_a s1 T1); exact Hp1.
  - intros _. cbn. rewrite <- Hkp. exact Hok.
  - intros Hin. exfalso. eapply (child_attr_disjoint s1 T1 recv pit1 x Hp1); [|exact Hin].
    exfalso. destruct (ti_attr_kind s1 T1 recv pit1 x _ Hp1 Hin Gx1) as [_ E]. cbn in E. contradiction.
  - intros _ Er Ek y Hy. rewrite Hr1 in Er. cbn in Ek.
    assert (E : has_kind s1 KEl y = has_kind s KEl y).
    { unfold has_kind. destruct (get s1 y) as [y1|] eqn:Hy1.
      - destruct (Hback y y1 Hy1) as [y0 [Hy0 [Hky _]]]. rewrite Hy0, Hky. reflexivity.
      - destruct (get s y) as [y0|] eqn:Hy0; [|reflexivity]. destruct (Hfwd y y0 Hy0) as [z Hz]. congruence. }
    rewrite E. apply Hel; [exact Er | exact Ek | apply Hsub; exact Hy].
  - intros _ Er Ek y Hy. rewrite Hr1 in Er. cbn in Ek.
    assert (E : has_kind s1 KDt y = has_kind s KDt y).
    { unfold has_kind. destruct (get s1 y) as [y1|] eqn:Hy1.
      - destruct (Hback y y1 Hy1) as [y0 [Hy0 [Hky _]]]. rewrite Hy0, Hky. reflexivity.
      - destruct (get s y) as [y0|] eqn:Hy0; [|reflexivity]. destruct (Hfwd y y0 Hy0) as [z Hz]. congruence. }
    rewrite E. apply Hdt; [exact Er | exact Ek | apply Hsub; exact Hy].
Qed.

Lemma link_checked_inv s recv x ref : TreeInv s -> check_insert s recv x = None -> TreeInv (link s recv x ref).
Proof.
  intros T H. destruct (check_insert_ok s recv x T H) as [pit [xit [Hp [Hx [Hne [Hna [Hok [Hel Hdt]]]]]]]].
  eapply link_inv; eassumption.
Qed.

(** ** the four editing entry points of [HasChildren] *)
Lemma info_append_inv s recv x : TreeInv s -> TreeInv (fst (info_append s recv x)).
Proof.
  intros T. unfold info_append. destruct (check_insert s recv x) eqn:E; cbn [fst]; [exact T|].
  apply invalidate_inv. apply link_checked_inv; assumption.
Qed.

Lemma info_insert_before_inv s recv x ref : TreeInv s -> TreeInv (fst (info_insert_before s recv x ref)).
Proof.
  intros T. unfold info_insert_before. destruct (mem ref (children_of s recv)); [|exact T].
  destruct (check_insert s recv x) eqn:E; cbn [fst]; [exact T|].
  destruct (x =? ref); cbn [fst]; [exact T|].
  apply invalidate_inv. apply link_checked_inv; assumption.
Qed.

Lemma info_insert_after_inv s recv x ref : TreeInv s -> TreeInv (fst (info_insert_after s recv x ref)).
Proof.
  intros T. unfold info_insert_after. destruct (index_of ref (children_of s recv)); [|exact T].
  destruct (nth_error (children_of s recv) (S n)); [apply info_insert_before_inv | apply info_append_inv]; exact T.
Qed.

Lemma info_delete_inv s recv x : TreeInv s -> TreeInv (fst (info_delete s recv x)).
Proof.
  intros T. unfold info_delete. destruct (mem x (children_of s recv)); cbn [fst]; [|exact T].
  apply invalidate_inv. apply delete_by_id_inv. exact T.
Qed.

(** ** kinds never change *)
Lemma kind_of_upd s i f y : (forall it, ikind (f it) = ikind it) -> kind_of (upd s i f) y = kind_of s y.
Proof.
  intros Hf. unfold kind_of. rewrite get_upd. destruct (N.eqb_spec y i) as [->|]; [|reflexivity].
  destruct (get s i); cbn; [rewrite Hf|]; reflexivity.
Qed.

Lemma kind_of_delete_by_id s p x y : kind_of (delete_by_id s p x) y = kind_of s y.
Proof. unfold delete_by_id. destruct (mem x (children_of s p)); [|reflexivity]. rewrite !kind_of_upd; reflexivity. Qed.

Lemma kind_of_unlink s x y : kind_of (unlink s x) y = kind_of s y.
Proof.
  unfold unlink. destruct (parent_of s x); [|reflexivity]. destruct (get s i); [|reflexivity].
  destruct (container (ikind i0)); [apply kind_of_delete_by_id | reflexivity].
Qed.

Lemma kind_of_link s r x ref y : kind_of (link s r x ref) y = kind_of s y.
Proof. unfold link. rewrite !kind_of_upd by reflexivity. apply kind_of_unlink. Qed.

Lemma has_kind_kind_of s k y : has_kind s k y = match kind_of s y with Some k' => kind_eqb k' k | None => false end.
Proof. unfold has_kind, kind_of. destruct (get s y); reflexivity. Qed.

(** ** create *)
Lemma fresh_none s : TreeInv s -> get s (next s) = None.
Proof. intros T. destruct (get s (next s)) as [x|] eqn:E; [|reflexivity]. pose proof (ti_bound s T _ _ E). lia. Qed.

Lemma create_spec s it :
  fst (create s it) = next s
  /\ next (snd (create s it)) = next s + 1
  /\ sroot (snd (create s it)) = sroot s
  /\ get (snd (create s it)) (next s) = Some it
  /\ (forall y, y <> next s -> get (snd (create s it)) y = get s y).
Proof.
  unfold create, alloc. cbn. repeat split.
  - unfold get. cbn. rewrite N.eqb_refl. reflexivity.
  - intros y Hy. unfold get. cbn. destruct (N.eqb_spec y (next s)); [contradiction | reflexivity].
Qed.

Lemma create_tree_inv s it :
  TreeInv s -> iparent it = None -> ichildren it = [] -> iattrs it = [] -> ikind it <> KDoc ->
  TreeInv (snd (create s it)).
Proof.
  intros T H1 H2 H3 H4. destruct (create_spec s it) as [_ [Hn [Hr [Hg Ho]]]].
  eapply create_inv; eassumption.
Qed.

Lemma kind_of_create_old s it y : TreeInv s -> (exists k, kind_of s y = Some k) -> kind_of (snd (create s it)) y = kind_of s y.
Proof.
  intros T [k Hk]. destruct (create_spec s it) as [_ [_ [_ [_ Ho]]]]. unfold kind_of in *.
  rewrite Ho; [reflexivity|]. intros ->. rewrite (fresh_none s T) in Hk. discriminate.
Qed.

(** ** data *)
Lemma upd_shape s n f : (forall it, shape_eq it (f it)) -> shape_rel s (upd s n f).
Proof.
  intros Hf i. rewrite get_upd. destruct (N.eqb_spec i n) as [->|].
  - destruct (get s n); cbn; [apply Hf | exact I].
  - destruct (get s i); [repeat split | exact I].
Qed.

Lemma upd_data_inv s n f : (forall it, shape_eq it (f it)) -> TreeInv s -> TreeInv (upd s n f).
Proof. intros Hf T. eapply shape_inv; [exact T | apply upd_shape; exact Hf | apply next_upd | apply sroot_upd]. Qed.

Lemma set_str_inv s n d : TreeInv s -> TreeInv (set_str s n d).
Proof. apply upd_data_inv. intros it. repeat split. Qed.

Lemma edit_data_inv s n k off cnt x : TreeInv s -> TreeInv (fst (edit_data s n k off cnt x)).
Proof.
  intros T. unfold edit_data. destruct (len (data_of s n) <? off); [exact T|].
  destruct (valid_str k _); cbn [fst]; [apply set_str_inv; exact T | exact T].
Qed.

Lemma insert_data_inv s n k off d : TreeInv s -> TreeInv (fst (insert_data s n k off d)).
Proof. apply edit_data_inv. Qed.

Lemma delete_data_inv s n off cnt : TreeInv s -> TreeInv (fst (delete_data s n off cnt)).
Proof. intros T. unfold delete_data. destruct (kind_of s n); [apply edit_data_inv; exact T | exact T]. Qed.

Lemma replace_data_inv s n k off cnt d : TreeInv s -> TreeInv (fst (replace_data s n k off cnt d)).
Proof. apply edit_data_inv. Qed.

Lemma pi_set_inv s n d : TreeInv s -> TreeInv (fst (pi_set s n d)).
Proof.
  intros T. unfold pi_set. destruct (d_pi d) as [[c|]|]; cbn [fst]; try exact T;
    apply upd_data_inv; try exact T; intros it; repeat split.
Qed.

(** ** attributes *)
Lemma with_parent_idem it : with_parent None (with_parent None it) = with_parent None it.
Proof. reflexivity. Qed.

Lemma fold_unparent_get l : forall s y,
  get (fold_left (fun acc a => upd acc a (with_parent None)) l s) y
  = if mem y l then option_map (with_parent None) (get s y) else get s y.
Proof.
  induction l as [|a t IH]; intros s y; cbn [fold_left]; [reflexivity|].
  rewrite IH. unfold mem. cbn [existsb]. fold (mem y t).
  rewrite get_upd. destruct (N.eqb_spec y a) as [->|Hne]; cbn [orb].
  - destruct (mem a t); [|reflexivity]. destruct (get s a); reflexivity.
  - reflexivity.
Qed.

Lemma fold_unparent_next l : forall s, next (fold_left (fun acc a => upd acc a (with_parent None)) l s) = next s.
Proof. induction l as [|a t IH]; intros s; cbn [fold_left]; [reflexivity|]. rewrite IH. apply next_upd. Qed.

Lemma fold_unparent_sroot l : forall s, sroot (fold_left (fun acc a => upd acc a (with_parent None)) l s) = sroot s.
Proof. induction l as [|a t IH]; intros s; cbn [fold_left]; [reflexivity|]. rewrite IH. apply sroot_upd. Qed.

(** removing the nodes [rm] (all of them in the lists of [e]) and keeping [lk], [ak] *)
Lemma detach_many_inv s e eit lk ak rm :
  TreeInv s -> get s e = Some eit ->
  (forall c, In c lk -> In c (ichildren eit)) -> (forall c, In c ak -> In c (iattrs eit)) ->
  NoDup lk -> NoDup ak ->
  (forall y, In y rm <-> (In y (ichildren eit) /\ ~ In y lk) \/ (In y (iattrs eit) /\ ~ In y ak)) ->
  TreeInv (fold_left (fun acc a => upd acc a (with_parent None)) rm
                     (upd s e (fun it => with_attrs ak (with_children lk it)))).
Proof.
  intros T He Hl Ha Hnl Hna Hrm.
  assert (Hself : ~ In e rm).
  { intros H. apply Hrm in H. apply (not_self_listed s T e). exists eit. split; [exact He|]. tauto. }
  eapply (detach_inv s _ e eit lk ak T He).
  - rewrite fold_unparent_next. apply next_upd.
  - rewrite fold_unparent_sroot. apply sroot_upd.
  - exact Hl.
  - exact Ha.
  - exact Hnl.
  - exact Hna.
  - rewrite fold_unparent_get. apply mem_false in Hself. rewrite Hself. rewrite get_upd_same, He. reflexivity.
  - intros y Hne Hr. rewrite fold_unparent_get.
    assert (M : mem y rm = true) by (apply mem_spec; apply Hrm; exact Hr). rewrite M.
    rewrite get_upd_other by exact Hne. reflexivity.
  - intros y Hne Hr. rewrite fold_unparent_get.
    assert (M : mem y rm = false) by (apply mem_false; intros H; apply Hr; apply Hrm; exact H). rewrite M.
    apply get_upd_other. exact Hne.
Qed.

Lemma remove_attrs_inv s e sel : TreeInv s -> TreeInv (fst (remove_attrs s e sel)).
Proof.
  intros T. unfold remove_attrs. cbn [fst]. apply invalidate_inv.
  unfold attrs_of. destruct (get s e) as [eit|] eqn:He.
  - replace (upd s e (with_attrs (filter (fun a => negb (sel a)) (iattrs eit))))
      with (upd s e (fun it => with_attrs (filter (fun a => negb (sel a)) (iattrs eit)) (with_children (ichildren eit) it))).
    2:{ unfold upd. rewrite He. reflexivity. }
    apply (detach_many_inv s e eit (ichildren eit) (filter (fun a => negb (sel a)) (iattrs eit))
                           (filter sel (iattrs eit)) T He).
    + tauto.
    + intros c Hc. apply filter_In in Hc. tauto.
    + eapply (ti_nodup_c s T); exact He.
    + apply NoDup_filter. eapply (ti_nodup_a s T); exact He.
    + intros y. rewrite !filter_In. split.
      * intros [H1 H2]. right. split; [exact H1|]. intros [_ H3]. rewrite H2 in H3. discriminate.
      * intros [[H1 H2]|[H1 H2]]; [contradiction|]. split; [exact H1|].
        destruct (sel y) eqn:E; [reflexivity|]. exfalso. apply H2. split; [exact H1 | reflexivity].
  - cbn. unfold upd. rewrite He. exact T.
Qed.

Lemma remove_attribute_inv s e name : TreeInv s -> TreeInv (fst (remove_attribute s e name)).
Proof. apply remove_attrs_inv. Qed.

Lemma remove_attribute_q_inv s e p name : TreeInv s -> TreeInv (fst (remove_attribute_q s e p name)).
Proof. apply remove_attrs_inv. Qed.

(** facts about the store after [remove_attrs] that [append_attribute] needs *)
Lemma remove_attrs_frame s e sel y :
  let s1 := fst (remove_attrs s e sel) in
  kind_of s1 y = kind_of s y
  /\ (parent_of s y = None -> parent_of s1 y = None).
Proof.
  cbn zeta. unfold remove_attrs. cbn [fst]. unfold kind_of, parent_of. rewrite !get_invalidate, !fold_unparent_get.
  destruct (mem y (filter sel (attrs_of s e))).
  - rewrite get_upd. destruct (N.eqb_spec y e) as [->|].
    + destruct (get s e); cbn; split; reflexivity.
    + destruct (get s y); cbn; split; reflexivity.
  - rewrite get_upd. destruct (N.eqb_spec y e) as [->|].
    + destruct (get s e); cbn; split; tauto.
    + split; tauto.
Qed.

Lemma remove_attribute_frame s e name y :
  let s1 := fst (remove_attribute s e name) in
  kind_of s1 y = kind_of s y
  /\ (parent_of s y = None -> parent_of s1 y = None).
Proof. apply remove_attrs_frame. Qed.

Lemma append_attribute_inv s e a eit ait :
  TreeInv s -> get s e = Some eit -> ikind eit = KEl -> get s a = Some ait -> ikind ait = KAt -> iparent ait = None ->
  TreeInv (append_attribute s e a).
Proof.
  intros T He Ke Ha Ka Hp. unfold append_attribute. apply invalidate_inv.
  assert (Hne : a <> e) by (intros ->; congruence).
  assert (Hnl : forall q, ~ lists s q a) by (intros q; eapply no_parent_not_listed; eassumption).
  assert (Hleaf : forall q qit, get s q = Some qit -> textish (ikind qit) = true -> forall c, ~ lists s q c).
  { intros q qit Hq Hk c [it [E [Hc|Hc]]]; rewrite Hq in E; inversion E; subst it.
    - destruct (lists_live_child s T q c) as [cit Hcit]; [exists qit; split; [exact Hq | left; exact Hc]|].
      pose proof (ti_child_kind s T q qit c cit Hq Hc Hcit) as Hok. destruct (ikind qit); discriminate.
    - destruct (lists_live_child s T q c) as [cit Hcit]; [exists qit; split; [exact Hq | right; exact Hc]|].
      destruct (ti_attr_kind s T q qit c cit Hq Hc Hcit) as [E' _]. rewrite E' in Hk. discriminate. }
  assert (Hna : ~ anc s e a).
  { intros Hanc. destruct (anc_has_parent s e a Hanc) as [q [Hq Hc]].
    pose proof (ti_par_lists s T _ _ Hq) as [it [E [Hin|Hin]]]; rewrite Ha in E; inversion E; subst it.
    - destruct Hq as [qit [Hqg Hqp]].
      pose proof (ti_child_kind s T a ait q qit Ha Hin Hqg) as Hok. rewrite Ka in Hok.
      assert (Htx : textish (ikind qit) = true) by (destruct (ikind qit); try discriminate; reflexivity).
      destruct Hc as [->|Hc].
      + rewrite He in Hqg. inversion Hqg; subst qit. rewrite Ke in Htx. discriminate.
      + destruct (anc_has_parent s e q Hc) as [q2 [Hq2 _]]. eapply (Hleaf q qit Hqg Htx q2). apply (ti_par_lists s T). exact Hq2.
    - destruct Hq as [qit [Hqg Hqp]]. destruct (ti_attr_kind s T a ait q qit Ha Hin Hqg) as [E' _]. congruence. }
  eapply (attach_inv s _ e a eit ait (ichildren eit) (iattrs eit ++ [a]) T He Ha Hne Hp Hna).
  - rewrite !next_upd. reflexivity.
  - rewrite !sroot_upd. reflexivity.
  - rewrite get_upd_same. rewrite get_upd_other by (intros E; apply Hne; symmetry; exact E). rewrite He. reflexivity.
  - rewrite get_upd_other by exact Hne. rewrite get_upd_same, Ha. reflexivity.
  - intros y H1 H2. rewrite get_upd_other by exact H1. rewrite get_upd_other by exact H2. reflexivity.
  - tauto.
  - tauto.
  - intros y Hy. apply in_app_single in Hy. exact Hy.
  - intros y Hy. apply in_app_single. right. exact Hy.
  - right. apply in_app_single. left. reflexivity.
  - eapply (ti_nodup_c s T); exact He.
  - apply nodup_app_single; [eapply (ti_nodup_a s T); exact He|].
    intros Hin. apply (Hnl e). exists eit. split; [exact He | right; exact Hin].
  - intros Hin. exfalso. apply (Hnl e). exists eit. split; [exact He | left; exact Hin].
  - intros _. split; assumption.
  - intros Hin. exfalso. apply (Hnl e). exists eit. split; [exact He | left; exact Hin].
  - intros Hin. exfalso. apply (Hnl e). exists eit. split; [exact He | left; exact Hin].
Qed.

Lemma dom_set_attribute_node_inv w k s e a :
  TreeInv s -> TreeInv (fst (dom_set_attribute_node w k s e a)).
Proof.
  intros T. unfold dom_set_attribute_node.
  destruct (negb (fst a =? k)); [exact T|].
  destruct (parent_of s (snd a)) eqn:Hpar; [exact T|].
  destruct (get s (snd a)) as [ait|] eqn:Ha; [|exact T].
  destruct (kind_eqb (ikind ait) KAt && has_kind s KEl e) eqn:Hk; [|exact T].
  apply andb_true_iff in Hk. destruct Hk as [Hk1 Hk2].
  destruct (kind_eqb_spec (ikind ait) KAt) as [Ka|]; [|discriminate].
  pose proof (remove_attribute_q_inv s e (iprefix ait) (ilocal ait) T) as T1.
  pose proof (remove_attrs_frame s e (qname_is s (iprefix ait) (ilocal ait))) as Hfr. cbn zeta in Hfr.
  fold (remove_attribute_q s e (iprefix ait) (ilocal ait)) in Hfr.
  destruct (remove_attribute_q s e (iprefix ait) (ilocal ait)) as [s1 old] eqn:R. cbn [fst] in *.
  destruct (Hfr e) as [Hke _]. destruct (Hfr (snd a)) as [Hka Hpa].
  rewrite has_kind_kind_of in Hk2. rewrite <- Hke in Hk2. unfold kind_of in Hk2.
  destruct (get s1 e) as [eit1|] eqn:He1; [|discriminate]. cbn in Hk2.
  destruct (kind_eqb_spec (ikind eit1) KEl) as [Ke1|]; [|discriminate].
  unfold kind_of in Hka. rewrite Ha in Hka. destruct (get s1 (snd a)) as [ait1|] eqn:Ha1; [|discriminate]. cbn in Hka.
  specialize (Hpa Hpar). unfold parent_of in Hpa. rewrite Ha1 in Hpa.
  eapply append_attribute_inv; try eassumption. congruence.
Qed.

(** ** set_values *)
Lemma detach_values_inv s a : TreeInv s -> TreeInv (detach_values s a).
Proof.
  intros T. unfold detach_values, children_of. destruct (get s a) as [ait|] eqn:Ha.
  - replace (upd s a (with_children [])) with (upd s a (fun it => with_attrs (iattrs ait) (with_children [] it))).
    2:{ unfold upd. rewrite Ha. reflexivity. }
    apply (detach_many_inv s a ait [] (iattrs ait) (ichildren ait) T Ha).
    + intros c [].
    + tauto.
    + constructor.
    + eapply (ti_nodup_a s T); exact Ha.
    + intros y. split; [intros H; left; split; [exact H | intros []] | intros [[H _]|[H1 H2]]; [exact H | contradiction]].
  - cbn. unfold upd. rewrite Ha. exact T.
Qed.

Lemma kind_of_fold_unparent l : forall s y, kind_of (fold_left (fun acc a => upd acc a (with_parent None)) l s) y = kind_of s y.
Proof. induction l as [|a t IH]; intros s y; cbn [fold_left]; [reflexivity|]. rewrite IH. apply kind_of_upd. reflexivity. Qed.

Lemma kind_of_detach_values s a y : kind_of (detach_values s a) y = kind_of s y.
Proof. unfold detach_values. rewrite kind_of_fold_unparent. apply kind_of_upd. reflexivity. Qed.

(** linking a freshly created leaf under [a] *)
Lemma link_fresh_inv s a k pfx loc data fl ref :
  TreeInv s -> (exists ait, get s a = Some ait /\ child_ok (ikind ait) k = true) -> k <> KEl -> k <> KDt ->
  let '(i, s1) := create s (new_item k pfx loc data fl None) in
  TreeInv (link s1 a i ref).
Proof.
  intros T [ait [Ha Hok]] Hk1 Hk2.
  destruct (create_spec s (new_item k pfx loc data fl None)) as [Hi [Hn [Hr [Hg Ho]]]].
  destruct (create s (new_item k pfx loc data fl None)) as [i s1] eqn:C. cbn [fst snd] in *. subst i.
  assert (T1 : TreeInv s1).
  { pose proof (create_tree_inv s (new_item k pfx loc data fl None) T) as H. rewrite C in H. cbn [snd] in H.
    apply H; try reflexivity. cbn. intros E. subst k. destruct (ikind ait); discriminate. }
  assert (Hane : a <> next s).
  { intros E. rewrite E in Ha. rewrite (fresh_none s T) in Ha. discriminate. }
  eapply (link_inv s1 a (next s) ref ait (new_item k pfx loc data fl None) T1).
  - rewrite Ho by exact Hane. exact Ha.
  - exact Hg.
  - intros E. apply Hane. symmetry. exact E.
  - intros Hanc. destruct (anc_has_parent s1 _ _ Hanc) as [q [Hq _]].
    pose proof (ti_par_lists s1 T1 _ _ Hq) as [it [E Hin]]. rewrite Hg in E. inversion E; subst it. cbn in Hin. tauto.
  - exact Hok.
  - intros _ E. cbn in E. contradiction.
  - intros _ E. cbn in E. contradiction.
Qed.

Lemma add_values_inv l : forall s a s',
  TreeInv s -> has_kind s KAt a = true -> add_values s a l = Some s' -> TreeInv s'.
Proof.
  induction l as [|v t IH]; intros s a s' T Hk H; cbn [add_values] in H.
  - inversion H; subst. exact T.
  - assert (Hat : exists ait, get s a = Some ait /\ ikind ait = KAt).
    { unfold has_kind in Hk. destruct (get s a) as [ait|]; [|discriminate]. exists ait. split; [reflexivity|].
      destruct (kind_eqb_spec (ikind ait) KAt); [assumption | discriminate]. }
    assert (Step : forall k pfx loc data fl, child_ok KAt k = true -> k <> KEl -> k <> KDt ->
                   forall i s1, create s (new_item k pfx loc data fl None) = (i, s1) ->
                   TreeInv (link s1 a i None) /\ has_kind (link s1 a i None) KAt a = true).
    { intros k pfx loc data fl Hok Hk1 Hk2 i s1 C.
      destruct Hat as [ait [Ha Ka]].
      pose proof (link_fresh_inv s a k pfx loc data fl None T) as HL.
      rewrite C in HL. split.
      - apply HL; [exists ait; split; [exact Ha | rewrite Ka; exact Hok] | exact Hk1 | exact Hk2].
      - rewrite has_kind_kind_of, kind_of_link.
        pose proof (kind_of_create_old s (new_item k pfx loc data fl None) a T) as Hc. rewrite C in Hc. cbn [snd] in Hc.
        rewrite Hc; [rewrite <- has_kind_kind_of; exact Hk|]. unfold kind_of. rewrite Ha. eexists. reflexivity. }
    destruct v as [tx|name ch|name].
    + destruct tx as [|c tx]; [eapply IH; eassumption|].
      destruct (create s (new_item KTx None [] (c :: tx) false None)) as [i s1] eqn:C.
      destruct (Step KTx None [] (c :: tx) false eq_refl ltac:(discriminate) ltac:(discriminate) i s1 C) as [T2 K2].
      eapply IH; eassumption.
    + destruct ch as [ch|]; [|discriminate].
      destruct (create s (new_item KCr None name ch false None)) as [i s1] eqn:C.
      destruct (Step KCr None name ch false eq_refl ltac:(discriminate) ltac:(discriminate) i s1 C) as [T2 K2].
      eapply IH; eassumption.
    + destruct (entity_known s name); [|discriminate].
      destruct (create s (new_item KEr None name [] false None)) as [i s1] eqn:C.
      destruct (Step KEr None name [] false eq_refl ltac:(discriminate) ltac:(discriminate) i s1 C) as [T2 K2].
      eapply IH; eassumption.
Qed.

Lemma set_values_inv s a d : TreeInv s -> has_kind s KAt a = true -> TreeInv (fst (set_values s a d)).
Proof.
  intros T Hk. unfold set_values. destruct (d_attr d) as [l|]; [|exact T].
  destruct (add_values (detach_values s a) a l) as [s1|] eqn:E; cbn [fst]; [|exact T].
  apply invalidate_inv. eapply add_values_inv; [apply detach_values_inv; exact T | | exact E].
  rewrite has_kind_kind_of, kind_of_detach_values, <- has_kind_kind_of. exact Hk.
Qed.

(** ** split_text, factories *)
Lemma factory_inv k s it :
  TreeInv s -> iparent it = None -> ichildren it = [] -> iattrs it = [] -> ikind it <> KDoc ->
  TreeInv (fst (factory k s it)).
Proof.
  intros T H1 H2 H3 H4. unfold factory. pose proof (create_tree_inv s it T H1 H2 H3 H4) as H.
  destruct (create s it) as [i s1]. exact H.
Qed.

Lemma split_text_inv k s n kd off : TreeInv s -> TreeInv (fst (split_text k s n kd off)).
Proof.
  intros T. unfold split_text. destruct (len (data_of s n) <? off); [exact T|].
  destruct (parent_of s n) as [p|]; [|exact T].
  destruct (kind_of s p) as [kp|]; [|exact T].
  match goal with |- TreeInv (fst (if ?c then _ else _)) => destruct c eqn:Hok end; [|exact T].
  assert (Hkd : kd <> KDoc) by (intros ->; destruct kp; discriminate).
  set (s1 := set_str s n (firstn (N.to_nat (N.min off (len (data_of s n)))) (data_of s n))).
  assert (T1 : TreeInv s1) by (apply set_str_inv; exact T).
  pose proof (create_tree_inv s1 (new_item kd None [] (skipn (N.to_nat (N.min off (len (data_of s n)))) (data_of s n)) false None)
                              T1 eq_refl eq_refl eq_refl Hkd) as T2.
  destruct (create s1 (new_item kd None [] (skipn (N.to_nat (N.min off (len (data_of s n)))) (data_of s n)) false None)) as [i s2].
  cbn [snd] in T2.
  pose proof (info_insert_after_inv s2 p i n T2) as T3.
  destruct (info_insert_after s2 p i n) as [s3 [e|]]; cbn [fst] in T3.
  - destruct e; cbn [fst]; try exact T3.
    pose proof (info_append_inv s3 p i T3) as T4.
    destruct (info_append s3 p i) as [s4 [e4|]]; exact T4.
  - exact T3.
Qed.

(** ** the world: a generic preservation theorem

    [P] is any property of a store that the store-level editing functions preserve; then every
    operation of the model preserves "[P] holds for every document of the world".  Instantiated
    with the tree invariant below and with tree + order invariant in Proofs/DomOrderInv.v. *)
Lemma Forall_set_nth {A} (P : A -> Prop) n x l : Forall P l -> P x -> Forall P (set_nth n x l).
Proof.
  revert l. induction n as [|n IH]; intros l Hl Hx; destruct l as [|y t]; cbn; try constructor;
    inversion Hl; subst; try assumption. apply IH; assumption.
Qed.

Section Generic.
  Variable P : store -> Prop.
  Hypothesis H_ib : forall s r x f, P s -> P (fst (info_insert_before s r x f)).
  Hypothesis H_ap : forall s r x, P s -> P (fst (info_append s r x)).
  Hypothesis H_del : forall s r x, P s -> P (fst (info_delete s r x)).
  Hypothesis H_ra : forall s e sel, P s -> P (fst (remove_attrs s e sel)).
  Hypothesis H_san : forall w k s e a, P s -> P (fst (dom_set_attribute_node w k s e a)).
  Hypothesis H_sv : forall s a d, P s -> has_kind s KAt a = true -> P (fst (set_values s a d)).
  Hypothesis H_cr : forall s it, P s -> iparent it = None -> ichildren it = [] -> iattrs it = [] -> ikind it <> KDoc ->
                    P (snd (create s it)).
  Hypothesis H_rd : forall s n k off cnt d, P s -> P (fst (replace_data s n k off cnt d)).
  Hypothesis H_id : forall s n k off d, P s -> P (fst (insert_data s n k off d)).
  Hypothesis H_dd : forall s n off cnt, P s -> P (fst (delete_data s n off cnt)).
  Hypothesis H_pi : forall s n d, P s -> P (fst (pi_set s n d)).
  Hypothesis H_st : forall k s n kd off, P s -> P (fst (split_text k s n kd off)).

  Definition WP (w : world) : Prop := Forall P (docs w).

  Lemma set_doc_P w k s : WP w -> P s -> WP (set_doc w k s).
  Proof. intros Hw Hs. unfold WP, set_doc. cbn. apply Forall_set_nth; assumption. Qed.

  Lemma doc_at_P w k s : WP w -> doc_at w k = Some s -> P s.
  Proof.
    intros Hw H. unfold doc_at in H. apply nth_error_In in H. unfold WP in Hw. rewrite Forall_forall in Hw. apply Hw. exact H.
  Qed.

  Lemma on_node_P w r f :
    WP w -> (forall s k, P s -> kind_of s (snd r) = Some k -> P (fst (f s k))) -> WP (fst (on_node w r f)).
  Proof.
    intros Hw Hf. unfold on_node. destruct (doc_at w (fst r)) as [s|] eqn:D; [|exact Hw].
    destruct (kind_of s (snd r)) as [k|] eqn:K; [|exact Hw].
    specialize (Hf s k (doc_at_P w _ s Hw D) K). destruct (f s k) as [s1 o]. cbn [fst] in *.
    apply set_doc_P; assumption.
  Qed.

  Lemma on_element_P w r f :
    WP w -> (forall s, P s -> has_kind s KEl (snd r) = true -> P (fst (f s))) -> WP (fst (on_element w r f)).
  Proof.
    intros Hw Hf. unfold on_element. apply on_node_P; [exact Hw|]. intros s k T K.
    destruct k; try exact T. apply Hf; [exact T|]. rewrite has_kind_kind_of, K. reflexivity.
  Qed.

  Lemma on_document_P w r f :
    WP w -> (forall s, P s -> P (fst (f s))) -> WP (fst (on_document w r f)).
  Proof.
    intros Hw Hf. unfold on_document. apply on_node_P; [exact Hw|]. intros s k T K.
    destruct k; try exact T. apply Hf. exact T.
  Qed.

  Lemma factory_P k s it :
    P s -> iparent it = None -> ichildren it = [] -> iattrs it = [] -> ikind it <> KDoc -> P (fst (factory k s it)).
  Proof.
    intros T H1 H2 H3 H4. unfold factory. pose proof (H_cr s it T H1 H2 H3 H4) as H.
    destruct (create s it) as [i s1]. exact H.
  Qed.

  Lemma dom_insert_before_P w r n ref : WP w -> WP (fst (dom_insert_before w r n ref)).
  Proof.
    intros Hw. unfold dom_insert_before. destruct (doc_at w (fst r)) as [s|] eqn:D; [|exact Hw].
    destruct (kind_in w r) as [k|]; [|exact Hw].
    destruct (container k); [|exact Hw].
    destruct (wrong_doc w r n); [exact Hw|].
    pose proof (doc_at_P w _ s Hw D) as T.
    destruct ref as [f|].
    - destruct (wrong_doc w r f); [exact Hw|].
      pose proof (H_ib s (snd r) (snd n) (snd f) T) as T1.
      destruct (info_insert_before s (snd r) (snd n) (snd f)) as [s1 [e|]]; cbn [fst] in *.
      + destruct e; exact Hw.
      + apply set_doc_P; assumption.
    - pose proof (H_ap s (snd r) (snd n) T) as T1.
      destruct (info_append s (snd r) (snd n)) as [s1 [e|]]; cbn [fst] in *; [exact Hw|].
      apply set_doc_P; assumption.
  Qed.

  Lemma dom_remove_child_P w r o : WP w -> WP (fst (dom_remove_child w r o)).
  Proof.
    intros Hw. unfold dom_remove_child. destruct (doc_at w (fst r)) as [s|] eqn:D; [|exact Hw].
    destruct (kind_in w r) as [k|]; [|exact Hw].
    destruct (container k); [|exact Hw].
    destruct (wrong_doc w r o); [exact Hw|].
    pose proof (H_del s (snd r) (snd o) (doc_at_P w _ s Hw D)) as T1.
    destruct (info_delete s (snd r) (snd o)) as [s1 [|]]; cbn [fst] in *; [apply set_doc_P; assumption | exact Hw].
  Qed.

  (** every operation, whatever its arguments and its outcome *)
  Theorem step_P w o : WP w -> WP (fst (step w o)).
  Proof.
    intros Hw. destruct o; cbn [step].
    - (* AppendChild *)
      destruct (kind_in w r) as [k|]; [|exact Hw]. destruct (node_mut k); [|exact Hw].
      destruct (exists_in w n); [apply dom_insert_before_P; exact Hw | exact Hw].
    - (* InsertBefore *)
      destruct (kind_in w r) as [k|]; [|exact Hw]. destruct (node_mut k); [|exact Hw].
      destruct (exists_in w n && exists_in w f); [apply dom_insert_before_P; exact Hw | exact Hw].
    - (* ReplaceChild *)
      destruct (kind_in w r) as [k|]; [|exact Hw]. destruct (node_mut k); [|exact Hw].
      destruct (exists_in w n && exists_in w o); [|exact Hw].
      pose proof (dom_insert_before_P w r n (Some o) Hw) as H1.
      destruct (dom_insert_before w r n (Some o)) as [w1 oc]. cbn [fst] in H1.
      destruct oc; try exact H1. apply dom_remove_child_P. exact H1.
    - (* RemoveChild *)
      destruct (kind_in w r) as [k|]; [|exact Hw]. destruct (node_mut k); [|exact Hw].
      destruct (exists_in w o); [apply dom_remove_child_P; exact Hw | exact Hw].
    - (* SetAttribute *)
      apply on_element_P; [exact Hw|]. intros s T Ke.
      destruct (n_attr name) as [[p l]|]; [|exact T].
      pose proof (H_cr s (new_item KAt p l [] false None) T eq_refl eq_refl eq_refl ltac:(discriminate)) as T1.
      destruct (create_spec s (new_item KAt p l [] false None)) as [Hi [_ [_ [Hg _]]]].
      destruct (create s (new_item KAt p l [] false None)) as [a s1]. cbn [fst snd] in *. subst a.
      assert (Ka : has_kind s1 KAt (next s) = true) by (unfold has_kind; rewrite Hg; reflexivity).
      destruct (attribute_q s1 (snd r) p l) as [present|] eqn:Hpr.
      + (* the attribute is present: its value is changed *)
        assert (Kp : has_kind s1 KAt present = true).
        { unfold attribute_q in Hpr. apply find_some in Hpr. destruct Hpr as [_ Hq].
          apply andb_true_iff in Hq. tauto. }
        pose proof (H_sv s1 present value T1 Kp) as T2.
        destruct (set_values s1 present value) as [s2 [|]]; exact T2.
      + pose proof (H_sv s1 (next s) value T1 Ka) as T2.
        destruct (set_values s1 (next s) value) as [s2 [|]]; cbn [fst] in *; [|exact T2].
        pose proof (H_san w (fst r) s2 (snd r) (fst r, next s) T2) as T3.
        destruct (dom_set_attribute_node w (fst r) s2 (snd r) (fst r, next s)) as [s3 oc]. cbn [fst] in T3.
        destruct oc; exact T3.
    - (* SetAttributeNode *)
      destruct (attr_local w a) as [nm|]; [|exact Hw]. apply on_element_P; [exact Hw|]. intros s T _.
      apply H_san. exact T.
    - (* RemoveAttribute *)
      apply on_element_P; [exact Hw|]. intros s T _. cbn [fst]. apply H_ra. exact T.
    - (* RemoveAttributeNode *)
      destruct (attr_q w a) as [[p l]|]; [|exact Hw]. apply on_element_P; [exact Hw|]. intros s T _.
      destruct (attribute_q s (snd r) p l) as [f|]; [|exact T].
      destruct ((f =? snd a) && (fst a =? fst r)); cbn [fst]; [apply H_ra; exact T | exact T].
    - (* SetNamedItem *)
      destruct (attr_local w a) as [nm|]; [|exact Hw]. apply on_element_P; [exact Hw|]. intros s T _.
      apply H_san. exact T.
    - (* RemoveNamedItem *)
      apply on_element_P; [exact Hw|]. intros s T _.
      destruct (get_attribute_node s (snd r) name); cbn [fst]; [apply H_ra; exact T | exact T].
    - (* CreateElement *)
      apply on_document_P; [exact Hw|]. intros s T. destruct (n_elem name) as [[p l]|]; [|exact T].
      apply factory_P; try reflexivity; [exact T | discriminate].
    - (* CreateAttribute *)
      apply on_document_P; [exact Hw|]. intros s T. destruct (n_attr name) as [[p l]|]; [|exact T].
      apply factory_P; try reflexivity; [exact T | discriminate].
    - (* CreateTextNode *)
      apply on_document_P; [exact Hw|]. intros s T. destruct (valid_str KTx (d_str data)); [|exact T].
      apply factory_P; try reflexivity; [exact T | discriminate].
    - (* CreateComment *)
      apply on_document_P; [exact Hw|]. intros s T. destruct (valid_str KCm (d_str data)); [|exact T].
      apply factory_P; try reflexivity; [exact T | discriminate].
    - (* CreateCDataSection *)
      apply on_document_P; [exact Hw|]. intros s T. destruct (valid_str KCd (d_str data)); [|exact T].
      apply factory_P; try reflexivity; [exact T | discriminate].
    - (* CreateProcessingInstruction *)
      apply on_document_P; [exact Hw|]. intros s T.
      destruct (n_pi target) as [t|]; [|exact T]. destruct (d_pi data) as [[c|]|]; try exact T;
        (apply factory_P; try reflexivity; [exact T | discriminate]).
    - (* CreateEntityReference *)
      apply on_document_P; [exact Hw|]. intros s T. destruct (n_ref name); [|exact T].
      destruct (entity_declared s (n_str name)); [|exact T].
      apply factory_P; try reflexivity; [exact T | discriminate].
    - (* CreateDocumentFragment *)
      apply on_document_P; [exact Hw|]. intros s T. apply factory_P; try reflexivity; [exact T | discriminate].
    - (* SetNodeValue *)
      apply on_node_P; [exact Hw|]. intros s k T K. destruct k; try exact T.
      + pose proof (H_sv s (snd r) v T) as H. rewrite has_kind_kind_of, K in H. specialize (H eq_refl).
        destruct (set_values s (snd r) v) as [s1 [|]]; exact H.
      + apply H_rd. exact T.
      + apply H_rd. exact T.
      + apply H_pi. exact T.
      + apply H_rd. exact T.
    - (* SetData *)
      apply on_node_P; [exact Hw|]. intros s k T _. destruct (chardata k); [apply H_rd; exact T | exact T].
    - (* AppendData *)
      apply on_node_P; [exact Hw|]. intros s k T _. destruct (chardata k); [apply H_id; exact T | exact T].
    - (* InsertData *)
      apply on_node_P; [exact Hw|]. intros s k T _. destruct (chardata k); [apply H_id; exact T | exact T].
    - (* DeleteData *)
      apply on_node_P; [exact Hw|]. intros s k T _. destruct (chardata k); [apply H_dd; exact T | exact T].
    - (* ReplaceData *)
      apply on_node_P; [exact Hw|]. intros s k T _. destruct (chardata k); [apply H_rd; exact T | exact T].
    - (* SplitText *)
      apply on_node_P; [exact Hw|]. intros s k T _. destruct k; try exact T; apply H_st; exact T.
    - (* PISetData *)
      apply on_node_P; [exact Hw|]. intros s k T _. destruct k; try exact T. apply H_pi. exact T.
    - (* Query *)
      exact Hw.
  Qed.

  Theorem run_P ops : forall w, WP w -> WP (run w ops).
  Proof.
    induction ops as [|o t IH]; intros w Hw; cbn; [exact Hw|].
    apply IH. apply step_P. exact Hw.
  Qed.
End Generic.

(** * The tree invariant is preserved by every operation *)
Definition WInv (w : world) : Prop := WP TreeInv w.

Theorem step_inv w o : WInv w -> WInv (fst (step w o)).
Proof.
  apply (step_P TreeInv); intros.
  - apply info_insert_before_inv; assumption.
  - apply info_append_inv; assumption.
  - apply info_delete_inv; assumption.
  - apply remove_attrs_inv; assumption.
  - apply dom_set_attribute_node_inv; assumption.
  - apply set_values_inv; assumption.
  - apply create_tree_inv; assumption.
  - apply replace_data_inv; assumption.
  - apply insert_data_inv; assumption.
  - apply delete_data_inv; assumption.
  - apply pi_set_inv; assumption.
  - apply split_text_inv; assumption.
Qed.

Theorem run_inv ops w : WInv w -> WInv (run w ops).
Proof.
  apply (run_P TreeInv); intros.
  - apply info_insert_before_inv; assumption.
  - apply info_append_inv; assumption.
  - apply info_delete_inv; assumption.
  - apply remove_attrs_inv; assumption.
  - apply dom_set_attribute_node_inv; assumption.
  - apply set_values_inv; assumption.
  - apply create_tree_inv; assumption.
  - apply replace_data_inv; assumption.
  - apply insert_data_inv; assumption.
  - apply delete_data_inv; assumption.
  - apply pi_set_inv; assumption.
  - apply split_text_inv; assumption.
Qed.
