(** * Model of xpath/examples/xe.rs (`replace`, `clear_child`, `append_child`,
    `append_child_to_tree`) on top of the abstract trees of Spec/XeSpec.v.

    The tool walks the selected nodes in the order the query returned them and edits each
    one IN PLACE (clear the children, append the converted replacement).  A selected node
    that lies below an earlier selected node has been detached by then: editing it has no
    effect on the printed document, but its errors still end the run.  Nodes are identified
    by the pre-order identifiers of the dump, as in the implementation they are identified
    by `Rc` pointers.  Where the tool's behaviour depends on library features this model
    does not carry (prefixed names and namespace declarations in the replacement: defect D48)
    the outcome is [Unmodelled] and the correspondence skips the case. *)
From Coq Require Import List NArith Bool Arith.
From XmlRs Require Import Base.CPred Spec.XeSpec.
Import ListNotations.
Local Open Scope nat_scope.

Inductive kind := KDoc | KElem | KAttr | KOther.

Inductive outcome :=
| Done (d : xdoc)        (* exit 0, this document printed *)
| Refused                (* error message, exit 1, nothing printed *)
| Unmodelled.

Definition has_colon (s : str) : bool := existsb (N.eqb 58%N) s.

(** `append_child_to_tree` on an element or document receiver: the node it creates *)
Inductive cres := CNode (n : xn) | CRefused | CUnmodelled.

Fixpoint conv_model (f : fnode) : cres :=
  match f with
  | FT s => CNode (T s)
  | FCd s => CNode (T s)
  | FC s => CNode (Cm s)
  | FP _ _ => CRefused                               (* "Not supported XML node type." *)
  | FR name => match predefined name with
               | Some c => CNode (T [c])
               | None => CRefused                    (* create_entity_reference refuses: InvalidCharacterErr *)
               end
  | FE name attrs ch =>
      if has_colon name || existsb (fun a => has_colon (fst a)) attrs then CUnmodelled
      else
        match (fix go (l : list fnode) : option (option (list xn)) :=
                 match l with
                 | [] => Some (Some [])
                 | c :: r => match conv_model c with
                             | CRefused => Some None
                             | CUnmodelled => None
                             | CNode n => match go r with
                                          | Some (Some l') => Some (Some (n :: l'))
                                          | x => x
                                          end
                             end
                 end) ch with
        | None => CUnmodelled
        | Some None => CRefused
        | Some (Some ch') => CNode (E 0 name (map (fun a => (0, fst a, snd a)) attrs) (merge_text ch'))
        end
  | FX => CRefused
  end.

(** the whole replacement, stopping at the first child the tool refuses (children before it
    have been appended already, but a refusal ends the run without output) *)
Fixpoint conv_list (frag : list fnode) : option (option (list xn)) :=
  match frag with
  | [] => Some (Some [])
  | c :: r => match conv_model c with
              | CRefused => Some None
              | CUnmodelled => None
              | CNode n => match conv_list r with
                           | Some (Some l') => Some (Some (n :: l'))
                           | x => x
                           end
              end
  end.

(** an attribute receiver accepts text and references only *)
Fixpoint attr_text (frag : list fnode) : option str :=
  match frag with
  | [] => Some []
  | FT s :: r => option_map (app s) (attr_text r)
  | FR name :: r => match predefined name with
                    | Some c => option_map (cons c) (attr_text r)
                    | None => None
                    end
  | _ => None
  end.

(** in-place edit of the node with identifier [i], wherever it is; no effect when absent *)
Definition set_attr (i : nat) (v : str) (attrs : list (nat * str * str)) : list (nat * str * str) :=
  map (fun a => let '(j, n, w) := a in if Nat.eqb i j then (j, n, v) else a) attrs.

Fixpoint edit_elem (i : nat) (new : list xn) (n : xn) : xn :=
  match n with
  | E j name attrs ch => if Nat.eqb i j then E j name attrs new
                         else E j name attrs (map (edit_elem i new) ch)
  | other => other
  end.

Fixpoint edit_attr (i : nat) (v : str) (n : xn) : xn :=
  match n with
  | E j name attrs ch => E j name (set_attr i v attrs) (map (edit_attr i v) ch)
  | other => other
  end.

(** after the loop the tool refuses to print a document without a document element *)
Definition finish (d : xdoc) : outcome :=
  if existsb is_elem (dchildren d) then Done d else Refused.

Fixpoint xe_loop (d : xdoc) (sel : list (nat * kind)) (frag : list fnode) : outcome :=
  match sel with
  | [] => finish d
  | (i, k) :: rest =>
    match k with
    | KOther => Refused
    | KElem =>
        match conv_list frag with
        | None => Unmodelled
        | Some None => Refused
        | Some (Some new) =>
            xe_loop {| did := did d; dchildren := map (edit_elem i (merge_text new)) (dchildren d) |} rest frag
        end
    | KAttr =>
        match attr_text frag with
        | None => Refused
        | Some v => xe_loop {| did := did d; dchildren := map (edit_attr i v) (dchildren d) |} rest frag
        end
    | KDoc =>
        match conv_list frag with
        | None => Unmodelled
        | Some None => Refused
        | Some (Some new) =>
            (* the document accepts comments, PIs and one element; anything else is refused *)
            if forallb (fun n => match n with E _ _ _ _ | Cm _ | P _ _ => true | _ => false end) new
               && Nat.leb (length (filter is_elem new)) 1
            then xe_loop {| did := did d; dchildren := new |} rest frag
            else Refused
        end
    end
  end.

Definition xe_model (d : xdoc) (sel : list (nat * kind)) (frag : list fnode) : outcome :=
  xe_loop d sel frag.

(** xq prints each selected node's serialisation followed by a newline *)
Definition xq_model (lines : list str) : str := concat (map (fun l => l ++ [10%N]) lines).
