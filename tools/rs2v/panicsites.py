#!/usr/bin/env python3
"""Translator T4: inventory of the places where the non-test code of the parsing / infoset /
DOM crates can panic, regenerated from the Rust sources on every run.

    panicsites.py [REPO] [OUT.v]

scans  info/src/lib.rs  dom/src/lib.rs  parser/src/*.rs  nom/src/*.rs  (items under
`#[cfg(test)]` and `#[cfg(feature = "verif")]` are skipped) and lists every

    unwrap      `.unwrap()`                      expect      `.expect(`
    unimplemented / todo / unreachable / panic   the macros
    index       `expr[...]` (slice / vector / map indexing, incl. range slicing)
    as_usize    `as usize`
    borrow_mut  `.borrow_mut()` (RefCell: panics when the cell is already borrowed)

as (file, function, kind, ordinal): `function` is the enclosing `fn`, qualified by the type of
its `impl` block (`Type::f`, `Type as Trait::f`, `trait Trait::f`, `outer/inner` for nested
functions); `ordinal` counts the sites of that kind in that function, in source order.
Output: coq/theories/Gen/PanicSitesGen.v, `sites_gen : list site`, compared by
Properties/C03.v (`panic_sites_classified`) with the hand-classified table Model/PanicSites.v,
so that a new, moved or vanished site breaks the tie.

A token scan with brace matching, deliberately simple; on a construct it cannot attribute to a
function it stops with `T4-ERROR: file:line` and exit status 2."""
import os, sys
sys.path.insert(0, os.path.dirname(os.path.abspath(__file__)))
from rustlex import lex, LexError

MACROS = ('unimplemented', 'todo', 'unreachable', 'panic')

class T4Error(Exception):
    pass

def skip_attr_item(toks, i):
    """toks[i] == '#': returns (is_skipped_cfg, index after the attribute)"""
    j = i + 1
    if toks[j].text == '!':
        j += 1
    if toks[j].text != '[':
        raise T4Error(toks[i].line)
    depth, k = 0, j
    while True:
        if toks[k].text == '[': depth += 1
        elif toks[k].text == ']':
            depth -= 1
            if depth == 0: break
        k += 1
    inner = [t.text for t in toks[j + 1:k]]
    skipped = inner[:2] == ['cfg', '('] and ('test' in inner or ('feature' in inner and '"verif"' in inner))
    return skipped, k + 1

def skip_item(toks, i):
    """skip one item starting at toks[i] (after its attributes): up to the matching `}` of its
    first top-level brace block, or to `;` if that comes first"""
    depth = 0
    while i < len(toks):
        t = toks[i].text
        if t in '([': depth += 1
        elif t in ')]': depth -= 1
        elif t == ';' and depth == 0:
            return i + 1
        elif t == '{' and depth == 0:
            d = 0
            while True:
                if toks[i].text == '{': d += 1
                elif toks[i].text == '}':
                    d -= 1
                    if d == 0: return i + 1
                i += 1
        i += 1
    return i

def impl_name(header):
    """tokens between `impl` and `{` -> 'Type' or 'Type as Trait'"""
    words, depth = [], 0
    for t in header:
        if t.text == '<': depth += 1
        elif t.text == '>': depth -= 1
        elif t.text == '>>': depth -= 2
        elif t.text == 'where' and depth == 0: break
        elif depth == 0 and (t.kind == 'id' or t.text == '::'):
            words.append(t.text)
    # drop generics introducer
    s = ' '.join(w for w in words if w not in ('impl',))
    s = s.replace(' :: ', '::')
    if ' for ' in s:
        tr, ty = s.split(' for ', 1)
        return '%s as %s' % (ty.strip(), tr.strip())
    return s.strip()

def scan_file(path, rel):
    try:
        toks = lex(open(path, encoding='utf-8').read())
    except LexError as ex:
        raise T4Error('%s: %s' % (rel, ex))
    sites = []
    counters = {}
    # stack of (kind, name, brace_depth_at_open)
    stack = []
    depth = 0
    i, n = 0, len(toks)
    pending = None   # (kind, name) of an item whose `{` has not been seen yet
    def cur_fn():
        names = [nm for k, nm, _ in stack if k == 'fn']
        if not names:
            return None
        ctx = [nm for k, nm, _ in stack if k in ('impl', 'trait')]
        q = '/'.join(names)
        return (ctx[-1] + '::' + q) if ctx else q
    def add(kind, line):
        f = cur_fn()
        if f is None:
            # const / static initialisers etc.: nothing of the kind exists today
            raise T4Error('%s:%d: %s outside any function' % (rel, line, kind))
        key = (f, kind)
        counters[key] = counters.get(key, 0) + 1
        sites.append((rel, f, kind, counters[key], line))
    while i < n:
        t = toks[i]
        x = t.text
        if x == '#' and i + 1 < n and toks[i + 1].text in ('[', '!'):
            try:
                skipped, j = skip_attr_item(toks, i)
            except IndexError:
                raise T4Error('%s:%d: unterminated attribute' % (rel, t.line))
            if skipped:
                # further attributes, then the item itself
                while toks[j].text == '#':
                    _, j = skip_attr_item(toks, j)
                i = skip_item(toks, j)
            else:
                i = j
            continue
        if t.kind == 'id' and x in ('impl', 'trait', 'fn', 'mod') and not (i > 0 and toks[i - 1].text in ('.', '::')):
            if x == 'fn':
                if i + 1 < n and toks[i + 1].kind == 'id':
                    pending = ('fn', toks[i + 1].text); i += 2; continue
                # `fn(` type
                i += 1; continue
            if x == 'impl':
                # `impl Trait` in argument / return position is followed by no block before `)`/`,`/`{` of a fn:
                # an impl ITEM is at item position: previous token is `}`, `;`, `]` or start, or `unsafe`
                prev = toks[i - 1].text if i else ''
                if prev in ('', '}', ';', ']', 'unsafe') or (i and toks[i - 1].kind == 'id' and toks[i - 1].text in ('unsafe', 'default')):
                    j = i + 1
                    d = 0
                    while toks[j].text != '{' or d:
                        if toks[j].text in '([': d += 1
                        elif toks[j].text in ')]': d -= 1
                        j += 1
                    pending = ('impl', impl_name(toks[i + 1:j]))
                    i = j; continue
                i += 1; continue
            if x == 'trait' and toks[i + 1].kind == 'id':
                pending = ('trait', 'trait ' + toks[i + 1].text); i += 2; continue
            if x == 'mod' and toks[i + 1].kind == 'id':
                if toks[i + 2].text == '{':
                    pending = ('mod', toks[i + 1].text)
                i += 2; continue
        if x == '{':
            depth += 1
            if pending:
                stack.append((pending[0], pending[1], depth)); pending = None
            i += 1; continue
        if x == '}':
            if stack and stack[-1][2] == depth:
                stack.pop()
            depth -= 1
            if depth < 0:
                raise T4Error('%s:%d: unbalanced braces' % (rel, t.line))
            i += 1; continue
        if x == ';' and pending and pending[0] == 'fn':
            pending = None        # trait method declaration without body
            i += 1; continue
        # ---- sites
        if x == '.' and i + 3 < n and toks[i + 1].text == 'unwrap' and toks[i + 2].text == '(' and toks[i + 3].text == ')':
            add('unwrap', t.line); i += 4; continue
        if x == '.' and i + 2 < n and toks[i + 1].text == 'expect' and toks[i + 2].text == '(':
            add('expect', t.line); i += 3; continue
        if x == '.' and i + 3 < n and toks[i + 1].text == 'borrow_mut' and toks[i + 2].text == '(' and toks[i + 3].text == ')':
            add('borrow_mut', t.line); i += 4; continue
        if t.kind == 'id' and x in MACROS and i + 1 < n and toks[i + 1].text == '!':
            add(x, t.line); i += 2; continue
        if t.kind == 'id' and x == 'as' and i + 1 < n and toks[i + 1].text == 'usize':
            add('as_usize', t.line); i += 2; continue
        if x == '[' and i > 0:
            p = toks[i - 1]
            # indexing: `[` directly after an expression end (identifier that is not a keyword, `)`, `]`, `?`)
            is_expr_end = (p.kind == 'id' and p.text not in ('in', 'return', 'mut', 'let', 'else', 'match', 'if', 'as', 'move', 'ref', 'const', 'static', 'dyn', 'impl', 'where', 'for', 'while', 'loop', 'break', 'box')) \
                or p.text in (')', ']', '?')
            if is_expr_end and stack and cur_fn() is not None and not (p.kind == 'id' and i > 1 and toks[i - 2].text == '!'):
                # `vec![`, `matches!(` etc. are macros: `name ! [`; attributes `#[` were handled above
                if not (p.text == '!' ):
                    add('index', t.line)
        i += 1
    if depth != 0:
        raise T4Error('%s: unbalanced braces at end of file' % rel)
    return sites

def files(repo):
    out = ['info/src/lib.rs', 'dom/src/lib.rs']
    for d in ('parser/src', 'nom/src'):
        for fn in sorted(os.listdir(os.path.join(repo, d))):
            if fn.endswith('.rs'):
                out.append('%s/%s' % (d, fn))
    return out

def scan(repo):
    sites = []
    for rel in files(repo):
        sites += scan_file(os.path.join(repo, rel), rel)
    return sites

KINDS = ['unwrap', 'expect', 'unimplemented', 'todo', 'unreachable', 'panic', 'index', 'as_usize', 'borrow_mut']

def emit(sites):
    lines = ['(* GENERATED by tools/rs2v/panicsites.py (translator T4) -- do not edit *)',
             'From Coq Require Import List String.', 'From XmlRs Require Import Base.PanicSite.',
             'Import ListNotations.', 'Open Scope string_scope.', '',
             'Definition sites_gen : list site := [']
    rows = []
    for rel, f, kind, k, line in sites:
        rows.append('  Site "%s" "%s" K_%s %d' % (rel, f.replace('"', "'"), kind, k))
    lines.append(';\n'.join(rows))
    lines.append('].')
    return '\n'.join(lines) + '\n'

def write_if_changed(path, text):
    try:
        if open(path).read() == text:
            return False
    except OSError:
        pass
    with open(path, 'w') as f:
        f.write(text)
    return True

if __name__ == '__main__':
    repo = sys.argv[1] if len(sys.argv) > 1 else '/repo'
    here = os.path.dirname(os.path.abspath(__file__))
    outp = sys.argv[2] if len(sys.argv) > 2 else os.path.join(here, '../../coq/theories/Gen/PanicSitesGen.v')
    try:
        sites = scan(repo)
    except T4Error as ex:
        print('T4-ERROR: %s' % ex)
        sys.exit(2)
    except Exception as ex:
        print('T4-ERROR: %s' % ex)
        sys.exit(2)
    if outp == '-':
        for s in sites:
            print('%s\t%s\t%s\t%d\tline %d' % s)
    else:
        write_if_changed(outp, emit(sites))
        import json
        write_if_changed(outp[:-2] + '.json', json.dumps([{'file': a, 'fn': b, 'kind': c, 'ordinal': d, 'line': e} for a, b, c, d, e in sites], indent=0))
    by = {}
    for s in sites:
        by[s[2]] = by.get(s[2], 0) + 1
    print('T4 ok: %d sites (%s)' % (len(sites), ', '.join('%s %d' % (k, by[k]) for k in KINDS if k in by)))
