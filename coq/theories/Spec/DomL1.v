(** * DOM Level 1 Core as an executable abstract machine (property C13)

    Transcribed from "Document Object Model (DOM) Level 1 Specification" (REC-DOM-Level-1-19981001),
    section 1.2: interfaces Node, Document, Element, Attr, NamedNodeMap, CharacterData, Text,
    ProcessingInstruction.  Independent of /repo: nothing here mentions order keys, registries,
    reference counts or the info crate.

    The state is a heap of DOM [Node] objects, one table per [Document]; every object has exactly
    the attributes the recommendation gives it: nodeType, nodeName, nodeValue, parentNode,
    childNodes, attributes (plus, for an Attr, the element it is an attribute of -- not exposed by
    Level 1 but needed to state INUSE_ATTRIBUTE_ERR; and for a DocumentType the names of its
    entities).  [dom_step] gives, per mutator, the effect the recommendation specifies and the
    exception of each failure mode.  A raised exception leaves the state as it was (by
    construction: [raise]).

    READINGS (DESIGN 7.3; every departure from the letter of Level 1 is listed here):
    R1  Where Level 1 is silent the answer is [AUnspecified]: the state component of the answer
        is then ONE admissible result, the unchanged state is the other, and only "no panic, one
        of the two" is required.  Cases: [insertBefore(x, x)], [replaceChild(x, x)],
        [setAttributeNode(a)] when [a] already is an attribute of the receiver, [splitText] of a
        node without parent, and by-name attribute lookups that are ambiguous because of
        namespace prefixes (the name equals the local part of a prefixed attribute, or of several).
    R2  Several exceptions may apply to one call and Level 1 does not order them.  The machine
        tests, in this order: the receiver cannot have children (HIERARCHY_REQUEST_ERR), another
        document (WRONG_DOCUMENT_ERR), the reference child is not a child (NOT_FOUND_ERR),
        ancestor / kind / cardinality (HIERARCHY_REQUEST_ERR).  A node argument created by another
        document raises WRONG_DOCUMENT_ERR in every method that takes a node; a Document node
        passed as an argument was created by no document.
    R3  Names are the names of "Namespaces in XML" (the parser is namespace aware): element and
        attribute names are QNames.
    R4  A DOMString that cannot be the content of the node in any XML document (["<"] in a Text,
        ["--"] in a Comment ...) is outside Level 1.  Property C15 asks that it be either stored
        so that it survives serialisation or refused.  The machine refuses ([Refused], no DOM
        code prescribed) exactly when the RESULTING content is not storable ([storable] of
        Spec/DomCharData.v), and stores otherwise.  The value of an attribute is given in the
        syntax of an attribute value literal: references are recognised ([parse_attvalue]).
    R5  A DocumentType can only enter a Document that has neither a document type nor a document
        element (Level 1 has no factory for it; the document type declaration precedes the root).
    R6  The Rust API does not offer every method on every node type (EntityReference,
        DocumentType, DocumentFragment have no NodeMut; only Text and CDATASection have splitText
        ...).  Such calls cannot be written; the machine answers [ANotOffered].
    R7  [Element.normalize] ("no adjacent Text nodes") and reading R4: two adjacent Text nodes whose
        concatenation cannot be the content of a Text node ("]]" in front of ">") cannot become one
        node.  The machine leaves such a pair apart and goes on from the second node; every other
        pair of adjacent Text nodes is joined ([dom_normalize], at the end of this file). *)
From Coq Require Import List NArith Bool.
From XmlRs Require Import Base.CPred Base.NList Spec.XmlChars Spec.DomCharData.
Import ListNotations.
Open Scope N_scope.

(** ** Nodes *)
Definition nid := (N * N)%type.          (* (document that created the node, number) *)

Inductive ntype :=
| TElement | TAttr | TText | TCData | TEntityRef
| TCharRef          (* an EntityReference node standing for a character reference *)
| TPi | TComment | TDocument | TDoctype | TFragment.

Definition ntype_eqb (a b : ntype) : bool :=
  match a, b with
  | TElement, TElement | TAttr, TAttr | TText, TText | TCData, TCData | TEntityRef, TEntityRef
  | TCharRef, TCharRef | TPi, TPi | TComment, TComment | TDocument, TDocument | TDoctype, TDoctype
  | TFragment, TFragment => true
  | _, _ => false
  end.

Record anode := mkNode {
  n_type : ntype;
  n_name : str;              (* tag name, attribute name, PI target, entity name, "#65"; empty otherwise *)
  n_value : str;             (* data of Text / Comment / CDATASection / PI; the character of a character reference *)
  n_parent : option N;       (* parentNode; for an Attr the element it is an attribute of *)
  n_children : list N;       (* childNodes (for an Attr: the nodes of its value) *)
  n_attrs : list N;          (* attributes (NamedNodeMap of an Element) *)
  n_entities : list (str * bool)   (* DocumentType.entities: name, and whether a reference to it may appear in an attribute value *)
}.

Definition set_parent (p : option N) (n : anode) : anode :=
  mkNode (n_type n) (n_name n) (n_value n) p (n_children n) (n_attrs n) (n_entities n).
Definition set_children (l : list N) (n : anode) : anode :=
  mkNode (n_type n) (n_name n) (n_value n) (n_parent n) l (n_attrs n) (n_entities n).
Definition set_attrs (l : list N) (n : anode) : anode :=
  mkNode (n_type n) (n_name n) (n_value n) (n_parent n) (n_children n) l (n_entities n).
Definition set_value (v : str) (n : anode) : anode :=
  mkNode (n_type n) (n_name n) v (n_parent n) (n_children n) (n_attrs n) (n_entities n).

Definition fresh_node (t : ntype) (name value : str) : anode := mkNode t name value None [] [] [].

(** ** One document: the table of the nodes it created, and its Document node *)
Record adoc := mkDoc { d_nodes : list (option anode); d_root : N }.
Definition adom := list adoc.

Fixpoint set_nth {A} (n : nat) (x : A) (l : list A) : list A :=
  match n, l with
  | O, _ :: t => x :: t
  | S m, y :: t => y :: set_nth m x t
  | _, [] => []
  end.

Definition node (d : adoc) (i : N) : option anode :=
  match nth_error (d_nodes d) (N.to_nat i) with Some (Some n) => Some n | _ => None end.
Definition set_node (d : adoc) (i : N) (n : anode) : adoc :=
  mkDoc (set_nth (N.to_nat i) (Some n) (d_nodes d)) (d_root d).
Definition upd_node (d : adoc) (i : N) (f : anode -> anode) : adoc :=
  match node d i with Some n => set_node d i (f n) | None => d end.
(** a factory: the new node gets the next unused number of the document *)
Definition new_node (d : adoc) (n : anode) : N * adoc :=
  (len (d_nodes d), mkDoc (d_nodes d ++ [Some n]) (d_root d)).

Definition doc_of (a : adom) (k : N) : option adoc := nth_error a (N.to_nat k).
Definition set_doc (a : adom) (k : N) (d : adoc) : adom := set_nth (N.to_nat k) d a.
Definition aget (a : adom) (n : nid) : option anode :=
  match doc_of a (fst n) with Some d => node d (snd n) | None => None end.

Definition type_of (d : adoc) (i : N) : option ntype := option_map n_type (node d i).
Definition children (d : adoc) (i : N) : list N := match node d i with Some n => n_children n | None => [] end.
Definition attrs (d : adoc) (i : N) : list N := match node d i with Some n => n_attrs n | None => [] end.
Definition parent (d : adoc) (i : N) : option N := match node d i with Some n => n_parent n | None => None end.
Definition name_of (d : adoc) (i : N) : str := match node d i with Some n => n_name n | None => [] end.
Definition has_type (d : adoc) (t : ntype) (i : N) : bool :=
  match node d i with Some n => ntype_eqb (n_type n) t | None => false end.

Definition memN (x : N) (l : list N) : bool := existsb (N.eqb x) l.
Definition remove_id (x : N) (l : list N) : list N := filter (fun y => negb (y =? x)) l.
Fixpoint insert_before_id (x ref : N) (l : list N) : list N :=
  match l with
  | [] => [x]
  | y :: t => if y =? ref then x :: y :: t else y :: insert_before_id x ref t
  end.

Fixpoint str_eqb (a b : str) : bool :=
  match a, b with
  | [], [] => true
  | x :: a', y :: b' => (x =? y) && str_eqb a' b'
  | _, _ => false
  end.

(** ** Outcomes *)
Inductive aexc :=
| Dom (e : exc)      (* an ExceptionCode of DOM Level 1 *)
| Refused.           (* the string cannot be stored (reading R4); no code prescribed *)

Inductive aret := AUnit | ANull | ANode (n : nid).

Inductive aoutcome :=
| ADone (r : aret)
| ARaised (e : aexc)
| AUnspecified       (* reading R1 *)
| ANotOffered        (* reading R6, or a node that does not exist *)
| APanicked.         (* never an answer of [dom_step]: the class of a call that does not return *)

Definition raise (a : adom) (e : exc) : adom * aoutcome := (a, ARaised (Dom e)).
Definition refuse (a : adom) : adom * aoutcome := (a, ARaised Refused).

(** ** Node.insertBefore / appendChild / replaceChild / removeChild *)

(** "If the newChild is already in the tree, it is first removed." *)
Definition detach (d : adoc) (x : N) : adoc :=
  match parent d x with
  | Some p => upd_node (upd_node d p (fun pn => set_children (remove_id x (n_children pn)) pn)) x (set_parent None)
  | None => d
  end.

(** "Inserts the node newChild before the existing child node refChild.  If refChild is null,
    insert newChild at the end of the list of children." *)
Definition attach (d : adoc) (r x : N) (ref : option N) : adoc :=
  let d1 := upd_node d x (set_parent (Some r)) in
  upd_node d1 r (fun rn =>
    set_children (match ref with
                  | Some f => insert_before_id x f (n_children rn)
                  | None => n_children rn ++ [x]
                  end) rn).

(** [target] is [start] or one of its ancestors *)
Fixpoint up_to (fuel : nat) (d : adoc) (start : option N) (target : N) : bool :=
  match fuel with
  | O => false
  | S f =>
    match start with
    | None => false
    | Some p => if p =? target then true
                else match node d p with Some pn => up_to f d (n_parent pn) target | None => false end
    end
  end.
Definition self_or_ancestor (d : adoc) (r x : N) : bool := up_to (S (length (d_nodes d))) d (Some r) x.

(** The structure model (section 1.1.1): which node types may be children of which *)
Definition child_allowed (p c : ntype) : bool :=
  match p, c with
  | TDocument, (TElement | TPi | TComment | TDoctype) => true
  | TElement, (TElement | TText | TComment | TPi | TCData | TEntityRef | TCharRef) => true
  | TAttr, (TText | TEntityRef | TCharRef) => true
  | _, _ => false
  end.

(** nodes that can have children at all *)
Definition can_have_children (t : ntype) : bool :=
  match t with TDocument | TElement | TAttr => true | _ => false end.

Definition others_of_type (d : adoc) (r : N) (t : ntype) (except : list N) : bool :=
  existsb (fun c => has_type d t c && negb (memN c except)) (children d r).

(** "Document -- Element (maximum of one), ProcessingInstruction, Comment, DocumentType";
    [leaving]: children that the call itself takes out of the list (the node being moved, the
    node being replaced).  Reading R5 for the DocumentType. *)
Definition cardinality_ok (d : adoc) (r : N) (rt ct : ntype) (leaving : list N) : bool :=
  match rt, ct with
  | TDocument, TElement => negb (others_of_type d r TElement leaving)
  | TDocument, TDoctype => negb (others_of_type d r TDoctype leaving) && negb (others_of_type d r TElement leaving)
  | _, _ => true
  end.

(** HIERARCHY_REQUEST_ERR: "Raised if this node is of a type that does not allow children of the
    type of the newChild node, or if the node to insert is one of this node's ancestors" (or the
    node itself) *)
Definition hierarchy_ok (d : adoc) (r x : N) (rt xt : ntype) (leaving : list N) : bool :=
  negb (self_or_ancestor d r x) && child_allowed rt xt && cardinality_ok d r rt xt leaving.

(** WRONG_DOCUMENT_ERR: "Raised if newChild was created from a different document than the one
    that created this node" (reading R2 for a Document node) *)
Definition wrong_document (a : adom) (r x : nid) : bool :=
  match aget a x with
  | Some xn => ntype_eqb (n_type xn) TDocument || negb (fst x =? fst r)
  | None => true
  end.

(** the methods of the Rust API (reading R6) *)
Definition offers_node_mut (t : ntype) : bool :=
  match t with TDocument | TElement | TAttr | TText | TCData | TPi | TComment => true | _ => false end.
Definition offers_chardata (t : ntype) : bool :=
  match t with TText | TCData | TComment => true | _ => false end.
Definition offers_split (t : ntype) : bool :=
  match t with TText | TCData => true | _ => false end.

Definition exists_node (a : adom) (n : nid) : bool := match aget a n with Some _ => true | None => false end.

(** insertBefore (refChild given) and appendChild (refChild null) *)
Definition insert_before (a : adom) (r n : nid) (ref : option nid) : adom * aoutcome :=
  match doc_of a (fst r), aget a r, aget a n with
  | Some d, Some rn, Some nn =>
    if negb (offers_node_mut (n_type rn)) then (a, ANotOffered)
    else if negb (can_have_children (n_type rn)) then raise a HierarchyRequestErr
    else if wrong_document a r n then raise a WrongDocumentErr
    else
      let go (f : option N) :=
        if negb (hierarchy_ok d (snd r) (snd n) (n_type rn) (n_type nn) [snd n]) then raise a HierarchyRequestErr
        else match f with
             | Some fi => if fi =? snd n then (a, AUnspecified)     (* insertBefore(x, x): reading R1 *)
                          else (set_doc a (fst r) (attach (detach d (snd n)) (snd r) (snd n) f), ADone (ANode n))
             | None => (set_doc a (fst r) (attach (detach d (snd n)) (snd r) (snd n) None), ADone (ANode n))
             end in
      match ref with
      | Some f =>
        if wrong_document a r f then raise a WrongDocumentErr
        else if negb (memN (snd f) (n_children rn)) then raise a NotFoundErr
        else go (Some (snd f))
      | None => go None
      end
  | _, _, _ => (a, ANotOffered)
  end.

(** removeChild: "NOT_FOUND_ERR: Raised if oldChild is not a child of this node." *)
Definition remove_child (a : adom) (r o : nid) : adom * aoutcome :=
  match doc_of a (fst r), aget a r, aget a o with
  | Some d, Some rn, Some _ =>
    if negb (offers_node_mut (n_type rn)) then (a, ANotOffered)
    else if can_have_children (n_type rn) && wrong_document a r o then raise a WrongDocumentErr
    else if negb (memN (snd o) (n_children rn)) then raise a NotFoundErr
    else (set_doc a (fst r) (detach d (snd o)), ADone (ANode o))
  | _, _, _ => (a, ANotOffered)
  end.

(** replaceChild: "Replaces the child node oldChild with newChild in the list of children, and
    returns the oldChild node.  If the newChild is already in the tree, it is first removed." *)
Definition replace_child (a : adom) (r n o : nid) : adom * aoutcome :=
  match doc_of a (fst r), aget a r, aget a n, aget a o with
  | Some d, Some rn, Some nn, Some _ =>
    if negb (offers_node_mut (n_type rn)) then (a, ANotOffered)
    else if negb (can_have_children (n_type rn)) then raise a HierarchyRequestErr
    else if wrong_document a r n then raise a WrongDocumentErr
    else if wrong_document a r o then raise a WrongDocumentErr
    else if negb (memN (snd o) (n_children rn)) then raise a NotFoundErr
    else if negb (hierarchy_ok d (snd r) (snd n) (n_type rn) (n_type nn) [snd n; snd o]) then raise a HierarchyRequestErr
    else if snd n =? snd o
      then (set_doc a (fst r) (detach d (snd o)), AUnspecified)      (* replaceChild(x, x): reading R1 *)
      else (set_doc a (fst r) (detach (attach (detach d (snd n)) (snd r) (snd n) (Some (snd o))) (snd o)), ADone (ANode o))
  | _, _, _, _ => (a, ANotOffered)
  end.

(** ** Attributes (Element, NamedNodeMap) *)

(** the part of a qualified name after the colon *)
Definition local_part (s : str) : str :=
  match split_colon s with Some (_, l) => l | None => s end.

Definition named (d : adoc) (name : str) (i : N) : bool := str_eqb (name_of d i) name.
Definition local_named (d : adoc) (name : str) (i : N) : bool := str_eqb (local_part (name_of d i)) name.

(** by-name lookup of Level 1: the attributes whose nodeName is [name] *)
Definition attrs_named (d : adoc) (e : N) (name : str) : list N := filter (named d name) (attrs d e).
(** the other candidate reading once prefixes exist: the attributes whose local part is [name] *)
Definition attrs_local (d : adoc) (e : N) (name : str) : list N := filter (local_named d name) (attrs d e).

Fixpoint list_eqb (a b : list N) : bool :=
  match a, b with
  | [], [] => true
  | x :: a', y :: b' => (x =? y) && list_eqb a' b'
  | _, _ => false
  end.

(** the lookup is unambiguous (reading R1): both readings select the same attributes, at most one *)
Definition lookup_clear (d : adoc) (e : N) (name : str) : bool :=
  list_eqb (attrs_named d e name) (attrs_local d e name)
  && match attrs_named d e name with [] | [_] => true | _ => false end.

(** take the attributes [l] out of the map of [e] *)
Definition drop_attrs (d : adoc) (e : N) (l : list N) : adoc :=
  fold_left (fun acc x => upd_node acc x (set_parent None)) l
            (upd_node d e (fun en => set_attrs (filter (fun x => negb (memN x l)) (n_attrs en)) en)).

Definition add_attr (d : adoc) (e x : N) : adoc :=
  upd_node (upd_node d x (set_parent (Some e))) e (fun en => set_attrs (n_attrs en ++ [x]) en).

Definition ret_of (k : N) (l : list N) : aret := match l with x :: _ => ANode (k, x) | [] => ANull end.

(** Element.setAttributeNode / NamedNodeMap.setNamedItem: "If an attribute with that name is
    already present in the element, it is replaced by the new one."  WRONG_DOCUMENT_ERR;
    "INUSE_ATTRIBUTE_ERR: Raised if newAttr is already an attribute of another Element object." *)
Definition set_attribute_node (a : adom) (r x : nid) : adom * aoutcome :=
  match doc_of a (fst r), aget a r, aget a x with
  | Some d, Some rn, Some xn =>
    match n_type rn, n_type xn with
    | TElement, TAttr =>
      if negb (fst x =? fst r) then raise a WrongDocumentErr
      else match n_parent xn with
           | Some e => if e =? snd r then (a, AUnspecified) else raise a InuseAttributeErr
           | None =>
             let old := attrs_named d (snd r) (n_name xn) in
             (set_doc a (fst r) (add_attr (drop_attrs d (snd r) old) (snd r) (snd x)),
              ADone (ret_of (fst r) old))
           end
    | _, _ => (a, ANotOffered)
    end
  | _, _, _ => (a, ANotOffered)
  end.

(** Element.removeAttribute: "Removes an attribute by name." (no exception when there is none) *)
Definition remove_attribute (a : adom) (r : nid) (name : str) : adom * aoutcome :=
  match doc_of a (fst r), aget a r with
  | Some d, Some rn =>
    match n_type rn with
    | TElement =>
      if lookup_clear d (snd r) name
      then (set_doc a (fst r) (drop_attrs d (snd r) (attrs_named d (snd r) name)), ADone AUnit)
      else (set_doc a (fst r) (drop_attrs d (snd r) (attrs_local d (snd r) name)), AUnspecified)
    | _ => (a, ANotOffered)
    end
  | _, _ => (a, ANotOffered)
  end.

(** NamedNodeMap.removeNamedItem: "NOT_FOUND_ERR: Raised if there is no node named name in the map." *)
Definition remove_named_item (a : adom) (r : nid) (name : str) : adom * aoutcome :=
  match doc_of a (fst r), aget a r with
  | Some d, Some rn =>
    match n_type rn with
    | TElement =>
      if lookup_clear d (snd r) name
      then match attrs_named d (snd r) name with
           | x :: _ => (set_doc a (fst r) (drop_attrs d (snd r) [x]), ADone (ANode (fst r, x)))
           | [] => raise a NotFoundErr
           end
      else (set_doc a (fst r) (drop_attrs d (snd r) (attrs_local d (snd r) name)), AUnspecified)
    | _ => (a, ANotOffered)
    end
  | _, _ => (a, ANotOffered)
  end.

(** Element.removeAttributeNode: "NOT_FOUND_ERR: Raised if oldAttr is not an attribute of the element." *)
Definition remove_attribute_node (a : adom) (r x : nid) : adom * aoutcome :=
  match doc_of a (fst r), aget a r, aget a x with
  | Some d, Some rn, Some xn =>
    match n_type rn, n_type xn with
    | TElement, TAttr =>
      if (fst x =? fst r) && memN (snd x) (n_attrs rn)
      then (set_doc a (fst r) (drop_attrs d (snd r) [snd x]), ADone (ANode x))
      else raise a NotFoundErr
    | _, _ => (a, ANotOffered)
    end
  | _, _, _ => (a, ANotOffered)
  end.

(** ** Attribute values (reading R4): the literal of an attribute value *)
Inductive piece :=
| PText (t : str)
| PChar (name : str) (c : N)       (* "#65" / "#x41" and the character *)
| PEnt (name : str).

Definition is_digit (c : N) : bool := (48 <=? c) && (c <=? 57).
Definition hex_val (c : N) : option N :=
  if (48 <=? c) && (c <=? 57) then Some (c - 48)
  else if (65 <=? c) && (c <=? 70) then Some (c - 55)
  else if (97 <=? c) && (c <=? 102) then Some (c - 87)
  else None.

Fixpoint num_of (base : N) (s : str) (acc : N) : option N :=
  match s with
  | [] => Some acc
  | c :: t => match hex_val c with
              | Some v => if v <? base then num_of base t (acc * base + v) else None
              | None => None
              end
  end.

(** the text up to the first [;] and the rest after it *)
Fixpoint until_semi (s : str) : option (str * str) :=
  match s with
  | [] => None
  | c :: t => if c =? 59 then Some ([], t)
              else match until_semi t with Some (a, b) => Some (c :: a, b) | None => None end
  end.

(** [66] CharRef, [68] EntityRef; WFC Legal Character *)
Definition reference (body : str) : option piece :=
  match body with
  | 35 :: 120 :: h =>                      (* #x *)
    match h with
    | [] => None
    | _ => match num_of 16 h 0 with Some v => if isChar v then Some (PChar body v) else None | None => None end
    end
  | 35 :: dgs =>
    match dgs with
    | [] => None
    | _ => match num_of 10 dgs 0 with Some v => if isChar v then Some (PChar body v) else None | None => None end
    end
  | _ => if is_Name body then Some (PEnt body) else None
  end.

Definition push_text (t : str) (l : list piece) : list piece := match t with [] => l | _ => PText t :: l end.

(** [10] AttValue body: text without [<] and [&], references; [fuel] >= length *)
Fixpoint pieces (fuel : nat) (s : str) (cur : str) : option (list piece) :=
  match fuel with
  | O => match s with [] => Some (push_text (rev cur) []) | _ => None end
  | S f =>
    match s with
    | [] => Some (push_text (rev cur) [])
    | c :: t =>
      if c =? 60 then None
      else if c =? 38 then
        match until_semi t with
        | Some (body, rest) =>
          match reference body, pieces f rest [] with
          | Some p, Some l => Some (push_text (rev cur) (p :: l))
          | _, _ => None
          end
        | None => None
        end
      else if isChar c then pieces f t (c :: cur) else None
    end
  end.

(** a value that contains both quotation marks cannot be written as one literal *)
Definition parse_attvalue (v : str) : option (list piece) :=
  if existsb (N.eqb 34) v && existsb (N.eqb 39) v then None else pieces (length v) v [].

Definition predefined_entities : list str :=
  [[108; 116]; [103; 116]; [97; 109; 112]; [97; 112; 111; 115]; [113; 117; 111; 116]].

(** the document type of the document, if it has one *)
Definition doctype_of (d : adoc) : option anode :=
  match find (has_type d TDoctype) (children d (d_root d)) with Some i => node d i | None => None end.

Definition declared (d : adoc) (name : str) : option bool :=
  match doctype_of d with
  | Some t => option_map snd (find (fun e => str_eqb (fst e) name) (n_entities t))
  | None => None
  end.
(** a reference to [name] may appear in an attribute value *)
Definition entity_usable (d : adoc) (name : str) : bool :=
  existsb (str_eqb name) predefined_entities || match declared d name with Some b => b | None => false end.
(** [name] can be referenced at all *)
Definition entity_declared (d : adoc) (name : str) : bool :=
  existsb (str_eqb name) predefined_entities || match declared d name with Some _ => true | None => false end.

Definition pieces_ok (d : adoc) (l : list piece) : bool :=
  forallb (fun p => match p with PEnt n => entity_usable d n | _ => true end) l.

(** "On setting, this creates a Text node with the unparsed contents of the string" -- here one
    node per piece of the literal; the previous value nodes are no longer children *)
Definition clear_value (d : adoc) (x : N) : adoc :=
  fold_left (fun acc c => upd_node acc c (set_parent None)) (children d x) (upd_node d x (set_children [])).

Fixpoint add_pieces (d : adoc) (x : N) (l : list piece) : adoc :=
  match l with
  | [] => d
  | p :: t =>
    let nd := match p with
              | PText s => fresh_node TText [] s
              | PChar name c => fresh_node TCharRef name [c]
              | PEnt name => fresh_node TEntityRef name []
              end in
    let '(i, d1) := new_node d nd in
    add_pieces (attach d1 x i None) x t
  end.

Definition set_attr_value (d : adoc) (x : N) (v : str) : option adoc :=
  match parse_attvalue v with
  | Some l => if pieces_ok d l then Some (add_pieces (clear_value d x) x l) else None
  | None => None
  end.

(** [Namespaces] attribute names: a QName, [xmlns], [xmlns:prefix] *)
Definition is_attr_name (s : str) : bool := is_QName s.
Definition is_elem_name (s : str) : bool := is_QName s.

(** Element.setAttribute: "If an attribute with that name is already present in the element, its
    value is changed to be that of the value parameter"; INVALID_CHARACTER_ERR for the name *)
Definition set_attribute (a : adom) (r : nid) (name value : str) : adom * aoutcome :=
  match doc_of a (fst r), aget a r with
  | Some d, Some rn =>
    match n_type rn with
    | TElement =>
      if negb (is_attr_name name) then raise a InvalidCharacterErr
      else match attrs_named d (snd r) name with
           | x :: _ =>
             match set_attr_value d x value with
             | Some d1 => (set_doc a (fst r) d1, ADone AUnit)
             | None => refuse a
             end
           | [] =>
             let '(x, d1) := new_node d (fresh_node TAttr name []) in
             match set_attr_value d1 x value with
             | Some d2 => (set_doc a (fst r) (add_attr d2 (snd r) x), ADone AUnit)
             | None => refuse a
             end
           end
    | _ => (a, ANotOffered)
    end
  | _, _ => (a, ANotOffered)
  end.

(** ** Factories (Document) *)
Definition on_document (a : adom) (dn : nid) (f : adoc -> adom * aoutcome) : adom * aoutcome :=
  match doc_of a (fst dn), aget a dn with
  | Some d, Some n => match n_type n with TDocument => f d | _ => (a, ANotOffered) end
  | _, _ => (a, ANotOffered)
  end.

Definition make (a : adom) (k : N) (d : adoc) (n : anode) : adom * aoutcome :=
  let '(i, d1) := new_node d n in (set_doc a k d1, ADone (ANode (k, i))).

(** [16] PI: the data does not contain "?>" *)
Definition pi_end : str := [63; 62].
Definition storable_pi (s : str) : bool := forallb isChar s && negb (contains pi_end s).

(** what a PI holds after [<?target data?>] is read back: white space between the target and the
    data is a separator *)
Definition is_space (c : N) : bool := eval spec_S c.
Fixpoint skip_space (s : str) : str :=
  match s with c :: t => if is_space c then skip_space t else s | [] => [] end.

Definition data_kind (t : ntype) : DomCharData.kind :=
  match t with TComment => KComment | TCData => KCData | _ => KText end.

(** ** CharacterData, Text, ProcessingInstruction, nodeValue *)
Definition store_data (a : adom) (r : nid) (d : adoc) (rn : anode) (res : option str) : adom * aoutcome :=
  match res with
  | None => raise a IndexSizeErr
  | Some s => if storable (data_kind (n_type rn)) s
              then (set_doc a (fst r) (set_node d (snd r) (set_value s rn)), ADone AUnit)
              else refuse a
  end.

Definition on_chardata (a : adom) (r : nid) (f : adoc -> anode -> adom * aoutcome) : adom * aoutcome :=
  match doc_of a (fst r), aget a r with
  | Some d, Some rn => if offers_chardata (n_type rn) then f d rn else (a, ANotOffered)
  | _, _ => (a, ANotOffered)
  end.

Definition pi_set_data (a : adom) (r : nid) (d : adoc) (rn : anode) (v : str) : adom * aoutcome :=
  if storable_pi v then (set_doc a (fst r) (set_node d (snd r) (set_value (skip_space v) rn)), ADone AUnit)
  else refuse a.

(** Text.splitText: "Breaks this Text node into two Text nodes at the specified offset, keeping
    both in the tree as siblings ... a new Text node, which is inserted as the next sibling of
    this node, contains all the content at and after the offset point." *)
Fixpoint insert_after_id (x ref : N) (l : list N) : list N :=
  match l with
  | [] => [x]
  | y :: t => if y =? ref then y :: x :: t else y :: insert_after_id x ref t
  end.

Definition split_text (a : adom) (r : nid) (off : N) : adom * aoutcome :=
  match doc_of a (fst r), aget a r with
  | Some d, Some rn =>
    if negb (offers_split (n_type rn)) then (a, ANotOffered)
    else match dom_split (n_value rn) off with
         | None => raise a IndexSizeErr
         | Some (s1, s2) =>
           match n_parent rn with
           | None => (a, AUnspecified)
           | Some p =>
             let d1 := set_node d (snd r) (set_value s1 rn) in
             let '(i, d2) := new_node d1 (set_parent (Some p) (fresh_node (n_type rn) [] s2)) in
             let d3 := upd_node d2 p (fun pn => set_children (insert_after_id i (snd r) (n_children pn)) pn) in
             (set_doc a (fst r) d3, ADone (ANode (fst r, i)))
           end
         end
  | _, _ => (a, ANotOffered)
  end.

(** ** Operations *)
Inductive aop :=
| AAppendChild (r n : nid)
| AInsertBefore (r n f : nid)
| AReplaceChild (r n o : nid)
| ARemoveChild (r o : nid)
| ASetAttribute (r : nid) (name value : str)
| ASetAttributeNode (r a : nid)
| ARemoveAttribute (r : nid) (name : str)
| ARemoveAttributeNode (r a : nid)
| ASetNamedItem (r a : nid)
| ARemoveNamedItem (r : nid) (name : str)
| ACreateElement (d : nid) (name : str)
| ACreateAttribute (d : nid) (name : str)
| ACreateTextNode (d : nid) (data : str)
| ACreateComment (d : nid) (data : str)
| ACreateCDataSection (d : nid) (data : str)
| ACreateProcessingInstruction (d : nid) (target data : str)
| ACreateEntityReference (d : nid) (name : str)
| ACreateDocumentFragment (d : nid)
| ASetNodeValue (r : nid) (v : str)
| ASetData (r : nid) (v : str)
| AAppendData (r : nid) (v : str)
| AInsertData (r : nid) (off : N) (v : str)
| ADeleteData (r : nid) (off cnt : N)
| AReplaceData (r : nid) (off cnt : N) (v : str)
| ASplitText (r : nid) (off : N)
| APISetData (r : nid) (v : str).

Definition set_node_value (a : adom) (r : nid) (v : str) : adom * aoutcome :=
  match doc_of a (fst r), aget a r with
  | Some d, Some rn =>
    match n_type rn with
    | TDocument | TElement => raise a NoDataAllowedErr     (* nodeValue is null for these *)
    | TAttr => match set_attr_value d (snd r) v with
               | Some d1 => (set_doc a (fst r) d1, ADone AUnit)
               | None => refuse a
               end
    | TText | TComment | TCData => store_data a r d rn (Some v)
    | TPi => pi_set_data a r d rn v
    | _ => (a, ANotOffered)
    end
  | _, _ => (a, ANotOffered)
  end.

Definition dom_step (a : adom) (o : aop) : adom * aoutcome :=
  match o with
  | AAppendChild r n => insert_before a r n None
  | AInsertBefore r n f => if exists_node a f then insert_before a r n (Some f) else (a, ANotOffered)
  | AReplaceChild r n o => replace_child a r n o
  | ARemoveChild r o => remove_child a r o
  | ASetAttribute r name value => set_attribute a r name value
  | ASetAttributeNode r x => set_attribute_node a r x
  | ARemoveAttribute r name => remove_attribute a r name
  | ARemoveAttributeNode r x => remove_attribute_node a r x
  | ASetNamedItem r x => set_attribute_node a r x
  | ARemoveNamedItem r name => remove_named_item a r name
  | ACreateElement dn name =>
    on_document a dn (fun d => if is_elem_name name then make a (fst dn) d (fresh_node TElement name [])
                               else raise a InvalidCharacterErr)
  | ACreateAttribute dn name =>
    on_document a dn (fun d => if is_attr_name name then make a (fst dn) d (fresh_node TAttr name [])
                               else raise a InvalidCharacterErr)
  | ACreateTextNode dn data =>
    on_document a dn (fun d => if storable KText data then make a (fst dn) d (fresh_node TText [] data) else refuse a)
  | ACreateComment dn data =>
    on_document a dn (fun d => if storable KComment data then make a (fst dn) d (fresh_node TComment [] data) else refuse a)
  | ACreateCDataSection dn data =>
    on_document a dn (fun d => if storable KCData data then make a (fst dn) d (fresh_node TCData [] data) else refuse a)
  | ACreateProcessingInstruction dn target data =>
    on_document a dn (fun d =>
      if is_PITarget target && storable_pi data
      then make a (fst dn) d (fresh_node TPi target (skip_space data))
      else raise a InvalidCharacterErr)
  | ACreateEntityReference dn name =>
    on_document a dn (fun d =>
      if negb (is_Name name) then raise a InvalidCharacterErr
      else if entity_declared d name then make a (fst dn) d (fresh_node TEntityRef name [])
      else refuse a)
  | ACreateDocumentFragment dn =>
    on_document a dn (fun d => make a (fst dn) d (fresh_node TFragment [] []))
  | ASetNodeValue r v => set_node_value a r v
  | ASetData r v => on_chardata a r (fun d rn => store_data a r d rn (Some v))
  | AAppendData r v => on_chardata a r (fun d rn => store_data a r d rn (Some (dom_append (n_value rn) v)))
  | AInsertData r off v => on_chardata a r (fun d rn => store_data a r d rn (dom_insert (n_value rn) off v))
  | ADeleteData r off cnt => on_chardata a r (fun d rn => store_data a r d rn (dom_delete (n_value rn) off cnt))
  | AReplaceData r off cnt v => on_chardata a r (fun d rn => store_data a r d rn (dom_replace (n_value rn) off cnt v))
  | ASplitText r off => split_text a r off
  | APISetData r v =>
    match doc_of a (fst r), aget a r with
    | Some d, Some rn => match n_type rn with TPi => pi_set_data a r d rn v | _ => (a, ANotOffered) end
    | _, _ => (a, ANotOffered)
    end
  end.

Definition dom_run (a : adom) (ops : list aop) : adom := fold_left (fun s o => fst (dom_step s o)) ops a.

(** ** What "the implementation conforms on this call" means, including reading R1:
    [before] the state in which the call was made, [after]/[got] what the implementation did *)
Definition conforms (before : adom) (o : aop) (after : adom) (got : aoutcome) : Prop :=
  match snd (dom_step before o) with
  | AUnspecified => got <> APanicked /\ (after = before \/ after = fst (dom_step before o))
  | want => after = fst (dom_step before o) /\ got = want
  end.

(** ** Element.normalize (reading R7)

    "Puts all Text nodes in the full depth of the sub-tree underneath this Element into a normal form
    where only markup (e.g., tags, comments, processing instructions, CDATA sections, and entity
    references) separates Text nodes, i.e., there are no adjacent Text nodes."

    Executable reading: the children of the element are visited in order; a Text node that directly
    follows a Text node gives its data to that node (CharacterData.appendData) and leaves the list
    (Node.removeChild) -- unless the concatenation is refused (R4), in which case it stays and becomes the
    node the following Text nodes are joined to; child elements are normalized the same way; anything else
    separates.  [prev]: the Text node directly in front, if there is one.  No exception is specified. *)
Fixpoint norm_kids (rec : adom -> nid -> adom) (a : adom) (r : nid) (prev : option N) (l : list N) : adom :=
  match l with
  | [] => a
  | c :: t =>
    match aget a (fst r, c) with
    | Some cn =>
      match n_type cn with
      | TText =>
        match prev with
        | Some p =>
          match dom_step a (AAppendData (fst r, p) (n_value cn)) with
          | (a1, ADone _) => norm_kids rec (fst (dom_step a1 (ARemoveChild r (fst r, c)))) r prev t
          | (a1, _) => norm_kids rec a1 r (Some c) t
          end
        | None => norm_kids rec a r (Some c) t
        end
      | TElement => norm_kids rec (rec a (fst r, c)) r None t
      | _ => norm_kids rec a r None t
      end
    | None => norm_kids rec a r None t
    end
  end.

(** [fuel]: the nesting depth that is followed (a tree of [n] nodes is less than [n] deep) *)
Fixpoint dom_normalize_run (fuel : nat) (a : adom) (r : nid) : adom :=
  match fuel with
  | O => a
  | S f =>
    match aget a r with
    | Some rn =>
      match n_type rn with
      | TElement => norm_kids (dom_normalize_run f) a r None (n_children rn)
      | _ => a
      end
    | None => a
    end
  end.

Definition dom_normalize (a : adom) (r : nid) : adom * aoutcome :=
  match doc_of a (fst r), aget a r with
  | Some d, Some rn =>
    match n_type rn with
    | TElement => (dom_normalize_run (S (length (d_nodes d))) a r, ADone AUnit)
    | _ => (a, ANotOffered)
    end
  | _, _ => (a, ANotOffered)
  end.
