(** * The infoset document that a store denotes (property C15)

    [doc_of_store s : Info.document] -- what the DOM of store [s] reports, in the vocabulary of the
    infoset model (Model/Info.v): the children of the Document item in stored order (comments,
    processing instructions, the document type, the document element), every element with its
    attributes in stored order (value pieces: text / character reference / entity reference) and
    its children (text, CDATA sections, character references, comments, processing instructions,
    entity references, elements).  The walk mirrors [Store.show_fuel] (= the [fmt::Display] impls
    of info/src/lib.rs on the edited tree), so that [display (doc_of_store s) = show_doc s]
    (Proofs/StoreDocShow.v).

    Two things the store keeps as TEXT only:
    - the XML declaration ([sdecl]) and the document type declaration ([idata] of the KDt item,
      the [Display] of the XmlDocumentTypeDeclaration).  Their denotation is what the parser reads
      from that text: [header_of] runs [from_raw] on `declaration doctype <a />`.  [hdr_ok] checks
      that the text is the print of what was read (true for every store the driver builds from a
      parsed document: both texts are [to_string()] of parsed values).
    - the name of a character reference ('#65', '#x41' in [ilocal]; the character in [idata]).
    An entity reference holds a name; the entity is the declaration of that name in the document
    type that is the CURRENT child of the document ([Context::entity]), else the predefined one.

    Also here (definitions only, executable): [item_ok15] = the lexical invariant of
    Model/PrintableCheck.v strengthened by the clauses the round trip needs and that are facts of
    the implementation's parser (a PI target is not xml, PI data do not start with white space, the
    name of a character reference denotes its character, the document type text is a print), and
    [Known15] = the position- and neighbour-dependent exclusions, one clause per listed finding. *)
From Coq Require Import List NArith Bool.
From XmlRs Require Import Base.CPred Spec.XmlChars Model.Peg Model.ParseActions Model.Info Model.Display.
From XmlRs Require Import Model.Store Model.PrintableCheck.
From XmlRs Require Model.CharData.
Import ListNotations.
Open Scope N_scope.

(** ** the header: XML declaration and document type declaration, kept as text *)
Record header := Hdr {
  h_version : option str; h_encoding : str; h_standalone : option bool; h_doctype : option doctype }.

Definition s_stub : str := [60; 97; 32; 47; 62].      (* <a /> *)

Definition header_of (decl dt : str) : option header :=
  match from_raw (decl ++ dt ++ s_stub) with
  | OOk ([], Doc [ItDocType x; ItElement _ _ _ _] enc sa ver) => Some (Hdr ver enc sa (Some x))
  | OOk ([], Doc [ItElement _ _ _ _] enc sa ver) => Some (Hdr ver enc sa None)
  | _ => None
  end.

Definition no_header : header := Hdr None [] None None.

Definition dt_text (s : store) : str :=
  match doc_decl s with
  | Some d => match get s d with Some it => idata it | None => [] end
  | None => []
  end.

Definition hdr (s : store) : header :=
  match header_of (sdecl s) (dt_text s) with Some h => h | None => no_header end.

Definition hdr_doc (h : header) : document := Doc [] (h_encoding h) (h_standalone h) (h_version h).

(** the texts the store keeps are the print of what the parser read from them *)
Definition hdr_ok (s : store) : bool :=
  match header_of (sdecl s) (dt_text s) with
  | Some h =>
    Peg.str_eqb (d_xmldecl (hdr_doc h)) (sdecl s)
    && match h_doctype h, doc_decl s with
       | Some x, Some _ => Peg.str_eqb (d_doctype false x) (dt_text s)
       | None, None => true
       | _, _ => false
       end
  | None => false
  end.

Definition ents_of (h : header) : list entity :=
  match h_doctype h with Some x => dt_entities x | None => [] end.
Definition ext_of (h : header) : bool :=
  external_subset (h_standalone h) (match h_doctype h with Some x => dt_system x | None => None end).

(** ** leaves *)
(** '#65' / '#x41' *)
Definition cr_parts (name : str) : str * radix :=
  match name with
  | _ :: x :: num => if x =? 120 then (num, Hex) else (x :: num, Dec)
  | _ :: t => (t, Dec)
  | [] => ([], Dec)
  end.

(** [Context::entity] *)
Definition entity_of (ents : list entity) (name : str) : entity :=
  match lookup_entity2 ents name with
  | IOk (e, _) => e
  | _ => Entity name None None None None
  end.

Definition avalue_of (s : store) (ents : list entity) (i : id) : list avalue :=
  match get s i with
  | Some it =>
    match ikind it with
    | KTx => [XaText (idata it)]
    | KCr => [XaChar (idata it) (fst (cr_parts (ilocal it))) (snd (cr_parts (ilocal it)))]
    | KEr => [XaEntity (entity_of ents (ilocal it))]
    | _ => []
    end
  | None => []
  end.

Definition attr_of (s : store) (ents : list entity) (a : id) : list attr :=
  match get s a with
  | Some it =>
    match ikind it with
    | KAt => [Attr (ilocal it) (iprefix it) (flat_map (avalue_of s ents) (ichildren it))]
    | _ => []
    end
  | None => []
  end.

(** ** the tree: same recursion and fuel as [Store.show_fuel] *)
Fixpoint item_fuel (fuel : nat) (s : store) (h : header) (n : id) : list Info.item :=
  match fuel with
  | O => []
  | S f =>
    match get s n with
    | None => []
    | Some it =>
      match ikind it with
      | KEl => [ItElement (ilocal it) (iprefix it) (flat_map (attr_of s (ents_of h)) (iattrs it))
                          (flat_map (item_fuel f s h) (ichildren it))]
      | KTx => [ItText (idata it)]
      | KCd => [ItCData (idata it)]
      | KCr => [ItCharRef (idata it) (fst (cr_parts (ilocal it))) (snd (cr_parts (ilocal it)))]
      | KCm => [ItComment (idata it)]
      | KPi => [ItPI (PI (ilocal it) (if iflag it then Some (idata it) else None))]
      | KEr => [ItUnexpanded (entity_of (ents_of h) (ilocal it))]
      | KDt => match h_doctype h with Some x => [ItDocType x] | None => [] end
      | KDoc | KAt | KFr => []
      end
    end
  end.

Definition doc_items (s : store) : list Info.item :=
  match N.to_nat (next s) with
  | O => []
  | S f => flat_map (item_fuel f s (hdr s)) (children_of s (sroot s))
  end.

Definition doc_of_store (s : store) : document :=
  Doc (doc_items s) (h_encoding (hdr s)) (h_standalone (hdr s)) (h_version (hdr s)).

(** ** the lexical invariant, strengthened ([item_ok] is Model/PrintableCheck.v) *)
Definition is_ws (c : N) : bool := (c =? 32) || (c =? 9) || (c =? 13) || (c =? 10).

Definition dec_digit (c : N) : bool := (48 <=? c) && (c <=? 57).
Definition hex_digit (c : N) : bool := dec_digit c || ((65 <=? c) && (c <=? 70)) || ((97 <=? c) && (c <=? 102)).

(** the name of a character reference is # digits or #x hex-digits and denotes the stored character *)
Definition digit_of (r : radix) : N -> bool := match r with Dec => dec_digit | Hex => hex_digit end.
Definition charref_ok (name data : str) : bool :=
  match name with
  | h :: _ =>
    (h =? 35)
    && negb (match fst (cr_parts name) with [] => true | _ => false end)
    && forallb (digit_of (snd (cr_parts name))) (fst (cr_parts name))
    && match char_from (fst (cr_parts name)) (snd (cr_parts name)) with IOk c => Peg.str_eqb data [c] | _ => false end
  | [] => false
  end.

(** [decl] is the XML declaration text of the store the item lives in *)
Definition dt_item_ok (decl : str) (it : Store.item) : bool :=
  match header_of decl (idata it) with
  | Some h =>
    Peg.str_eqb (d_xmldecl (hdr_doc h)) decl
    && match h_doctype h with Some x => Peg.str_eqb (d_doctype false x) (idata it) | None => false end
  | None => false
  end.

(** what [item_ok] does not say *)
Definition extra15 (decl : str) (it : Store.item) : bool :=
  match ikind it with
  | KPi => negb (is_xml_ci (ilocal it)) && match idata it with c :: _ => negb (is_ws c) | [] => true end
  | KCr => charref_ok (ilocal it) (idata it)
  | KDt => dt_item_ok decl it
  | _ => true
  end.

Definition item_ok15 (decl : str) (it : Store.item) : bool := item_ok it && extra15 decl it.

Definition lex15_b (decl : str) (l : list (id * Store.item)) : bool := forallb (fun b => item_ok15 decl (snd b)) l.

(** the XML declaration text alone (a store without document type) *)
Definition decl_ok (s : store) : bool :=
  match header_of (sdecl s) [] with
  | Some h => Peg.str_eqb (d_xmldecl (hdr_doc h)) (sdecl s)
              && match h_doctype h with None => true | Some _ => false end
  | None => false
  end.

(** ** the exclusions: one clause per listed finding, evaluated on the nodes attached to the document *)
Definition is_text_item (s : store) (x : id) : bool := has_kind s KTx x.

(** two consecutive Text items (C15-ADJACENT-TEXT; also inside an attribute value) *)
Fixpoint adjacent_text (s : store) (prev_text : bool) (l : list id) : bool :=
  match l with
  | [] => false
  | x :: t => (prev_text && is_text_item s x) || adjacent_text s (is_text_item s x) t
  end.

(** a Text item without characters (DD3) *)
Definition empty_text (s : store) (l : list id) : bool :=
  existsb (fun x => match get s x with
                    | Some it => kind_eqb (ikind it) KTx && match idata it with [] => true | _ => false end
                    | None => false
                    end) l.

(** a Text child of an element holds the end mark of a CDATA section (C15-ATTR-TEXT-MOVED) *)
Definition cdend_text (s : store) (l : list id) : bool :=
  existsb (fun x => match get s x with
                    | Some it => kind_eqb (ikind it) KTx && CharData.has_cdend (idata it)
                    | None => false
                    end) l.

(** an entity reference whose entity cannot be referred to at this position: not declared by the
    current document type (C15-DOCTYPE-REMOVED), or declared but refused there by
    [check_entity_ref] (unparsed, external in an attribute value, recursive, ...) *)
Definition unresolved (s : store) (h : header) (attribute : bool) (l : list id) : bool :=
  existsb (fun x => match get s x with
                    | Some it => kind_eqb (ikind it) KEr
                                 && negb (match resolve_ref (ents_of h) (ext_of h) attribute (ilocal it) with
                                          | IOk _ => true | _ => false end)
                    | None => false
                    end) l.

(** both quotation marks in one attribute value (D59: printed with the reference quot) *)
Definition both_quotes (s : store) (h : header) (l : list id) : bool :=
  let v := d_avalues (flat_map (avalue_of s (ents_of h)) l) in
  existsb (N.eqb 34) v && existsb (N.eqb 39) v.

Definition on_kind (s : store) (k : kind) (f : list id -> bool) (x : id) : bool :=
  match get s x with
  | Some it => kind_eqb (ikind it) k && f (ichildren it)
  | None => false
  end.

Definition attached_any (s : store) (f : id -> bool) : bool := existsb f (preorder s).

Definition K_noroot (s : store) : bool := match doc_element s with None => true | Some _ => false end.

(** the first child of the document that is an element or a document type is an element, although a
    document type is there (C15-ELEMENT-BEFORE-DOCTYPE) *)
Definition K_el_before_dt (s : store) : bool :=
  match doc_decl s with
  | Some _ =>
    match find (fun x => has_kind s KEl x || has_kind s KDt x) (children_of s (sroot s)) with
    | Some x => has_kind s KEl x
    | None => false
    end
  | None => false
  end.

Definition K_adjacent_text (s : store) : bool :=
  attached_any s (fun x => on_kind s KEl (adjacent_text s false) x || on_kind s KAt (adjacent_text s false) x).
Definition K_empty_text (s : store) : bool :=
  attached_any s (fun x => on_kind s KEl (empty_text s) x || on_kind s KAt (empty_text s) x).
Definition K_text_cdend (s : store) : bool := attached_any s (on_kind s KEl (cdend_text s)).
Definition K_both_quotes (s : store) : bool := attached_any s (on_kind s KAt (both_quotes s (hdr s))).
Definition K_unresolved (s : store) : bool :=
  attached_any s (fun x => on_kind s KEl (unresolved s (hdr s) false) x || on_kind s KAt (unresolved s (hdr s) true) x).

Definition Known15 (s : store) : bool :=
  K_noroot s || K_el_before_dt s || K_adjacent_text s || K_empty_text s || K_text_cdend s
  || K_both_quotes s || K_unresolved s.
