(** * C13 / C15: the string facts computed by the model of the parser are the facts the DOM theorems assume

    Model/DomFacts.v computes [facts_of_name s] / [facts_of_data s] by running the model of the
    parser on the markup the code builds around [s].  Here, for EVERY string [s]:

      facts_of_name_agree   elem_name_agrees, attr_name_agrees (no exclusion), pi_target_agrees,
                            ref_name_agrees (outside D04)
      facts_of_data_agree   pi_data_agrees (no exclusion), value_facts_agree (outside [value_D04])
      facts_of_name_ok      name_facts_ok, facts_of_data_ok : data_facts_ok   (C15, same exclusions)

    and for operations: an operation whose facts are the computed ones ([model_facts]) and that is
    outside [KnownFacts] satisfies [op_facts_agree] and, once the fields the call does not read are
    blanked ([relevant], which does not change [step]), [op_facts_ok].

    EXCLUSION (decidable): D04 ([NameLanguage.KnownD04], the predicate of C18 / C02): the production
    [name] accepts a run of name characters that is empty or starts with a character that cannot
    start a Name; seen through create_processing_instruction (target), create_entity_reference
    (name) and references inside attribute values ([value_D04]).

    History: a first version of this file carried a second exclusion, for a defect these proofs found
    (D64: create_entity_reference only asked whether xml_parser::reference("&name;") succeeded, so
    "a;b", "amp;x", "#65" passed the name test and the call failed with the error of the entity
    lookup instead of INVALID_CHARACTER_ERR).  Repaired in /repo 37c72ae; the model follows the
    repaired code and the exclusion is gone ([entref_name_checked]). *)
From Coq Require Import List NArith Arith Lia Bool.
From XmlRs Require Import Base.CPred Spec.XmlChars Model.Peg Gen.XmlcharGen Model.ParseActions
  Proofs.XmlcharProofs Proofs.PegLemmas Proofs.NameLanguage Proofs.DisplayLex Model.DomFacts Proofs.DomFactsName Proofs.DomFactsData.
From XmlRs Require Proofs.QNameLanguage.
From XmlRs Require Import Model.Store Model.PrintableCheck Model.DomOps Proofs.CharDataProofs Proofs.DomPrintable
  Proofs.DomL1RefineValue Proofs.DomL1RefineSetAttr Proofs.DomL1RefineNames.
From XmlRs Require Model.Info Model.CharData Spec.DomCharData Spec.DomL1.
Import ListNotations.
Local Open Scope N_scope.

(** ** names *)
Lemma name_split_agrees s : is_QName s = true ->
  qn (fst (name_split s)) (snd (name_split s)) = s /\ qname_ok (fst (name_split s)) (snd (name_split s)) = true.
Proof.
  unfold is_QName, name_split. destruct (split_colon s) as [[p l]|] eqn:E; cbn [fst snd qn qname_ok].
  - intros H. destruct (QNameLanguage.split_colon_some _ _ _ E) as [-> _]. split; [reflexivity | exact H].
  - intros H. split; [reflexivity | exact H].
Qed.

Lemma name_fact_agrees s : name_agrees (if is_QName s then Some (name_split s) else None) s.
Proof.
  destruct (is_QName s) eqn:E; cbn [name_agrees]; [|exact E].
  destruct (name_split_agrees s E) as [H1 H2]. destruct (name_split s) as [p l]. split; assumption.
Qed.

Theorem facts_of_name_agree : forall s,
  elem_name_agrees (facts_of_name s) /\ attr_name_agrees (facts_of_name s)
  /\ (KnownD04 s = false -> pi_target_agrees (facts_of_name s))
  /\ (KnownD04 s = false -> ref_name_agrees (facts_of_name s)).
Proof.
  intros s. unfold elem_name_agrees, attr_name_agrees, pi_target_agrees, ref_name_agrees, facts_of_name.
  cbn [n_elem n_attr n_pi n_ref n_str]. split; [rewrite elem_fact_spec; apply name_fact_agrees|].
  split; [rewrite attr_fact_spec; apply name_fact_agrees|]. split.
  - intros Hd. rewrite pi_fact_spec. unfold is_PITarget.
    destruct (forallb NC s) eqn:E1; cbn [andb].
    + rewrite (proj1 (is_Name_NC s Hd) E1). cbn [andb]. destruct (is_xml_ci s); cbn [negb]; [reflexivity | split; reflexivity].
    + destruct (is_Name s) eqn:E2; [|reflexivity]. apply (is_Name_NC s Hd) in E2. congruence.
  - intros Hd. rewrite ref_fact_spec. apply eq_iff_eq_true. apply (is_Name_NC s Hd).
Qed.

Theorem facts_of_name_ok : forall s,
  (forall p l, n_elem (facts_of_name s) = Some (p, l) -> qname_ok p l = true)
  /\ (forall p l, n_attr (facts_of_name s) = Some (p, l) -> qname_ok p l = true)
  /\ (KnownD04 s = false -> forall t, n_pi (facts_of_name s) = Some t -> is_Name t = true)
  /\ (KnownD04 s = false -> n_ref (facts_of_name s) = true -> is_Name (n_str (facts_of_name s)) = true)
  /\ (forall t, n_pi (facts_of_name s) = Some t -> is_xml_ci t = false).
Proof.
  intros s. destruct (facts_of_name_agree s) as [He [Ha [Hp Hr]]].
  unfold elem_name_agrees, attr_name_agrees, pi_target_agrees, ref_name_agrees, name_agrees in *.
  split; [intros p l E; rewrite E in He; tauto|]. split; [intros p l E; rewrite E in Ha; tauto|]. split.
  - intros Hd t E. specialize (Hp Hd). rewrite E in Hp. destruct Hp as [-> Hp]. unfold is_PITarget in Hp. apply andb_prop in Hp. tauto.
  - split.
    + intros Hd E. rewrite <- (Hr Hd). exact E.
    + intros t E. cbn [facts_of_name n_pi] in E. rewrite pi_fact_spec in E.
      destruct (forallb NC s && negb (is_xml_ci s)) eqn:X; [|discriminate]. injection E as <-.
      apply andb_prop in X. destruct X as [_ X]. apply negb_true_iff. exact X.
Qed.

Theorem name_facts_ok_model : forall s, KnownD04 s = false -> name_facts_ok (facts_of_name s).
Proof.
  intros s Hd. destruct (facts_of_name_ok s) as [H1 [H2 [H3 [H4 _]]]].
  split; [exact H1|]. split; [exact H2|]. split; [exact (H3 Hd) | exact (H4 Hd)].
Qed.

(** the exclusions are needed *)
Theorem name_D04_refuted : exists s, KnownD04 s = true /\ ~ pi_target_agrees (facts_of_name s).
Proof. exists [49]. split; [reflexivity|]. unfold pi_target_agrees. vm_compute. intros [_ H]. discriminate. Qed.

(** D64 (repaired): names of which only a prefix is a reference, and character references, do not
    pass the name test of create_entity_reference *)
Example entref_name_checked :
  map (fun s => n_ref (facts_of_name s)) [[97; 59; 98]; [35; 54; 53]; [97; 109; 112; 59; 120]; [35; 120; 52; 49; 59; 122; 122]; [97; 109; 112]]
  = [false; false; false; false; true].
Proof. vm_compute. reflexivity. Qed.

(** ** data *)
Lemma spec_list_vmatch q : forall avl b pl, av_ok q b avl -> spec_list avl = Some pl -> vmatch (map vitem_of avl) pl.
Proof.
  induction avl as [|v avl IH]; intros b pl Hok H; cbn [spec_list] in H.
  - injection H as <-. constructor.
  - destruct (spec_item v) as [p|] eqn:Ev; [|discriminate]. destruct (spec_list avl) as [pl'|] eqn:El; [|discriminate].
    injection H as <-. cbn [map]. destruct v as [[num r|n]|s]; cbn [av_ok] in Hok; cbn [spec_item] in Ev; cbn [vitem_of].
    + destruct (Info.char_from num r) as [c| | |]; try discriminate. injection Ev as <-. constructor. apply (IH false); tauto.
    + destruct (is_Name n); [|discriminate]. injection Ev as <-. constructor. apply (IH false); tauto.
    + injection Ev as <-. destruct Hok as [_ [Hne [_ Hl]]]. destruct s as [|c s]; [contradiction|]. constructor. apply (IH true); tauto.
Qed.

Lemma spec_list_bad q : forall avl b, av_ok q b avl -> Forall item_no_D04 avl -> spec_list avl = None ->
  has_bad_char (map vitem_of avl) = true.
Proof.
  induction avl as [|v avl IH]; intros b Hok Hd H; cbn [spec_list] in H; [discriminate|].
  inversion Hd as [|v' l' Hv Hl]; subst. unfold has_bad_char in *. cbn [map existsb].
  destruct v as [[num r|n]|s]; cbn [av_ok] in Hok; cbn [spec_item] in H; cbn [vitem_of].
  - destruct (Info.char_from num r) as [c| | |]; try reflexivity.
    destruct (spec_list avl) eqn:El; [discriminate|]. cbn [orb]. apply (IH false); tauto.
  - cbn [item_no_D04] in Hv. destruct Hok as [Hn Hok]. cbn [reference_ok] in Hn.
    rewrite (proj1 (is_Name_NC n Hv) (proj1 (name_ok_NC n) Hn)) in H.
    destruct (spec_list avl) eqn:El; [discriminate|]. cbn [orb]. apply (IH false); tauto.
  - destruct (spec_list avl) eqn:El; [discriminate|]. cbn [orb]. apply (IH true); tauto.
Qed.

Theorem facts_of_data_agree : forall s,
  pi_data_agrees (facts_of_data s) /\ (value_D04 s = false -> value_facts_agree (facts_of_data s)).
Proof.
  intros s. split.
  - unfold pi_data_agrees, facts_of_data. cbn [d_pi d_str]. rewrite pi_data_fact_spec.
    destruct (DomL1.storable_pi s); [split; reflexivity | reflexivity].
  - intros Hd. unfold value_facts_agree, facts_of_data. cbn [d_attr d_str]. pose proof (value_fact_parse s) as H.
    destruct (DomL1.parse_attvalue s) as [pl|].
    + destruct H as [avl [Ev [[Hok _] Es]]]. exists (map vitem_of avl). split; [exact Ev|]. exact (spec_list_vmatch _ avl false pl Hok Es).
    + destruct (value_fact s) as [l|]; [|exact I]. destruct (H l eq_refl) as [avl [-> [[Hok [_ Hn]] Es]]].
      exact (spec_list_bad _ avl false Hok (Hn Hd) Es).
Qed.

(** the harness (and [facts_of_data]) write the target t and the attribute name a in front of the
    argument; the code writes the target / the local name of the node.  It makes no difference: *)
Theorem pi_data_any_target : forall tg s, forallb NC tg = true -> is_xml_ci tg = false -> pi_data_of tg s = pi_data_fact s.
Proof.
  intros tg s H1 H2. rewrite pi_data_fact_spec. apply pi_data_of_spec. apply pi_target_ok_iff. split; assumption.
Qed.

Theorem value_any_attribute_name : forall n s, is_NCName n = true -> value_of_name n s = value_fact s.
Proof. exact value_of_name_fact. Qed.

(** lexical soundness of the data facts (C15) *)
Lemma av_items_ok q : forall avl b, av_ok q b avl -> Forall item_no_D04 avl -> forallb vitem_ok (map vitem_of avl) = true.
Proof.
  induction avl as [|v avl IH]; intros b Hok Hd; [reflexivity|].
  inversion Hd as [|v' l' Hv Hl]; subst. cbn [map forallb]. apply andb_true_intro. split.
  - destruct v as [[num r|n]|s]; cbn [av_ok] in Hok; cbn [vitem_of vitem_ok]; [reflexivity| |].
    + cbn [item_no_D04] in Hv. destruct Hok as [Hn _]. cbn [reference_ok] in Hn.
      exact (proj1 (is_Name_NC n Hv) (proj1 (name_ok_NC n) Hn)).
    + destruct Hok as [_ [_ [Hs _]]]. unfold text_lex. revert Hs. apply forallb_impl'. intros c Hc.
      destruct (avc_props q c Hc) as [C1 [C2 [C3 _]]]. rewrite is_xml_char_spec, C1, C2, C3. reflexivity.
  - destruct v as [[num r|n]|s]; cbn [av_ok] in Hok; [apply (IH false) | apply (IH false) | apply (IH true)]; tauto.
Qed.

Lemma skip_space_storable s : DomL1.storable_pi s = true -> pi_ok (DomL1.skip_space s) = true.
Proof.
  intros St. destruct (skip_space_split s) as [w [Es [Hw _]]]. set (d := DomL1.skip_space s) in *. clearbody d.
  unfold DomL1.storable_pi in St. apply andb_prop in St. destruct St as [S1 S2]. apply negb_true_iff in S2.
  unfold pi_ok. apply andb_true_intro. split.
  - rewrite Es, forallb_app in S1. apply andb_prop in S1. destruct S1 as [_ S1]. revert S1. apply forallb_impl'.
    intros c Hc. rewrite is_xml_char_spec. exact Hc.
  - apply negb_true_iff. rewrite has_sub_spec. rewrite Es in S2. unfold DomL1.pi_end in S2.
    rewrite (contains_ws_prefix w d Hw) in S2. exact S2.
Qed.

Theorem data_facts_ok_model : forall s, value_D04 s = false -> data_facts_ok (facts_of_data s).
Proof.
  intros s Hd. unfold data_facts_ok, facts_of_data. cbn [d_attr d_pi]. split.
  - intros l Hl. pose proof (value_fact_parse s) as H. destruct (DomL1.parse_attvalue s) as [pl|].
    + destruct H as [avl [Ev [[Hok [_ Hn]] _]]]. rewrite Ev in Hl. injection Hl as <-. exact (av_items_ok _ avl false Hok (Hn Hd)).
    + destruct (H l Hl) as [avl [-> [[Hok [_ Hn]] _]]]. exact (av_items_ok _ avl false Hok (Hn Hd)).
  - intros c Hc. rewrite pi_data_fact_spec in Hc. destruct (DomL1.storable_pi s) eqn:St; [|discriminate].
    injection Hc as <-. apply skip_space_storable. exact St.
Qed.

(** the exclusion is needed: the value "&1;" *)
Theorem value_D04_refuted : exists s, value_D04 s = true /\ ~ value_facts_agree (facts_of_data s).
Proof.
  exists [38; 49; 59]. split; [reflexivity|]. unfold value_facts_agree.
  assert (E : DomL1.parse_attvalue (d_str (facts_of_data [38; 49; 59])) = None) by (vm_compute; reflexivity). rewrite E.
  assert (E2 : d_attr (facts_of_data [38; 49; 59]) = Some [VEnt [49]]) by (vm_compute; reflexivity). rewrite E2.
  vm_compute. discriminate.
Qed.

(** the predicate of C02 ([XmlWFLexical.no_D04]) implies ours; stated on its definition to keep the
    closure of this file small: an ampersand followed by a run of name characters that is empty
    or starts badly, whatever comes next *)
Definition ref_D04_c02 (s : str) : bool :=
  match s with
  | c :: t => if N.eqb c 38 then match t with x :: _ => if N.eqb x 35 then false else KnownD04 (fst (span NC t)) | [] => true end else false
  | [] => false
  end.
Fixpoint no_D04_c02 (s : str) : bool := match s with [] => true | _ :: t => negb (ref_D04_c02 s) && no_D04_c02 t end.

Lemma ent_D04_c02 s : ent_D04 s = true -> ref_D04_c02 s = true.
Proof.
  unfold ent_D04, ref_D04_c02. destruct s as [|c t]; [discriminate|].
  destruct (N.eqb c 38); cbn [andb]; [|discriminate].
  destruct t as [|x t']; [cbn; discriminate|]. destruct (span NC (x :: t')) as [nm d] eqn:E. cbn [fst].
  destruct (N.eqb_spec x 35) as [->|Hx].
  - cbn [span] in E. change (NC 35) with false in E. injection E as <- <-. discriminate.
  - destruct d as [|y d']; [discriminate|]. intros H. apply andb_prop in H. tauto.
Qed.

Theorem no_D04_c02_value s : no_D04_c02 s = true -> value_D04 s = false.
Proof.
  induction s as [|c t IH]; [reflexivity|]. cbn [no_D04_c02 value_D04]. intros H. apply andb_prop in H. destruct H as [H1 H2].
  rewrite (IH H2), orb_false_r. destruct (ent_D04 (c :: t)) eqn:E; [|reflexivity].
  apply ent_D04_c02 in E. rewrite E in H1. discriminate.
Qed.

(** ** operations *)
Definition model_facts (o : op) : Prop := with_model_facts o = o.

Definition KnownD04_op (o : op) : bool :=
  match o with
  | CreateProcessingInstruction _ t _ => KnownD04 (n_str t)
  | CreateEntityReference _ n => KnownD04 (n_str n)
  | SetAttribute _ _ v | SetNodeValue _ v => value_D04 (d_str v)
  | _ => false
  end.

Definition KnownFacts (o : op) : bool := KnownD04_op o.

(** the fields a call does not read, blanked *)
Definition relevant (o : op) : op :=
  match o with
  | SetAttribute r n v => SetAttribute r (mkName (n_str n) None (n_attr n) None false) (mkData (d_str v) false false false None (d_attr v))
  | CreateElement d n => CreateElement d (mkName (n_str n) (n_elem n) None None false)
  | CreateAttribute d n => CreateAttribute d (mkName (n_str n) None (n_attr n) None false)
  | CreateProcessingInstruction d t v =>
    CreateProcessingInstruction d (mkName (n_str t) None None (n_pi t) false) (mkData (d_str v) false false false (d_pi v) None)
  | CreateEntityReference d n => CreateEntityReference d (mkName (n_str n) None None None (n_ref n))
  | SetNodeValue r v => SetNodeValue r (mkData (d_str v) false false false (d_pi v) (d_attr v))
  | PISetData r v => PISetData r (mkData (d_str v) false false false (d_pi v) None)
  | _ => o
  end.

Lemma step_relevant w o : step w (relevant o) = step w o.
Proof. destruct o; reflexivity. Qed.

Lemma run_relevant ops : forall w, run w (map relevant ops) = run w ops.
Proof.
  unfold run. induction ops as [|o ops IH]; intros w; cbn [map fold_left]; [reflexivity|].
  rewrite step_relevant. apply IH.
Qed.

Lemma name_mf_eq n : name_mf n = n -> n = facts_of_name (n_str n).
Proof. unfold name_mf. intros H. symmetry. exact H. Qed.
Lemma data_mf_eq d : data_mf d = d -> d = facts_of_data (d_str d).
Proof. unfold data_mf. intros H. symmetry. exact H. Qed.

Theorem model_facts_agree : forall o, model_facts o -> KnownFacts o = false -> op_facts_agree o.
Proof.
  intros o M K1. unfold model_facts in M. unfold KnownFacts in K1.
  destruct o as [| | | |r n v| | | | | |d n|d n| | | |d n v|d n| |r v| | | | | | |r v|];
    cbn [with_model_facts] in M; cbn [op_facts_agree KnownD04_op] in *; try exact I.
  - (* SetAttribute *) injection M as Hn Hv. apply name_mf_eq in Hn. apply data_mf_eq in Hv. rewrite Hn, Hv.
    rewrite Hv in K1. cbn [facts_of_data d_str] in K1. split.
    + exact (proj1 (proj2 (facts_of_name_agree _))).
    + exact (proj2 (facts_of_data_agree _) K1).
  - injection M as Hn. apply name_mf_eq in Hn. rewrite Hn. exact (proj1 (facts_of_name_agree _)).
  - injection M as Hn. apply name_mf_eq in Hn. rewrite Hn. exact (proj1 (proj2 (facts_of_name_agree _))).
  - (* PI *) injection M as Hn Hv. apply name_mf_eq in Hn. apply data_mf_eq in Hv. rewrite Hn, Hv.
    rewrite Hn in K1. cbn [facts_of_name n_str] in K1. split.
    + exact (proj1 (proj2 (proj2 (facts_of_name_agree _))) K1).
    + exact (proj1 (facts_of_data_agree _)).
  - (* entity reference *) injection M as Hn. apply name_mf_eq in Hn. rewrite Hn. rewrite Hn in K1. cbn [facts_of_name n_str] in K1.
    exact (proj2 (proj2 (proj2 (facts_of_name_agree _))) K1).
  - (* set_node_value *) injection M as Hv. apply data_mf_eq in Hv. rewrite Hv. rewrite Hv in K1. cbn [facts_of_data d_str] in K1. split.
    + exact (proj2 (facts_of_data_agree _) K1).
    + exact (proj1 (facts_of_data_agree _)).
  - injection M as Hv. apply data_mf_eq in Hv. rewrite Hv. exact (proj1 (facts_of_data_agree _)).
Qed.

(** lexical soundness, for the operation with the unread fields blanked *)
Theorem model_facts_ok : forall o, model_facts o -> KnownFacts o = false -> op_facts_ok (relevant o).
Proof.
  intros o M K1. unfold model_facts in M. unfold KnownFacts in K1.
  destruct o as [| | | |r n v| | | | | |d n|d n| | | |d n v|d n| |r v| | | | | | |r v|];
    cbn [with_model_facts] in M; cbn [relevant op_facts_ok KnownD04_op] in *; try exact I.
  - (* SetAttribute *) injection M as Hn Hv. apply name_mf_eq in Hn. apply data_mf_eq in Hv.
    rewrite Hv in K1. cbn [facts_of_data d_str] in K1. split.
    + unfold name_facts_ok. cbn [n_elem n_attr n_pi n_ref n_str]. rewrite Hn.
      split; [discriminate|]. split; [exact (proj1 (proj2 (facts_of_name_ok _)))|]. split; discriminate.
    + unfold data_facts_ok. cbn [d_attr d_pi]. rewrite Hv. split; [exact (proj1 (data_facts_ok_model _ K1)) | discriminate].
  - injection M as Hn. apply name_mf_eq in Hn. unfold name_facts_ok. cbn [n_elem n_attr n_pi n_ref n_str]. rewrite Hn.
    split; [exact (proj1 (facts_of_name_ok _))|]. split; [discriminate|]. split; discriminate.
  - injection M as Hn. apply name_mf_eq in Hn. unfold name_facts_ok. cbn [n_elem n_attr n_pi n_ref n_str]. rewrite Hn.
    split; [discriminate|]. split; [exact (proj1 (proj2 (facts_of_name_ok _)))|]. split; discriminate.
  - (* PI *) injection M as Hn Hv. apply name_mf_eq in Hn. apply data_mf_eq in Hv.
    rewrite Hn in K1. cbn [facts_of_name n_str] in K1. split.
    + unfold name_facts_ok. cbn [n_elem n_attr n_pi n_ref n_str]. rewrite Hn.
      split; [discriminate|]. split; [discriminate|]. split; [exact (proj1 (proj2 (proj2 (facts_of_name_ok _))) K1) | discriminate].
    + unfold data_facts_ok. cbn [d_attr d_pi]. rewrite Hv. split; [discriminate|].
      intros c Hc. cbn [facts_of_data d_pi] in Hc. rewrite pi_data_fact_spec in Hc.
      destruct (DomL1.storable_pi (d_str v)) eqn:St; [|discriminate]. injection Hc as <-. apply skip_space_storable. exact St.
  - (* entity reference *) injection M as Hn. apply name_mf_eq in Hn. rewrite Hn in K1. cbn [facts_of_name n_str] in K1.
    unfold name_facts_ok. cbn [n_elem n_attr n_pi n_ref n_str]. rewrite Hn.
    split; [discriminate|]. split; [discriminate|]. split; [discriminate|].
    exact (proj1 (proj2 (proj2 (proj2 (facts_of_name_ok _)))) K1).
  - (* set_node_value *) injection M as Hv. apply data_mf_eq in Hv. rewrite Hv in K1. cbn [facts_of_data d_str] in K1.
    unfold data_facts_ok. cbn [d_attr d_pi]. rewrite Hv. exact (data_facts_ok_model _ K1).
  - injection M as Hv. apply data_mf_eq in Hv. unfold data_facts_ok. cbn [d_attr d_pi]. rewrite Hv. split; [discriminate|].
    intros c Hc. cbn [facts_of_data d_pi] in Hc. rewrite pi_data_fact_spec in Hc.
    destruct (DomL1.storable_pi (d_str v)) eqn:St; [|discriminate]. injection Hc as <-. apply skip_space_storable. exact St.
Qed.

Lemma relevant_all_ok ops : Forall model_facts ops -> forallb (fun o => negb (KnownFacts o)) ops = true ->
  Forall op_facts_ok (map relevant ops).
Proof.
  intros M K. induction M as [|o ops Mo _ IH]; cbn [map]; [constructor|].
  cbn [forallb] in K. apply andb_prop in K. destruct K as [Ko K]. apply negb_true_iff in Ko.
  constructor; [apply model_facts_ok; assumption | apply IH; exact K].
Qed.

(** ** C15 [printable_reachable] and C13 [step_refines] without hypotheses about facts *)
Theorem printable_reachable_model_facts : forall ops w,
  WPrintable w -> Forall model_facts ops -> forallb (fun o => negb (KnownFacts o)) ops = true -> WPrintable (run w ops).
Proof.
  intros ops w Hw M K. rewrite <- run_relevant. apply printable_reachable; [exact Hw | apply relevant_all_ok; assumption].
Qed.
