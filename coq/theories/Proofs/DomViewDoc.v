(** * C01, the DOM view of a whole document WITHOUT a document type declaration (rung (i)).

    For EVERY string that [XmlDocument::from_raw] accepts completely, that has no DOCTYPE and is outside
    finding D04: the dump of the built document through the DOM accessors is the information set of the
    tree that the specification reads from the same string ([Spec.XmlWF.parse_document], [check_doc]):
      raw view (after merging)   [dom_view false doc = doc_tokens xd root]
      merged-text view           [dom_view true doc  = doc_tokens2 xd root]   (empty text nodes of WF14 included)
    and hence [dom_view true doc = doc_tokens xd root] when the merged dump has no empty text node.
    Then, for the renderings of valid abstract documents without DOCTYPE: [dom_view b doc = denote d]. *)
From Coq Require Import List NArith Arith Lia Bool Permutation.
From XmlRs Require Import Base.CPred Spec.XmlChars Model.Peg Gen.XmlcharGen Gen.GrammarXmlGen Model.ParseActions Model.Info Model.DomView
     Proofs.PegLemmas Proofs.PegInv Proofs.PipelineTotal Proofs.DisplayLex Proofs.DisplayDoc Proofs.ParseInv Proofs.ParseInvElem Proofs.ParseInvBuild Proofs.ParseInvDoc
     Proofs.XmlWFSyntaxLex Proofs.XmlWFSyntaxElem Proofs.XmlWFSyntaxDoc Proofs.XmlWFSyntaxCheck
     Proofs.DomViewBase Proofs.DomViewElem Proofs.DomViewAttr.
From XmlRs Require Spec.XmlWF Spec.Infoset Proofs.Expansion.
Import ListNotations.
Local Open Scope N_scope.

(** ** the predefined entities, in content and in attribute values *)
Lemma cont_nodt nm e : resolve_ref [] false false nm = IOk e ->
  exists x', W.expand 6 en0 [] (W.XEntRef nm) = inr x' /\
    (Infoset.no_unexp x' = true -> exists v, Info.expand [] nm = IOk v /\
       (forall acc, Infoset.item_tokens 6 en0 [] x' acc = ([], rev v ++ acc)) /\
       (forall st acc, item_tokens2 6 en0 [] x' st acc = ([], (true, rev v ++ acc)))).
Proof.
  intros H. apply resolve_nodoctype in H. destruct H as [->|[->|[->|[->| ->]]]].
  - exists (W.XExp [108;116] [W.XCharRef 60]). split; [vm_compute; reflexivity|]. intros _. exists [60]. repeat split; vm_compute; reflexivity.
  - exists (W.XExp [103;116] [W.XChar 62]). split; [vm_compute; reflexivity|]. intros _. exists [62]. repeat split; vm_compute; reflexivity.
  - exists (W.XExp [97;109;112] [W.XCharRef 38]). split; [vm_compute; reflexivity|]. intros _. exists [38]. repeat split; vm_compute; reflexivity.
  - exists (W.XExp [97;112;111;115] [W.XChar 39]). split; [vm_compute; reflexivity|]. intros _. exists [39]. repeat split; vm_compute; reflexivity.
  - exists (W.XExp [113;117;111;116] [W.XChar 34]). split; [vm_compute; reflexivity|]. intros _. exists [34]. repeat split; vm_compute; reflexivity.
Qed.

Lemma nu_nodt nm e : resolve_ref [] false false nm = IOk e -> forall x', W.expand 6 en0 [] (W.XEntRef nm) = inr x' -> Infoset.no_unexp x' = true.
Proof.
  intros H x' Hx. apply resolve_nodoctype in H. destruct H as [->|[->|[->|[->| ->]]]]; vm_compute in Hx; injection Hx as <-; reflexivity.
Qed.

Lemma attrv_nodt nm e : resolve_ref [] false true nm = IOk e ->
  exists v, expand_attr [] nm = IOk v /\ W.av_value 6 en0 [W.AvEnt nm] = v.
Proof.
  intros H. apply resolve_nodoctype in H. destruct H as [->|[->|[->|[->| ->]]]]; eexists; split; vm_compute; reflexivity.
Qed.

Lemma attr_tokens_nodecl (a : list attribute) nm :
  Infoset.attr_tokens 6 en0 [] nm (map x_att a) = map snd (Infoset.sort_by fst (map (spec_row en0 5) a)).
Proof.
  unfold Infoset.attr_tokens. cbv zeta. change (W.attdefs_of [] nm) with (@nil (str * W.atttype * W.attdefault)).
  change (W.defaulted_atts [] nm (map x_att a)) with (@nil (str * list W.avpiece)). cbn [map find]. rewrite app_nil_r, map_map.
  reflexivity.
Qed.

Lemma attrs_nodt n attrs attrs' : qname_ok n -> Forall p_attribute_ok' attrs -> build_attrs (ents_of None) false attrs = IOk attrs' ->
  (fun _ _ => true) (d_qname n) (map x_att attrs) = true ->
  attr_rows None (fst (qname_parts n)) (snd (qname_parts n)) attrs' = map KTok (Infoset.attr_tokens 6 en0 [] (d_qname n) (map x_att attrs)).
Proof.
  intros _ Ha Hat _. rewrite attr_tokens_nodecl.
  exact (rows_nodecl None false en0 5 attrv_nodt _ _ attrs attrs' eq_refl Ha Hat).
Qed.

Lemma expand_leaf0 x : match x with W.XElem _ _ _ _ | W.XEntRef _ | W.XExp _ _ => False | _ => True end -> W.expand 6 en0 [] x = inr x.
Proof. destruct x; intros H; try destruct H; reflexivity. Qed.

Definition element_viewed0 := element_viewed None false en0 6 [] (fun _ _ => true) cont_nodt attrs_nodt expand_elem expand_leaf0.
Definition element_no_unexp0 := element_no_unexp [] false en0 6 nu_nodt expand_elem expand_leaf0.

(** ** Misc *)
Lemma misc_dump dt merged (l : list misc) :
  flat_map (item_dump dt merged) (misc_items l) = map KTok (flat_map Infoset.misc_token (x_miscs l)).
Proof.
  induction l as [|m l IH]; [reflexivity|]. unfold x_miscs in *. destruct m as [c|p|w]; cbn [misc_items flat_map x_misc app map]; try exact IH.
  - fold (misc_items l). rewrite IH. reflexivity.
  - fold (misc_items l). rewrite IH. unfold pi_token, x_pi, Infoset.opt_str. reflexivity.
Qed.

Lemma misc_marks (l : list W.xcontent) : forallb is_mark (map KTok (flat_map Infoset.misc_token l)) = true.
Proof.
  induction l as [|x l IH]; [reflexivity|]. cbn [flat_map]. rewrite map_app, forallb_app, IH, andb_true_r. destruct x; reflexivity.
Qed.

Lemma build_element_is_element ents ext e el : build_element ents ext e = IOk el -> exists l p a c, el = ItElement l p a c.
Proof.
  destruct e as [n a [[h cells]|]]; cbn [build_element]; intros H; apply ibind_ok in H; destruct H as [at' [_ H]].
  - apply ibind_ok in H. destruct H as [ch [_ H]]. injection H as <-. eauto.
  - injection H as <-. eauto.
Qed.

(** ** [merge_raw] over the parts of a document *)
Lemma merge_raw_app l1 l2 acc : merge_raw (l1 ++ l2) acc = fst (mr l1 acc) ++ merge_raw l2 (snd (mr l1 acc)).
Proof.
  rewrite !merge_raw_mr, mr_app. destruct (mr l1 acc) as [o1 a1]. cbn [fst snd]. destruct (mr l2 a1) as [o2 a2]. cbn [fst snd].
  now rewrite app_assoc.
Qed.

Lemma merge_raw_mark x t acc : is_mark x = true -> merge_raw (x :: t) acc = fl acc ++ plain_token x :: merge_raw t None.
Proof.
  intros Hx. rewrite !merge_raw_mr, (mr_mark x t acc Hx). destruct (mr t None) as [o a]. cbn [fst snd]. now rewrite <- app_assoc.
Qed.

Lemma merge_raw_marks l acc : forallb is_mark l = true -> merge_raw l acc = fl acc ++ map plain_token l.
Proof.
  destruct l as [|x l]; intros H.
  - cbn [map]. rewrite app_nil_r, merge_raw_mr. reflexivity.
  - cbn [forallb] in H. apply andb_true_iff in H. destruct H as [Hx Hl]. rewrite (merge_raw_mark x l acc Hx).
    rewrite merge_raw_mr, (mr_marks l Hl). cbn [fst snd fl map]. now rewrite app_nil_r.
Qed.

(** ** the document *)
Theorem view_nodoctype_pd (pd : pdoc) (doc : document) :
  p_doc_ok pd -> pr_declaration_doc (d_prolog pd) = None -> build_document pd = IOk doc ->
  exists root, W.check_doc (x_doc_nodt pd) = inr root /\
    dom_view false doc = Infoset.doc_tokens (x_doc_nodt pd) root /\
    dom_view true doc = doc_tokens2 (x_doc_nodt pd) root.
Proof.
  intros [Hpro [He Hms]] Hnd Hb.
  destruct (check_doc_nodoctype pd doc He Hnd Hb) as [root Hc]. exists root. split; [exact Hc|].
  unfold build_document, build_document_gen in Hb. rewrite Hnd in Hb. cbn [ibind] in Hb.
  apply ibind_ok in Hb. destruct Hb as [el [Hel Hb]]. injection Hb as <-.
  unfold external_subset in Hel. cbn [is_some] in Hel. rewrite andb_false_r in Hel.
  destruct (element_viewed0 (d_element pd) He el Hel) as (x' & Ex & Hxe & RMx).
  destruct (RMx (tree_good_true x' (element_no_unexp0 (d_element pd) He el Hel x' Ex))) as [Rx Mx].
  (* the root of check_doc is x' *)
  assert (Hroot : root = x').
  { unfold W.check_doc in Hc. change (W.doc_env (x_doc_nodt pd)) with en0 in Hc. change (W.ent_fuel (x_doc_nodt pd)) with 6%nat in Hc.
    cbn [W.x_doctype x_doc_nodt W.subset_ok W.x_root W.e_must_declare en0] in Hc. rewrite Ex in Hc.
    destruct (W.tree_ok 6 en0 x'); [discriminate|]. injection Hc as <-. reflexivity. }
  subst root.
  destruct (build_element_is_element _ _ _ _ Hel) as (lo & pr & at' & ch & ->).
  assert (Htails : pr_tails (d_prolog pd) = []).
  { destruct Hpro as (_ & _ & Ht & _). rewrite Hnd in Ht. exact Ht. }
  (* the token of the document properties *)
  assert (Hdoc : Infoset.TDoc (match pr_declaration_xml (d_prolog pd) with Some x => Some (dx_version x) | None => None end)
                              (match (match pr_declaration_xml (d_prolog pd) with Some x => match dx_encoding x with Some e => e | None => [] end | None => [] end) with [] => None | e => Some e end)
                              (match pr_declaration_xml (d_prolog pd) with Some x => dx_standalone x | None => None end)
                 = match W.x_decl (x_doc_nodt pd) with
                   | Some xd => Infoset.TDoc (Some (W.xd_version xd)) (W.xd_encoding xd) (W.xd_standalone xd)
                   | None => Infoset.TDoc None None None end).
  { cbn [x_doc_nodt W.x_decl]. destruct Hpro as (Hx & _). destruct (pr_declaration_xml (d_prolog pd)) as [x|]; [|reflexivity].
    cbn [option_map x_xmldecl W.xd_version W.xd_encoding W.xd_standalone]. destruct Hx as [_ Hen].
    destruct (dx_encoding x) as [e|]; [|reflexivity]. destruct e as [|c e]; [destruct Hen|reflexivity]. }
  assert (Hkids : forall b, flat_map (item_dump None b) (misc_items (pr_heads (d_prolog pd)) ++ misc_items (pr_tails (d_prolog pd)) ++ ItElement lo pr at' ch :: misc_items (d_miscs pd))
                 = map KTok (flat_map Infoset.misc_token (x_miscs (pr_heads (d_prolog pd)))) ++ item_dump None b (ItElement lo pr at' ch)
                   ++ map KTok (flat_map Infoset.misc_token (x_miscs (d_miscs pd)))).
  { intros b. rewrite Htails. change (misc_items []) with (@nil item). cbn [app]. rewrite flat_map_app. cbn [flat_map]. rewrite !misc_dump. reflexivity. }
  split.
  - unfold dom_view, dom_dump.
    match goal with |- context [doc_doctype ?d] => replace (doc_doctype d) with (@None doctype)
      by (symmetry; unfold doc_doctype; cbn [doc_children]; rewrite !flat_map_app; cbn [flat_map]; rewrite !misc_items_no_doctype; reflexivity) end.
    cbn [doc_children doc_version doc_encoding doc_standalone app]. rewrite Hkids.
    rewrite merge_raw_mark by reflexivity. rewrite merge_raw_app, (mr_marks _ (misc_marks _)), map_plain_KTok. cbn [fst snd].
    rewrite merge_raw_app. destruct (Rx None) as (a1 & E1 & E2). cbn [kids_raw] in E1. rewrite app_nil_r in E1. cbn [ostr rev] in E1, E2. rewrite E1.
    cbn [fst snd]. rewrite (merge_raw_marks _ a1 (misc_marks _)), map_plain_KTok.
    cbn [items_tokens] in E2 |- *. destruct (Infoset.item_tokens 6 en0 [] x' []) as [o a0] eqn:Eo. cbn [fst snd] in *. rewrite !app_nil_r in *. pose proof Eo as Eo'.
    assert (Ea : fl a1 = []).
    { rewrite <- flush_fl, <- E2. destruct x'; try destruct Hxe. rewrite item_tokens_elem in Eo. destruct (items_tokens 6 en0 [] kids []). injection Eo as _ <-. reflexivity. }
    rewrite Ea. unfold Infoset.doc_tokens. cbv zeta. cbn [plain_token fl app]. rewrite Hdoc.
    change (W.doc_env (x_doc_nodt pd)) with en0. change (W.ent_fuel (x_doc_nodt pd)) with 6%nat.
    cbn [W.x_doctype x_doc_nodt W.x_misc1 W.x_misc2 W.x_misc3 flat_map app]. rewrite Eo'. cbn [fst]. reflexivity.
  - unfold dom_view, dom_dump.
    match goal with |- context [doc_doctype ?d] => replace (doc_doctype d) with (@None doctype)
      by (symmetry; unfold doc_doctype; cbn [doc_children]; rewrite !flat_map_app; cbn [flat_map]; rewrite !misc_items_no_doctype; reflexivity) end.
    cbn [doc_children doc_version doc_encoding doc_standalone app]. rewrite Hkids.
    destruct (Mx false [] (fun _ => eq_refl)) as (E1 & _). change (run_of false []) with (@None (option str)) in E1.
    rewrite km_elem in E1. cbn [flush_run app items_tokens2] in E1. destruct (item_tokens2 6 en0 [] x' false []) as [o [s1 b1]] eqn:Eo. cbn [fst snd] in E1.
    rewrite !app_nil_r in E1. apply (f_equal fst) in E1. cbn [fst] in E1. rewrite E1. cbn [map plain_token]. rewrite Hdoc, !map_app, !map_plain_KTok.
    unfold doc_tokens2. cbv zeta. change (W.doc_env (x_doc_nodt pd)) with en0. change (W.ent_fuel (x_doc_nodt pd)) with 6%nat.
    cbn [W.x_doctype x_doc_nodt W.x_misc1 W.x_misc2 W.x_misc3 flat_map app]. rewrite Eo. cbn [fst]. reflexivity.
Qed.

(** at the entry point, for every accepted string without DOCTYPE outside D04 *)
Lemma parsed_doc_ok (s rest : str) (pd : pdoc) : ParseActions.parse_document s = POk (pd, rest) -> p_doc_ok pd.
Proof.
  unfold ParseActions.parse_document, parse_with. intros Hp.
  destruct (run G_xml G_xml_R nt_document s) as [[t rest']| |] eqn:Er; try discriminate.
  destruct (eval_tree t) eqn:Et; try discriminate. injection Hp as -> ->. apply run_succ in Er. eapply inv_document; eassumption.
Qed.

Theorem dom_view_nodoctype (s : str) (doc : document) :
  from_raw s = OOk ([], doc) -> nodoctype s = true -> KnownD04_nodoctype s = false ->
  exists xd root, W.parse_document s = Some xd /\ W.unsupported xd = false /\ W.check_doc xd = inr root /\
    dom_view false doc = Infoset.doc_tokens xd root /\ dom_view true doc = doc_tokens2 xd root.
Proof.
  intros H Hn Hk. destruct (from_raw_inv _ _ _ H) as [pd [Hp Hb]]. unfold nodoctype, KnownD04_nodoctype in *. rewrite Hp in *.
  destruct (pr_declaration_doc (d_prolog pd)) eqn:Hnd; [discriminate|]. apply negb_false_iff in Hk.
  pose proof (parse_document_syntax_nodoctype s pd Hp Hnd Hk) as Hsyn.
  destruct (view_nodoctype_pd pd doc (parsed_doc_ok _ _ _ Hp) Hnd Hb) as (root & Hc & Hr & Hm).
  exists (x_doc_nodt pd), root. repeat split; assumption.
Qed.
