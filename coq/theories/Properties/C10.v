(** C10 -- namespaces resolve per Namespaces in XML; name tests match expanded names.
    This file only names the theorems; proofs live in Proofs/Namespaces*.v and Proofs/NsExamples.v.

    Objects.  [tree] / [elem] (Spec/Namespaces.v): a document reduced to qualified names, namespace
    declarations and attribute names; an element is addressed by its ancestor chain (itself first).
    [spec_*] transcribes Namespaces in XML 1.0 and XPath 1.0 2.3; [m_*] / [model_*] (Model/NsModel.v) is
    what xml-info, xml-dom and xml-xpath do after the fixes D35, D58, D59, D60 (branch agent-nsattr), tied to
    the crates by the [ns] correspondence.  Hypotheses: [chain_ok] / [tree_ok] = no duplicate declaration
    in one start-tag and the reserved prefix xmlns neither declared nor used (XML 1.0 / Namespaces
    syntax); [doc_nswf] = every prefix used is bound (namespace-well-formed); caller bindings bind each
    prefix once ([NoDup]) and do not bind the empty prefix (XPath 1.0 has no such binding). *)
From Coq Require Import List NArith Bool.
From XmlRs Require Import Base.CPred Spec.AttrNorm Spec.Namespaces Model.NsModel
  Proofs.NamespacesScope Proofs.NamespacesNames Proofs.NamespacesDoc Proofs.NsExamples Proofs.NamespacesDefaults.
Import ListNotations.
Open Scope N_scope.

(** *** in-scope namespaces: walking the ancestors computes the bindings of the environment *)
Theorem in_scope_refines : forall chain, chain <> [] -> chain_ok chain = true ->
  NoDup (map fst (m_in_scope chain)) /\
  forall p u, In (p, u) (m_in_scope chain) <-> In (p, u) (in_scope (env_of chain)).
Proof. exact in_scope_refines_proof. Qed.

(** ... and the specification's list is exactly the set of bound prefixes *)
Theorem in_scope_is_lookup : forall e p u, In (p, u) (in_scope e) <-> ns_lookup e p = Some u.
Proof. exact in_scope_spec. Qed.

(** *** expanded names of elements (xml-dom as_expanded_name and xml-info namespace_name) *)
Theorem expanded_names_refine : forall x up en,
  chain_ok (x :: up) = true -> resolve_elem (env_of (x :: up)) (el_name x) = Some en ->
  m_elem_dom (x :: up) = Some en /\ m_elem_info (x :: up) = Some en.
Proof. exact elem_name_refines. Qed.

(** ... and of attributes *)
Theorem attribute_names_refine : forall x up q en,
  chain_ok (x :: up) = true -> In q (el_attrs x) -> resolve_attr (env_of (x :: up)) q = Some en ->
  m_attr_dom (x :: up) q = en /\ m_attr_info (x :: up) q = en.
Proof. exact attr_name_refines. Qed.

(** ... for every element of every document *)
Theorem document_refines : forall d, tree_ok d = true ->
  Forall (fun c =>
    match c with
    | x :: up =>
        (forall en, resolve_elem (env_of c) (el_name x) = Some en -> m_elem_dom c = Some en /\ m_elem_info c = Some en) /\
        (forall q en, In q (el_attrs x) -> resolve_attr (env_of c) q = Some en -> m_attr_dom c q = en /\ m_attr_info c q = en) /\
        NoDup (map fst (m_in_scope c)) /\
        (forall p u, In (p, u) (m_in_scope c) <-> In (p, u) (in_scope (env_of c)))
    | [] => False
    end) (chains [] d).
Proof. exact doc_refines_proof. Qed.

(** the top-down traversal of the specification visits exactly these chains *)
Theorem spec_doc_is_chains : forall d, spec_doc d = flat_map obs_of_chain (chains [] d).
Proof. exact spec_doc_flat. Qed.

(** *** name tests with the caller's bindings *)
Theorem name_tests_refine : forall b t n, NoDup (map fst b) -> m_name_test (m_ctx_of b) t n = name_test b t n.
Proof. exact name_test_refines. Qed.

Theorem selection_refines : forall b t attrs d,
  NoDup (map fst b) -> tree_ok d = true -> doc_nswf d = true -> test_ok b t = true ->
  model_select b t attrs d = spec_select b t attrs d.
Proof. exact select_refines_proof. Qed.

(** *** prefix renaming, on the specification *)
Theorem doc_prefix_renaming : forall f d, consistent f (tree_prefixes d) ->
  map strip (spec_doc (rn_tree f d)) = map (rn_strip f) (spec_doc d).
Proof. exact doc_prefix_renaming_proof. Qed.

Theorem doc_prefix_renaming_select : forall f b t attrs d, consistent f (tree_prefixes d) ->
  spec_select b t attrs (rn_tree f d) = option_map (map (rn_ref f)) (spec_select b t attrs d).
Proof. exact doc_prefix_renaming_select_proof. Qed.

Theorem expr_prefix_renaming : forall f b t attrs d,
  injective_on f (map fst b ++ test_prefixes t) ->
  spec_select (rn_bindings f b) (rn_test f t) attrs d = spec_select b t attrs d.
Proof. exact expr_prefix_renaming_proof. Qed.

(** *** ... transported to the model by the refinement theorems *)
Theorem model_doc_prefix_renaming : forall f b t attrs d,
  NoDup (map fst b) -> test_ok b t = true ->
  tree_ok d = true -> tree_ok (rn_tree f d) = true -> doc_nswf d = true ->
  consistent f (tree_prefixes d) ->
  model_select b t attrs (rn_tree f d) = option_map (map (rn_ref f)) (model_select b t attrs d).
Proof. exact model_doc_renaming_proof. Qed.

Theorem model_expr_prefix_renaming : forall f b t attrs d,
  NoDup (map fst b) -> test_ok b t = true -> tree_ok d = true -> doc_nswf d = true ->
  injective_on f (map fst b ++ test_prefixes t) ->
  model_select (rn_bindings f b) (rn_test f t) attrs d = model_select b t attrs d.
Proof. exact model_expr_renaming_proof. Qed.

(** *** the sentences of the property, as facts about the specification *)
Theorem default_namespace_not_for_attributes : forall e l,
  resolve_attr e {| qn_prefix := None; qn_local := l |} = Some (l, None).
Proof. exact default_not_for_attributes_proof. Qed.
Theorem default_namespace_for_elements : forall e l,
  resolve_elem e {| qn_prefix := None; qn_local := l |} = Some (l, ns_lookup e None).
Proof. exact default_for_elements_proof. Qed.
Theorem empty_xmlns_undeclares : forall e, ns_lookup ((None, []) :: e) None = None.
Proof. exact undeclare_default_proof. Qed.
Theorem xml_prefix_always_bound : forall chain,
  (forall x, In x chain -> ~ In (Some p_xml) (map fst (el_decls x))) ->
  ns_lookup (env_of chain) (Some p_xml) = Some xml_ns.
Proof. exact xml_always_bound_proof. Qed.
Theorem declarations_inherited : forall x up p,
  assoc (el_decls x) p = None -> ns_lookup (env_of (x :: up)) p = ns_lookup (env_of up) p.
Proof. exact inherited_proof. Qed.

(** *** documents WITH a DTD: namespace declarations (and attributes) supplied by attribute-list defaults (D67).
    [nsdtd] = the attribute definitions of all ATTLIST declarations in document order; [default_tree d t] is
    the document after XML 1.0 3.3 / 3.3.2 (first definition binding; a declared default VALUE supplies what is not
    written; a written declaration wins), to which Namespaces in XML is then applied ([spec_ddoc], [spec_dselect]);
    [m_default_tree] is what xml-info's [declaration_att_defs], [namespace_attributes] and [attributes] compute after
    /repo commit bf629dc.  Hypotheses: [nsdtd_ok] = no definition declares or uses the reserved prefix xmlns;
    [nsdtd_no_required_attr] = no #REQUIRED definition of an ORDINARY attribute (xml-info materialises it: listed
    finding D36 of C11; refuted without it below).  The theorems above are the instances [d = []] ([default_tree_nil]). *)
Theorem defaulting_refines : forall d t, nsdtd_no_required_attr d = true -> m_default_tree d t = default_tree d t.
Proof. exact default_tree_refines. Qed.

(** ... the namespace declarations of an element never need the hypothesis *)
Theorem defaulted_declarations_refine : forall d x,
  el_decls (m_default_elem d x) = el_decls x ++ decls_in (defaulted d x).
Proof. exact namespace_attributes_refines. Qed.

Theorem defaulting_required_refuted : exists d x, m_default_elem d x <> default_elem d x.
Proof. exists ex_req_dtd, ex_req_elem. exact default_elem_required_refuted. Qed.

Theorem defaulting_without_dtd : forall t, default_tree [] t = t.
Proof. exact default_tree_nil. Qed.

(** defaulting keeps the syntactic conditions: the hypotheses below speak about the document as written *)
Theorem defaulting_keeps_tree_ok : forall d t, nsdtd_ok d = true -> tree_ok t = true -> tree_ok (default_tree d t) = true.
Proof. exact default_tree_ok. Qed.

Theorem in_scope_refines_dtd : forall d chain,
  chain <> [] -> chain_ok chain = true -> nsdtd_ok d = true -> nsdtd_no_required_attr d = true ->
  NoDup (map fst (m_in_scope (map (m_default_elem d) chain))) /\
  forall p u, In (p, u) (m_in_scope (map (m_default_elem d) chain))
              <-> In (p, u) (in_scope (env_of (map (default_elem d) chain))).
Proof. exact in_scope_refines_dtd_proof. Qed.

Theorem expanded_names_refine_dtd : forall d x up en,
  chain_ok (x :: up) = true -> nsdtd_ok d = true -> nsdtd_no_required_attr d = true ->
  resolve_elem (env_of (map (default_elem d) (x :: up))) (el_name x) = Some en ->
  m_elem_dom (map (m_default_elem d) (x :: up)) = Some en /\ m_elem_info (map (m_default_elem d) (x :: up)) = Some en.
Proof. exact elem_name_refines_dtd. Qed.

(** ... [q] ranges over the written AND the defaulted ordinary attributes *)
Theorem attribute_names_refine_dtd : forall d x up q en,
  chain_ok (x :: up) = true -> nsdtd_ok d = true -> nsdtd_no_required_attr d = true ->
  In q (el_attrs (default_elem d x)) ->
  resolve_attr (env_of (map (default_elem d) (x :: up))) q = Some en ->
  m_attr_dom (map (m_default_elem d) (x :: up)) q = en /\ m_attr_info (map (m_default_elem d) (x :: up)) q = en.
Proof. exact attr_name_refines_dtd. Qed.

Theorem document_refines_dtd : forall d t, tree_ok t = true -> nsdtd_ok d = true -> nsdtd_no_required_attr d = true ->
  model_ddoc d t = map model_obs (chains [] (default_tree d t)) /\
  spec_ddoc d t = flat_map obs_of_chain (chains [] (default_tree d t)) /\
  Forall (fun c =>
    match c with
    | x :: up =>
        (forall en, resolve_elem (env_of c) (el_name x) = Some en -> m_elem_dom c = Some en /\ m_elem_info c = Some en) /\
        (forall q en, In q (el_attrs x) -> resolve_attr (env_of c) q = Some en -> m_attr_dom c q = en /\ m_attr_info c q = en) /\
        NoDup (map fst (m_in_scope c)) /\
        (forall p u, In (p, u) (m_in_scope c) <-> In (p, u) (in_scope (env_of c)))
    | [] => False
    end) (chains [] (default_tree d t)).
Proof. exact doc_refines_dtd_proof. Qed.

(** [attrs = true] with ordinary attributes supplied by default: the model selects them in document order; the
    crates give those nodes order key 0 (listed finding D19 of C05 / C07), so the [ns] correspondence asks [//@T]
    only where the DTD supplies declarations *)
Theorem selection_refines_dtd : forall b t attrs d doc,
  NoDup (map fst b) -> tree_ok doc = true -> nsdtd_ok d = true -> nsdtd_no_required_attr d = true ->
  doc_nswf (default_tree d doc) = true -> test_ok b t = true ->
  model_dselect b t attrs d doc = spec_dselect b t attrs d doc.
Proof. exact select_refines_dtd_proof. Qed.

(** *** prefix renaming with a DTD: the prefixes of the document AND of the attribute definitions (element types,
    declared prefixes, prefixed attribute names) are renamed together; [nsdtd_prefixes] lists the latter *)
Theorem defaulting_commutes_with_renaming : forall f d t, consistent f (tree_prefixes t ++ nsdtd_prefixes d) ->
  default_tree (rn_nsdtd f d) (rn_tree f t) = rn_tree f (default_tree d t).
Proof. exact default_tree_rn_consistent. Qed.

Theorem doc_prefix_renaming_dtd : forall f d t, consistent f (tree_prefixes t ++ nsdtd_prefixes d) ->
  map strip (spec_ddoc (rn_nsdtd f d) (rn_tree f t)) = map (rn_strip f) (spec_ddoc d t).
Proof. exact doc_prefix_renaming_dtd_proof. Qed.

Theorem doc_prefix_renaming_select_dtd : forall f b t attrs d doc,
  consistent f (tree_prefixes doc ++ nsdtd_prefixes d) ->
  spec_dselect b t attrs (rn_nsdtd f d) (rn_tree f doc) = option_map (map (rn_ref f)) (spec_dselect b t attrs d doc).
Proof. exact doc_prefix_renaming_select_dtd_proof. Qed.

Theorem expr_prefix_renaming_dtd : forall f b t attrs d doc,
  injective_on f (map fst b ++ test_prefixes t) ->
  spec_dselect (rn_bindings f b) (rn_test f t) attrs d doc = spec_dselect b t attrs d doc.
Proof. exact expr_prefix_renaming_dtd_proof. Qed.

Theorem model_doc_prefix_renaming_dtd : forall f b t attrs d doc,
  NoDup (map fst b) -> test_ok b t = true ->
  tree_ok doc = true -> tree_ok (rn_tree f doc) = true -> nsdtd_ok d = true -> nsdtd_ok (rn_nsdtd f d) = true ->
  nsdtd_no_required_attr d = true -> doc_nswf (default_tree d doc) = true ->
  consistent f (tree_prefixes doc ++ nsdtd_prefixes d) ->
  model_dselect b t attrs (rn_nsdtd f d) (rn_tree f doc) = option_map (map (rn_ref f)) (model_dselect b t attrs d doc).
Proof. exact model_doc_renaming_dtd_proof. Qed.

Theorem model_expr_prefix_renaming_dtd : forall f b t attrs d doc,
  NoDup (map fst b) -> test_ok b t = true -> tree_ok doc = true -> nsdtd_ok d = true ->
  nsdtd_no_required_attr d = true -> doc_nswf (default_tree d doc) = true ->
  injective_on f (map fst b ++ test_prefixes t) ->
  model_dselect (rn_bindings f b) (rn_test f t) attrs d doc = model_dselect b t attrs d doc.
Proof. exact model_expr_renaming_dtd_proof. Qed.

(** the hypotheses are satisfiable by D67's document (Proofs/NamespacesDefaults.v: [ex_ddoc_hyps], [ex_ddoc_names],
    [ex_drn_consistent]): it is namespace-well-formed only because of the defaults *)

Print Assumptions in_scope_refines.
Print Assumptions in_scope_is_lookup.
Print Assumptions expanded_names_refine.
Print Assumptions attribute_names_refine.
Print Assumptions document_refines.
Print Assumptions spec_doc_is_chains.
Print Assumptions name_tests_refine.
Print Assumptions selection_refines.
Print Assumptions doc_prefix_renaming.
Print Assumptions doc_prefix_renaming_select.
Print Assumptions expr_prefix_renaming.
Print Assumptions model_doc_prefix_renaming.
Print Assumptions model_expr_prefix_renaming.
Print Assumptions xml_prefix_always_bound.
Print Assumptions defaulting_refines.
Print Assumptions defaulted_declarations_refine.
Print Assumptions defaulting_required_refuted.
Print Assumptions defaulting_without_dtd.
Print Assumptions defaulting_keeps_tree_ok.
Print Assumptions in_scope_refines_dtd.
Print Assumptions expanded_names_refine_dtd.
Print Assumptions attribute_names_refine_dtd.
Print Assumptions document_refines_dtd.
Print Assumptions selection_refines_dtd.
Print Assumptions defaulting_commutes_with_renaming.
Print Assumptions doc_prefix_renaming_dtd.
Print Assumptions doc_prefix_renaming_select_dtd.
Print Assumptions expr_prefix_renaming_dtd.
Print Assumptions model_doc_prefix_renaming_dtd.
Print Assumptions model_expr_prefix_renaming_dtd.
