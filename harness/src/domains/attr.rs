//! C11: attributes of the document element of one document.
//! case line: `<document as code points>`
//! observation: `ok` then, per attribute of the document element sorted by qualified name,
//! ` <qname>/<normalized value>/<info specified 0|1>/<dom specified 0|1>/<declared type>`
//! (names and values as code points); `err` when the document is refused or an accessor fails.
//! case line `c <document>`: the same observation, but BEFORE the attributes are read the value of every
//! entity reference in the content of the document element is read (what reading the text does): the
//! attribute values may not depend on what was read earlier.
use crate::util::{dec, enc};
use xml_dom::Attr;
use xml_info::{Attribute, Document, Element, HasQName, Value, XmlDeclarationAttType};

fn ty_name(t: &Value<Option<XmlDeclarationAttType>>) -> &'static str {
    match t {
        Value::Unknown => "UNKNOWN",
        Value::V(None) => "NONE",
        Value::V(Some(t)) => match t {
            XmlDeclarationAttType::CData => "CDATA",
            XmlDeclarationAttType::Entities => "ENTITIES",
            XmlDeclarationAttType::Entity => "ENTITY",
            XmlDeclarationAttType::Id => "ID",
            XmlDeclarationAttType::IdRef => "IDREF",
            XmlDeclarationAttType::IdRefs => "IDREFS",
            XmlDeclarationAttType::NmToken => "NMTOKEN",
            XmlDeclarationAttType::NmTokens => "NMTOKENS",
            XmlDeclarationAttType::Notation(_) => "NOTATION",
            XmlDeclarationAttType::Enumeration(_) => "ENUM",
        },
    }
}

pub fn case(line: &str) -> String {
    let line = line.trim();
    let (content_first, line) = match line.strip_prefix("c ") {
        Some(rest) => (true, rest),
        None => (false, line),
    };
    let text = match dec(line.trim()) {
        Some(s) => s,
        None => return "badinput".to_string(),
    };
    let (rest, tree) = match xml_parser::document(&text) {
        Ok(v) => v,
        Err(_) => return "err parse".to_string(),
    };
    if !rest.is_empty() {
        return "err rest".to_string();
    }
    let doc = match xml_info::XmlDocument::new(&tree) {
        Ok(d) => d,
        Err(_) => return "err info".to_string(),
    };
    let root = match doc.borrow().document_element() {
        Ok(r) => r,
        Err(_) => return "err root".to_string(),
    };
    if content_first {
        use xml_info::HasChildren;
        for c in root.borrow().children().iter() {
            if let xml_info::XmlItem::Unexpanded(r) = c.as_ref() {
                let _ = r.borrow().value();
            }
        }
    }
    let mut rows: Vec<(String, String)> = vec![];
    for a in root.borrow().attributes().iter() {
        let qn = {
            let b = a.borrow();
            match b.prefix() {
                Some(p) => format!("{}:{}", p, b.local_name()),
                None => b.local_name().to_string(),
            }
        };
        let value = match a.borrow().normalized_value() {
            Ok(v) => v,
            Err(_) => return "err value".to_string(),
        };
        let ispec = a.borrow().specified();
        let ty = a.borrow().attribute_type();
        let dspec = xml_dom::XmlAttr::from(a.clone()).specified();
        rows.push((
            qn.clone(),
            format!(
                "{}/{}/{}/{}/{}",
                enc(&qn),
                enc(&value),
                ispec as u8,
                dspec as u8,
                ty_name(&ty)
            ),
        ));
    }
    rows.sort();
    let mut out = String::from("ok");
    for (_, r) in rows {
        out.push(' ');
        out.push_str(&r);
    }
    out
}
