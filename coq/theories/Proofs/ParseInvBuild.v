(** * C04, converse direction: XmlDocument::new preserves the invariants.

    If the typed parse model satisfies what the parser guarantees ([p_element_ok], Proofs/ParseInvElem.v)
    and [build_element] succeeds, the infoset element it returns satisfies [item_wf] -- the
    hypothesis of the print -> parse rungs -- with respect to the same entity table. *)
From Coq Require Import List NArith Arith Lia Bool.
From XmlRs Require Import Base.CPred Model.Peg Gen.XmlcharGen Gen.GrammarXmlGen Model.ParseActions Model.Info Model.Display
     Proofs.PegLemmas Proofs.Expansion Proofs.PipelineTotal Proofs.DisplayLex Proofs.DisplayElem Proofs.ParseInv Proofs.ParseInvElem.
Import ListNotations.
Local Open Scope N_scope.

Lemma ibind_ok {A B} (x : ires A) (f : A -> ires B) b : ibind x f = IOk b -> exists a, x = IOk a /\ f a = IOk b.
Proof. destruct x; cbn [ibind]; intros H; try discriminate. eauto. Qed.

(** ** entity lookups return an entity of the name asked for *)
Lemma lookup_entity2_name ents name e d : lookup_entity2 ents name = IOk (e, d) -> en_name e = name.
Proof.
  unfold lookup_entity2. destruct (find _ ents) as [e0|] eqn:F.
  - intros H. injection H as <- <-. apply find_some in F. destruct F as [_ F]. apply str_eqb_eq. exact F.
  - destruct (predefined name) as [e0|] eqn:P; [|discriminate]. intros H. injection H as <- <-.
    unfold predefined in P.
    repeat match type of P with (if ?b then _ else _) = _ => destruct b; [injection P as <-; reflexivity|] end.
    discriminate.
Qed.

Lemma resolve_ref_name ents ext a name e : resolve_ref ents ext a name = IOk e ->
  en_name e = name /\ resolve_ref ents ext a (en_name e) = IOk e.
Proof.
  intros H. assert (en_name e = name) as E.
  { unfold resolve_ref in H. apply ibind_ok in H. destruct H as [[e0 d] [H1 H2]]. apply ibind_ok in H2. destruct H2 as [sn [_ H2]].
    cbn [fst] in H2. injection H2 as <-. eapply lookup_entity2_name. exact H1. }
  split; [exact E|rewrite E; exact H].
Qed.

Section B.
Variable ents : list entity.
Variable ext : bool.

(** ** attribute values *)
Lemma build_avalue_shape v o : build_avalue ents ext v = IOk o ->
  match v, o with
  | AvText s, Some (XaText s') => s' = s /\ s <> []
  | AvText s, None => s = []
  | AvReference (RefChar num r), Some (XaChar t num' r') => num' = num /\ r' = r /\ exists c, char_from num r = IOk c /\ t = [c]
  | AvReference (RefEntity n), Some (XaEntity e) => resolve_ref ents ext true n = IOk e
  | _, _ => False
  end.
Proof.
  destruct v as [[num r|n]|s]; cbn [build_avalue]; intros H.
  - apply ibind_ok in H. destruct H as [c [Hc H]]. injection H as <-. repeat split. eauto.
  - apply ibind_ok in H. destruct H as [e [He H]]. injection H as <-. exact He.
  - destruct s; injection H as <-; [reflexivity|split; [reflexivity|discriminate]].
Qed.

(** a built value list printed back: same pieces *)
Lemma build_avalues_un_inv l : forall vs, build_avalues ents ext l = IOk vs ->
  (forall s, In (AvText s) l -> s <> []) -> map un_avalue vs = l.
Proof.
  induction l as [|v l IH]; intros vs H Hne; cbn [build_avalues] in H.
  - injection H as <-. reflexivity.
  - apply ibind_ok in H. destruct H as [o [Ho H]]. apply ibind_ok in H. destruct H as [r [Hr H]]. injection H as <-.
    pose proof (build_avalue_shape v o Ho) as Hs. specialize (IH r Hr (fun s Hs' => Hne s (or_intror Hs'))).
    destruct v as [[num rd|n]|s]; destruct o as [[t num' r'|e|s']|]; cbv beta iota in Hs; try contradiction; cbn [map un_avalue].
    + destruct Hs as [-> [-> _]]. rewrite IH. reflexivity.
    + destruct (resolve_ref_name _ _ _ _ _ Hs) as [-> _]. rewrite IH. reflexivity.
    + destruct Hs as [-> _]. rewrite IH. reflexivity.
    + subst s. exfalso. apply (Hne [] (or_introl eq_refl)). reflexivity.
Qed.

Lemma av_ok_text_nonempty q l : forall b, av_ok q b l -> forall s, In (AvText s) l -> s <> [].
Proof.
  induction l as [|v l IH]; intros b H s Hin; [destruct Hin|]. destruct Hin as [E|Hin].
  - subst v. cbn [av_ok] in H. tauto.
  - destruct v; cbn [av_ok] in H; eapply IH; try eassumption; apply H.
Qed.

(** the pieces of a built value, relative to the quote [q] the SOURCE used *)
Definition avalue_src_wf (q : N) (v : avalue) : Prop :=
  match v with
  | XaText s => s <> [] /\ forallb (eval (is_char_except [60;38;q])) s = true
  | XaChar t num r => reference_ok (RefChar num r) /\ exists c, char_from num r = IOk c /\ t = [c]
  | XaEntity e => name_ok (en_name e) /\ resolve_ref ents ext true (en_name e) = IOk e
  end.

Lemma build_avalues_wf q l : forall b vs, av_ok q b l -> build_avalues ents ext l = IOk vs ->
  no_adjacent_text b vs /\ Forall (avalue_src_wf q) vs.
Proof.
  induction l as [|v l IH]; intros b vs Hok H; cbn [build_avalues] in H.
  - injection H as <-. split; [exact I|constructor].
  - apply ibind_ok in H. destruct H as [o [Ho H]]. apply ibind_ok in H. destruct H as [r [Hr H]]. injection H as <-.
    pose proof (build_avalue_shape v o Ho) as Hs.
    destruct v as [[num rd|n]|s]; destruct o as [[t num' r'|e|s']|]; cbv beta iota in Hs; try contradiction; cbn [av_ok] in Hok.
    + destruct Hs as [-> [-> Hc]]. destruct Hok as [Hr0 Hok]. destruct (IH false r Hok Hr) as [Ha Hf].
      split; [exact Ha|constructor; [split; assumption|exact Hf]].
    + destruct Hok as [Hn Hok]. destruct (IH false r Hok Hr) as [Ha Hf]. destruct (resolve_ref_name _ _ _ _ _ Hs) as [En Hres].
      split; [exact Ha|constructor; [split; [rewrite En; exact Hn|exact Hres]|exact Hf]].
    + destruct Hs as [-> Hne]. destruct Hok as [Hb [_ [Hs' Hok]]]. destruct (IH true r Hok Hr) as [Ha Hf].
      split; [split; assumption|constructor; [split; assumption|exact Hf]].
    + subst s. destruct Hok as [_ [Hne _]]. contradiction.
Qed.

(** from the source quote to the quote the printer picks *)
Lemma src_piece_no_dquote v : avalue_src_wf 34 v -> existsb (N.eqb 34) (d_avalue v) = false.
Proof.
  intros H. apply (piece_no_quote ents ext 34 v (or_introl eq_refl)). destruct v; exact H.
Qed.

Lemma src_no_dquote vs : Forall (avalue_src_wf 34) vs -> existsb (N.eqb 34) (d_avalues vs) = false.
Proof.
  unfold d_avalues. induction 1 as [|v vs' Hv _ IH]; [reflexivity|]. cbn [flat_map].
  apply existsb_app_false; [apply src_piece_no_dquote; exact Hv|exact IH].
Qed.

Lemma except_swap (s : str) q q' : forallb (eval (is_char_except [60;38;q])) s = true -> existsb (N.eqb q') s = false ->
  forallb (eval (is_char_except [60;38;q'])) s = true.
Proof.
  induction s as [|c s IH]; cbn [forallb existsb]; [reflexivity|]. intros H1 H2.
  apply andb_prop in H1. destruct H1 as [Hc Hs]. apply orb_false_elim in H2. destruct H2 as [Hq Hs2].
  rewrite (IH Hs Hs2), andb_true_r. unfold is_char_except in *. cbn [eval existsb] in *.
  apply andb_prop in Hc. destruct Hc as [Hch Hex]. rewrite Hch. cbn [andb]. apply negb_true_iff. apply negb_true_iff in Hex.
  apply orb_false_elim in Hex. destruct Hex as [H60 Hex]. apply orb_false_elim in Hex. destruct Hex as [H38 _].
  rewrite H60, H38. cbn [orb]. rewrite orb_false_r.
  apply N.eqb_neq in Hq. destruct (N.leb_spec q' c); [|reflexivity]. cbn [andb]. apply N.ltb_ge. lia.
Qed.

Lemma existsb_flat_false {A} (f : N -> bool) (g : A -> str) (l : list A) x : In x l -> existsb f (flat_map g l) = false -> existsb f (g x) = false.
Proof.
  induction l as [|y l IH]; [intros []|]. cbn [flat_map]. rewrite existsb_app. intros [->|Hin] H; apply orb_false_elim in H; destruct H; auto.
Qed.

Theorem values_wf_built q l vs : (q = 34 \/ q = 39) -> av_ok q false l -> build_avalues ents ext l = IOk vs ->
  values_wf ents ext vs /\ map un_avalue vs = l.
Proof.
  intros Hq Hok Hb. destruct (build_avalues_wf q l false vs Hok Hb) as [Hadj Hsrc].
  split; [|apply build_avalues_un_inv; [exact Hb|eapply av_ok_text_nonempty; exact Hok]].
  split; [exact Hadj|].
  (* which quote will the printer choose? *)
  unfold quote_of. destruct (existsb (N.eqb 34) (d_avalues vs)) eqn:E.
  - (* a double quote occurs: the source must have used the single quote *)
    destruct Hq as [-> | ->].
    + exfalso. pose proof (src_no_dquote vs Hsrc). congruence.
    + eapply Forall_impl; [|exact Hsrc]. intros v Hv. destruct v; exact Hv.
  - (* no double quote anywhere: the printer uses it *)
    rewrite Forall_forall in *. intros v Hin. specialize (Hsrc v Hin). destruct v as [t num r|e|s]; cbn [avalue_wf avalue_src_wf] in *; try exact Hsrc.
    destruct Hsrc as [Hne Hs]. split; [exact Hne|]. eapply except_swap; [exact Hs|].
    apply (existsb_flat_false (N.eqb 34) d_avalue vs (XaText s) Hin E).
Qed.

(** ** attributes *)
Lemma un_attr_name_canon n local prefix : attribute_name n = (local, prefix) -> att_name_canon n ->
  un_attr_name (Attr local prefix []) = n.
Proof.
  unfold un_attr_name. cbn [xa_prefix xa_local]. destruct n as [|v|[p l|x]]; cbn [attribute_name qname_parts att_name_canon]; intros E Hc; injection E as <- <-.
  - rewrite str_eqb_refl. reflexivity.
  - rewrite str_eqb_refl. reflexivity.
  - destruct (str_eqb p s_xmlns) eqn:Ep; [apply str_eqb_eq in Ep; contradiction|reflexivity].
  - destruct (str_eqb x s_xmlns) eqn:Ex; [apply str_eqb_eq in Ex; contradiction|reflexivity].
Qed.

Theorem attr_wf_built (a : attribute) (a' : attr) : p_attribute_ok' a -> build_attr ents ext a = IOk a' ->
  attr_wf ents ext a' /\ un_attr a' = a.
Proof.
  intros [[Hn [q [Hq Hv]]] Hc] Hb. unfold build_attr in Hb. destruct (attribute_name (at_name a)) as [local prefix] eqn:En.
  apply ibind_ok in Hb. destruct Hb as [vs [Hvs Hb]]. injection Hb as <-.
  destruct (values_wf_built q (at_value a) vs Hq Hv Hvs) as [Hw Hun].
  pose proof (un_attr_name_canon _ _ _ En Hc) as Hname. unfold un_attr_name in Hname. cbn [xa_prefix xa_local] in Hname.
  split; [split|].
  - (* name *)
    unfold attr_name_wf. cbn [xa_prefix xa_local].
    destruct (at_name a) as [|v|[p l|x]]; cbn [attribute_name qname_parts att_name_ok att_name_canon] in *; injection En as <- <-.
    + rewrite str_eqb_refl. exact I.
    + rewrite str_eqb_refl. exact Hn.
    + destruct (str_eqb p s_xmlns) eqn:Ep; [apply str_eqb_eq in Ep; contradiction|]. exact Hn.
    + destruct (str_eqb x s_xmlns) eqn:Ex; [apply str_eqb_eq in Ex; contradiction|]. exact Hn.
  - exact Hw.
  - unfold un_attr, un_attr_name. cbn [xa_prefix xa_local xa_values]. rewrite Hname, Hun. destruct a; reflexivity.
Qed.

Lemma attrs_wf_built (l : list attribute) : Forall p_attribute_ok' l -> forall before l',
  build_attrs_from ents ext before l = IOk l' ->
  Forall (attr_wf ents ext) l' /\ map un_attr l' = l /\ attrs_nodup before l.
Proof.
  induction 1 as [|a l Ha _ IH]; intros before l' Hb; cbn [build_attrs_from] in Hb.
  - injection Hb as <-. repeat split. constructor.
  - destruct (existsb _ before) eqn:Ed; [discriminate|].
    apply ibind_ok in Hb. destruct Hb as [a' [Ha' Hb]]. apply ibind_ok in Hb. destruct Hb as [r [Hr Hb]]. injection Hb as <-.
    destruct (attr_wf_built a a' Ha Ha') as [Hw Hu]. destruct (IH _ _ Hr) as [Hf [Hm Hn]].
    split; [constructor; assumption|]. split; [cbn [map]; rewrite Hu, Hm; reflexivity|]. cbn [attrs_nodup]. split; assumption.
Qed.

End B.

(** ** elements *)
Section E.
Variable ents : list entity.
Variable ext : bool.

Definition not_text (i : item) : Prop := match i with ItText _ | ItDocType _ => False | _ => True end.

Lemma children_wf_head Q b b' c l : not_text c -> children_wf Q b (c :: l) -> children_wf Q b' (c :: l).
Proof. destruct c; cbn [not_text children_wf]; try tauto. Qed.

Lemma text_item_wf Q o l : text_opt_ok o -> (forall b, children_wf Q b l) -> children_wf Q false (text_item o ++ l).
Proof.
  intros Ho Hl. destruct o as [[|c s]|]; cbn [text_item app]; try apply Hl.
  cbn [children_wf]. repeat split; [discriminate|apply Ho|apply Ho|apply Hl].
Qed.

Definition elem_built (e : element) : Prop :=
  forall i, p_element_ok e -> build_element ents ext e = IOk i -> is_element i = true /\ item_wf ents ext i.

Lemma child_built (ch : contents) it : contents_ok p_element_ok ch ->
  (match ch with CsElement e' => elem_built e' | _ => True end) ->
  build_child (build_element ents ext) ents ext ch = IOk it -> not_text it /\ item_wf ents ext it.
Proof.
  destruct ch as [e'|[num r|name]|s|p|s]; cbn [build_child contents_ok]; intros Hok IH H.
  - destruct (IH it Hok H) as [Hel Hw]. split; [destruct it; try discriminate; exact I|exact Hw].
  - apply ibind_ok in H. destruct H as [c [Hc H]]. injection H as <-. split; [exact I|]. cbn [item_wf leaf_wf]. split; [exact Hok|eauto].
  - apply ibind_ok in H. destruct H as [x [Hx H]]. injection H as <-. split; [exact I|]. cbn [item_wf leaf_wf].
    destruct (resolve_ref_name _ _ _ _ _ Hx) as [En Hres]. split; [rewrite En; exact Hok|exact Hres].
  - injection H as <-. split; [exact I|exact Hok].
  - injection H as <-. split; [exact I|exact Hok].
  - injection H as <-. split; [exact I|exact Hok].
Qed.

Lemma cells_built (cells : list cell) : cells_ok p_element_ok cells -> cells_all elem_built cells ->
  forall r, build_cells (build_element ents ext) ents ext cells = IOk r -> forall b, children_wf (item_wf ents ext) b r.
Proof.
  induction cells as [|[ch tl] l IH]; intros Hok Hall r H b; cbn [build_cells] in H.
  - injection H as <-. exact I.
  - apply ibind_ok in H. destruct H as [it [Hit H]]. apply ibind_ok in H. destruct H as [r' [Hr' H]]. injection H as <-.
    cbn [cells_ok] in Hok. destruct Hok as [Hch [Htl Hl]]. inversion Hall as [|x y Hx Hy]; subst. cbn [fst] in Hx.
    destruct (child_built ch it Hch Hx Hit) as [Hnt Hw].
    apply (children_wf_head _ false b); [exact Hnt|].
    assert (children_wf (item_wf ents ext) false (text_item tl ++ r')) as Hrest by (apply text_item_wf; [exact Htl|apply IH; assumption]).
    destruct it; cbn [not_text] in Hnt; try contradiction; cbn [children_wf]; split; assumption.
Qed.

Lemma mk_qname_parts n : mk_qname (snd (qname_parts n)) (fst (qname_parts n)) = n.
Proof. destruct n; reflexivity. Qed.

Theorem element_built : forall e, elem_built e.
Proof.
  apply element_ind2.
  - intros n a i [Hn [Ha _]] H. cbn [build_element] in H. apply ibind_ok in H. destruct H as [attrs' [Hat H]]. injection H as <-.
    destruct (attrs_wf_built ents ext a Ha [] attrs' Hat) as [Hf [Hm Hd]].
    split; [reflexivity|]. cbn [item_wf]. rewrite mk_qname_parts, Hm. repeat split; assumption.
  - intros n a h cells IH i [Hn [Ha [Hh Hc]]] H. cbn [build_element] in H. apply ibind_ok in H. destruct H as [attrs' [Hat H]].
    apply ibind_ok in H. destruct H as [ch [Hch H]]. injection H as <-.
    destruct (attrs_wf_built ents ext a Ha [] attrs' Hat) as [Hf [Hm Hd]].
    split; [reflexivity|]. cbn [item_wf]. rewrite mk_qname_parts, Hm. repeat split; try assumption.
    apply text_item_wf; [exact Hh|]. apply (cells_built cells Hc IH ch Hch).
Qed.
End E.
