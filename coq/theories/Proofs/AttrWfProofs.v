(** * C11: the checks made when a document is built ([check_entity_ref] on every entity reference of every
      attribute value literal) accept exactly the literals that the specification can expand, and on those
      the values agree -- without assuming anything about the rest of the entity table. *)
From Coq Require Import List NArith Bool Lia.
From XmlRs Require Import Base.CPred Spec.AttrNorm Model.AttrModel Proofs.AttrTokenProofs
  Proofs.AttrNormProofs Proofs.AttrSetProofs.
Import ListNotations.
Open Scope N_scope.

(** [good T n]: the entity [n] can be expanded -- it is predefined, or declared with a literal all of whose
    references are good.  An inductive (well-founded) derivation, so no cycle is reachable from [n]. *)
Inductive good (T : table) : name -> Prop :=
| good_pre n : declared T n = None -> predefined n <> None -> good T n
| good_decl n lit : declared T n = Some lit -> (forall m, In m (refs_of lit) -> good T m) -> good T n.

Definition is_ok {A} (x : ares A) : bool := match x with Ok _ => true | _ => false end.

Lemma norm_pieces_ok_inv (ent : name -> ares str) l s :
  norm_pieces ent l = Ok s -> forall n, In n (refs_of l) -> exists v, ent n = Ok v.
Proof.
  revert s. induction l as [|p r IH]; intros s H n Hn; [destruct Hn|].
  destruct p as [t|c|m]; cbn [norm_pieces refs_of flat_map app] in *.
  - apply bind_ok in H as (a & Ha & _). eauto.
  - apply bind_ok in H as (a & Ha & _). eauto.
  - apply bind_ok in H as (v & Hv & H). apply bind_ok in H as (a & Ha & _).
    destruct Hn as [<-|Hn]; eauto.
Qed.

Lemma good_no_cycle T n : good T n -> ~ reaches T n n.
Proof.
  induction 1 as [n Hd Hp|n lit Hd Hg IH]; intros R.
  - inversion R as [a b (l & Hl & _)|a b k (l & Hl & _) _]; subst; congruence.
  - assert (G : forall a b, reaches T a b -> a = n -> b = n -> False).
    { intros a b R'. destruct R' as [a b (l & Hl & Hm)|a b k (l & Hl & Hm) Rbk]; intros -> ->.
      - rewrite Hd in Hl. injection Hl as <-. exact (IH n Hm R).
      - rewrite Hd in Hl. injection Hl as <-. apply (IH b Hm).
        eapply reaches_snoc; [exact Rbk|]. exists lit. auto. }
    exact (G n n R eq_refl eq_refl).
Qed.

Lemma good_refs T n lit : good T n -> declared T n = Some lit -> forall m, In m (refs_of lit) -> good T m.
Proof. intros H Hd. destruct H as [n Hn _|n l Hl Hg]; [congruence|]. rewrite Hd in Hl. injection Hl as <-. exact Hg. Qed.

(** *** specification side *)
Lemma expand_ok_good T : simple_table T -> forall f n s, expand_entity f T n = Ok s -> good T n.
Proof.
  intros Hs. induction f as [|f IH]; intros n s H; [discriminate|].
  cbn [expand_entity] in H. apply bind_ok in H as (body & Hb & Hn).
  unfold entity_repl in Hb. destruct (declared T n) as [lit|] eqn:E.
  - rewrite (replacement_simple lit (Hs n lit (declared_in _ _ _ E))) in Hb. injection Hb as <-.
    apply (good_decl T n lit E). intros m Hm. rewrite <- refs_of_simp in Hm.
    destruct (norm_pieces_ok_inv _ _ _ Hn m Hm) as [v Hv]. exact (IH m v Hv).
  - apply good_pre; [exact E|]. destruct (predefined n); [discriminate|discriminate].
Qed.

Lemma good_expand_ok T : simple_table T -> forall f n path, good T n ->
  NoDup path -> (forall p, In p path -> declared T p <> None /\ reaches T p n) ->
  (length path + f > length T)%nat -> exists s, expand_entity f T n = Ok s.
Proof.
  intros Hs. induction f as [|f IH]; intros n path Hg Hnd Hpath Hlen.
  - exfalso. assert (Hincl : incl path (map fst T)).
    { intros p Hp. apply declared_name_in. apply (Hpath p Hp). }
    pose proof (NoDup_incl_length Hnd Hincl) as Hle. rewrite map_length in Hle. lia.
  - cbn [expand_entity]. unfold entity_repl. destruct (declared T n) as [lit|] eqn:E.
    + rewrite (replacement_simple lit (Hs n lit (declared_in _ _ _ E))). cbn [bind].
      apply norm_pieces_ok. intros m Hm. rewrite refs_of_simp in Hm.
      assert (Hnm : refers T n m) by (exists lit; auto).
      apply (IH m (n :: path)).
      * exact (good_refs T n lit Hg E m Hm).
      * constructor; [|exact Hnd]. intros Hp. exact (good_no_cycle T n Hg (proj2 (Hpath n Hp))).
      * intros p [<-|Hp]; [split; [congruence|apply reach_step; exact Hnm]|].
        destruct (Hpath p Hp) as [Hd Hr]. split; [exact Hd|]. eapply reaches_snoc; eauto.
      * cbn [length]. lia.
    + destruct Hg as [n _ Hp|n lit Hl _]; [|congruence].
      destruct (predefined n) as [r|] eqn:Ep; [|congruence]. cbn [bind].
      apply norm_pieces_ok. intros m Hm. rewrite (predefined_no_refs n r Ep) in Hm. destruct Hm.
Qed.

Lemma expand_ok_iff_good T n : simple_table T -> is_ok (expand_entity (fuel_of T) T n) = true <-> good T n.
Proof.
  intros Hs. split.
  - destruct (expand_entity (fuel_of T) T n) eqn:E; try discriminate. intros _. exact (expand_ok_good T Hs _ n a E).
  - intros Hg. destruct (good_expand_ok T Hs (fuel_of T) n [] Hg) as [s ->]; try reflexivity.
    + constructor. + intros p []. + unfold fuel_of. cbn [length]. lia.
Qed.

(** *** model side *)
Lemma check_loop_ok_inv rec vals : check_loop rec vals = Ok tt -> forall m, In m (refs_of vals) -> rec m = Ok tt.
Proof.
  induction vals as [|p r IH]; intros H m Hm; [destruct Hm|].
  destruct p as [s|c|v]; cbn [check_loop refs_of flat_map app] in *.
  - destruct (existsb (fun c => c =? 60) s); [discriminate|]. auto.
  - destruct (c =? 60); [discriminate|]. auto.
  - destruct (rec v) as [[]| | |] eqn:Ev; cbn [bind] in H; try discriminate.
    destruct Hm as [<-|Hm]; [exact Ev|auto].
Qed.

Lemma check_ok_good T : forall f n visiting, check_entity_ref f T visiting n = Ok tt -> good T n.
Proof.
  induction f as [|f IH]; intros n visiting H; [discriminate|].
  cbn [check_entity_ref] in H. rewrite find_entity_declared in H.
  destruct (declared T n) as [lit|] eqn:E.
  - destruct (existsb (str_eqb n) visiting); [discriminate|].
    apply (good_decl T n lit E). intros m Hm. exact (IH m _ (check_loop_ok_inv _ _ H m Hm)).
  - apply good_pre; [exact E|]. pose proof (predefined_agree n) as Ha.
    destruct (m_predefined n); [|discriminate]. destruct (predefined n); [discriminate|discriminate].
Qed.

Lemma good_check_ok T : simple_table T -> forall f n visiting, good T n ->
  NoDup visiting -> (forall p, In p visiting -> declared T p <> None /\ reaches T p n) ->
  (length visiting + f > length T)%nat -> check_entity_ref f T visiting n = Ok tt.
Proof.
  intros Hs. induction f as [|f IH]; intros n visiting Hg Hnd Hv Hlen.
  - exfalso. assert (Hincl : incl visiting (map fst T)).
    { intros p Hp. apply declared_name_in. apply (Hv p Hp). }
    pose proof (NoDup_incl_length Hnd Hincl) as Hle. rewrite map_length in Hle. lia.
  - cbn [check_entity_ref]. rewrite find_entity_declared. destruct (declared T n) as [lit|] eqn:E.
    + destruct (existsb (str_eqb n) visiting) eqn:Ex.
      { exfalso. apply existsb_str_in in Ex. exact (good_no_cycle T n Hg (proj2 (Hv n Ex))). }
      apply check_loop_ok; [exact (Hs n lit (declared_in _ _ _ E))|]. intros m Hm.
      assert (Hnm : refers T n m) by (exists lit; auto).
      apply IH.
      * exact (good_refs T n lit Hg E m Hm).
      * apply nodup_snoc; [exact Hnd|]. intros Hp. exact (good_no_cycle T n Hg (proj2 (Hv n Hp))).
      * intros p Hp. apply in_app_or in Hp as [Hp|[<-|[]]].
        -- destruct (Hv p Hp) as [Hd Hr]. split; [exact Hd|]. eapply reaches_snoc; eauto.
        -- split; [congruence|apply reach_step; exact Hnm].
      * rewrite app_length. cbn [length]. lia.
    + destruct Hg as [n _ Hp|n lit Hl _]; [|congruence]. pose proof (predefined_agree n) as Ha.
      destruct (m_predefined n); [reflexivity|]. destruct (predefined n); [discriminate|congruence].
Qed.

Lemma check_ok_iff_good T n : simple_table T ->
  is_ok (check_entity_ref (S (length T)) T [] n) = true <-> good T n.
Proof.
  intros Hs. split.
  - destruct (check_entity_ref (S (length T)) T [] n) as [[]| | |] eqn:E; try discriminate. intros _.
    exact (check_ok_good T _ n [] E).
  - intros Hg. rewrite (good_check_ok T Hs (S (length T)) n [] Hg); [reflexivity|constructor|intros p []|cbn [length]; lia].
Qed.

(** *** the two tests of a literal coincide *)
Lemma norm_pieces_is_ok (ent : name -> ares str) l :
  is_ok (norm_pieces ent l) = forallb (fun n => is_ok (ent n)) (refs_of l).
Proof.
  unfold refs_of. induction l as [|p r IH]; [reflexivity|]. destruct p as [s|c|n]; cbn [norm_pieces flat_map app forallb].
  - rewrite <- IH. destruct (norm_pieces ent r); reflexivity.
  - rewrite <- IH. destruct (norm_pieces ent r); reflexivity.
  - rewrite <- IH. destruct (ent n); cbn [bind is_ok andb]; [|reflexivity..]. destruct (norm_pieces ent r); reflexivity.
Qed.

Lemma bool_iff (a b : bool) : (a = true <-> b = true) -> a = b.
Proof. destruct a, b; intros [H1 H2]; try reflexivity; [symmetry; apply H1; reflexivity|apply H2; reflexivity]. Qed.

Theorem literal_checks_agree (T : table) lit : simple_table T -> m_refs_found T lit = lit_expands T lit.
Proof.
  intros Hs. unfold lit_expands, cdata_value_f. fold (is_ok (norm_pieces (expand_entity (fuel_of T) T) lit)).
  rewrite norm_pieces_is_ok. unfold m_refs_found.
  induction lit as [|p r IH]; [reflexivity|]. destruct p as [s|c|n]; cbn [forallb refs_of flat_map app]; try exact IH.
  unfold refs_of in IH. rewrite IH. f_equal.
  fold (is_ok (check_entity_ref (S (length T)) T [] n)). apply bool_iff.
  rewrite check_ok_iff_good, expand_ok_iff_good by exact Hs. reflexivity.
Qed.

(** every prefix of the entity table that an attribute-list declaration sees is simple when the table is *)
Lemma simple_app a b : simple_table (a ++ b) -> simple_table a.
Proof. intros H n lit Hin. apply (H n lit). apply in_or_app. left. exact Hin. Qed.

Lemma doctype_checks_agree d : forall seen, simple_table (seen ++ entities_of d) ->
  m_doctype_ok seen d = defaults_ok seen d.
Proof.
  induction d as [|x r IH]; intros seen Hs; [reflexivity|]. destruct x as [n lit|e defs].
  - cbn [m_doctype_ok defaults_ok entities_of] in *. apply IH. rewrite <- app_assoc. exact Hs.
  - cbn [m_doctype_ok defaults_ok entities_of] in *. rewrite (IH seen Hs). f_equal.
    apply forallb_ext. intros a. destruct (ad_default a); try reflexivity.
    apply literal_checks_agree. exact (simple_app _ _ Hs).
Qed.

(** *** values on good literals, whatever the rest of the table looks like *)
Lemma expand_refines_good T : simple_table T -> forall f n parents, good T n ->
  (forall p, In p parents -> reaches T p n) -> m_expand_entity f T parents n = expand_entity f T n.
Proof.
  intros Hs. induction f as [|f IH]; intros n parents Hg Hp; [reflexivity|].
  cbn [m_expand_entity expand_entity].
  destruct (existsb (str_eqb n) parents) eqn:Ex.
  { exfalso. apply existsb_str_in in Ex. exact (good_no_cycle T n Hg (Hp n Ex)). }
  rewrite entity_step by exact Hs.
  destruct (entity_repl T n) as [body| | |] eqn:Er; cbn [bind]; try reflexivity.
  apply norm_pieces_ext_in. intros m Hm.
  pose proof (entity_repl_refs T n body Hs Er m Hm) as Hnm. apply IH.
  - destruct Hnm as (lit & Hd & Hin). exact (good_refs T n lit Hg Hd m Hin).
  - intros p Hin. apply in_app_or in Hin as [Hin|[<-|[]]].
    + eapply reaches_snoc; [exact (Hp p Hin)|exact Hnm].
    + apply reach_step. exact Hnm.
Qed.

Theorem value_refines_good T ty lit : simple_table T -> (forall n, In n (refs_of lit) -> good T n) ->
  model_value T ty lit = spec_value T ty lit.
Proof.
  intros Hs Hg. unfold model_value, spec_value, normalized_value_f, spec_value_f, cdata_value_f, attr_value_from_name, fuel_of.
  rewrite value_loop_fold. cbn [app]. rewrite bind_ret.
  rewrite (norm_pieces_ext_in _ (expand_entity (S (length T)) T) lit).
  - apply bind_ext. intros v. rewrite not_cdata_is_cdata, split_filter_join_tokenized. destruct (is_cdata ty); reflexivity.
  - intros n Hn. apply expand_refines_good; [exact Hs|exact (Hg n Hn)|intros p []].
Qed.

Lemma lit_expands_good T lit : simple_table T -> lit_expands T lit = true -> forall n, In n (refs_of lit) -> good T n.
Proof.
  intros Hs H n Hn. unfold lit_expands, cdata_value_f in H.
  destruct (norm_pieces (expand_entity (fuel_of T) T) lit) as [s| | |] eqn:E; try discriminate.
  destruct (norm_pieces_ok_inv _ _ _ E n Hn) as [v Hv]. exact (expand_ok_good T Hs _ n v Hv).
Qed.

(** *** a literal accepted where it is declared stays good in the whole table, as long as no predefined
    name is declared by the document (a later declaration of [lt] would change what [&lt;] means) *)
Definition predefined_free (T : table) : Prop := forall n, predefined n <> None -> declared T n = None.

Lemma declared_app a b n : declared (a ++ b) n = match declared a n with Some l => Some l | None => declared b n end.
Proof. induction a as [|(m, l) r IH]; [reflexivity|]. cbn [app declared]. destruct (str_eqb m n); [reflexivity|exact IH]. Qed.

Lemma good_extend a b n : predefined_free (a ++ b) -> good a n -> good (a ++ b) n.
Proof.
  intros Hp. induction 1 as [n Hd Hpre|n lit Hd Hg IH].
  - apply good_pre; [apply Hp; exact Hpre|exact Hpre].
  - apply (good_decl _ n lit); [rewrite declared_app, Hd; reflexivity|exact IH].
Qed.

(** the default literals that passed [defaults_ok]: each was accepted under a prefix of the final table *)
Lemma defaults_ok_good d : forall seen, simple_table (seen ++ entities_of d) -> predefined_free (seen ++ entities_of d) ->
  defaults_ok seen d = true ->
  forall e defs x fx lit, In (DAttlist e defs) d -> In x defs -> ad_default x = Default fx lit ->
  forall n, In n (refs_of lit) -> good (seen ++ entities_of d) n.
Proof.
  induction d as [|y r IH]; intros seen Hs Hp Hok e defs x fx lit Hin Hx Hd n Hn; [destruct Hin|].
  destruct y as [m l|e' defs'].
  - cbn [defaults_ok entities_of] in *. destruct Hin as [Hin|Hin]; [discriminate|].
    assert (Eq : seen ++ (m, l) :: entities_of r = (seen ++ [(m, l)]) ++ entities_of r)
      by (rewrite <- app_assoc; reflexivity).
    rewrite Eq in *. exact (IH (seen ++ [(m, l)]) Hs Hp Hok e defs x fx lit Hin Hx Hd n Hn).
  - cbn [defaults_ok entities_of] in *. apply andb_prop in Hok as [Hhere Hrest].
    destruct Hin as [Hin|Hin].
    + injection Hin as -> ->. rewrite forallb_forall in Hhere. specialize (Hhere x Hx). rewrite Hd in Hhere.
      apply good_extend; [exact Hp|]. exact (lit_expands_good seen lit (simple_app _ _ Hs) Hhere n Hn).
    + exact (IH seen Hs Hp Hrest e defs x fx lit Hin Hx Hd n Hn).
Qed.

(** merged definitions come from the attribute-list declarations of the document *)
Lemma add_defs_in defs : forall acc x, In x (add_defs acc defs) -> In x acc \/ In x defs.
Proof.
  induction defs as [|y r IH]; intros acc x H; [left; exact H|]. cbn [add_defs] in H.
  destruct (existsb (fun z => str_eqb (ad_name z) (ad_name y)) acc).
  - destruct (IH acc x H); [left|right; right]; assumption.
  - destruct (IH (acc ++ [y]) x H) as [H1|H1]; [|right; right; exact H1].
    apply in_app_or in H1 as [H1|[<-|[]]]; [left; exact H1|right; left; reflexivity].
Qed.

Lemma merged_defs_in d el : forall acc x, In x (merged_defs acc d el) ->
  In x acc \/ exists e defs, In (DAttlist e defs) d /\ In x defs.
Proof.
  induction d as [|y r IH]; intros acc x H; [left; exact H|]. destruct y as [m l|e defs]; cbn [merged_defs] in H.
  - destruct (IH acc x H) as [H1|(e & ds & H1 & H2)]; [left; exact H1|right; exists e, ds; split; [right; exact H1|exact H2]].
  - destruct (str_eqb e el).
    + destruct (IH _ x H) as [H1|(e2 & ds & H1 & H2)].
      * destruct (add_defs_in defs acc x H1) as [H2|H2]; [left; exact H2|right; exists e, defs; split; [left; reflexivity|exact H2]].
      * right. exists e2, ds. split; [right; exact H1|exact H2].
    + destruct (IH acc x H) as [H1|(e2 & ds & H1 & H2)]; [left; exact H1|right; exists e2, ds; split; [right; exact H1|exact H2]].
Qed.

(** *** the attribute set, for every document whose entity literals are simple: refused by both, or equal *)
Lemma rows_refine_good d el written :
  simple_table (entities_of d) -> Known36 d el written = false ->
  (forall nl, In nl written -> forall n, In n (refs_of (snd nl)) -> good (entities_of d) n) ->
  (forall x fx lit, In x (defs_for d el) -> ad_default x = Default fx lit ->
     forall n, In n (refs_of lit) -> good (entities_of d) n) ->
  map (m_observe d el) (m_attributes_nodes d el written) = map of_item (spec_attrs_items d el written).
Proof.
  intros Hs Hk Hw Hdg.
  unfold m_attributes_nodes, spec_attrs_items. rewrite att_defs_merged. fold (defs_for d el).
  set (defs := defs_for d el) in *.
  set (base := map (fun nl => {| mn_name := fst nl; mn_vals := snd nl; mn_from_dtd := false |})
                   (filter (fun nl => negb (m_namespace (fst nl))) written)).
  pose proof (defs_for_nodup d el) as Hnd. fold defs in Hnd.
  rewrite <- (app_nil_r base). rewrite (m_defaults_flat defs base [] Hnd) by (intros e []).
  cbn [app]. rewrite !map_app. f_equal.
  - unfold base. rewrite !map_map. apply map_ext_in. intros [n l] Hin. apply filter_In in Hin as [Hin _].
    unfold m_observe, of_item. cbn [mn_name mn_vals mn_from_dtd ai_name ai_value ai_specified ai_type fst snd negb].
    rewrite att_defs_merged. fold (defs_for d el). fold defs.
    unfold declaration_type, def_of. f_equal.
    apply value_refines_good; [exact Hs|exact (Hw (n, l) Hin)].
  - apply map_flat_map_ext. intros x Hx.
    unfold mrow. rewrite namespace_is_nsdecl. destruct (is_nsdecl (ad_name x)) eqn:Hnsx.
    { rewrite orb_true_r. destruct (ad_default x); reflexivity. }
    unfold base. rewrite (written_base written (ad_name x) Hnsx). fold (is_written written (ad_name x)).
    rewrite orb_false_r.
    destruct (is_written written (ad_name x)) eqn:Ew; [destruct (ad_default x); reflexivity|].
    assert (Hty : declaration_type (declaration_att_defs [] d el) (ad_name x) = Some (ad_type x)).
    { rewrite att_defs_merged. fold (defs_for d el). fold defs. unfold declaration_type.
      rewrite (find_nodup defs x Hnd Hx). reflexivity. }
    destruct (ad_default x) as [| |fx lit] eqn:Ed.
    + reflexivity.
    + exfalso. unfold Known36 in Hk. fold defs in Hk.
      assert (Hc : existsb (fun x0 => match ad_default x0 with
                       | Required => negb (is_written written (ad_name x0)) | _ => false end) defs = true).
      { apply existsb_exists. exists x. split; [exact Hx|]. rewrite Ed, Ew. reflexivity. }
      rewrite Hc in Hk. discriminate.
    + cbn [map]. unfold m_observe, of_item.
      cbn [mn_name mn_vals mn_from_dtd ai_name ai_value ai_specified ai_type negb].
      rewrite Hty. f_equal. f_equal.
      apply value_refines_good; [exact Hs|exact (Hdg x fx lit Hx Ed)].
Qed.

Theorem attribute_set_refines_all_proof : forall d el written,
  simple_table (entities_of d) -> predefined_free (entities_of d) -> Known36 d el written = false ->
  model_attrs d el written = map_ares (map of_item) (spec_attrs d el written).
Proof.
  intros d el written Hs Hp Hk. unfold model_attrs, spec_attrs.
  rewrite (doctype_checks_agree d []) by exact Hs.
  replace (forallb (fun nl => m_refs_found (entities_of d) (snd nl)) written)
     with (forallb (fun nl => lit_expands (entities_of d) (snd nl)) written)
     by (apply forallb_ext; intros a; symmetry; apply literal_checks_agree; exact Hs).
  destruct (defaults_ok [] d) eqn:Hd; cbn [andb]; [|reflexivity].
  destruct (forallb (fun nl => lit_expands (entities_of d) (snd nl)) written) eqn:Hw; [|reflexivity].
  cbn [map_ares bind]. f_equal. apply rows_refine_good; try assumption.
  - intros nl Hnl. rewrite forallb_forall in Hw. exact (lit_expands_good _ _ Hs (Hw nl Hnl)).
  - intros x fx lit Hx Hdx n Hn. unfold defs_for in Hx.
    destruct (merged_defs_in d el [] x Hx) as [[]|(e & defs & Hin & Hxd)].
    exact (defaults_ok_good d [] Hs Hp Hd e defs x fx lit Hin Hxd Hdx n Hn).
Qed.

(** *** the fuel of the model is a proof device: with [S (length T)] it never runs out, on ANY table
    (the stack [parents] holds distinct declared names) -- the Rust functions terminate by themselves *)
Lemma entity_loop_total (rec : name -> ares str) vals : forall acc,
  (forall m, In m (refs_of vals) -> rec m <> Recursion) -> entity_loop rec acc vals <> Recursion.
Proof.
  induction vals as [|p r IH]; intros acc H; [discriminate|]. destruct p as [s|c|n]; cbn [entity_loop].
  - apply IH. exact H.
  - apply IH. exact H.
  - pose proof (H n (or_introl eq_refl)) as Hn. destruct (rec n); cbn [bind]; try discriminate; [|congruence].
    apply IH. intros m Hm. apply H. right. exact Hm.
Qed.

Lemma not_in_existsb (n : name) l : existsb (str_eqb n) l = false -> ~ In n l.
Proof.
  induction l as [|x r IH]; cbn [existsb]; intros H; [intros []|]. apply orb_false_iff in H as [H1 H2].
  intros [E|Hin]; [subst x; rewrite str_eqb_refl in H1; discriminate|exact (IH H2 Hin)].
Qed.

Lemma m_expand_total T : forall f n parents, NoDup parents ->
  (forall p, In p parents -> declared T p <> None) -> (length parents + f > length T)%nat ->
  m_expand_entity f T parents n <> Recursion.
Proof.
  induction f as [|f IH]; intros n parents Hnd Hp Hlen.
  - exfalso. assert (Hincl : incl parents (map fst T)) by (intros p Hin; apply declared_name_in, Hp, Hin).
    pose proof (NoDup_incl_length Hnd Hincl) as Hle. rewrite map_length in Hle. lia.
  - cbn [m_expand_entity]. destruct (existsb (str_eqb n) parents) eqn:Ex; [discriminate|].
    unfold context_entity. rewrite find_entity_declared. destruct (declared T n) as [lit|] eqn:E; cbn [bind].
    + apply entity_loop_total. intros m _. apply IH.
      * apply nodup_snoc; [exact Hnd|apply not_in_existsb; exact Ex].
      * intros p Hin. apply in_app_or in Hin as [Hin|[<-|[]]]; [exact (Hp p Hin)|congruence].
      * rewrite app_length. cbn [length]. lia.
    + unfold m_predefined.
      destruct (str_eqb n n_lt); [discriminate|]. destruct (str_eqb n n_gt); [discriminate|].
      destruct (str_eqb n n_amp); [discriminate|]. destruct (str_eqb n n_apos); [discriminate|].
      destruct (str_eqb n n_quot); discriminate.
Qed.

Lemma value_loop_total (rec : name -> ares str) vals : forall acc,
  (forall m, rec m <> Recursion) -> value_loop rec acc vals <> Recursion.
Proof.
  induction vals as [|p r IH]; intros acc H; [discriminate|]. destruct p as [s|c|n]; cbn [value_loop]; try (apply IH; exact H).
  pose proof (H n) as Hn. destruct (rec n); cbn [bind]; try discriminate; [|congruence]. apply IH. exact H.
Qed.

Theorem model_value_total : forall T ty lit, model_value T ty lit <> Recursion.
Proof.
  intros T ty lit. unfold model_value, normalized_value_f, attr_value_from_name.
  pose proof (value_loop_total (m_expand_entity (S (length T)) T []) lit []) as H.
  destruct (value_loop (m_expand_entity (S (length T)) T []) [] lit) eqn:E; cbn [bind]; try discriminate.
  exfalso. apply H; [|reflexivity]. intros m. apply m_expand_total; [constructor|intros p []|cbn [length]; lia].
Qed.
