//! C10: namespaces.  Two kinds of case line:
//!  `doc <document>` -> `ok` then per element in document (pre-)order
//!     ` E <local>/<dom uri>/<info uri> N <prefix>=<uri>,... A <qname>/<local>/<dom uri>/<info uri> ...`
//!     (uri `~` = no namespace; in-scope namespaces sorted by prefix, `-` = default; attributes
//!     are the non-declaration attributes sorted by qualified name)
//!  `q <document> <expression> [<prefix>=<uri> ...]` -> `nodes e<rank> a<rank>.<qname> ...`:
//!     the node-set selected by `xml_xpath::query` with the caller bindings given through
//!     `Context::add_ns`, elements as pre-order ranks, attributes as owner rank + name;
//!     `val` for a non-node value, `err` when the query fails.
//! All strings are code points joined by ','.
use crate::util::{dec, enc};
use xml_dom::{AsExpandedName, AsNode, Node};
use xml_info::{Attribute, Document, Element, HasQName};

fn opt(u: Option<String>) -> String {
    match u {
        None => "~".to_string(),
        Some(s) => enc(&s),
    }
}

fn elements(
    e: &xml_info::XmlNode<xml_info::XmlElement>,
    out: &mut Vec<xml_info::XmlNode<xml_info::XmlElement>>,
) {
    out.push(e.clone());
    let children = e.borrow().children();
    for c in children.iter() {
        if let Some(c) = c.as_element() {
            elements(&c, out);
        }
    }
}

fn load(text: &str) -> Result<xml_info::XmlNode<xml_info::XmlDocument>, String> {
    let (rest, tree) = xml_parser::document(text).map_err(|_| "err parse".to_string())?;
    if !rest.is_empty() {
        return Err("err rest".to_string());
    }
    xml_info::XmlDocument::new(&tree).map_err(|_| "err info".to_string())
}

fn qn<T: HasQName>(v: &T) -> String {
    match v.prefix() {
        Some(p) => format!("{}:{}", p, v.local_name()),
        None => v.local_name().to_string(),
    }
}

fn dump(text: &str) -> Result<String, String> {
    let doc = load(text)?;
    let root = doc
        .borrow()
        .document_element()
        .map_err(|_| "err root".to_string())?;
    let mut els = vec![];
    elements(&root, &mut els);
    let mut out = String::from("ok");
    for e in els {
        let de = xml_dom::XmlElement::from(e.clone());
        let (local, _, duri) = de
            .as_expanded_name()
            .map_err(|_| "err ename".to_string())?
            .ok_or("err ename")?;
        let iuri = e
            .borrow()
            .namespace_name()
            .map_err(|_| "err iname".to_string())?
            .map(|u| u.value().to_string());
        out.push_str(&format!(" E {}/{}/{}", enc(&local), opt(duri), opt(iuri)));
        let mut nss: Vec<(String, String)> = vec![];
        for n in de.in_scope_namespace().map_err(|_| "err scope".to_string())? {
            let p = n.node_name();
            let p = if p == "xmlns" { String::new() } else { p };
            nss.push((p, n.node_value().ok().flatten().unwrap_or_default()));
        }
        nss.sort();
        out.push_str(" N ");
        if nss.is_empty() {
            out.push('-');
        }
        out.push_str(
            &nss.iter()
                .map(|(p, u)| format!("{}={}", enc(p), enc(u)))
                .collect::<Vec<_>>()
                .join(";"),
        );
        let mut rows = vec![];
        for a in e.borrow().attributes().iter() {
            let name = qn(&*a.borrow());
            let da = xml_dom::XmlAttr::from(a.clone());
            let (alocal, _, aduri) = da
                .as_expanded_name()
                .map_err(|_| "err aname".to_string())?
                .ok_or("err aname")?;
            let aiuri = a
                .borrow()
                .namespace_name()
                .map_err(|_| "err ainame".to_string())?
                .map(|u| u.value().to_string());
            rows.push((
                name.clone(),
                format!("{}/{}/{}/{}", enc(&name), enc(&alocal), opt(aduri), opt(aiuri)),
            ));
        }
        rows.sort();
        out.push_str(" A");
        for (_, r) in rows {
            out.push(' ');
            out.push_str(&r);
        }
    }
    Ok(out)
}

fn query(text: &str, expr: &str, bindings: &[(String, String)]) -> Result<String, String> {
    let doc = load(text)?;
    let root = doc
        .borrow()
        .document_element()
        .map_err(|_| "err root".to_string())?;
    let mut els = vec![];
    elements(&root, &mut els);
    // node id -> canonical name
    let mut names: Vec<(usize, String)> = vec![];
    for (k, e) in els.iter().enumerate() {
        let de = xml_dom::XmlElement::from(e.clone());
        names.push((de.as_node().id(), format!("e{}", k)));
        for a in e.borrow().attributes().iter() {
            let name = qn(&*a.borrow());
            let da = xml_dom::XmlAttr::from(a.clone());
            names.push((da.as_node().id(), format!("a{}.{}", k, enc(&name))));
        }
    }
    let ddoc = xml_dom::XmlDocument::from(doc.clone());
    let mut ctx = xml_xpath::eval::model::Context::default();
    for (p, u) in bindings {
        ctx.add_ns(Some(p.as_str()), u.as_str());
    }
    let v = xml_xpath::query(ddoc, expr, &mut ctx).map_err(|_| "err query".to_string())?;
    match v {
        xml_xpath::eval::model::Value::Node(ns) => {
            let mut out = String::from("nodes");
            for n in ns {
                let id = n.id();
                let nm = names
                    .iter()
                    .find(|(i, _)| *i == id && id != 0)
                    .map(|(_, s)| s.clone())
                    .unwrap_or_else(|| "other".to_string());
                out.push(' ');
                out.push_str(&nm);
            }
            Ok(out)
        }
        _ => Ok("val".to_string()),
    }
}

pub fn case(line: &str) -> String {
    let w: Vec<&str> = line.split(' ').filter(|s| !s.is_empty()).collect();
    let r = match w.first().copied() {
        Some("doc") if w.len() == 2 => match dec(w[1]) {
            Some(t) => dump(&t),
            None => Err("badinput".to_string()),
        },
        Some("q") if w.len() >= 3 => {
            let mut b = vec![];
            for x in &w[3..] {
                let mut it = x.splitn(2, '=');
                match (it.next().and_then(dec), it.next().and_then(dec)) {
                    (Some(p), Some(u)) => b.push((p, u)),
                    _ => return "badinput".to_string(),
                }
            }
            match (dec(w[1]), dec(w[2])) {
                (Some(t), Some(x)) => query(&t, &x, &b),
                _ => Err("badinput".to_string()),
            }
        }
        _ => Err("badinput".to_string()),
    };
    match r {
        Ok(s) => s,
        Err(s) => s,
    }
}
