(** * Well-formedness of XML 1.0 (Fifth Edition) documents, with Namespaces in XML 1.0 (3rd ed.)

    An executable recogniser written from the EBNF of the recommendation, independent of
    /repo (nothing generated is imported; only the character classes of [Spec.XmlChars]).

    [parse_document : str -> option xdoc] is the grammar: productions [1]-[83] of XML 1.0
    restricted to what a document entity with an internal subset can contain, i.e. WITHOUT
    [30] extSubset, [31] extSubsetDecl, [61]-[65] conditional sections, [77] TextDecl,
    [78] extParsedEnt.  Parameter-entity DECLARATIONS [72] are parsed; a parameter-entity
    REFERENCE between declarations ([28a] DeclSep) is parsed and makes the verdict
    [Unsupported] (its replacement text would have to be parsed as declarations); a
    parameter-entity reference inside a declaration of the internal subset is ill-formed (WFC
    "PEs in Internal Subset") and is simply not accepted by the grammar below.

    Reading of the EBNF.  Every function is a deterministic recursive-descent reading of
    one production; every choice point of the XML grammar is decided by the next characters
    (the alternatives have disjoint first sets: "<!--", "<![CDATA[", "<?", "</", "<", "&#x",
    "&#", "&", the keywords of the DTD) and every repetition is greedy where the grammar is
    ([3] S, [5] Name, [7] Nmtoken, digits, [14] CharData) — which loses no derivation because
    the follow sets are disjoint from the repeated class (a Name is never followed by a
    NameChar, ...).  [^...] classes match [2] Char only (section 6 of the recommendation).
    The notation "A - B" of [14] [15] [16] [17] [20] is implemented by scanning for the first
    occurrence of the excluded delimiter.
    Recursion (element/content, cp/choice/seq) is by fuel; [parse_document] supplies the length
    of the input, which always suffices since every recursive call is preceded by the
    consumption of at least one character.

    Well-formedness constraints checked by [check_doc] on the parse tree (XML 1.0):
      - Element Type Match [39]            end-tag name = start-tag name
      - Unique Att Spec [40] [44]          no qualified name twice in one tag
      - No < in Attribute Values [41] [60] directly (grammar [10]) and in the replacement text
                                           of every entity referred to directly or indirectly
      - No External Entity References [41] [60] (attribute values: no external/unparsed entity)
      - Legal Character [66]               every character reference denotes a [2] Char, in
                                           content, attribute values, default values and entity
                                           values (where it is included at declaration time)
      - Entity Declared [68]               amp lt gt apos quot are predefined; required when the
                                           document has no external subset (no ExternalID in
                                           the doctype) or standalone="yes"; in ATTLIST default
                                           values the declaration must PRECEDE the ATTLIST
      - Parsed Entity [68]                 no reference to an unparsed entity
      - No Recursion [68]                  checked for every entity that is REFERENCED (directly
                                           or indirectly) from content or an attribute value; a
                                           declared but unreferenced recursive entity is not an
                                           error (its replacement text is never parsed: 4.3.2,
                                           4.4.7 "bypassed" — expat and libxml2 agree)
      - well-formedness of referenced internal entities (4.3.2): the replacement text of an
        entity referenced in content matches [43] content
      - [17] PITarget is not (x|X)(m|M)(l|L); the XML declaration only at the very start ([22] [23])
      - PEs in Internal Subset [69]        by the grammar (no "%" in EntityValue, no PE reference
                                           inside declarations)
      - a PE reference as DeclSep [28a]: verdict [Unsupported] (for [69] PEReference "Entity
        Declared" is a validity constraint only).
    Namespace constraints checked by [ns_doc] (Namespaces in XML 1.0):
      - element and attribute names are QNames [7] (at most one colon, both parts NCNames);
        doctype, ELEMENT and ATTLIST names are QNames; entity names, notation names and PI
        targets contain no colon
      - Prefix Declared; Reserved Prefixes and Namespace Names (xml only to its own name and
        that name only to xml; xmlns never declared, its name never bound; elements never use the
        prefix xmlns); No Prefix Undeclaring (xmlns:p="")
      - Attributes Unique: no two attributes with the same expanded name.
      Namespace declarations supplied by ATTLIST defaults are taken into account.
    Not checked (validity constraints, never well-formedness): everything marked VC in the
    recommendation, e.g. Root Element Type, Unique Element Type Declaration, No Duplicate
    Types, Notation Declared, the [4.6] rules for redeclaring predefined entities.

    [verdict s] is [WF], [NotWF reason] or [Unsupported]; [wf_xml10 s] is "XML 1.0 well-formed",
    [wf s] additionally requires the namespace constraints ("namespace-well-formed"). *)
From Coq Require Import List NArith Bool.
From XmlRs Require Import Base.CPred Spec.XmlChars.
Import ListNotations.
Open Scope N_scope.

(** ** Characters and literals of the grammar (code points) *)
Definition c_tab : N := 9.    Definition c_lf : N := 10.     Definition c_cr : N := 13.
Definition c_sp : N := 32.    Definition c_bang : N := 33.   Definition c_quot : N := 34.
Definition c_hash : N := 35.  Definition c_pct : N := 37.    Definition c_amp : N := 38.
Definition c_apos : N := 39.  Definition c_lpar : N := 40.   Definition c_rpar : N := 41.
Definition c_star : N := 42.  Definition c_plus : N := 43.   Definition c_comma : N := 44.
Definition c_dash : N := 45.  Definition c_slash : N := 47.  Definition c_semi : N := 59.
Definition c_lt : N := 60.    Definition c_eq : N := 61.     Definition c_gt : N := 62.
Definition c_qm : N := 63.    Definition c_lbr : N := 91.    Definition c_rbr : N := 93.
Definition c_x : N := 120.    Definition c_bar : N := 124.

Definition s_comment_open : str := [60;33;45;45].                    (* <!-- *)
Definition s_comment_close : str := [45;45;62].                      (* --> *)
Definition s_cdata_open : str := [60;33;91;67;68;65;84;65;91].       (* <![CDATA[ *)
Definition s_cdata_close : str := [93;93;62].                        (* ]]> *)
Definition s_pi_open : str := [60;63].                               (* <? *)
Definition s_pi_close : str := [63;62].                              (* ?> *)
Definition s_etag_open : str := [60;47].                             (* </ *)
Definition s_empty_close : str := [47;62].                           (* /> *)
Definition s_xmldecl_open : str := [60;63;120;109;108].              (* <?xml *)
Definition s_version : str := [118;101;114;115;105;111;110].         (* version *)
Definition s_encoding : str := [101;110;99;111;100;105;110;103].     (* encoding *)
Definition s_standalone : str := [115;116;97;110;100;97;108;111;110;101]. (* standalone *)
Definition s_yes : str := [121;101;115].                             (* yes *)
Definition s_no : str := [110;111].                                  (* no *)
Definition s_one_dot : str := [49;46].                               (* 1. *)
Definition s_doctype : str := [60;33;68;79;67;84;89;80;69].          (* <!DOCTYPE *)
Definition s_system : str := [83;89;83;84;69;77].                    (* SYSTEM *)
Definition s_public : str := [80;85;66;76;73;67].                    (* PUBLIC *)
Definition s_element : str := [60;33;69;76;69;77;69;78;84].          (* <!ELEMENT *)
Definition s_attlist : str := [60;33;65;84;84;76;73;83;84].          (* <!ATTLIST *)
Definition s_entity : str := [60;33;69;78;84;73;84;89].              (* <!ENTITY *)
Definition s_notation_decl : str := [60;33;78;79;84;65;84;73;79;78]. (* <!NOTATION *)
Definition s_EMPTY : str := [69;77;80;84;89].                        (* EMPTY *)
Definition s_ANY : str := [65;78;89].                                (* ANY *)
Definition s_PCDATA : str := [35;80;67;68;65;84;65].                 (* #PCDATA *)
Definition s_CDATA : str := [67;68;65;84;65].                        (* CDATA *)
Definition s_ID : str := [73;68].                                    (* ID *)
Definition s_IDREF : str := [73;68;82;69;70].                        (* IDREF *)
Definition s_IDREFS : str := [73;68;82;69;70;83].                    (* IDREFS *)
Definition s_ENTITY : str := [69;78;84;73;84;89].                    (* ENTITY *)
Definition s_ENTITIES : str := [69;78;84;73;84;73;69;83].            (* ENTITIES *)
Definition s_NMTOKEN : str := [78;77;84;79;75;69;78].                (* NMTOKEN *)
Definition s_NMTOKENS : str := [78;77;84;79;75;69;78;83].            (* NMTOKENS *)
Definition s_NOTATION : str := [78;79;84;65;84;73;79;78].            (* NOTATION *)
Definition s_REQUIRED : str := [35;82;69;81;85;73;82;69;68].         (* #REQUIRED *)
Definition s_IMPLIED : str := [35;73;77;80;76;73;69;68].             (* #IMPLIED *)
Definition s_FIXED : str := [35;70;73;88;69;68].                     (* #FIXED *)
Definition s_NDATA : str := [78;68;65;84;65].                        (* NDATA *)
Definition s_xmlns : str := [120;109;108;110;115].                   (* xmlns *)
Definition s_xml : str := [120;109;108].                             (* xml *)
Definition s_amp : str := [97;109;112].   Definition s_lt : str := [108;116].
Definition s_gt : str := [103;116].       Definition s_apos : str := [97;112;111;115].
Definition s_quot : str := [113;117;111;116].
(* http://www.w3.org/XML/1998/namespace *)
Definition ns_xml : str := [104;116;116;112;58;47;47;119;119;119;46;119;51;46;111;114;103;47;88;77;76;47;49;57;57;56;47;110;97;109;101;115;112;97;99;101].
(* http://www.w3.org/2000/xmlns/ *)
Definition ns_xmlns : str := [104;116;116;112;58;47;47;119;119;119;46;119;51;46;111;114;103;47;50;48;48;48;47;120;109;108;110;115;47].

(** ** Parse trees *)
Inductive avpiece :=                 (* one item of an AttValue [10] or EntityValue [9] literal *)
| AvLit (c : char)                   (* a literal character *)
| AvChar (n : N)                     (* character reference [66], the number it gives *)
| AvEnt (nm : str).                  (* general entity reference [68] *)

Inductive xcontent :=                (* [43] content items, [39] element, [27] Misc *)
| XChar (c : char)                   (* one character of [14] CharData *)
| XCData (s : str)                   (* [18] CDSect *)
| XCharRef (n : N)
| XEntRef (nm : str)
| XComment (s : str)                 (* [15] *)
| XPI (target : str) (data : option str)   (* [16]; data = None when there is no S after the target *)
| XElem (nm : str) (atts : list (str * list avpiece)) (etag : option str) (kids : list xcontent)
                                     (* etag = None: empty-element tag [44] *)
| XExp (nm : str) (items : list xcontent).  (* never produced by the parser: an entity reference
                                               together with its parsed replacement text *)

Inductive extid := SystemId (sys : str) | PublicId (pub sys : str).   (* [75] *)
Inductive entdef :=                                                   (* [73] [74] *)
| EdValue (v : list avpiece)
| EdExternal (id : extid) (ndata : option str).
Inductive atttype :=                                                  (* [54]-[59] *)
| ATCData | ATId | ATIdRef | ATIdRefs | ATEntity | ATEntities | ATNmtoken | ATNmtokens
| ATNotation (l : list str) | ATEnum (l : list str).
Inductive attdefault :=                                               (* [60] *)
| ADRequired | ADImplied | ADValue (fixed : bool) (v : list avpiece).
Inductive decl :=                                                     (* [29] markupdecl, [28a] DeclSep *)
| DElement (nm : str)                                                 (* content model not kept *)
| DAttlist (el : str) (defs : list (str * atttype * attdefault))
| DEntity (nm : str) (def : entdef)
| DPEntity (nm : str) (def : entdef)
| DNotation (nm : str) (pub : option str) (sys : option str)
| DPI (target : str) (data : option str)
| DComment (s : str)
| DPERef (nm : str).

Record xmldecl := { xd_version : str; xd_encoding : option str; xd_standalone : option bool }.
Record doctype := { dt_name : str; dt_extid : option extid; dt_subset : list decl }.
Record xdoc := { x_decl : option xmldecl; x_misc1 : list xcontent; x_doctype : option doctype;
                 x_misc2 : list xcontent; x_root : xcontent; x_misc3 : list xcontent }.

(** ** Scanning helpers *)
Definition isChar (c : char) : bool := eval spec_Char c.
Definition isS (c : char) : bool := eval spec_S c.

Fixpoint strip (p s : str) : option str :=          (* s = p ++ r  ->  Some r *)
  match p, s with
  | [], _ => Some s
  | x :: p', y :: s' => if x =? y then strip p' s' else None
  | _ :: _, [] => None
  end.

Definition starts (p s : str) : bool := match strip p s with Some _ => true | None => false end.

Fixpoint span (f : char -> bool) (s : str) : str * str :=   (* longest prefix satisfying f *)
  match s with
  | c :: t => if f c then let (a, b) := span f t in (c :: a, b) else ([], s)
  | [] => ([], [])
  end.

Definition skipS (s : str) : str := snd (span isS s).               (* S? *)
Definition p_S (s : str) : option str :=                            (* [3] S *)
  match span isS s with ([], _) => None | (_, r) => Some r end.

Definition str_eqb (a b : str) : bool :=
  (fix go a b := match a, b with
                 | [], [] => true
                 | x :: a', y :: b' => (x =? y) && go a' b'
                 | _, _ => false end) a b.

Definition bind {A B} (x : option A) (f : A -> option B) : option B :=
  match x with Some a => f a | None => None end.
Local Notation "'do' x <- a ; b" := (bind a (fun x => b)) (at level 200, x pattern, a at level 100, b at level 200).

(** [5] Name, [7] Nmtoken *)
Definition p_Name (s : str) : option (str * str) :=
  match s with
  | c :: t => if eval spec_NameStartChar c
              then let (a, b) := span (eval spec_NameChar) t in Some (c :: a, b) else None
  | [] => None
  end.
Definition p_Nmtoken (s : str) : option (str * str) :=
  match span (eval spec_NameChar) s with ([], _) => None | (a, b) => Some (a, b) end.

(** [25] Eq ::= S? '=' S? *)
Definition p_Eq (s : str) : option str :=
  match skipS s with c :: t => if c =? c_eq then Some (skipS t) else None | [] => None end.

(** [66] CharRef, [68] EntityRef; the input is what follows the ampersand *)
Definition isDigit (c : char) : bool := (48 <=? c) && (c <=? 57).
Definition isHex (c : char) : bool := isDigit c || ((65 <=? c) && (c <=? 70)) || ((97 <=? c) && (c <=? 102)).
Definition hexval (c : char) : N :=
  if isDigit c then c - 48 else if c <=? 70 then c - 55 else c - 87.
Definition number (base : N) (ds : str) : N := fold_left (fun a d => a * base + hexval d) ds 0.

Inductive ref := RChar (n : N) | REnt (nm : str).

Definition p_digits_semi (base : N) (f : char -> bool) (s : str) : option (ref * str) :=
  match span f s with
  | ((_ :: _) as ds, c :: r) => if c =? c_semi then Some (RChar (number base ds), r) else None
  | _ => None
  end.

Definition p_ref (s : str) : option (ref * str) :=
  match s with
  | c :: t =>
    if c =? c_hash then
      match t with
      | x :: u => if x =? c_x then p_digits_semi 16 isHex u else p_digits_semi 10 isDigit t
      | [] => None
      end
    else
      match p_Name s with
      | Some (nm, c' :: r) => if c' =? c_semi then Some (REnt nm, r) else None
      | _ => None
      end
  | [] => None
  end.

Definition piece_of_ref (r : ref) : avpiece := match r with RChar n => AvChar n | REnt nm => AvEnt nm end.

(** [10] AttValue and [9] EntityValue after the opening quote [q]; [bad] is the character that
    may not occur literally ("<" in AttValue, "%" in EntityValue: a PEReference there violates
    WFC PEs in Internal Subset).  With [q] = None the function reads to the end of the string:
    that is how replacement text is re-read when an entity is referenced in an attribute value. *)
Fixpoint p_pieces (fuel : nat) (q : option char) (bad : char) (s : str) : option (list avpiece * str) :=
  match fuel with
  | O => None
  | S f =>
    match s with
    | [] => match q with None => Some ([], []) | Some _ => None end
    | c :: t =>
      if match q with Some q' => c =? q' | None => false end then Some ([], t)
      else if c =? bad then None
      else if c =? c_amp then
        do (r, t') <- p_ref t; do (ps, rest) <- p_pieces f q bad t'; Some (piece_of_ref r :: ps, rest)
      else if isChar c then
        do (ps, rest) <- p_pieces f q bad t; Some (AvLit c :: ps, rest)
      else None
    end
  end.

Definition isQuote (c : char) : bool := (c =? c_quot) || (c =? c_apos).

Definition p_AttValue (fuel : nat) (s : str) : option (list avpiece * str) :=
  match s with c :: t => if isQuote c then p_pieces fuel (Some c) c_lt t else None | [] => None end.
Definition p_EntityValue (fuel : nat) (s : str) : option (list avpiece * str) :=
  match s with c :: t => if isQuote c then p_pieces fuel (Some c) c_pct t else None | [] => None end.

(** a quoted literal whose characters satisfy [f] (the closing quote excluded): [11] [12] and
    the pseudo-attribute values of [23] *)
Definition p_quoted (f : char -> bool) (s : str) : option (str * str) :=
  match s with
  | q :: t =>
    if isQuote q then
      match span (fun c => f c && negb (c =? q)) t with
      | (a, c :: r) => if c =? q then Some (a, r) else None
      | _ => None
      end
    else None
  | [] => None
  end.
Definition p_SystemLiteral := p_quoted isChar.                      (* [11] *)
Definition p_PubidLiteral := p_quoted (eval spec_PubidChar).        (* [12] *)

(** scanning up to a delimiter: all characters before it must be Chars *)
Fixpoint scan_to (d s : str) : option (str * str) :=   (* s = a ++ d ++ r, first occurrence *)
  match strip d s with
  | Some r => Some ([], r)
  | None => match s with
            | c :: t => if isChar c then do (a, r) <- scan_to d t; Some (c :: a, r) else None
            | [] => None
            end
  end.

(** [15] Comment body after "<!--":  ((Char - '-') | ('-' (Char - '-')))* '-->' *)
Fixpoint p_comment_body (s : str) : option (str * str) :=
  match s with
  | [] => None
  | c :: t =>
    if c =? c_dash then
      match t with
      | c2 :: t2 =>
        if c2 =? c_dash then
          match t2 with c3 :: r => if c3 =? c_gt then Some ([], r) else None | [] => None end
        else if isChar c2 then do (a, r) <- p_comment_body t2; Some (c :: c2 :: a, r) else None
      | [] => None
      end
    else if isChar c then do (a, r) <- p_comment_body t; Some (c :: a, r) else None
  end.

(** [16] PI after "<?", [17] PITarget *)
Definition p_pi_body (s : str) : option (str * option str * str) :=
  do (target, r) <- p_Name s;
  if is_xml_ci target then None
  else match strip s_pi_close r with
       | Some r' => Some (target, None, r')
       | None => do r1 <- p_S r; do (d, r2) <- scan_to s_pi_close r1; Some (target, Some d, r2)
       end.

(** [40] [44] after "<": Name (S Attribute)* S? ('>' | '/>')   ->  (name, attributes, empty?, rest) *)
Fixpoint p_atts (fuel : nat) (s : str) : option (list (str * list avpiece) * bool * str) :=
  match fuel with
  | O => None
  | S f =>
    let r := skipS s in
    match r with
    | c :: t =>
      if c =? c_gt then Some ([], false, t)
      else if c =? c_slash then
        match t with c2 :: t2 => if c2 =? c_gt then Some ([], true, t2) else None | [] => None end
      else
        match p_S s with                       (* an attribute must be preceded by S *)
        | None => None
        | Some _ =>
          do (nm, r1) <- p_Name r; do r2 <- p_Eq r1; do (v, r3) <- p_AttValue f r2;
          do (l, e, rest) <- p_atts f r3; Some ((nm, v) :: l, e, rest)
        end
    | [] => None
    end
  end.

Definition p_tag (fuel : nat) (s : str) : option (str * list (str * list avpiece) * bool * str) :=
  do (nm, r) <- p_Name s; do (l, e, rest) <- p_atts fuel r; Some (nm, l, e, rest).

(** [42] ETag after "</" *)
Definition p_etag (s : str) : option (str * str) :=
  do (nm, r) <- p_Name s;
  match skipS r with c :: t => if c =? c_gt then Some (nm, t) else None | [] => None end.

(** [39] element after "<", given the parser of the enclosed [43] content *)
Definition p_element_with (pc : str -> option (list xcontent * str)) (fuel : nat) (s : str)
  : option (xcontent * str) :=
  do (nm, atts, e, r) <- p_tag fuel s;
  if e then Some (XElem nm atts None [], r)
  else do (kids, r2) <- pc r; do r3 <- strip s_etag_open r2; do (enm, r4) <- p_etag r3;
       Some (XElem nm atts (Some enm) kids, r4).

(** [43] content: reads items until "</" or the end of the input *)
Fixpoint p_content (fuel : nat) (s : str) : option (list xcontent * str) :=
  match fuel with
  | O => None
  | S f =>
    match s with
    | [] => Some ([], [])
    | c :: t =>
      if c =? c_lt then
        if starts s_etag_open s then Some ([], s)
        else
          do (x, r) <-
            match strip s_comment_open s with
            | Some r0 => do (b, r) <- p_comment_body r0; Some (XComment b, r)
            | None =>
              match strip s_cdata_open s with
              | Some r0 => do (b, r) <- scan_to s_cdata_close r0; Some (XCData b, r)
              | None =>
                match strip s_pi_open s with
                | Some r0 => do (tg, d, r) <- p_pi_body r0; Some (XPI tg d, r)
                | None => p_element_with (p_content f) f t
                end
              end
            end;
          do (l, rest) <- p_content f r; Some (x :: l, rest)
      else if c =? c_amp then
        do (rf, r) <- p_ref t; do (l, rest) <- p_content f r;
        Some ((match rf with RChar n => XCharRef n | REnt nm => XEntRef nm end) :: l, rest)
      else if isChar c && negb (starts s_cdata_close s) then       (* [14]: no "]]>" *)
        do (l, rest) <- p_content f t; Some (XChar c :: l, rest)
      else None
    end
  end.

Definition p_element (fuel : nat) (s : str) : option (xcontent * str) :=
  match s with
  | c :: t => if c =? c_lt then p_element_with (p_content fuel) fuel t else None
  | [] => None
  end.

(** [27] Misc*  (comments, PIs, white space); never fails, stops at the first thing that is none *)
Fixpoint p_miscs (fuel : nat) (s : str) : list xcontent * str :=
  match fuel with
  | O => ([], s)
  | S f =>
    match p_S s with
    | Some r => p_miscs f r
    | None =>
      match strip s_comment_open s with
      | Some r0 => match p_comment_body r0 with
                   | Some (b, r) => let (l, rest) := p_miscs f r in (XComment b :: l, rest)
                   | None => ([], s) end
      | None =>
        match strip s_pi_open s with
        | Some r0 => match p_pi_body r0 with
                     | Some (tg, d, r) => let (l, rest) := p_miscs f r in (XPI tg d :: l, rest)
                     | None => ([], s) end
        | None => ([], s)
        end
      end
    end
  end.

(** [23] XMLDecl after "<?xml", [24] [26] [32] [80] [81] *)
Definition p_VersionNum (s : str) : option (str * str) :=
  do r <- strip s_one_dot s;
  match span isDigit r with ([], _) => None | (ds, r') => Some (s_one_dot ++ ds, r') end.

Definition p_quoted_by {A} (p : str -> option (A * str)) (s : str) : option (A * str) :=
  match s with
  | q :: t => if isQuote q then
                do (a, r) <- p t;
                match r with c :: r' => if c =? q then Some (a, r') else None | [] => None end
              else None
  | [] => None
  end.

Definition p_EncName (s : str) : option (str * str) :=
  match s with
  | c :: t => if eval spec_EncNameStart c
              then let (a, b) := span (eval spec_EncNameChar) t in Some (c :: a, b) else None
  | [] => None
  end.

Definition p_yesno (s : str) : option (bool * str) :=
  match strip s_yes s with
  | Some r => Some (true, r)
  | None => do r <- strip s_no s; Some (false, r)
  end.

Definition p_pseudo (kw : str) (s : str) : option str :=   (* S kw Eq *)
  do r <- p_S s; do r1 <- strip kw r; p_Eq r1.

Definition p_xmldecl (s : str) : option (xmldecl * str) :=
  do r <- p_pseudo s_version s; do (v, r1) <- p_quoted_by p_VersionNum r;
  do (enc, r2) <- match p_pseudo s_encoding r1 with
                  | Some r' => do (e, r'') <- p_quoted_by p_EncName r'; Some (Some e, r'')
                  | None => Some (None, r1) end;
  do (sa, r3) <- match p_pseudo s_standalone r2 with
                 | Some r' => do (b, r'') <- p_quoted_by p_yesno r'; Some (Some b, r'')
                 | None => Some (None, r2) end;
  do r4 <- strip s_pi_close (skipS r3);
  Some ({| xd_version := v; xd_encoding := enc; xd_standalone := sa |}, r4).

(** [75] ExternalID, [83] PublicID (system literal optional when [allow_public_only]) *)
Definition p_ExternalID (allow_public_only : bool) (s : str) : option (option str * option str * str) :=
  match strip s_system s with
  | Some r => do r1 <- p_S r; do (sys, r2) <- p_SystemLiteral r1; Some (None, Some sys, r2)
  | None =>
    do r <- strip s_public s; do r1 <- p_S r; do (pub, r2) <- p_PubidLiteral r1;
    match (do r3 <- p_S r2; p_SystemLiteral r3) with
    | Some (sys, r4) => Some (Some pub, Some sys, r4)
    | None => if allow_public_only then Some (Some pub, None, r2) else None
    end
  end.

Definition extid_of (p : option str) (s : option str) : option extid :=
  match p, s with
  | None, Some sys => Some (SystemId sys)
  | Some pub, Some sys => Some (PublicId pub sys)
  | _, _ => None
  end.

(** [47]-[50] children / cp / choice / seq, as a recogniser.  [p_cp] reads one cp; [p_group]
    reads the inside of a parenthesised group after "(": S? cp (S? sep S? cp)* S? ")", where
    the separator is fixed by its first occurrence ("|" needs at least two cps, which the
    first occurrence guarantees). *)
Definition skip_occ (s : str) : str :=         (* ('?' | '*' | '+')? *)
  match s with c :: t => if (c =? c_qm) || (c =? c_star) || (c =? c_plus) then t else s | [] => s end.

Fixpoint p_cp (fuel : nat) (s : str) : option str :=
  match fuel with
  | O => None
  | S f =>
    match s with
    | c :: t =>
      if c =? c_lpar then
        do r <- p_cp f (skipS t);
        do r' <- p_group_rest f None (skipS r); Some (skip_occ r')
      else do (_, r) <- p_Name s; Some (skip_occ r)
    | [] => None
    end
  end
with p_group_rest (fuel : nat) (sep : option char) (s : str) : option str :=
  (* after a cp and S?: either ")" or the separator, S?, another cp, S?, and again *)
  match fuel with
  | O => None
  | S f =>
    match s with
    | c :: t =>
      if c =? c_rpar then Some t
      else if ((c =? c_bar) || (c =? c_comma)) && match sep with Some x => c =? x | None => true end then
        do r <- p_cp f (skipS t); p_group_rest f (Some c) (skipS r)
      else None
    | [] => None
    end
  end.

(** [51] Mixed after "(" S? "#PCDATA" *)
Fixpoint p_mixed_rest (fuel : nat) (any : bool) (s : str) : option str :=
  match fuel with
  | O => None
  | S f =>
    match skipS s with
    | c :: t =>
      if c =? c_rpar then
        match t with
        | c2 :: t2 => if c2 =? c_star then Some t2 else if any then None else Some t
        | [] => if any then None else Some t
        end
      else if c =? c_bar then do (_, r) <- p_Name (skipS t); p_mixed_rest f true r
      else None
    | [] => None
    end
  end.

(** [46] contentspec *)
Definition p_contentspec (fuel : nat) (s : str) : option str :=
  match strip s_EMPTY s with
  | Some r => Some r
  | None =>
    match strip s_ANY s with
    | Some r => Some r
    | None =>
      match s with
      | c :: t =>
        if c =? c_lpar then
          match strip s_PCDATA (skipS t) with
          | Some r => p_mixed_rest fuel false r
          | None => do r <- p_cp fuel (skipS t); do r' <- p_group_rest fuel None (skipS r); Some (skip_occ r')
          end
        else None
      | [] => None
      end
    end
  end.

(** list of tokens separated by "|" inside parentheses: [58] [59]; input after "(" *)
Fixpoint p_alts (fuel : nat) (tok : str -> option (str * str)) (s : str) : option (list str * str) :=
  match fuel with
  | O => None
  | S f =>
    do (x, r) <- tok (skipS s);
    match skipS r with
    | c :: t => if c =? c_rpar then Some ([x], t)
                else if c =? c_bar then do (l, rest) <- p_alts f tok t; Some (x :: l, rest)
                else None
    | [] => None
    end
  end.

(** [54] AttType: keywords, longest first (each must be followed by S, checked by the caller) *)
Definition p_AttType (fuel : nat) (s : str) : option (atttype * str) :=
  let kw k v := match strip k s with Some r => Some (v, r) | None => None end in
  match kw s_CDATA ATCData with Some x => Some x | None =>
  match kw s_IDREFS ATIdRefs with Some x => Some x | None =>
  match kw s_IDREF ATIdRef with Some x => Some x | None =>
  match kw s_ID ATId with Some x => Some x | None =>
  match kw s_ENTITIES ATEntities with Some x => Some x | None =>
  match kw s_ENTITY ATEntity with Some x => Some x | None =>
  match kw s_NMTOKENS ATNmtokens with Some x => Some x | None =>
  match kw s_NMTOKEN ATNmtoken with Some x => Some x | None =>
  match strip s_NOTATION s with
  | Some r => do r1 <- p_S r;
              match r1 with
              | c :: t => if c =? c_lpar then do (l, rest) <- p_alts fuel p_Name t; Some (ATNotation l, rest) else None
              | [] => None end
  | None => match s with
            | c :: t => if c =? c_lpar then do (l, rest) <- p_alts fuel p_Nmtoken t; Some (ATEnum l, rest) else None
            | [] => None end
  end end end end end end end end end.

(** [60] DefaultDecl *)
Definition p_DefaultDecl (fuel : nat) (s : str) : option (attdefault * str) :=
  match strip s_REQUIRED s with
  | Some r => Some (ADRequired, r)
  | None =>
    match strip s_IMPLIED s with
    | Some r => Some (ADImplied, r)
    | None =>
      match strip s_FIXED s with
      | Some r => do r1 <- p_S r; do (v, r2) <- p_AttValue fuel r1; Some (ADValue true v, r2)
      | None => do (v, r2) <- p_AttValue fuel s; Some (ADValue false v, r2)
      end
    end
  end.

(** [52] AttlistDecl after "<!ATTLIST" S Name: AttDef* S? ">" *)
Fixpoint p_attdefs (fuel : nat) (s : str) : option (list (str * atttype * attdefault) * str) :=
  match fuel with
  | O => None
  | S f =>
    match skipS s with
    | c :: t =>
      if c =? c_gt then Some ([], t)
      else
        do _ <- p_S s;
        do (nm, r1) <- p_Name (skipS s); do r2 <- p_S r1; do (ty, r3) <- p_AttType f r2;
        do r4 <- p_S r3; do (df, r5) <- p_DefaultDecl f r4;
        do (l, rest) <- p_attdefs f r5; Some ((nm, ty, df) :: l, rest)
    | [] => None
    end
  end.

Definition p_close (s : str) : option str :=     (* S? ">" *)
  match skipS s with c :: t => if c =? c_gt then Some t else None | [] => None end.

(** [29] markupdecl (one declaration), input at "<!..." or "<?" *)
Definition p_markupdecl (fuel : nat) (s : str) : option (decl * str) :=
  match strip s_element s with
  | Some r =>                                                   (* [45] *)
    do r1 <- p_S r; do (nm, r2) <- p_Name r1; do r3 <- p_S r2;
    do r4 <- p_contentspec fuel r3; do r5 <- p_close r4; Some (DElement nm, r5)
  | None =>
  match strip s_attlist s with
  | Some r =>                                                   (* [52] *)
    do r1 <- p_S r; do (nm, r2) <- p_Name r1; do (l, r3) <- p_attdefs fuel r2; Some (DAttlist nm l, r3)
  | None =>
  match strip s_entity s with
  | Some r =>                                                   (* [70]-[74] [76] *)
    do r1 <- p_S r;
    match r1 with
    | c :: t =>
      if c =? c_pct then                                        (* [72] PEDecl *)
        do r2 <- p_S t; do (nm, r3) <- p_Name r2; do r4 <- p_S r3;
        match p_EntityValue fuel r4 with
        | Some (v, r5) => do r6 <- p_close r5; Some (DPEntity nm (EdValue v), r6)
        | None => do (pub, sys, r5) <- p_ExternalID false r4; do id <- extid_of pub sys;
                  do r6 <- p_close r5; Some (DPEntity nm (EdExternal id None), r6)
        end
      else                                                      (* [71] GEDecl *)
        do (nm, r3) <- p_Name r1; do r4 <- p_S r3;
        match p_EntityValue fuel r4 with
        | Some (v, r5) => do r6 <- p_close r5; Some (DEntity nm (EdValue v), r6)
        | None =>
          do (pub, sys, r5) <- p_ExternalID false r4; do id <- extid_of pub sys;
          match (do r6 <- p_S r5; do r7 <- strip s_NDATA r6; do r8 <- p_S r7; p_Name r8) with
          | Some (n, r9) => do r10 <- p_close r9; Some (DEntity nm (EdExternal id (Some n)), r10)
          | None => do r6 <- p_close r5; Some (DEntity nm (EdExternal id None), r6)
          end
        end
    | [] => None
    end
  | None =>
  match strip s_notation_decl s with
  | Some r =>                                                   (* [82] *)
    do r1 <- p_S r; do (nm, r2) <- p_Name r1; do r3 <- p_S r2;
    do (pub, sys, r4) <- p_ExternalID true r3; do r5 <- p_close r4; Some (DNotation nm pub sys, r5)
  | None =>
  match strip s_comment_open s with
  | Some r => do (b, r1) <- p_comment_body r; Some (DComment b, r1)
  | None => do r <- strip s_pi_open s; do (tg, d, r1) <- p_pi_body r; Some (DPI tg d, r1)
  end end end end end.

(** [28b] intSubset after "[": (markupdecl | DeclSep)* "]" *)
Fixpoint p_intsubset (fuel : nat) (s : str) : option (list decl * str) :=
  match fuel with
  | O => None
  | S f =>
    match skipS s with
    | c :: t =>
      if c =? c_rbr then Some ([], t)
      else if c =? c_pct then                                   (* [69] PEReference *)
        match p_Name t with
        | Some (nm, c2 :: r) => if c2 =? c_semi then do (l, rest) <- p_intsubset f r; Some (DPERef nm :: l, rest) else None
        | _ => None
        end
      else do (d, r) <- p_markupdecl f (skipS s); do (l, rest) <- p_intsubset f r; Some (d :: l, rest)
    | [] => None
    end
  end.

(** [28] doctypedecl after "<!DOCTYPE" *)
Definition p_doctype (fuel : nat) (s : str) : option (doctype * str) :=
  do r <- p_S s; do (nm, r1) <- p_Name r;
  do (id, r2) <- match (do r' <- p_S r1; p_ExternalID false r') with
                 | Some (pub, sys, r'') => Some (extid_of pub sys, r'')
                 | None => Some (None, r1) end;
  match skipS r2 with
  | c :: t =>
    if c =? c_lbr then
      do (l, r3) <- p_intsubset fuel t; do r4 <- p_close r3;
      Some ({| dt_name := nm; dt_extid := id; dt_subset := l |}, r4)
    else if c =? c_gt then Some ({| dt_name := nm; dt_extid := id; dt_subset := [] |}, t)
    else None
  | [] => None
  end.

(** [1] document ::= prolog element Misc*,  [22] prolog ::= XMLDecl? Misc* ( doctypedecl Misc* )? *)
Definition parse_document (s : str) : option xdoc :=
  let fuel := S (length s) in
  do (xd, r0) <- match strip s_xmldecl_open s with
                 | Some r => match p_xmldecl r with
                             | Some (d, r') => Some (Some d, r')
                             | None => Some (None, s) end    (* e.g. a PI "xml-stylesheet" *)
                 | None => Some (None, s) end;
  let (m1, r1) := p_miscs fuel r0 in
  do (dt, m2, r2) <- match strip s_doctype r1 with
                     | Some r => do (d, r') <- p_doctype fuel r;
                                 let (m, r'') := p_miscs fuel r' in Some (Some d, m, r'')
                     | None => Some (None, [], r1) end;
  do (root, r3) <- p_element fuel r2;
  let (m3, r4) := p_miscs fuel r3 in
  match r4 with
  | [] => Some {| x_decl := xd; x_misc1 := m1; x_doctype := dt; x_misc2 := m2; x_root := root; x_misc3 := m3 |}
  | _ :: _ => None
  end.

(** ** Entities *)
Definition predefined : list (str * str) :=          (* 4.6: replacement texts *)
  [(s_lt, [38;35;54;48;59]); (s_gt, [62]); (s_amp, [38;35;51;56;59]); (s_apos, [39]); (s_quot, [34])].

Fixpoint assoc {A} (k : str) (l : list (str * A)) : option A :=
  match l with
  | [] => None
  | (k', v) :: t => if str_eqb k k' then Some v else assoc k t
  end.

Definition mem (k : str) (l : list str) : bool := existsb (str_eqb k) l.

(** replacement text of an internal entity (4.5): character references included, general entity
    references bypassed *)
Fixpoint num_digits (fuel : nat) (n : N) (acc : str) : str :=
  match fuel with
  | O => acc
  | S f => let acc' := (48 + n mod 10) :: acc in if n / 10 =? 0 then acc' else num_digits f (n / 10) acc'
  end.

Definition repl_text (v : list avpiece) : str :=
  flat_map (fun p => match p with
                     | AvLit c => [c]
                     | AvChar n => [n]
                     | AvEnt nm => c_amp :: nm ++ [c_semi]
                     end) v.

(** general entities in declaration order, first declaration binding; predefined ones last *)
Inductive entity := EInternal (text : str) | EExternal | EUnparsed.

Definition entity_of_def (d : entdef) : entity :=
  match d with
  | EdValue v => EInternal (repl_text v)
  | EdExternal _ None => EExternal
  | EdExternal _ (Some _) => EUnparsed
  end.

Definition entities_of (l : list decl) : list (str * entity) :=
  flat_map (fun d => match d with DEntity nm def => [(nm, entity_of_def def)] | _ => [] end) l.

Definition with_predefined (l : list (str * entity)) : list (str * entity) :=
  l ++ map (fun '(k, t) => (k, EInternal t)) predefined.

(** ** Well-formedness constraints *)
Inductive reason :=
| RSyntax            (* does not match [1] document *)
| RTagMismatch | RDupAttr | RLtInAttr | RExtInAttr | RBadCharRef | RUndeclared | RUnparsedRef
| RRecursion | REntityContent
| RNsName | RNsPrefix | RNsReserved | RNsDupAttr.

Definition reason_code (r : reason) : N :=
  match r with
  | RSyntax => 1 | RTagMismatch => 2 | RDupAttr => 3 | RLtInAttr => 4 | RExtInAttr => 5
  | RBadCharRef => 6 | RUndeclared => 7 | RUnparsedRef => 8 | RRecursion => 9
  | REntityContent => 10
  | RNsName => 20 | RNsPrefix => 21 | RNsReserved => 22 | RNsDupAttr => 23
  end.

Definition chk := option reason.     (* None = constraint satisfied *)
Definition ok : chk := None.
Definition andc (a b : chk) : chk := match a with None => b | Some _ => a end.
Definition allc {A} (f : A -> chk) (l : list A) : chk := fold_right (fun x acc => andc (f x) acc) ok l.
Definition guard (b : bool) (r : reason) : chk := if b then ok else Some r.

Record env := { e_ents : list (str * entity);    (* declared so far, plus the predefined ones *)
                e_must_declare : bool }.          (* WFC Entity Declared applies *)

(** attribute values: [4.4.4] included in literal.  [av_ok fuel env visited v] checks the
    constraints on the pieces [v] of an attribute value or of replacement text re-read as one;
    [fuel] bounds the depth of entity nesting (the number of declared entities + 1 suffices,
    since [visited] grows with distinct declared names). *)
Fixpoint av_ok (fuel : nat) (en : env) (visited : list str) (v : list avpiece) : chk :=
  match fuel with
  | O => Some RRecursion
  | S f =>
    allc (fun p =>
      match p with
      | AvLit _ => ok
      | AvChar n => guard (isChar n) RBadCharRef
      | AvEnt nm =>
        if mem nm visited then Some RRecursion
        else match assoc nm (e_ents en) with
             | None => guard (negb (e_must_declare en)) RUndeclared
             | Some EExternal | Some EUnparsed => Some RExtInAttr
             | Some (EInternal text) =>
               match p_pieces (S (length text)) None c_lt text with
               | Some (ps, _) => av_ok f en (nm :: visited) ps
               | None => Some RLtInAttr     (* "<" or a malformed reference in the replacement text *)
               end
             end
      end) v
  end.

(** content: every entity reference to an internal entity is replaced by [XExp] holding its parsed
    replacement text (4.4.2 included), recursively. *)
Definition fail {A} (r : reason) : reason + A := inl r.

Section MapM.
Context {A B : Type} (f : A -> reason + B).
Fixpoint mapM (l : list A) : reason + list B :=
  match l with
  | [] => inr []
  | x :: t => match f x with
              | inl r => inl r
              | inr y => match mapM t with inl r => inl r | inr ys => inr (y :: ys) end
              end
  end.
End MapM.

Fixpoint expand (fuel : nat) (en : env) (visited : list str) : xcontent -> reason + xcontent :=
  fix go (x : xcontent) : reason + xcontent :=
  match x with
  | XElem nm atts et kids =>
    match mapM go kids with inl r => inl r | inr kids' => inr (XElem nm atts et kids') end
  | XEntRef nm =>
    if mem nm visited then fail RRecursion
    else match assoc nm (e_ents en) with
         | None => if e_must_declare en then fail RUndeclared else inr x
         | Some EUnparsed => fail RUnparsedRef
         | Some EExternal => inr x
         | Some (EInternal text) =>
           match fuel with
           | O => fail RRecursion
           | S f =>
             match p_content (S (length text)) text with
             | Some (items, []) =>
               match mapM (expand f en (nm :: visited)) items with
               | inl r => inl r
               | inr items' => inr (XExp nm items')
               end
             | _ => fail REntityContent
             end
           end
         end
  | XExp nm items => match mapM go items with inl r => inl r | inr items' => inr (XExp nm items') end
  | _ => inr x
  end.

(** constraints on an (expanded) element tree *)
Fixpoint nodup_names (l : list str) : bool :=
  match l with [] => true | x :: t => negb (mem x t) && nodup_names t end.

Fixpoint tree_ok (fuel : nat) (en : env) (x : xcontent) : chk :=
  match x with
  | XElem nm atts et kids =>
    andc (guard (match et with Some e => str_eqb e nm | None => true end) RTagMismatch)
   (andc (guard (nodup_names (map fst atts)) RDupAttr)
   (andc (allc (fun a => av_ok fuel en [] (snd a)) atts)
         (allc (tree_ok fuel en) kids)))
  | XExp _ items => allc (tree_ok fuel en) items
  | XCharRef n => guard (isChar n) RBadCharRef
  | _ => ok
  end.

(** the internal subset, in order: character references in entity values (included when the
    declaration is read), default values against the entities declared SO FAR *)
Fixpoint subset_ok (fuel : nat) (must : bool) (ents : list (str * entity)) (l : list decl) : chk :=
  match l with
  | [] => ok
  | d :: t =>
    let charrefs v := allc (fun p => match p with AvChar n => guard (isChar n) RBadCharRef | _ => ok end) v in
    match d with
    | DEntity nm def =>
      andc (match def with EdValue v => charrefs v | _ => ok end)
           (subset_ok fuel must (if mem nm (map fst ents) then ents else ents ++ [(nm, entity_of_def def)]) t)
    | DPEntity nm def =>
      andc (match def with EdValue v => charrefs v | _ => ok end) (subset_ok fuel must ents t)
    | DAttlist _ defs =>
      andc (allc (fun '(_, _, df) =>
                    match df with
                    | ADValue _ v => av_ok fuel {| e_ents := with_predefined ents; e_must_declare := must |} [] v
                    | _ => ok end) defs)
           (subset_ok fuel must ents t)
    | _ => subset_ok fuel must ents t
    end
  end.

Definition has_peref (l : list decl) : bool :=
  existsb (fun d => match d with DPERef _ => true | _ => false end) l.

Definition doc_env (d : xdoc) : env :=
  let subset := match x_doctype d with Some dt => dt_subset dt | None => [] end in
  let ext := match x_doctype d with Some dt => match dt_extid dt with Some _ => true | None => false end | None => false end in
  let sa := match x_decl d with Some xd => match xd_standalone xd with Some true => true | _ => false end | None => false end in
  {| e_ents := with_predefined (entities_of subset); e_must_declare := negb ext || sa |}.

Definition ent_fuel (d : xdoc) : nat := S (length (e_ents (doc_env d))).

(** the document with every internal entity reference expanded, or the violated constraint *)
Definition check_doc (d : xdoc) : reason + xcontent :=
  let en := doc_env d in
  let f := ent_fuel d in
  let subset := match x_doctype d with Some dt => dt_subset dt | None => [] end in
  match subset_ok f (e_must_declare en) [] subset with
  | Some r => inl r
  | None =>
    match expand f en [] (x_root d) with
    | inl r => inl r
    | inr root => match tree_ok f en root with Some r => inl r | None => inr root end
    end
  end.

(** ** Namespaces in XML 1.0 *)
Definition colons (s : str) : nat := length (filter (N.eqb colon) s).

(** normalized value of an attribute-value literal (3.3.3, CDATA rules; enough to compare
    namespace names): literal white space becomes a space, references are expanded *)
Fixpoint av_value (fuel : nat) (en : env) (v : list avpiece) : str :=
  match fuel with
  | O => []
  | S f =>
    flat_map (fun p =>
      match p with
      | AvLit c => if isS c then [c_sp] else [c]
      | AvChar n => [n]
      | AvEnt nm =>
        match assoc nm (e_ents en) with
        | Some (EInternal text) =>
          match p_pieces (S (length text)) None c_lt text with
          | Some (ps, _) => av_value f en ps
          | None => []
          end
        | _ => []
        end
      end) v
  end.

(** defaults of an element type: the first definition of each attribute name over all ATTLISTs of
    the element, in order (3.3: the first declaration is binding) *)
Definition attdefs_of (subset : list decl) (el : str) : list (str * atttype * attdefault) :=
  let all := flat_map (fun d => match d with DAttlist e defs => if str_eqb e el then defs else [] | _ => [] end) subset in
  fold_left (fun acc '(nm, ty, df) => if mem nm (map (fun x => fst (fst x)) acc) then acc else acc ++ [(nm, ty, df)]) all [].

Definition defaulted_atts (subset : list decl) (el : str) (atts : list (str * list avpiece)) : list (str * list avpiece) :=
  flat_map (fun '(nm, _, df) =>
              match df with
              | ADValue _ v => if mem nm (map fst atts) then [] else [(nm, v)]
              | _ => [] end) (attdefs_of subset el).

Definition split_qname (s : str) : option str * str :=     (* (prefix, local) *)
  match split_colon s with Some (p, l) => (Some p, l) | None => (None, s) end.

Fixpoint ns_tree (fuel : nat) (en : env) (subset : list decl) (scope : list (str * str)) (x : xcontent) : chk :=
  (* scope: prefix -> namespace name; the default namespace is not needed for the constraints *)
  match x with
  | XElem nm atts _ kids =>
    let all := atts ++ defaulted_atts subset nm atts in
    let decls := flat_map (fun '(a, v) =>
                    match split_qname a with
                    | (Some p, l) => if str_eqb p s_xmlns then [(l, av_value fuel en v)] else []
                    | _ => [] end) all in
    let default_decl := flat_map (fun '(a, v) => if str_eqb a s_xmlns then [av_value fuel en v] else []) all in
    let scope' := decls ++ scope in
    let bound p := if str_eqb p s_xml then Some ns_xml else assoc p scope' in
    let others := filter (fun '(a, _) => negb (str_eqb a s_xmlns) &&
                                          match split_qname a with (Some p, _) => negb (str_eqb p s_xmlns) | _ => true end) all in
    let expanded := map (fun '(a, _) => match split_qname a with
                                         | (Some p, l) => (match bound p with Some u => u | None => [] end, l)
                                         | (None, l) => ([], l) end) others in
    let fix nodup_pairs (l : list (str * str)) : bool :=
      match l with
      | [] => true
      | (u, n) :: t => negb (existsb (fun '(u', n') => str_eqb u u' && str_eqb n n') t) && nodup_pairs t
      end in
    andc (guard (is_QName nm && forallb (fun a => is_QName (fst a)) all) RNsName)
   (andc (guard (forallb (fun '(p, u) =>
                    negb (str_eqb p s_xmlns)                                     (* xmlns is never declared *)
                    && Bool.eqb (str_eqb p s_xml) (str_eqb u ns_xml)             (* xml <-> its name *)
                    && negb (str_eqb u ns_xmlns)
                    && negb (match u with [] => true | _ => false end)) decls   (* no prefix undeclaring *)
                 && forallb (fun u => negb (str_eqb u ns_xml) && negb (str_eqb u ns_xmlns)) default_decl) RNsReserved)
   (andc (guard (match split_qname nm with
                 | (Some p, _) => negb (str_eqb p s_xmlns) && match bound p with Some _ => true | None => false end
                 | _ => true end
                 && forallb (fun '(a, _) => match split_qname a with
                                            | (Some p, _) => match bound p with Some _ => true | None => false end
                                            | _ => true end) others) RNsPrefix)
   (andc (guard (nodup_pairs expanded) RNsDupAttr)
         (allc (ns_tree fuel en subset scope') kids))))
  | XExp _ items => allc (ns_tree fuel en subset scope) items
  | XPI tg _ => guard (Nat.eqb (colons tg) 0) RNsName
  | XEntRef nm => guard (Nat.eqb (colons nm) 0) RNsName
  | _ => ok
  end.

Definition ns_decl (d : decl) : chk :=
  match d with
  | DElement nm => guard (is_QName nm) RNsName
  | DAttlist el defs => guard (is_QName el && forallb (fun '(a, _, _) => is_QName a) defs) RNsName
  | DEntity nm def =>
    guard (Nat.eqb (colons nm) 0 && match def with EdExternal _ (Some n) => Nat.eqb (colons n) 0 | _ => true end) RNsName
  | DPEntity nm _ | DNotation nm _ _ | DPI nm _ | DPERef nm => guard (Nat.eqb (colons nm) 0) RNsName
  | DComment _ => ok
  end.

Definition ns_doc (d : xdoc) (root : xcontent) : chk :=
  let subset := match x_doctype d with Some dt => dt_subset dt | None => [] end in
  andc (match x_doctype d with Some dt => guard (is_QName (dt_name dt)) RNsName | None => ok end)
 (andc (allc ns_decl subset)
 (andc (allc (ns_tree (ent_fuel d) (doc_env d) subset []) (x_misc1 d ++ x_misc2 d ++ x_misc3 d))
       (ns_tree (ent_fuel d) (doc_env d) subset [] root))).

(** ** Verdicts *)
Inductive verdict := WF | NotWF (r : reason) | Unsupported.

Definition unsupported (d : xdoc) : bool :=
  match x_doctype d with Some dt => has_peref (dt_subset dt) | None => false end.

(** XML 1.0 alone *)
Definition verdict10 (s : str) : verdict :=
  match parse_document s with
  | None => NotWF RSyntax
  | Some d =>
    if unsupported d then Unsupported
    else match check_doc d with inl r => NotWF r | inr _ => WF end
  end.

(** XML 1.0 + Namespaces *)
Definition verdict_ns (s : str) : verdict :=
  match parse_document s with
  | None => NotWF RSyntax
  | Some d =>
    if unsupported d then Unsupported
    else match check_doc d with
         | inl r => NotWF r
         | inr root => match ns_doc d root with Some r => NotWF r | None => WF end
         end
  end.

Definition is_wf (v : verdict) : bool := match v with WF => true | _ => false end.
Definition wf_xml10 (s : str) : bool := is_wf (verdict10 s).
Definition wf (s : str) : bool := is_wf (verdict_ns s).

(** ** Lexical recognisers under the names used by the language-inclusion lemmas
    (input = the whole item, result = the rest) *)
Definition spec_S (s : str) : option str := p_S s.
Definition spec_Eq (s : str) : option str := p_Eq s.
Definition spec_comment (s : str) : option str :=
  do r <- strip s_comment_open s; do (_, r') <- p_comment_body r; Some r'.
Definition spec_pi (s : str) : option str :=
  do r <- strip s_pi_open s; do (_, _, r') <- p_pi_body r; Some r'.
Definition spec_cdsect (s : str) : option str :=
  do r <- strip s_cdata_open s; do (_, r') <- scan_to s_cdata_close r; Some r'.
Definition spec_reference (s : str) : option str :=
  match s with c :: t => if c =? c_amp then do (_, r) <- p_ref t; Some r else None | [] => None end.
Definition spec_attvalue (s : str) : option str :=
  do (_, r) <- p_AttValue (S (length s)) s; Some r.
(** [14] CharData: the longest run of characters other than "<" and "&" that does not contain "]]>" *)
Fixpoint spec_chardata (s : str) : str :=
  match s with
  | c :: t => if isChar c && negb (c =? c_lt) && negb (c =? c_amp) && negb (starts s_cdata_close s)
              then spec_chardata t else s
  | [] => []
  end.
