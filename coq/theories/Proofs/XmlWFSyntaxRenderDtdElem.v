(** * C01, the DTD rung of [render_wf], part 2: element type declarations.  The renderings of content
    models (nested groups with the oracle's white space, occurrence indicators, mixed content) are read
    back by the STRICT recognisers of Proofs/XmlWFSyntaxConvDtdElem.v (QNames inside content models),
    hence by the specification's. *)
From Coq Require Import List NArith Arith Lia Bool.
From XmlRs Require Import Base.CPred Spec.XmlChars Spec.XmlWF Spec.Infoset Proofs.XmlWFRender
  Proofs.XmlWFSyntaxRenderNode Proofs.XmlWFSyntaxRenderDoc Proofs.XmlWFSyntaxRenderDtd.
From XmlRs Require Proofs.XmlWFSyntaxConvDtdElem.
Import ListNotations.
Local Open Scope nat_scope.
Module Q := XmlWFSyntaxConvDtdElem.

(** what may follow a content particle: not a name character, not an occurrence indicator *)
Definition cfollow (T : str) : Prop :=
  match T with [] => True | y :: _ => eval spec_NameChar y = false /\ ((y =? c_qm) || (y =? c_star) || (y =? c_plus))%N = false end.

Lemma cfollow_S w X : isS w = true -> cfollow (w :: X).
Proof. intros H. destruct (isS_cases w H) as [-> | [-> | [-> | ->]]]; split; reflexivity. Qed.

Lemma cfollow_S0 c p X : cfollow X -> cfollow (S0 c p ++ X).
Proof.
  intros HX. pose proof (S0_S c p) as HS. destruct (S0 c p) as [|w ws]; [exact HX|]. cbn [forallb] in HS. apply andb_true_iff in HS.
  cbn [app]. apply cfollow_S. tauto.
Qed.

Lemma cfollow_stops T : cfollow T -> stops_name T.
Proof. destruct T; [auto|]. intros [H _]. exact H. Qed.

Lemma cfollow_nonstar T : cfollow T -> match T with [] => True | y :: _ => (y =? c_star)%N = false end.
Proof. destruct T as [|y T]; [auto|]. intros [_ H]. apply orb_false_iff in H. destruct H as [H _]. apply orb_false_iff in H. tauto. Qed.

Lemma skip_occ_occ o T : cfollow T -> skip_occ (occ_str o ++ T) = T.
Proof.
  intros HT. destruct o; cbn [occ_str app]; try reflexivity. destruct T as [|y T]; [reflexivity|]. destruct HT as [_ H]. unfold skip_occ. now rewrite H.
Qed.

Lemma occ_stops o T : cfollow T -> stops_name (occ_str o ++ T).
Proof. intros HT. destruct o; cbn [occ_str app]; try reflexivity. now apply cfollow_stops. Qed.

Lemma qname_reads nm X : is_QName nm = true -> stops_name X -> Q.q_Name (nm ++ X) = Some (nm, X).
Proof. intros Hn HX. unfold Q.q_Name. pose proof (p_Name_app nm X (QName_Name _ Hn) HX) as E. unfold str, char in *. rewrite E, Hn. reflexivity. Qed.

Lemma nsc_not_lpar x : eval spec_NameStartChar x = true -> (x =? c_lpar)%N = false.
Proof. intros H. destruct (N.eqb_spec x c_lpar) as [->|]; [discriminate|reflexivity]. Qed.
Lemma nsc_not_hash x : eval spec_NameStartChar x = true -> (c_hash =? x)%N = false.
Proof. intros H. destruct (N.eqb_spec c_hash x) as [<-|]; [discriminate|reflexivity]. Qed.

(** ** the groups of [render_cp] with a top-level recursion *)
Fixpoint cp_tail (c : choices) (p : list N) (sepc : char) (i : N) (t : list acp) : str :=
  match t with
  | [] => []
  | y :: t' => S0 c (i :: 3%N :: p) ++ sepc :: S0 c (i :: 4%N :: p) ++ render_cp c ((i + 1)%N :: 2%N :: p) y ++ cp_tail c p sepc (i + 1) t'
  end.
Definition cp_items (c : choices) (p : list N) (sepc : char) (i : N) (l : list acp) : str :=
  match l with [] => [] | y :: t => render_cp c (i :: 2%N :: p) y ++ cp_tail c p sepc i t end.

Lemma go_eq c p sepc : forall l i,
  (fix go (i : N) (l : list acp) : str :=
     match l with
     | [] => []
     | [y] => render_cp c (i :: 2%N :: p) y
     | y :: t => render_cp c (i :: 2%N :: p) y ++ S0 c (i :: 3%N :: p) ++ sepc :: S0 c (i :: 4%N :: p) ++ go (i + 1)%N t
     end) i l = cp_items c p sepc i l.
Proof.
  induction l as [|y t IH]; intros i; [reflexivity|]. destruct t as [|z t'].
  - cbn [cp_items cp_tail]. now rewrite app_nil_r.
  - rewrite (IH (i + 1)%N). cbn [cp_items cp_tail]. rewrite <- ?app_assoc. reflexivity.
Qed.

Lemma render_cp_choice c p l o : render_cp c p (CPChoice l o) =
  c_lpar :: S0 c (0%N :: p) ++ cp_items c p c_bar 0 l ++ S0 c (1%N :: p) ++ c_rpar :: occ_str o.
Proof. exact (f_equal (fun z => c_lpar :: S0 c (0%N :: p) ++ z ++ S0 c (1%N :: p) ++ c_rpar :: occ_str o) (go_eq c p c_bar l 0%N)). Qed.
Lemma render_cp_seq c p l o : render_cp c p (CPSeq l o) =
  c_lpar :: S0 c (0%N :: p) ++ cp_items c p c_comma 0 l ++ S0 c (1%N :: p) ++ c_rpar :: occ_str o.
Proof. exact (f_equal (fun z => c_lpar :: S0 c (0%N :: p) ++ z ++ S0 c (1%N :: p) ++ c_rpar :: occ_str o) (go_eq c p c_comma l 0%N)). Qed.

Lemma render_cp_head c p x : cp_ok x = true -> exists h r, render_cp c p x = h :: r /\ isS h = false /\ (c_hash =? h)%N = false.
Proof.
  destruct x as [nm o|l o|l o]; intros H.
  - cbn [cp_ok] in H. destruct (name_head nm (QName_Name _ H)) as (x & t & -> & Hx). exists x, (t ++ occ_str o). split; [reflexivity|].
    split; [exact (proj1 (nsc_facts x Hx))|now apply nsc_not_hash].
  - rewrite render_cp_choice. eexists _, _. split; [reflexivity|]. split; reflexivity.
  - rewrite render_cp_seq. eexists _, _. split; [reflexivity|]. split; reflexivity.
Qed.

Lemma render_cp_nonS c p x X : cp_ok x = true -> nonS (render_cp c p x ++ X).
Proof. intros H. destruct (render_cp_head c p x H) as (h & r & -> & Hh & _). exact Hh. Qed.

(** ** reading a rendered content particle *)
Definition cp_reads_P (x : acp) : Prop := cp_ok x = true -> forall c p T fuel, cfollow T -> length (render_cp c p x) < fuel ->
  Q.q_cp fuel (render_cp c p x ++ T) = Some T.

Lemma cfollow_tail c p sepc i t X : sepc = c_bar \/ sepc = c_comma -> cfollow (cp_tail c p sepc i t ++ S0 c (1%N :: p) ++ c_rpar :: X).
Proof.
  intros Hs. destruct t as [|y t']; cbn [cp_tail app].
  - apply cfollow_S0. split; reflexivity.
  - rewrite <- app_assoc. apply cfollow_S0. cbn [app]. destruct Hs as [-> | ->]; split; reflexivity.
Qed.

Lemma tail_reads c p sepc : sepc = c_bar \/ sepc = c_comma -> forall t, Forall cp_reads_P t -> forallb cp_ok t = true ->
  forall i sep X fuel, sep = None \/ sep = Some sepc -> length (cp_tail c p sepc i t) < fuel ->
  Q.q_group_rest fuel sep (skipS (cp_tail c p sepc i t ++ S0 c (1%N :: p) ++ c_rpar :: X)) = Some X.
Proof.
  intros Hs. induction t as [|y t' IH]; intros HP Hok i sep X fuel Hsep Hf; (destruct fuel as [|f]; [lia|]).
  - cbn [cp_tail app]. rewrite S0_then by reflexivity. rewrite Q.q_group_rest_eq. reflexivity.
  - inversion HP as [|? ? Hy HP']; subst. cbn [forallb] in Hok. apply andb_true_iff in Hok. destruct Hok as [Hoy Hok'].
    cbn [cp_tail] in *. rewrite <- !app_assoc. rewrite S0_then by (cbn [app nonS]; destruct Hs as [-> | ->]; reflexivity).
    cbn [app]. rewrite Q.q_group_rest_eq.
    assert (E1 : (sepc =? c_rpar)%N = false) by (destruct Hs as [-> | ->]; reflexivity).
    assert (E2 : (((sepc =? c_bar) || (sepc =? c_comma)) && match sep with Some x => sepc =? x | None => true end)%N = true).
    { destruct Hsep as [-> | ->]; [destruct Hs as [-> | ->]; reflexivity|]. rewrite N.eqb_refl. destruct Hs as [-> | ->]; reflexivity. }
    rewrite !app_length in Hf. cbn [length] in Hf. rewrite !app_length in Hf.
    pose proof (Hy Hoy c ((i + 1)%N :: 2%N :: p) _ f (cfollow_tail c p sepc (i + 1)%N t' X Hs) ltac:(unfold str, char in *; lia)) as Hq.
    pose proof (S0_then c (i :: 4%N :: p) _ (render_cp_nonS c ((i + 1)%N :: 2%N :: p) y (cp_tail c p sepc (i + 1) t' ++ S0 c (1%N :: p) ++ c_rpar :: X) Hoy)) as Hsk.
    unfold str, char in *. rewrite E1. cbv iota. rewrite E2. rewrite <- ?app_assoc. rewrite Hsk, Hq.
    cbn [bind]. apply IH; [exact HP'|exact Hok'|now right|unfold str, char in *; lia].
Qed.

Lemma group_reads c p sepc l o T fuel : sepc = c_bar \/ sepc = c_comma -> l <> [] -> Forall cp_reads_P l -> forallb cp_ok l = true ->
  cfollow T -> length (cp_items c p sepc 0 l) < fuel ->
  bind (Q.q_cp fuel (skipS (S0 c (0%N :: p) ++ cp_items c p sepc 0 l ++ S0 c (1%N :: p) ++ c_rpar :: occ_str o ++ T)))
    (fun r => bind (Q.q_group_rest fuel None (skipS r)) (fun r' => Some (skip_occ r'))) = Some T.
Proof.
  intros Hs Hne HP Hok HT Hf. destruct l as [|y t]; [now elim Hne|]. inversion HP as [|? ? Hy HP']; subst.
  cbn [forallb] in Hok. apply andb_true_iff in Hok. destruct Hok as [Hoy Hok'].
  cbn [cp_items] in *. rewrite app_length in Hf.
  pose proof (Hy Hoy c (0%N :: 2%N :: p) _ fuel (cfollow_tail c p sepc 0%N t (occ_str o ++ T) Hs) ltac:(unfold str, char in *; lia)) as Hq.
  pose proof (tail_reads c p sepc Hs t HP' Hok' 0%N None (occ_str o ++ T) fuel (or_introl eq_refl) ltac:(unfold str, char in *; lia)) as Hg.
  pose proof (S0_then c (0%N :: p) _ (render_cp_nonS c (0%N :: 2%N :: p) y (cp_tail c p sepc 0 t ++ S0 c (1%N :: p) ++ c_rpar :: occ_str o ++ T) Hoy)) as Hsk.
  unfold str, char in *. rewrite <- ?app_assoc. rewrite Hsk, Hq. cbn [bind]. rewrite Hg. cbn [bind].
  now rewrite skip_occ_occ.
Qed.

Fixpoint acp_ind2 (P : acp -> Prop) (Hn : forall nm o, P (CPName nm o))
  (Hc : forall l o, Forall P l -> P (CPChoice l o)) (Hs : forall l o, Forall P l -> P (CPSeq l o)) (x : acp) : P x :=
  match x with
  | CPName nm o => Hn nm o
  | CPChoice l o => Hc l o ((fix go (l : list acp) : Forall P l := match l with [] => Forall_nil P | y :: t => Forall_cons y (acp_ind2 P Hn Hc Hs y) (go t) end) l)
  | CPSeq l o => Hs l o ((fix go (l : list acp) : Forall P l := match l with [] => Forall_nil P | y :: t => Forall_cons y (acp_ind2 P Hn Hc Hs y) (go t) end) l)
  end.

Lemma cp_items_len_group c p sepc l o : length (cp_items c p sepc 0 l) < length (c_lpar :: S0 c (0%N :: p) ++ cp_items c p sepc 0 l ++ S0 c (1%N :: p) ++ c_rpar :: occ_str o).
Proof. cbn [length]. rewrite !app_length. lia. Qed.

Theorem cp_reads : forall x, cp_reads_P x.
Proof.
  apply acp_ind2.
  - intros nm o Hok c p T fuel HT Hf. cbn [cp_ok render_cp] in *. destruct fuel as [|f]; [lia|]. rewrite <- app_assoc. rewrite Q.q_cp_eq.
    destruct (name_head nm (QName_Name _ Hok)) as (x & t & En & Hx). rewrite En at 1. cbn [app]. rewrite (nsc_not_lpar x Hx).
    rewrite (qname_reads nm _ Hok (occ_stops o T HT)). cbn [bind]. now rewrite skip_occ_occ.
  - intros l o HP Hok c p T fuel HT Hf. cbn [cp_ok] in Hok. apply andb_true_iff in Hok. destruct Hok as [Hlen Hok]. apply Nat.leb_le in Hlen.
    rewrite render_cp_choice in *. pose proof (cp_items_len_group c p c_bar l o) as Hl. destruct fuel as [|f]; [lia|]. cbn [app]. rewrite Q.q_cp_eq.
    change (c_lpar =? c_lpar)%N with true. cbv iota. rewrite <- !app_assoc. cbn [app].
    apply (group_reads c p c_bar l o T f); [now left|destruct l; [cbn in Hlen; lia|discriminate]|exact HP|exact Hok|exact HT|unfold str, char in *; lia].
  - intros l o HP Hok c p T fuel HT Hf. cbn [cp_ok] in Hok. apply andb_true_iff in Hok. destruct Hok as [Hlen Hok]. apply Nat.leb_le in Hlen.
    rewrite render_cp_seq in *. pose proof (cp_items_len_group c p c_comma l o) as Hl. destruct fuel as [|f]; [lia|]. cbn [app]. rewrite Q.q_cp_eq.
    change (c_lpar =? c_lpar)%N with true. cbv iota. rewrite <- !app_assoc. cbn [app].
    apply (group_reads c p c_comma l o T f); [now right|destruct l; [cbn in Hlen; lia|discriminate]|exact HP|exact Hok|exact HT|unfold str, char in *; lia].
Qed.

(** ** [51] Mixed *)
Fixpoint mixed_tail (c : choices) (p : list N) (i : N) (l : list str) : str :=
  match l with [] => [] | x :: t => S0 c (i :: 3%N :: p) ++ c_bar :: S0 c (i :: 4%N :: p) ++ x ++ mixed_tail c p (i + 1) t end.

Lemma q_mixed_rest_eq' f any (s : str) : Q.q_mixed_rest (S f) any s =
  match skipS s with
  | c :: t =>
    if (c =? c_rpar)%N then
      match t with
      | c2 :: t2 => if (c2 =? c_star)%N then Some t2 else if any then None else Some t
      | [] => if any then None else Some t
      end
    else if (c =? c_bar)%N then bind (Q.q_Name (skipS t)) (fun '(_, r) => Q.q_mixed_rest f true r)
    else None
  | [] => None
  end.
Proof. reflexivity. Qed.

Lemma mixed_tail_stops c p i l X : stops_name (mixed_tail c p i l ++ S0 c (1%N :: p) ++ c_rpar :: X).
Proof.
  destruct l as [|x t]; cbn [mixed_tail app].
  - apply S0_stops. reflexivity.
  - rewrite <- app_assoc. apply S0_stops. reflexivity.
Qed.

Lemma mixed_reads c p : forall l i any X fuel, forallb is_QName l = true -> length (mixed_tail c p i l) < fuel ->
  Q.q_mixed_rest fuel any (mixed_tail c p i l ++ S0 c (1%N :: p) ++ c_rpar :: c_star :: X) = Some X.
Proof.
  induction l as [|x t IH]; intros i any X fuel Hok Hf; (destruct fuel as [|f]; [lia|]); rewrite q_mixed_rest_eq'.
  - cbn [mixed_tail app]. rewrite S0_then by reflexivity. reflexivity.
  - cbn [forallb] in Hok. apply andb_true_iff in Hok. destruct Hok as [Hx Ht]. cbn [mixed_tail] in *. rewrite <- !app_assoc.
    rewrite S0_then by reflexivity. cbn [app]. change (c_bar =? c_rpar)%N with false. change (c_bar =? c_bar)%N with true. cbv iota.
    rewrite <- !app_assoc. rewrite S0_then by (apply name_nonS; apply QName_Name; exact Hx).
    rewrite (qname_reads x _ Hx (mixed_tail_stops c p (i + 1)%N t (c_star :: X))). cbn [bind].
    apply IH; [exact Ht|]. rewrite !app_length in Hf. cbn [length] in Hf. rewrite !app_length in Hf. unfold str, char in *. lia.
Qed.

(** ** [46] contentspec *)
Definition spec_okb (s : acontentspec) : bool :=
  match s with
  | CSMixed names => forallb is_QName names
  | CSChildren (CPName _ _) => false
  | CSChildren cp => cp_ok cp
  | _ => true
  end.

Lemma mixed_go_eq c p : forall l i,
  (fix go (i : N) (l : list str) : str :=
     match l with [] => [] | x :: t => S0 c (i :: 3%N :: p) ++ c_bar :: S0 c (i :: 4%N :: p) ++ x ++ go (i + 1)%N t end) i l = mixed_tail c p i l.
Proof. induction l as [|y l IH]; intros i; [reflexivity|]. cbn [mixed_tail]. rewrite <- IH. reflexivity. Qed.

Lemma render_mixed_eq c p x t : render_contentspec c p (CSMixed (x :: t)) =
  c_lpar :: S0 c (0%N :: p) ++ s_PCDATA ++ mixed_tail c p 0 (x :: t) ++ S0 c (1%N :: p) ++ [c_rpar; c_star].
Proof. exact (f_equal (fun z => c_lpar :: S0 c (0%N :: p) ++ s_PCDATA ++ z ++ S0 c (1%N :: p) ++ [c_rpar; c_star]) (mixed_go_eq c p (x :: t) 0%N)). Qed.

Lemma contentspec_group c p sepc l o T fuel : sepc = c_bar \/ sepc = c_comma -> l <> [] -> forallb cp_ok l = true -> cfollow T ->
  length (cp_items c p sepc 0 l) < fuel ->
  Q.q_contentspec fuel ((c_lpar :: S0 c (0%N :: p) ++ cp_items c p sepc 0 l ++ S0 c (1%N :: p) ++ c_rpar :: occ_str o) ++ T) = Some T.
Proof.
  intros Hs Hne Hok HT Hf. cbn [app]. rewrite <- !app_assoc. cbn [app]. unfold Q.q_contentspec.
  change (strip s_EMPTY (c_lpar :: ?X)) with (@None str). change (strip s_ANY (c_lpar :: ?X)) with (@None str). cbv iota.
  change (c_lpar =? c_lpar)%N with true. cbv iota.
  pose proof (group_reads c p sepc l o T fuel Hs Hne ltac:(apply Forall_forall; intros; apply cp_reads) Hok HT Hf) as Hg.
  destruct l as [|y t]; [now elim Hne|]. cbn [forallb] in Hok. apply andb_true_iff in Hok. destruct Hok as [Hoy _].
  destruct (render_cp_head c (0%N :: 2%N :: p) y Hoy) as (h & r & Eh & HhS & Hhh).
  assert (Hsk : skipS (S0 c (0%N :: p) ++ cp_items c p sepc 0 (y :: t) ++ S0 c (1%N :: p) ++ c_rpar :: occ_str o ++ T) =
                cp_items c p sepc 0 (y :: t) ++ S0 c (1%N :: p) ++ c_rpar :: occ_str o ++ T).
  { apply S0_then. cbn [cp_items]. rewrite Eh. exact HhS. }
  unfold str, char in *. rewrite Hsk in *.
  assert (Est : strip s_PCDATA (cp_items c p sepc 0 (y :: t) ++ S0 c (1%N :: p) ++ c_rpar :: occ_str o ++ T) = None).
  { cbn [cp_items]. rewrite Eh. cbn [app strip s_PCDATA]. unfold c_hash in Hhh. now rewrite Hhh. }
  unfold str, char in *. rewrite Est. exact Hg.
Qed.

Theorem contentspec_reads c p s T fuel : spec_okb s = true -> cfollow T -> length (render_contentspec c p s) < fuel ->
  Q.q_contentspec fuel (render_contentspec c p s ++ T) = Some T.
Proof.
  intros Hok HT Hf. destruct s as [| |names|cp].
  - cbn [render_contentspec]. unfold Q.q_contentspec. now rewrite strip_app.
  - cbn [render_contentspec]. unfold Q.q_contentspec. change (strip s_EMPTY (s_ANY ++ T)) with (@None str). now rewrite strip_app.
  - destruct names as [|x t].
    + cbn [render_contentspec]. cbn [app]. rewrite <- ?app_assoc. unfold Q.q_contentspec.
      change (strip s_EMPTY (c_lpar :: ?X)) with (@None str). change (strip s_ANY (c_lpar :: ?X)) with (@None str). cbv iota.
      change (c_lpar =? c_lpar)%N with true. cbv iota. rewrite S0_then by reflexivity. rewrite strip_app.
      destruct fuel as [|f]; [lia|]. rewrite q_mixed_rest_eq'. rewrite <- ?app_assoc. rewrite S0_then by reflexivity. cbn [app].
      change (c_rpar =? c_rpar)%N with true. cbv iota. destruct (N.eqb (N.modulo (c (2%N :: p)) 2) 0); cbn [app]; [|reflexivity].
      pose proof (cfollow_nonstar T HT) as Hs. destruct T as [|y T]; [reflexivity|]. now rewrite Hs.
    + rewrite render_mixed_eq in *. cbn [app]. rewrite <- ?app_assoc. unfold Q.q_contentspec.
      change (strip s_EMPTY (c_lpar :: ?X)) with (@None str). change (strip s_ANY (c_lpar :: ?X)) with (@None str). cbv iota.
      change (c_lpar =? c_lpar)%N with true. cbv iota. rewrite S0_then by reflexivity. rewrite strip_app. cbn [app].
      apply (mixed_reads c p (x :: t) 0%N false T fuel Hok). cbn [length] in Hf. rewrite !app_length in Hf. unfold str, char in *. lia.
  - destruct cp as [nm o|l o|l o]; [discriminate| |]; cbn [spec_okb cp_ok] in Hok; apply andb_true_iff in Hok; destruct Hok as [Hlen Hok]; apply Nat.leb_le in Hlen;
      cbn [render_contentspec] in *.
    + rewrite render_cp_choice in *. pose proof (cp_items_len_group c p c_bar l o) as Hl.
      apply contentspec_group; [now left|destruct l; [cbn in Hlen; lia|discriminate]|exact Hok|exact HT|unfold str, char in *; lia].
    + rewrite render_cp_seq in *. pose proof (cp_items_len_group c p c_comma l o) as Hl.
      apply contentspec_group; [now right|destruct l; [cbn in Hlen; lia|discriminate]|exact Hok|exact HT|unfold str, char in *; lia].
Qed.

(** ** [45] elementdecl *)
Theorem element_decl_reads c p nm s T fuel : is_QName nm = true -> spec_okb s = true -> length (render_decl c p (ADElement nm s)) <= fuel ->
  Q.q_elementdecl fuel (S1 c (0%N :: p) ++ nm ++ S1 c (1%N :: p) ++ render_contentspec c (2%N :: p) s ++ S0 c (3%N :: p) ++ c_gt :: T) = Some (DElement nm, T).
Proof.
  intros Hn Hs Hf. pose proof (QName_Name _ Hn) as Hnm. unfold Q.q_elementdecl.
  rewrite (p_S_S1 c (0%N :: p)) by (apply name_nonS; exact Hnm). cbn [bind].
  rewrite (name_then_S1 nm c (1%N :: p) _ Hnm). cbn [bind].
  assert (HnS : forall X, nonS (render_contentspec c (2%N :: p) s ++ X)).
  { intros X. destruct s as [| |[|x t]|cp]; try reflexivity. destruct cp as [? ?|l o|l o]; [discriminate| |]; cbn [render_contentspec]; [rewrite render_cp_choice|rewrite render_cp_seq]; reflexivity. }
  rewrite (p_S_S1 c (1%N :: p)) by apply HnS. cbn [bind].
  cbn [render_decl] in Hf. rewrite !app_length in Hf.
  pose proof (contentspec_reads c (2%N :: p) s (S0 c (3%N :: p) ++ c_gt :: T) fuel Hs ltac:(apply cfollow_S0; split; reflexivity) ltac:(unfold s_element in Hf; cbn [length] in Hf; unfold str, char in *; lia)) as Hc.
  unfold str, char in *. rewrite Hc. cbn [bind]. rewrite close_reads. reflexivity.
Qed.
