(* parse: `<flags> <document>` -> the line documented at the top of harness/src/domains/parse.rs,
   computed by the extracted model (Model.Display.pipeline).  Formatting only: every decision
   (what is accepted, what is built, what is printed, equality, fixpoint, expansion) is taken by
   extracted Coq functions. *)
let opt = function None -> "~" | Some s -> "S" ^ enc s
let radix_s = function Dec -> "10" | Hex -> "16"
let b01 b = if b then "1" else "0"
let len l = string_of_int (List.length l)
let class_of = function
  | NotFoundReference s -> "NotFoundReference:" ^ enc s
  | InvalidData s -> "InvalidData:" ^ enc s

let dump (force : bool) (d : document) : string =
  let ents = doc_entities d in
  let b = Buffer.create 1024 in
  let add = Buffer.add_string b in
  let valof in_attr name =
    if (not force) && cyclic ents name then "cyc"
    else match (if in_attr then expand_attr ents name else expand ents name) with
      | IOk s -> "k" ^ enc s
      | IErr e -> "x:" ^ class_of e
      | IPanic _ -> "panic"
      | IOof -> "oof" in
  let unexp tag (e : entity) =
    add (Printf.sprintf "%s(%s;%s;%s;%s)" tag (enc e.en_name) (opt e.en_system) (opt e.en_public) (valof (tag = "u") e.en_name)) in
  let attr (a : attr) =
    add (Printf.sprintf "A(%s;%s;[" (opt a.xa_prefix) (enc a.xa_local));
    List.iter (function
        | XaText s -> add ("t(" ^ enc s ^ ")")
        | XaChar (t, n, r) -> add (Printf.sprintf "r(%s;%s;%s)" (enc t) (enc n) (radix_s r))
        | XaEntity e -> unexp "u" e) a.xa_values;
    add "])" in
  let is_ns = attr_namespace in
  let pi (p : ppi) =
    add (Printf.sprintf "P(%s;%s)" (enc p.pi_target) (enc (match p.pi_value with Some c -> c | None -> []))) in
  let notation (n : notation) =
    add (Printf.sprintf "O(%s;%s;%s)" (enc n.no_name) (opt n.no_system) (opt n.no_public)) in
  let rec item = function
    | ItElement (local, prefix, attrs, children) ->
      add (Printf.sprintf "E(%s;%s;ns=[" (opt prefix) (enc local));
      List.iter (fun a -> if is_ns a then attr a) attrs;
      add "];a=[";
      List.iter (fun a -> if not (is_ns a) then attr a) attrs;
      add "];c=[";
      List.iter item children;
      add "])"
    | ItText s -> add ("T(" ^ enc s ^ ")")
    | ItCData s -> add ("C(" ^ enc s ^ ")")
    | ItCharRef (t, n, r) -> add (Printf.sprintf "R(%s;%s;%s)" (enc t) (enc n) (radix_s r))
    | ItComment s -> add ("M(" ^ enc s ^ ")")
    | ItPI p -> pi p
    | ItUnexpanded e -> unexp "U" e
    | ItDocType dt ->
      add (Printf.sprintf "Y(%s;%s;%s;%s;al=[" (opt dt.dt_prefix) (enc dt.dt_local) (opt dt.dt_system) (opt dt.dt_public));
      List.iter (fun (a : attlist) -> add (Printf.sprintf "L(%s;%s)" (opt a.al_prefix) (enc a.al_local))) (dt_attlists dt);
      add "];en=[";
      List.iter (fun (e : entity) ->
          add ("N(" ^ enc e.en_name ^ ";");
          (match e.en_values with
           | None -> add "~"
           | Some vs ->
             add "V[";
             List.iter (function
                 | XvCharacter (n, r) -> add (Printf.sprintf "c(%s;%s)" (enc n) (radix_s r))
                 | XvEntity n -> add ("e(" ^ enc n ^ ")")
                 | XvParameter n -> add ("p(" ^ enc n ^ ")")
                 | XvText n -> add ("t(" ^ enc n ^ ")")) vs;
             add "]");
          add (Printf.sprintf ";%s;%s;%s)" (opt e.en_system) (opt e.en_public) (opt e.en_notation))) (dt_entities dt);
      add "];no=[";
      List.iter notation (dt_notations dt);
      add "];pi=[";
      List.iter pi (dt_pis dt);
      add "])" in
  add (Printf.sprintf "D(ver=%s;enc=%s;sa=%s;ch=[" (opt d.doc_version) (enc d.doc_encoding)
         (match d.doc_standalone with None -> "~" | Some false -> "0" | Some true -> "1"));
  List.iter item d.doc_children;
  add "];nots=";
  (match doc_notations d with
   | None -> add "~"
   | Some ns -> add "["; List.iter notation ns; add "]");
  add ";unp=[";
  List.iter (fun (e : entity) ->
      add (Printf.sprintf "Q(%s;%s;%s;%s)" (enc e.en_name)
             (enc (match e.en_system with Some s -> s | None -> []))
             (opt e.en_public)
             (enc (match e.en_notation with Some s -> s | None -> [])))) (doc_unparsed_entities d);
  add "])";
  Buffer.contents b

let reparse_s want_fix = function
  | RRejParse -> "rej:parse"
  | RRejInfo e -> "rej:" ^ class_of e
  | RPanic _ -> "panic"
  | RModel -> "rej:model"
  | ROk (rest, eq, fx) ->
    Printf.sprintf "ok;rest=%s;eq=%s" (len rest) (b01 eq) ^ (if want_fix then ";fix=" ^ b01 fx else "")

let () = register "parse" (fun words ->
  match words with
  | [flags; s] ->
    let force = String.contains flags 'x' in
    let pinned = String.contains flags 'p' in
    (match (if pinned then pipeline_pinned else pipeline) (dec s) with
     | OParseErr -> "rest=- err:parse"
     | OPanic _ -> "panic"
     | OModel -> "model-artefact"
     | OInfoErr e ->
       (* the rest is not part of the outcome: recompute it from the parser alone *)
       let rest = (match parse_document (dec s) with POk (_, r) -> len r | _ -> "?") in
       "rest=" ^ rest ^ " err:" ^ class_of e
     | OOk o ->
       String.concat "" [
         "rest="; len o.po_rest; " "; dump force o.po_doc;
         "|ser="; enc o.po_ser; "|re="; reparse_s true o.po_re;
         (if String.contains flags 'n' then ""
          else "|pretty=" ^ enc o.po_pretty ^ "|pp=" ^ reparse_s false o.po_pp) ])
  | _ -> "badinput")
