(** * The view against tables dumped from the real code: a richer document, both DOM views

    The two tables below are GENERATED from the harness dump of the real dom (the `xpath` domain,
    views 0 and 1, printed as Coq by the node printer of tools/xpath/dump2coq.py) for a document
    with a document type without internal subset, a default namespace, a prefixed namespace, an
    undeclaration of the default namespace, a comment, a CDATA section, a character reference, a
    reference to a predefined entity, a processing instruction and adjacent character data.
    [rich_store] is that document as an item table with the ids the parser hands out
    (1 document, 2 doctype, 3 r, 4 xmlns (5 its value), 6 xmlns:p (7), 8 a (9), 10 comment, 11 b,
    12 p:x (13), 14 t, 15 CDATA, 16 the character reference, 17 the entity reference, 18 c,
    19 its xmlns (empty value: no value item), 20 p:f, 21 v, 22 the processing instruction).
    The view of the store IS the dumped table in both views, field by field. *)
From Coq Require Import List NArith Bool.
From XmlRs Require Import Base.CPred Model.XDoc Proofs.XPathCanon Proofs.XPathRefine Proofs.XPathRefinePaths.
From XmlRs Require Import Model.Store Model.StoreCheck Model.StoreView Proofs.DomTree Proofs.DomOrder Proofs.DomCheck
  Proofs.StoreXDocReach Proofs.StoreXDocExample.
Import ListNotations.
Open Scope N_scope.

(* <!DOCTYPE r><r xmlns="urn:d" xmlns:p="urn:p" a="1"><!--c--><b p:x="2">t<![CDATA[u] ]>&#65;&amp;<c xmlns=""><p:f/></c>v</b><?pi d?></r> , view 0 *)
Definition rich_raw_doc : xdoc :=
  [ mk_xnode KDocument 1 1 None [1;2] [] (Some []) XNameNone DataComputed;
    mk_xnode KDocumentType 2 2 (Some 0) [] [] (Some []) XNameNone (DataStr []);
    mk_xnode KElement 3 3 (Some 0) [7;8;20] [6] (Some [3;4;5]) (XName [114] (Some [120;109;108;110;115]) (Some [117;114;110;58;100])) DataComputed;
    mk_xnode KNamespace 4 4 None [] [] (Some []) (XName [120;109;108;110;115] (None) (None)) (DataStr [117;114;110;58;100]);
    mk_xnode KNamespace 6 6 None [] [] (Some []) (XName [112] (None) (None)) (DataStr [117;114;110;58;112]);
    mk_xnode KNamespace 0 0 None [] [] (Some []) (XName [120;109;108] (None) (None)) (DataStr [104;116;116;112;58;47;47;119;119;119;46;119;51;46;111;114;103;47;88;77;76;47;49;57;57;56;47;110;97;109;101;115;112;97;99;101]);
    mk_xnode KAttribute 8 8 (Some 2) [] [] (Some []) (XName [97] (Some [120;109;108;110;115]) (None)) (DataStr [49]);
    mk_xnode KComment 10 10 (Some 2) [] [] (Some []) XNameNone (DataStr [99]);
    mk_xnode KElement 11 11 (Some 2) [11;12;13;14;15;19] [10] (Some [3;4;9]) (XName [98] (Some [120;109;108;110;115]) (Some [117;114;110;58;100])) DataComputed;
    mk_xnode KNamespace 0 0 None [] [] (Some []) (XName [120;109;108] (None) (None)) (DataStr [104;116;116;112;58;47;47;119;119;119;46;119;51;46;111;114;103;47;88;77;76;47;49;57;57;56;47;110;97;109;101;115;112;97;99;101]);
    mk_xnode KAttribute 12 12 (Some 8) [] [] (Some []) (XName [120] (Some [112]) (Some [117;114;110;58;112])) (DataStr [50]);
    mk_xnode KText 14 14 (Some 8) [] [] (Some []) XNameNone (DataStr [116]);
    mk_xnode KCData 15 15 (Some 8) [] [] (Some []) XNameNone (DataStr [117]);
    mk_xnode KEntityReference 16 16 (Some 8) [] [] (Some []) XNameNone (DataStr []);
    mk_xnode KEntityReference 17 17 (Some 8) [] [] (Some []) XNameNone (DataStr []);
    mk_xnode KElement 18 18 (Some 8) [17] [] (Some [4;16]) (XName [99] (Some [120;109;108;110;115]) (None)) DataComputed;
    mk_xnode KNamespace 0 0 None [] [] (Some []) (XName [120;109;108] (None) (None)) (DataStr [104;116;116;112;58;47;47;119;119;119;46;119;51;46;111;114;103;47;88;77;76;47;49;57;57;56;47;110;97;109;101;115;112;97;99;101]);
    mk_xnode KElement 20 20 (Some 15) [] [] (Some [4;18]) (XName [102] (Some [112]) (Some [117;114;110;58;112])) DataComputed;
    mk_xnode KNamespace 0 0 None [] [] (Some []) (XName [120;109;108] (None) (None)) (DataStr [104;116;116;112;58;47;47;119;119;119;46;119;51;46;111;114;103;47;88;77;76;47;49;57;57;56;47;110;97;109;101;115;112;97;99;101]);
    mk_xnode KText 21 21 (Some 8) [] [] (Some []) XNameNone (DataStr [118]);
    mk_xnode KPI 22 22 (Some 2) [] [] (Some []) (XName [112;105] (None) (None)) (DataStr [100]) ].

(* <!DOCTYPE r><r xmlns="urn:d" xmlns:p="urn:p" a="1"><!--c--><b p:x="2">t<![CDATA[u] ]>&#65;&amp;<c xmlns=""><p:f/></c>v</b><?pi d?></r> , view 1 *)
Definition rich_merged_doc : xdoc :=
  [ mk_xnode KDocument 1 1 None [1;2] [] (Some []) XNameNone DataComputed;
    mk_xnode KDocumentType 2 2 (Some 0) [] [] (Some []) XNameNone (DataStr []);
    mk_xnode KElement 3 3 (Some 0) [7;8;17] [6] (Some [3;4;5]) (XName [114] (Some [120;109;108;110;115]) (Some [117;114;110;58;100])) DataComputed;
    mk_xnode KNamespace 4 4 None [] [] (Some []) (XName [120;109;108;110;115] (None) (None)) (DataStr [117;114;110;58;100]);
    mk_xnode KNamespace 6 6 None [] [] (Some []) (XName [112] (None) (None)) (DataStr [117;114;110;58;112]);
    mk_xnode KNamespace 0 0 None [] [] (Some []) (XName [120;109;108] (None) (None)) (DataStr [104;116;116;112;58;47;47;119;119;119;46;119;51;46;111;114;103;47;88;77;76;47;49;57;57;56;47;110;97;109;101;115;112;97;99;101]);
    mk_xnode KAttribute 8 8 (Some 2) [] [] (Some []) (XName [97] (Some [120;109;108;110;115]) (None)) (DataStr [49]);
    mk_xnode KComment 10 10 (Some 2) [] [] (Some []) XNameNone (DataStr [99]);
    mk_xnode KElement 11 11 (Some 2) [11;12;16] [10] (Some [3;4;9]) (XName [98] (Some [120;109;108;110;115]) (Some [117;114;110;58;100])) DataComputed;
    mk_xnode KNamespace 0 0 None [] [] (Some []) (XName [120;109;108] (None) (None)) (DataStr [104;116;116;112;58;47;47;119;119;119;46;119;51;46;111;114;103;47;88;77;76;47;49;57;57;56;47;110;97;109;101;115;112;97;99;101]);
    mk_xnode KAttribute 12 12 (Some 8) [] [] (Some []) (XName [120] (Some [112]) (Some [117;114;110;58;112])) (DataStr [50]);
    mk_xnode KExpandedText 14 14 (Some 8) [] [] (Some []) XNameNone (DataStr [116;117;65;38]);
    mk_xnode KElement 18 18 (Some 8) [14] [] (Some [4;13]) (XName [99] (Some [120;109;108;110;115]) (None)) DataComputed;
    mk_xnode KNamespace 0 0 None [] [] (Some []) (XName [120;109;108] (None) (None)) (DataStr [104;116;116;112;58;47;47;119;119;119;46;119;51;46;111;114;103;47;88;77;76;47;49;57;57;56;47;110;97;109;101;115;112;97;99;101]);
    mk_xnode KElement 20 20 (Some 12) [] [] (Some [4;15]) (XName [102] (Some [112]) (Some [117;114;110;58;112])) DataComputed;
    mk_xnode KNamespace 0 0 None [] [] (Some []) (XName [120;109;108] (None) (None)) (DataStr [104;116;116;112;58;47;47;119;119;119;46;119;51;46;111;114;103;47;88;77;76;47;49;57;57;56;47;110;97;109;101;115;112;97;99;101]);
    mk_xnode KExpandedText 21 21 (Some 8) [] [] (Some []) XNameNone (DataStr [118]);
    mk_xnode KPI 22 22 (Some 2) [] [] (Some []) (XName [112;105] (None) (None)) (DataStr [100]) ].


Definition rich_items : list (id * item) :=
  [ (1, mk KDoc None [] [] None [2; 3] []);
    (2, mk KDt None [114] [60;33;68;79;67;84;89;80;69;32;114;62] (Some 1) [] []);
    (3, mk KEl None [114] [] (Some 1) [10; 11; 22] [4; 6; 8]);
    (4, mk KAt None Store.s_xmlns [] (Some 3) [5] []);
    (5, mk KTx None [] [117;114;110;58;100] (Some 4) [] []);
    (6, mk KAt (Some Store.s_xmlns) [112] [] (Some 3) [7] []);
    (7, mk KTx None [] [117;114;110;58;112] (Some 6) [] []);
    (8, mk KAt None [97] [] (Some 3) [9] []);
    (9, mk KTx None [] [49] (Some 8) [] []);
    (10, mk KCm None [] [99] (Some 3) [] []);
    (11, mk KEl None [98] [] (Some 3) [14; 15; 16; 17; 18; 21] [12]);
    (12, mk KAt (Some [112]) [120] [] (Some 11) [13] []);
    (13, mk KTx None [] [50] (Some 12) [] []);
    (14, mk KTx None [] [116] (Some 11) [] []);
    (15, mk KCd None [] [117] (Some 11) [] []);
    (16, mk KCr None [35;54;53] [65] (Some 11) [] []);
    (17, mk KEr None [97;109;112] [] (Some 11) [] []);
    (18, mk KEl None [99] [] (Some 11) [20] [19]);
    (19, mk KAt None Store.s_xmlns [] (Some 18) [] []);
    (20, mk KEl (Some [112]) [102] [] (Some 18) [] []);
    (21, mk KTx None [] [118] (Some 11) [] []);
    (22, mkItem KPi None [112;105] [100] true (Some 3) [] [] []) ].
Definition rich_store : store := store_of_list rich_items 23 [] 1.

(** attribute values from the text items; the replacement text of the reference to amp *)
Definition rich_facts : sfacts :=
  mkFacts (sf_attr (facts_of rich_store)) (fun i => if i =? 17 then [38] else []).

Example view_is_real_dump_rich_raw : xdoc_of_store rich_facts false rich_store = rich_raw_doc.
Proof. vm_compute. reflexivity. Qed.

Example view_is_real_dump_rich_merged : xdoc_of_store rich_facts true rich_store = rich_merged_doc.
Proof. vm_compute. reflexivity. Qed.

(** a document WITH a document type: the bridge gives [DocInv], [SpecShape] and [NamesOk] (the
    hypotheses of C05 in full), in both views *)
Example rich_invariants :
  TreeInv rich_store /\ OrderInv rich_store /\ doc_element rich_store <> None /\ doc_decl rich_store = Some 2 /\
  DocInv rich_raw_doc /\ SpecShape rich_raw_doc /\ NamesOk rich_raw_doc /\
  DocInv rich_merged_doc /\ SpecShape rich_merged_doc /\ NamesOk rich_merged_doc.
Proof.
  assert (T : TreeInv rich_store) by (apply tree_inv_b_sound; vm_compute; reflexivity).
  assert (O : OrderInv rich_store) by (apply order_inv; [exact T | apply store_of_list_order_ok]).
  assert (He : doc_element rich_store <> None) by (vm_compute; discriminate).
  split; [exact T|]. split; [exact O|]. split; [exact He|]. split; [vm_compute; reflexivity|].
  rewrite <- view_is_real_dump_rich_raw, <- view_is_real_dump_rich_merged.
  split; [apply bridge_docinv; assumption|]. split; [apply bridge_shape; assumption|].
  split; [apply bridge_names; assumption|]. split; [apply bridge_docinv; assumption|].
  split; [apply bridge_shape; assumption | apply bridge_names; assumption].
Qed.
