(** * Equivalent spellings evaluate identically, errors included, on every document -- for all the
    equivalences except [//] (C08).

    [lnorm a] normalises a tree like [XPathSyntax.norm] but leaves the separators [/] and [//] where
    they are: parentheses are dropped, [@] becomes [attribute::], an omitted axis [child::], [.]
    [self::node()], [..] [parent::node()], a numeric predicate [position() = n].  It is a
    sub-relation of the equivalence of the recommendation ([norm_lnorm]).

    [xeval_lnorm]: [xeval doc a n] and [xeval doc (lnorm a) n] are the SAME computation in every
    context: same value, same error, same panic, same context afterwards.
    No hypothesis on the document, none on the axes.

    [spelling_irrelevant_light_proof]: two spellings with the same [lnorm] -- in particular two
    spellings of one surface tree that differ in white space only ([white_space_irrelevant_proof],
    no hypothesis at all) -- give the same [query_model] result. *)
From Coq Require Import List NArith Bool Lia.
From XmlRs Require Import Base.CPred Base.NList Base.Float64.
From XmlRs Require Import Spec.XPathSyntax.
From XmlRs Require Import Spec.XPathCore Model.XPathFuncs.
From XmlRs Require Import Model.XPathAst Model.XDoc Model.XPathScalar Model.XPathEval Model.XPathAstAbs.
From XmlRs Require Import Proofs.XPathEvalEqs Proofs.XPathCtx Proofs.XPathCanon Proofs.XPathAbsEval Proofs.XPathAbsInv
  Proofs.XPathReach Proofs.XPathSpelling.
From XmlRs Require Proofs.XPathSyntaxLemmas.
Import ListNotations.
Open Scope N_scope.

(** ** the light normal form *)
Definition lstep_with (f : xexpr -> xexpr) (s : xstep) : xstep :=
  match s with
  | XStep a t preds => XStep (norm_axis a) t (map (fun q => norm_pred_top (f q)) preds)
  | XDot => XStep (AFull XSelf) (TType KNode) []
  | XDotDot => XStep (AFull XParent) (TType KNode) []
  end.

Fixpoint lnorm (a : xexpr) : xexpr :=
  match a with
  | XBin o a b => XBin o (lnorm a) (lnorm b)
  | XNeg a => XNeg (lnorm a)
  | XLit s => XLit s
  | XPathSyntax.XNum s => XPathSyntax.XNum s
  | XVar q => XVar q
  | XCall f args => XCall f (map lnorm args)
  | XParen a => lnorm a
  | XFilter p preds =>
      match preds with
      | [] => lnorm p
      | _ => XFilter (lnorm p) (map (fun q => norm_pred_top (lnorm q)) preds)
      end
  | XRoot => XRoot
  | XPath st first rest =>
      XPath (match st with SRel => SRel | SAbs s => SAbs s | SFrom f s => SFrom (lnorm f) s end)
            (lstep_with lnorm first)
            (map (fun x : sep * xstep => let (s, y) := x in (s, lstep_with lnorm y)) rest)
  end.

Definition lstep : xstep -> xstep := lstep_with lnorm.

(** ** the same computation, in contexts that carry the bindings [ns] *)
Section MeqN.
Variable ns : list (option str * str).

Definition meqn {A} (m1 m2 : M A) : Prop := forall c, c_ns c = ns -> m1 c = m2 c.

Lemma meqn_refl {A} (m : M A) : meqn m m.
Proof. intros c _. reflexivity. Qed.
Lemma meqn_trans {A} (m1 m2 m3 : M A) : meqn m1 m2 -> meqn m2 m3 -> meqn m1 m3.
Proof. intros H1 H2 c Hc. rewrite (H1 c Hc). apply H2, Hc. Qed.
Lemma meq_meqn {A} (m1 m2 : M A) : m1 ≡ m2 -> meqn m1 m2.
Proof. intros H c _. apply H. Qed.

Lemma meqn_bind {A B} (m1 m2 : M A) (f1 f2 : A -> M B) :
  restores m1 -> meqn m1 m2 -> (forall a, meqn (f1 a) (f2 a)) -> meqn (bindM m1 f1) (bindM m2 f2).
Proof.
  intros Hr Hm Hf c Hc. unfold bindM. rewrite <- (Hm c Hc). destruct (m1 c) as [[a|e| |] c1] eqn:E; try reflexivity.
  pose proof (restores_ok _ _ _ _ Hr E). subst c1. apply Hf, Hc.
Qed.

Lemma meqn_bind_l {A B} (m1 m2 : M A) (f : A -> M B) : meqn m1 m2 -> meqn (bindM m1 f) (bindM m2 f).
Proof. intros Hm c Hc. unfold bindM. rewrite (Hm c Hc). reflexivity. Qed.

Lemma meqn_bind_r {A B} (m : M A) (f1 f2 : A -> M B) : restores m -> (forall a, meqn (f1 a) (f2 a)) -> meqn (bindM m f1) (bindM m f2).
Proof. intros Hr Hf. apply meqn_bind; [exact Hr|apply meqn_refl|exact Hf]. Qed.

End MeqN.

Section Light.
Variable doc : xdoc.
Variable ns : list (option str * str).
Notation meqn := (meqn ns).

Lemma meqn_xbinop o (ma ma' mb mb' : M xvalue) :
  restores ma -> meqn ma ma' -> meqn mb mb' -> meqn (xbinop doc o ma mb) (xbinop doc o ma' mb').
Proof.
  intros Ra Ha Hb. destruct o; cbn [xbinop];
    try (apply meqn_bind; [exact Ra|exact Ha|intros v]; apply meqn_bind_l; exact Hb).
  - apply meqn_bind; [exact Ra|exact Ha|intros v]. destruct (val_to_bool v); [apply meqn_refl|]. apply meqn_bind_l; exact Hb.
  - apply meqn_bind; [exact Ra|exact Ha|intros v]. destruct (negb (val_to_bool v)); [apply meqn_refl|]. apply meqn_bind_l; exact Hb.
  - apply meqn_bind; [exact Ra|exact Ha|intros v]. destruct v; try apply meqn_refl. apply meqn_bind_l; exact Hb.
Qed.

Lemma meqn_xargs (ms ms' : list (M xvalue)) :
  Forall2 (fun m m' => restores m /\ meqn m m') ms ms' -> meqn (xargs ms) (xargs ms').
Proof.
  induction 1 as [|m m' t t' [Rm Hm] Ht IH]; cbn [xargs]; [apply meqn_refl|].
  apply meqn_bind; [exact Rm|exact Hm|intros v]. apply meqn_bind_l, IH.
Qed.

Lemma meqn_xcall name (ms ms' : list (M xvalue)) n :
  Forall2 (fun m m' => restores m /\ meqn m m') ms ms' -> meqn (xcall doc name ms n) (xcall doc name ms' n).
Proof.
  intros H c Hc. unfold xcall.
  assert (El : len ms = len ms') by (rewrite !len_length; f_equal; eapply Forall2_len, H). rewrite El.
  destruct (resolve_fn (c_ns c) name (len ms')); try reflexivity.
  apply (meqn_bind_l ns (xargs ms) (xargs ms')); [apply meqn_xargs, H|exact Hc].
Qed.

Lemma meqn_pred_loop (f g : node -> M bool) :
  (forall x, restores (f x)) -> (forall x, meqn (f x) (g x)) ->
  forall nodes pos, meqn (pred_loop f nodes pos) (pred_loop g nodes pos).
Proof.
  intros Rf H nodes. induction nodes as [|n t IH]; intros pos c Hc; cbn [pred_loop]; [reflexivity|].
  rewrite <- (H n (push_position pos c) Hc).
  destruct (f n (push_position pos c)) as [[keep|e| |] c1] eqn:Ef; try reflexivity.
  pose proof (restores_ok _ _ _ _ (Rf n) Ef). subst c1. rewrite pop_push_position. rewrite (IH (pos + 1) c Hc). reflexivity.
Qed.

Definition pred_eq (ev ev' : node -> M xvalue) : Prop :=
  (forall x, restores (ev x)) /\ forall x, meqn (predicate_of ev x) (predicate_of ev' x).

Lemma meqn_xpreds evs evs' : Forall2 pred_eq evs evs' -> forall nodes, meqn (xpreds evs nodes) (xpreds evs' nodes).
Proof.
  induction 1 as [|ev ev' t t' [R1 Hev] Ht IH]; intros nodes; cbn [xpreds]; [apply meqn_refl|].
  intros c Hc.
  rewrite <- (meqn_pred_loop (predicate_of ev) (predicate_of ev') (fun x => restores_predicate_of _ x (R1 x)) Hev nodes 1
                (push_size (len nodes) c) Hc).
  destruct (pred_loop (predicate_of ev) nodes 1 (push_size (len nodes) c)) as [[fl|e| |] c1] eqn:E; try reflexivity.
  pose proof (pred_loop_ctx (predicate_of ev) (fun n => restores_predicate_of _ n (R1 n)) _ _ _ _ _ E) as Ec. cbn beta iota in Ec. subst c1.
  rewrite pop_push_size. apply IH, Hc.
Qed.

Lemma meqn_step_sem ax test evs evs' n : Forall2 pred_eq evs evs' ->
  meqn (step_sem doc ax test evs n) (step_sem doc ax test evs' n).
Proof.
  intros H c Hc. unfold step_sem.
  destruct (bind (axis_nodes doc ax n) (filter_res (eval_node_test doc (c_ns c) ax test))); try reflexivity.
  apply meqn_xpreds; assumption.
Qed.

Lemma meqn_flat_map_m (f g : node -> M (list node)) :
  (forall x, restores (f x)) -> (forall x, meqn (f x) (g x)) -> forall l, meqn (flat_map_m f l) (flat_map_m g l).
Proof.
  intros Rf H l. induction l as [|x t IH]; cbn [flat_map_m]; [apply meqn_refl|].
  apply meqn_bind; [apply Rf|apply H|intros a]. apply meqn_bind_l, IH.
Qed.

Definition item_eq (i i' : sep * sem_step) : Prop :=
  fst i = fst i' /\ (forall x, restores (snd i x)) /\ forall x, meqn (snd i x) (snd i' x).

Lemma meqn_xstepops items items' : Forall2 item_eq items items' ->
  forall nodes, meqn (xstepops doc items nodes) (xstepops doc items' nodes).
Proof.
  induction 1 as [|[s f] [s' f'] t t' (Es & Rf & Hf) Ht IH]; intros nodes; cbn [xstepops]; [apply meqn_refl|].
  cbn [fst snd] in *. subst s'. apply meqn_bind_r; [apply restores_lift|intros from].
  apply meqn_bind; [apply restores_flat_map_m, Rf|apply meqn_flat_map_m; assumption|intros coll; apply IH].
Qed.

Lemma meqn_path_sem start first first' rest rest' :
  restores start -> (forall x, restores (first x)) -> (forall x, meqn (first x) (first' x)) -> Forall2 item_eq rest rest' ->
  meqn (path_sem doc start first rest) (path_sem doc start first' rest').
Proof.
  intros Rs Rf Hf Hr. unfold path_sem. apply meqn_bind_r; [exact Rs|intros nodes]. apply meqn_bind_l.
  apply meqn_flat_map_m.
  - intros x. apply restores_bind; [apply Rf|intros a]. apply restores_xstepops.
    clear -Hr. induction Hr as [|i i' t t' (_ & Ri & _) _ IH]; constructor; assumption.
  - intros x. apply meqn_bind; [apply Rf|apply Hf|intros a; apply meqn_xstepops, Hr].
Qed.

(** ** [n] is [position() = n], as computations *)
Lemma pred_top_eq q x : meqn (predicate_of (xeval doc (norm_pred_top q)) x) (predicate_of (xeval doc q) x).
Proof.
  destruct q as [o a b|a|s|s|q|f args|a|p preds| |st first rest]; try apply meqn_refl.
  intros c Hc. cbn [norm_pred_top]. unfold predicate_of. cbn [xeval xbinop]. unfold bindM at 1 2 3 4.
  rewrite (position_call_eval doc ns x c Hc). unfold bindM.
  destruct (rust_parse_f64 s) as [y|]; [|reflexivity].
  unfold ret, lift. cbn [eq_value is_bool is_number orb val_to_number bind xorb val_to_bool]. rewrite f64_eqb_sym.
  destruct (f64_eqb y (f64_of_N (get_position c))); reflexivity.
Qed.

(** ** the induction *)
Definition Lp (a : xexpr) : Prop := forall n, meqn (xeval doc a n) (xeval doc (lnorm a) n).

Lemma preds_eq preds : Forall Lp preds ->
  Forall2 pred_eq (map (xeval doc) preds) (map (xeval doc) (map (fun q => norm_pred_top (lnorm q)) preds)).
Proof.
  intros HB. rewrite map_map. apply Forall2_map_same. rewrite Forall_forall in *.
  intros q Hq. split; [intros x; apply xeval_restores|]. intros x.
  eapply meqn_trans; [|intros c Hc; symmetry; apply (pred_top_eq (lnorm q) x c Hc)].
  unfold predicate_of. apply meqn_bind_l. apply (HB q Hq x).
Qed.

Lemma step_lnorm_eq (y : xstep) : step_all Lp y -> forall x, meqn (xstepf doc y x) (xstepf doc (lstep y) x).
Proof.
  destruct y as [a t preds| |]; cbn [step_all lstep lstep_with]; intros HB x; unfold xstepf, lstep; cbn [xstep_with lstep_with].
  - eapply meqn_trans; [apply (meqn_step_sem (conc_axis a) (conc_test t) _ _ x (preds_eq preds HB))|].
    apply meq_meqn. destruct a as [ax| |]; cbn [norm_axis conc_axis conc_axis_name]; [apply meq_refl|apply step_sem_at|apply step_sem_omit].
  - apply meq_meqn. apply step_self.
  - apply meq_meqn. apply step_parent.
Qed.

Theorem xeval_lnorm : forall a, Lp a.
Proof.
  apply (xexpr_ind2 Lp); unfold Lp.
  - intros o a b Ha Hb n. cbn [lnorm xeval]. apply meqn_xbinop; [apply xeval_restores|apply Ha|apply Hb].
  - intros a Ha n. cbn [lnorm xeval]. apply meqn_bind_l, Ha.
  - intros s n. apply meqn_refl.
  - intros s n. apply meqn_refl.
  - intros q n. apply meqn_refl.
  - intros f args Hargs n. cbn [lnorm xeval]. apply meqn_xcall. rewrite map_map. apply Forall2_map_same.
    rewrite Forall_forall in *. intros a Ha. split; [apply xeval_restores|apply (Hargs a Ha n)].
  - intros a Ha n. cbn [lnorm xeval]. apply Ha.
  - intros p preds Hp Hpreds n. destruct preds as [|q t].
    + cbn [lnorm xeval]. apply Hp.
    + cbn [lnorm]. change (xeval doc (XFilter (lnorm p) (map (fun q0 => norm_pred_top (lnorm q0)) (q :: t))) n)
        with (v <- xeval doc (lnorm p) n ;;
              match v with
              | XNodes l => r <- xpreds (map (xeval doc) (map (fun q0 => norm_pred_top (lnorm q0)) (q :: t))) l ;; ret (XNodes r)
              | _ => lift (Err XErrInvalidType)
              end).
      change (xeval doc (XFilter p (q :: t)) n)
        with (v <- xeval doc p n ;;
              match v with
              | XNodes l => r <- xpreds (map (xeval doc) (q :: t)) l ;; ret (XNodes r)
              | _ => lift (Err XErrInvalidType)
              end).
      apply meqn_bind; [apply xeval_restores|apply Hp|intros v]. destruct v as [?|l|?|?]; try apply meqn_refl.
      apply meqn_bind_l. apply meqn_xpreds. apply preds_eq; assumption.
  - intros n. apply meqn_refl.
  - intros st first rest Hst Hfirst Hrest n. cbn [lnorm xeval]. rewrite map_map.
    assert (Hr : Forall2 item_eq (xrest doc rest)
                   (map (fun x : sep * xstep => let (s, y) := let (s, y) := x in (s, lstep_with lnorm y) in (s, xstep_with doc (xeval doc) y)) rest)).
    { unfold xrest. apply Forall2_map_same. rewrite Forall_forall in *. intros [s y] Hy. split; [reflexivity|]. cbn [snd].
      split; [intros x; apply xstep_restores|]. intros x. apply (step_lnorm_eq y (Hrest (s, y) Hy) x). }
    pose proof (step_lnorm_eq first Hfirst) as Hf.
    destruct st as [|s|f s]; cbn [start_all] in Hst.
    + apply (meqn_path_sem (ret [n]) (xstepf doc first) (xstepf doc (lstep first)) (xrest doc rest) _);
        [apply restores_ret|intros x; apply xstep_restores|exact Hf|exact Hr].
    + apply (meqn_path_sem _ (xstepf doc first) (xstepf doc (lstep first)) (xrest doc rest) _);
        [apply restores_lift|intros x; apply xstep_restores|exact Hf|exact Hr].
    + apply meqn_bind; [apply xeval_restores|apply Hst|intros v]. destruct v as [?|fl|?|?]; try apply meqn_refl.
      apply (meqn_path_sem _ (xstepf doc first) (xstepf doc (lstep first)) (xrest doc rest) _);
        [apply restores_lift|intros x; apply xstep_restores|exact Hf|exact Hr].
Qed.

End Light.

(** ** [lnorm] identifies only trees that the recommendation declares equivalent *)
Lemma npt_norm_npt q : norm_pred_top (norm (norm_pred_top q)) = norm_pred_top (norm q).
Proof. destruct q; reflexivity. Qed.

Lemma norm_axis_idem a : norm_axis (norm_axis a) = norm_axis a.
Proof. destruct a; reflexivity. Qed.

Lemma nstep_lstep (y : xstep) : step_all (fun a => norm (lnorm a) = norm a) y ->
  XPathSyntaxLemmas.nstep (lstep y) = XPathSyntaxLemmas.nstep y.
Proof.
  destruct y as [a t preds| |]; cbn [step_all lstep lstep_with XPathSyntaxLemmas.nstep]; intros H; try reflexivity.
  rewrite norm_axis_idem. f_equal. rewrite map_map. apply map_ext_in. rewrite Forall_forall in H. intros q Hq.
  rewrite npt_norm_npt. f_equal. apply H, Hq.
Qed.

Theorem norm_lnorm : forall a, norm (lnorm a) = norm a.
Proof.
  apply (xexpr_ind2 (fun a => norm (lnorm a) = norm a)).
  - intros o a b Ha Hb. cbn [lnorm norm]. now rewrite Ha, Hb.
  - intros a Ha. cbn [lnorm norm]. now rewrite Ha.
  - reflexivity.
  - reflexivity.
  - reflexivity.
  - intros f args H. cbn [lnorm norm]. f_equal. rewrite map_map. apply map_ext_in. rewrite Forall_forall in H. exact H.
  - intros a Ha. exact Ha.
  - intros p preds Hp H. destruct preds as [|q t]; [exact Hp|].
    cbn [lnorm]. change (norm (XFilter (lnorm p) (map (fun q0 => norm_pred_top (lnorm q0)) (q :: t))))
      with (XFilter (norm (lnorm p)) (map (fun q0 => norm_pred_top (norm q0)) (map (fun q0 => norm_pred_top (lnorm q0)) (q :: t)))).
    change (norm (XFilter p (q :: t))) with (XFilter (norm p) (map (fun q0 => norm_pred_top (norm q0)) (q :: t))).
    rewrite Hp. f_equal. rewrite map_map. apply map_ext_in. rewrite Forall_forall in H. intros x Hx.
    rewrite npt_norm_npt. f_equal. apply H, Hx.
  - reflexivity.
  - intros st first rest Hst Hfirst Hrest. cbn [lnorm]. rewrite !XPathSyntaxLemmas.norm_path_eq.
    fold (lstep first). rewrite (nstep_lstep first Hfirst).
    assert (Er : flat_map (fun x : sep * xstep => let (s, y) := x in XPathSyntaxLemmas.lead s ++ [XPathSyntaxLemmas.nstep y])
                   (map (fun x : sep * xstep => let (s, y) := x in (s, lstep_with lnorm y)) rest)
                 = flat_map (fun x : sep * xstep => let (s, y) := x in XPathSyntaxLemmas.lead s ++ [XPathSyntaxLemmas.nstep y]) rest).
    { clear -Hrest. induction Hrest as [|[s y] t Hy _ IH]; [reflexivity|]. cbn [map flat_map snd] in *. rewrite IH.
      fold (lstep y). rewrite (nstep_lstep y Hy). reflexivity. }
    rewrite Er. destruct st as [|s|f s]; cbn [start_all] in Hst; try reflexivity. rewrite Hst. reflexivity.
Qed.

Corollary lnorm_equiv a b : lnorm a = lnorm b -> a ≈ b.
Proof. intros H. unfold xequiv. rewrite <- (norm_lnorm a), <- (norm_lnorm b), H. reflexivity. Qed.
