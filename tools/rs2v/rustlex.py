"""A small Rust tokenizer shared by the translators (T1-T4).

It understands exactly what the translators need: line/block comments, string, raw-string
and char literals (with escapes), lifetimes, identifiers, numbers and punctuation.  Every
token carries its line number so that a translator can stop with `file:line` on a
construct outside its fragment."""
import re

class LexError(Exception):
    pass

PUNCT3 = ['..=', '<<=', '>>=', '...']
PUNCT2 = ['::', '->', '=>', '==', '!=', '<=', '>=', '&&', '||', '+=', '-=', '*=', '/=', '..', '<<', '>>', '|=', '&=', '^=', '%=']

ESC = {'n': 10, 'r': 13, 't': 9, '\\': 92, '0': 0, "'": 39, '"': 34}

def unescape(body, line):
    """body of a char/string literal -> list of code points"""
    out = []
    i = 0
    while i < len(body):
        c = body[i]
        if c == '\\':
            n = body[i + 1]
            if n in ESC:
                out.append(ESC[n]); i += 2
            elif n == 'x':
                out.append(int(body[i + 2:i + 4], 16)); i += 4
            elif n == 'u':
                j = body.index('}', i)
                out.append(int(body[i + 3:j].replace('_', ''), 16)); i = j + 1
            elif n == '\n':
                i += 2
                while i < len(body) and body[i] in ' \t\n\r':
                    i += 1
            else:
                raise LexError('line %d: unknown escape \\%s' % (line, n))
        else:
            out.append(ord(c)); i += 1
    return out

class Tok:
    __slots__ = ('kind', 'text', 'line', 'val')
    def __init__(self, kind, text, line, val=None):
        self.kind, self.text, self.line, self.val = kind, text, line, val
    def __repr__(self):
        return '%s:%r@%d' % (self.kind, self.text, self.line)

def lex(src):
    toks = []
    i, n, line = 0, len(src), 1
    while i < n:
        c = src[i]
        if c == '\n':
            line += 1; i += 1; continue
        if c in ' \t\r':
            i += 1; continue
        if src.startswith('//', i):
            j = src.find('\n', i)
            i = n if j < 0 else j
            continue
        if src.startswith('/*', i):
            depth, j = 1, i + 2
            while depth and j < n:
                if src.startswith('/*', j): depth += 1; j += 2
                elif src.startswith('*/', j): depth -= 1; j += 2
                else:
                    if src[j] == '\n': line += 1
                    j += 1
            i = j; continue
        # raw strings r"..." r#"..."#
        m = re.match(r'b?r(#*)"', src[i:])
        if m:
            hashes = m.group(1)
            start = i + len(m.group(0))
            end = src.index('"' + hashes, start)
            body = src[start:end]
            toks.append(Tok('str', src[i:end + 1 + len(hashes)], line, [ord(ch) for ch in body]))
            line += body.count('\n')
            i = end + 1 + len(hashes); continue
        if c == '"' or (c == 'b' and src.startswith('b"', i)):
            j = i + (2 if c == 'b' else 1)
            start = j
            while src[j] != '"':
                if src[j] == '\\': j += 1
                j += 1
            body = src[start:j]
            toks.append(Tok('str', src[i:j + 1], line, unescape(body, line)))
            line += body.count('\n')
            i = j + 1; continue
        if c == "'":
            # char literal or lifetime
            m = re.match(r"'(\\x[0-9a-fA-F]{2}|\\u\{[0-9a-fA-F_]+\}|\\.|[^\\'])'", src[i:])
            if m:
                toks.append(Tok('char', m.group(0), line, unescape(m.group(1), line)[0]))
                i += len(m.group(0)); continue
            m = re.match(r"'[A-Za-z_][A-Za-z0-9_]*", src[i:])
            if m:
                toks.append(Tok('life', m.group(0), line)); i += len(m.group(0)); continue
            raise LexError('line %d: bad quote' % line)
        m = re.match(r'[A-Za-z_][A-Za-z0-9_]*', src[i:])
        if m:
            toks.append(Tok('id', m.group(0), line)); i += len(m.group(0)); continue
        m = re.match(r'0x[0-9a-fA-F_]+|0b[01_]+|0o[0-7_]+|[0-9][0-9_]*(\.[0-9][0-9_]*)?([eE][+-]?[0-9]+)?', src[i:])
        if m:
            t = m.group(0)
            # avoid swallowing `1..2` or `1.method`
            if '.' in t and not re.match(r'^[0-9][0-9_]*\.[0-9]', t):
                t = re.match(r'[0-9][0-9_]*', t).group(0)
            suffix = re.match(r'(u8|u16|u32|u64|usize|i8|i16|i32|i64|isize|f32|f64)', src[i + len(t):])
            val = None
            tt = t.replace('_', '')
            try:
                val = int(tt, 0) if not ('.' in tt or ('e' in tt.lower() and not tt.lower().startswith('0x'))) else float(tt)
            except ValueError:
                val = None
            toks.append(Tok('num', t, line, val))
            i += len(t) + (len(suffix.group(0)) if suffix else 0); continue
        for p in PUNCT3:
            if src.startswith(p, i):
                toks.append(Tok('p', p, line)); i += 3; break
        else:
            for p in PUNCT2:
                if src.startswith(p, i):
                    toks.append(Tok('p', p, line)); i += 2; break
            else:
                toks.append(Tok('p', c, line)); i += 1
    return toks

def strip_test_modules(toks):
    """drop `#[cfg(test)] mod NAME { ... }` blocks"""
    out = []
    i = 0
    while i < len(toks):
        if (toks[i].text == '#' and i + 6 < len(toks) and toks[i + 1].text == '[' and toks[i + 2].text == 'cfg'
                and toks[i + 3].text == '(' and toks[i + 4].text == 'test' and toks[i + 5].text == ')'
                and toks[i + 6].text == ']'):
            j = i + 7
            if toks[j].text == 'mod':
                # skip to matching brace
                while toks[j].text != '{':
                    j += 1
                depth = 0
                while True:
                    if toks[j].text == '{': depth += 1
                    elif toks[j].text == '}':
                        depth -= 1
                        if depth == 0: break
                    j += 1
                i = j + 1
                continue
        out.append(toks[i]); i += 1
    return out

def functions(toks):
    """yield (name, header_tokens, body_tokens, line) for every `fn` item (nested ones too)"""
    i = 0
    res = []
    while i < len(toks):
        if toks[i].kind == 'id' and toks[i].text == 'fn' and i + 1 < len(toks) and toks[i + 1].kind == 'id':
            name = toks[i + 1].text
            j = i + 2
            # find the body's opening brace at paren/angle depth 0 (or `;` for trait decls)
            depth = 0
            while j < len(toks):
                t = toks[j].text
                if t in '([': depth += 1
                elif t in ')]': depth -= 1
                elif t == '{' and depth == 0: break
                elif t == ';' and depth == 0: break
                j += 1
            if j >= len(toks) or toks[j].text == ';':
                i = j + 1; continue
            header = toks[i:j]
            k = j; d = 0
            while True:
                if toks[k].text == '{': d += 1
                elif toks[k].text == '}':
                    d -= 1
                    if d == 0: break
                k += 1
            res.append((name, header, toks[j + 1:k], toks[i].line))
            i = j + 1  # descend into the body as well (nested fns / closures)
            continue
        i += 1
    return res
