(** * Statements and proofs behind Properties/C12.v (that file only names them) *)
From Coq Require Import List NArith Bool.
From XmlRs Require Import Base.CPred Model.Store Model.StoreCheck Model.DomOps
  Proofs.DomTree Proofs.DomOpsInv Proofs.DomNav Proofs.DomCheck Proofs.DomExample.
Import ListNotations.
Open Scope N_scope.

(** the navigation-agreement clauses for one document, in terms of what dom reports *)
Record NavAgree (s : store) : Prop := mkNavAgree {
  (* every node listed in a parent's child_nodes reports that parent as parent_node *)
  na_child_parent : forall p c, In c (child_list s p) -> parent_node s c = Some p;
  (* a node that reports a parent is listed by it: a removed node has no parent *)
  na_parent_child : forall c p, parent_node s c = Some p -> In c (child_list s p);
  (* first_child / last_child are the ends of child_nodes *)
  na_first : forall p, option_map vid (first_child s false p) = hd_error (child_list s p);
  na_last : forall p, option_map vid (last_child s false p) = hd_error (rev (child_list s p));
  (* next_sibling / previous_sibling are the neighbours in the parent's child_nodes *)
  na_next : forall p l1 x l2, child_list s p = l1 ++ x :: l2 -> option_map vid (next_sibling s false x) = hd_error l2;
  na_prev : forall p l1 x l2, child_list s p = l1 ++ x :: l2 -> option_map vid (previous_sibling s false x) = hd_error (rev l1);
  na_orphan : forall x, parent_node s x = None -> next_sibling s false x = None /\ previous_sibling s false x = None;
  (* no node occurs twice: not in one list, not in two lists *)
  na_nodup : forall p, NoDup (child_list s p);
  na_one_parent : forall p q c, In c (child_list s p) -> In c (child_list s q) -> p = q;
  (* no node is beneath itself *)
  na_acyclic : forall x, ~ beneath s x x;
  (* at most one document element and one document type *)
  na_one_element : forall x y, In x (child_list s (sroot s)) -> In y (child_list s (sroot s)) ->
                   has_kind s KEl x = true -> has_kind s KEl y = true -> x = y;
  na_one_doctype : forall x y, In x (child_list s (sroot s)) -> In y (child_list s (sroot s)) ->
                   has_kind s KDt x = true -> has_kind s KDt y = true -> x = y
}.

Theorem nav_agree : forall s, TreeInv s -> NavAgree s.
Proof.
  intros s T. constructor.
  - apply child_reports_parent; exact T.
  - apply parent_lists_child; exact T.
  - apply first_child_spec.
  - apply last_child_spec.
  - apply next_sibling_spec; exact T.
  - apply previous_sibling_spec; exact T.
  - apply orphan_no_siblings.
  - apply child_list_nodup; exact T.
  - apply one_parent; exact T.
  - apply not_beneath_itself; exact T.
  - apply one_document_element; exact T.
  - apply one_document_type; exact T.
Qed.

(** the invariant survives every history *)
Theorem tree_inv_step : forall w o, WInv w -> WInv (fst (step w o)).
Proof. exact step_inv. Qed.

Theorem tree_inv_reachable : forall init ops, WInv init -> WInv (run init ops).
Proof. intros init ops. apply run_inv. Qed.

(** C12: at every point of every history, in every document of the world *)
Theorem navigation_agrees_reachable :
  forall init ops k s, WInv init -> doc_at (run init ops) k = Some s -> NavAgree s.
Proof.
  intros init ops k s Hi Hd. apply nav_agree.
  pose proof (run_inv ops init Hi) as Hw. eapply doc_at_P; eassumption.
Qed.

(** the hypothesis can be checked by computation on a store given as a table *)
Theorem tree_inv_checkable : forall l nx root decl, tree_inv_b l nx root = true -> TreeInv (store_of_list l nx decl root).
Proof. exact tree_inv_b_sound. Qed.

(** a non-trivial instance *)
Example ex_store_inv : TreeInv ex_store.
Proof. apply tree_inv_b_sound. vm_compute. reflexivity. Qed.

Example ex_world_inv : WInv ex_world.
Proof. constructor; [exact ex_store_inv | constructor]. Qed.

Example ex_final_nav : NavAgree ex_final_store.
Proof.
  apply (navigation_agrees_reachable ex_world ex_ops 0 ex_final_store ex_world_inv). vm_compute. reflexivity.
Qed.

(** what the history did: outcomes and the child lists at the end *)
Example ex_outcomes :
  map (fun o => match o with Ok _ => 0 | Failed HierarchyRequestErr => 1 | _ => 2 end)
      (snd (fold_left (fun a o => let '(w, acc) := a in let '(w', r) := step w o in (w', acc ++ [r])) ex_ops (ex_world, [])))
  = [1; 0; 0; 0; 0; 1; 0].
Proof. vm_compute. reflexivity. Qed.

Example ex_final_lists :
  (child_list ex_final_store 1, child_list ex_final_store 2, child_list ex_final_store 7, child_list ex_final_store 3,
   parent_node ex_final_store 6, attrs_of ex_final_store 3)
  = ([2], [8; 7], [3], [], None, []).
Proof. vm_compute. reflexivity. Qed.

