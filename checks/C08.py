"""C08 -- equivalent XPath spellings evaluate identically; precedence per grammar.
Also exports parser_totality(run): the parser half of C06 (never panics, loops or takes time
exponential in the expression length).

Steps (DESIGN 2.2): proofs of Properties/C08.v; correspondence extracted model (Peg.denote on the
regenerated G_xpath + Model/ParseActionsXPath.act) vs the real `xml_xpath::expr::parse` on grammar
generated sentences and their mutations; failing-input search against the extracted SPEC
(Spec/XPathSyntax.v: spell_surface, wfb, norm, paren, abbreviate): every derivable spelling of a
tree must be accepted completely, parse to exactly the spelled tree, and all spellings of
equivalent trees must evaluate to the same value on a document (real `xml_xpath::query`)."""
import json, os, sys, time
from . import lib
sys.path.insert(0, os.path.join(lib.VERIF, 'tools', 'gen'))
import peggen, xpgen
from xpgen import enc

PROP = 'C08'

# ------------------------------------------------------------------ small helpers
def dec(s):
    return '' if s == '-' else ''.join(chr(int(x)) for x in s.split(','))

def parse_spec_line(l):
    """'S <str> wf=<b> ws=<b> A <tree> N <tree>' -> dict, or None"""
    if not l.startswith('S '):
        return None
    w = l.split(' ')
    try:
        ia = w.index('A'); i_n = w.index('N', ia)
    except ValueError:
        return None
    return {'s': dec(w[1]), 'wf': w[2] == 'wf=1', 'ws': w[3] == 'ws=1', 'A': ' '.join(w[ia + 1:i_n]), 'N': ' '.join(w[i_n + 1:])}

def parse_canon_line(l):
    if not l.startswith('A '):
        return None
    w = l.split(' ')
    i_n = w.index('N')
    return {'A': ' '.join(w[1:i_n]), 'N': ' '.join(w[i_n + 1:])}

def split_impl(l):
    """'P <dump> R<n> # V <value>' -> (dump or None, rest, value)"""
    v = None
    if ' # V ' in l:
        l, v = l.split(' # V ', 1)
    if l == 'P err':
        return None, None, v
    if not l.startswith('P '):
        return None, None, l          # panic / badinput
    body = l[2:]
    i = body.rfind(' R')
    return body[:i], int(body[i + 2:]), v

# reader for the prefix notation printed by the spec driver (inverse of xpgen.ser)
def read_tree(text):
    w = text.split(' ')
    pos = [0]
    def nx():
        x = w[pos[0]]; pos[0] += 1; return x
    def q():
        k = nx()
        if k == 'qp':
            p = dec(nx()); return (p, dec(nx()))
        return (None, dec(nx()))
    def step():
        k = nx()
        if k in ('dot', 'dotdot'):
            return (k,)
        a = nx()
        ax = ('full', nx()) if a == 'full' else (a,)
        t = nx()
        if t == 'any': te = ('any',)
        elif t == 'ns': te = ('ns', dec(nx()))
        elif t == 'name': te = ('name', q())
        elif t == 'type': te = ('type', nx())
        else: te = ('pilit', dec(nx()))
        n = int(nx())
        return ('step', ax, te, [expr() for _ in range(n)])
    def expr():
        k = nx()
        if k == 'bin':
            o = nx(); a = expr(); return ('bin', o, a, expr())
        if k == 'neg': return ('neg', expr())
        if k == 'lit': return ('lit', dec(nx()))
        if k == 'num': return ('num', dec(nx()))
        if k == 'var': return ('var', q())
        if k == 'call':
            f = q(); n = int(nx()); return ('call', f, [expr() for _ in range(n)])
        if k == 'paren': return ('paren', expr())
        if k == 'filter':
            p = expr(); n = int(nx()); return ('filter', p, [expr() for _ in range(n)])
        if k == 'root': return ('root',)
        if k == 'path':
            s = nx()
            if s == 'rel': st = ('rel',)
            elif s == 'abs': st = ('abs', nx())
            else:
                f = expr(); st = ('from', f, nx())
            first = step(); n = int(nx())
            rest = []
            for _ in range(n):
                sp = nx(); rest.append((sp, step()))
            return ('path', st, first, rest)
        raise ValueError(k)
    return expr()

def subtrees(e):
    yield e
    k = e[0]
    kids = []
    if k == 'bin': kids = [e[2], e[3]]
    elif k in ('neg', 'paren'): kids = [e[1]]
    elif k == 'call': kids = list(e[2])
    elif k == 'filter': kids = [e[1]] + list(e[2])
    elif k == 'path':
        if e[1][0] == 'from': kids.append(e[1][1])
        for s in [e[2]] + [x for _, x in e[3]]:
            if s[0] == 'step': kids += list(s[3])
    for c in kids:
        for x in subtrees(c):
            yield x

def steps_of(e):
    for t in subtrees(e):
        if t[0] == 'path':
            for s in [t[2]] + [x for _, x in t[3]]:
                yield s

# ------------------------------------------------------------------ known findings (narrow classifiers)
NODETYPE_WORDS = ('comment', 'text', 'processing-instruction', 'node')

def classify(fail):
    """fail: dict with 'what', 'trees' (surface trees of the spellings involved), 'values'.  -> finding id or None"""
    trees = fail.get('trees', [])
    if fail['what'] == 'values-differ':
        vals = set(fail.get('values', []))
        # (the evaluator defects D22 and D29 used to be classified here; both are repaired on /repo main,
        #  so a difference of values between equivalent spellings is a violation again)
        pass
    if fail['what'] in ('rejected', 'other-tree'):
        # residue of the D28 repair: take_except compares case-insensitively
        for t in trees:
            for x in subtrees(t):
                if x[0] == 'call' and x[1][0] is None and x[1][1] not in NODETYPE_WORDS and x[1][1].lower() in NODETYPE_WORDS:
                    return 'C08-fname-case'
    return None

def is_integral(s):
    try:
        return float(s) == int(float(s))
    except (ValueError, OverflowError):
        return True

# ------------------------------------------------------------------ directed families
def nm(x):
    return ('step', ('omit',), ('name', (None, x)), [])
def P(*names):
    return ('path', ('rel',), nm(names[0]), [('/', nm(n)) for n in names[1:]])
A_, B_, C_, D_ = P('r', 'a'), P('r', 'b'), P('r', 'c'), P('r', 'a')
CHILD = lambda t, preds=(): ('step', ('full', 'child'), t, list(preds))

def directed_cases():
    """-> list of (kind, doc index, abstract tree)"""
    out = []
    ops = xpgen.OPS
    for o1 in ops:
        for o2 in ops:
            out.append(('prec', 0, ('bin', o1, A_, ('bin', o2, B_, C_))))
            out.append(('prec', 0, ('bin', o2, ('bin', o1, A_, B_), C_)))
        out.append(('prec-neg', 0, ('neg', ('bin', o1, A_, B_))))
        out.append(('prec-neg', 0, ('bin', o1, ('neg', A_), B_)))
        out.append(('prec-neg', 0, ('bin', o1, A_, ('neg', B_))))
        out.append(('prec-neg', 0, ('bin', o1, ('neg', ('neg', A_)), ('neg', B_))))
        out.append(('root-op', 0, ('bin', o1, ('root',), A_)))
        out.append(('root-op', 0, ('bin', o1, A_, ('root',))))
        out.append(('root-op', 0, ('bin', o1, ('bin', '=', A_, ('root',)), B_)))
        for o2 in ops:
            if xpgen.LVL[o1] == xpgen.LVL[o2]:
                for o3 in ops:
                    if xpgen.LVL[o3] == xpgen.LVL[o1]:
                        out.append(('assoc', 0, ('bin', o3, ('bin', o2, ('bin', o1, A_, B_), C_), D_)))
                        out.append(('assoc', 0, ('bin', o1, A_, ('bin', o2, B_, ('bin', o3, C_, D_)))))
    # operands that look like operator names / numbers glued to names
    for n1 in ['div', 'mod', 'and', 'or', 'a-b', 'a.', 'x']:
        for o in ['div', 'mod', 'and', 'or', '-', '*', '<']:
            for n2 in ['div', 'or', '-1', '.5', '1', 'x', '..', '.']:
                left = ('path', ('rel',), nm(n1), [])
                if n2 == '-1': right = ('neg', ('num', '1'))
                elif n2 in ('.5', '1'): right = ('num', n2)
                elif n2 == '..': right = ('path', ('rel',), ('dotdot',), [])
                elif n2 == '.': right = ('path', ('rel',), ('dot',), [])
                else: right = ('path', ('rel',), nm(n2), [])
                out.append(('glue', 0, ('bin', o, left, right)))
                out.append(('glue', 0, ('bin', o, ('num', '2'), right)))
                out.append(('glue', 0, ('bin', o, ('var', (None, n1)), right)))
    # node-type tests wherever a step may begin
    for k in xpgen.NTYPES + ['pilit']:
        t = ('type', k) if k != 'pilit' else ('pilit', 'p')
        for ax in [('full', 'child'), ('full', 'descendant'), ('full', 'self'), ('full', 'attribute'), ('full', 'following-sibling')]:
            s = ('step', ax, t, [])
            R = nm('r'); Ast = nm('a')
            out += [
                ('nodetype', 1, ('path', ('rel',), s, [])),
                ('nodetype', 1, ('path', ('abs', '/'), s, [])),
                ('nodetype', 2, ('path', ('abs', '/'), s, [])),
                ('nodetype', 1, ('path', ('abs', '//'), s, [])),
                ('nodetype', 1, ('path', ('rel',), R, [('/', s)])),
                ('nodetype', 1, ('path', ('rel',), R, [('//', s)])),
                ('nodetype', 1, ('path', ('rel',), R, [('/', Ast), ('/', s)])),
                ('nodetype', 1, ('path', ('rel',), ('step', ('omit',), ('name', (None, 'r')), [('path', ('rel',), s, [])]), [])),
                ('nodetype', 1, ('path', ('rel',), R, [('/', ('step', ('omit',), ('name', (None, 'a')), [('path', ('rel',), s, [])]))])),
                ('nodetype', 1, ('path', ('from', ('paren', P('r')), '/'), s, [])),
                ('nodetype', 1, ('path', ('from', ('paren', P('r')), '//'), s, [])),
                ('nodetype', 1, ('path', ('from', ('filter', ('paren', P('r', 'a')), [('num', '1')]), '/'), s, [])),
                ('nodetype', 1, ('call', (None, 'count'), [('path', ('rel',), s, [])])),
                ('nodetype', 1, ('call', (None, 'count'), [('path', ('rel',), R, [('/', Ast), ('/', s)])])),
                ('nodetype', 1, ('bin', '|', P('r', 'a'), ('path', ('rel',), s, []))),
                ('nodetype', 1, ('bin', '|', ('path', ('rel',), s, []), P('r', 'a'))),
                ('nodetype', 1, ('neg', ('path', ('rel',), s, []))),
                ('nodetype', 1, ('bin', '+', ('num', '1'), ('path', ('rel',), s, []))),
                ('nodetype', 1, ('bin', 'and', ('path', ('rel',), s, []), ('path', ('rel',), s, []))),
                ('nodetype', 1, ('bin', '=', ('path', ('rel',), R, [('//', s)]), ('lit', 't1'))),
                ('nodetype', 1, ('filter', ('paren', ('path', ('rel',), R, [('//', s)])), [('num', '2')])),
            ]
    # numeric predicates and position()
    for n in ['1', '2', '3', '0', '1.0', '1.5', '2.5', '007']:
        for base in [P('r', 'a'), ('path', ('abs', '//'), nm('a'), []), ('path', ('abs', '//'), nm('b'), []),
                     ('path', ('rel',), nm('r'), [('/', nm('c')), ('//', nm('b'))]),
                     # a mid-path `//` whose step matches under SEVERAL parents: `//T[n]` is per parent
                     ('path', ('rel',), nm('r'), [('//', nm('b'))]), ('path', ('rel',), nm('r'), [('//', nm('a'))]),
                     ('path', ('rel',), nm('r'), [('/', nm('a')), ('//', ('step', ('omit',), ('type', 'node'), []))])]:
            last = base[3][-1][1] if base[3] else base[2]
            ls = ('step', last[1], last[2], [('bin', '=', xpgen.POSITION, ('num', n))])
            t = ('path', base[1], base[2], base[3][:-1] + [(base[3][-1][0], ls)]) if base[3] else ('path', base[1], ls, [])
            out.append(('numpred', 1, t))
            out.append(('numpred', 1, ('filter', ('paren', base), [('bin', '=', xpgen.POSITION, ('num', n))])))
    # parent / self from every kind of context node
    for base in [('path', ('abs', '/'), nm('r'), []), ('path', ('abs', '//'), nm('a'), []), ('path', ('abs', '//'), ('step', ('omit',), ('type', 'text'), []), []),
                 ('path', ('abs', '//'), ('step', ('omit',), ('type', 'comment'), []), []), ('path', ('abs', '//'), ('step', ('omit',), ('type', 'node'), []), [])]:
        for ax in ['parent', 'self']:
            s = ('step', ('full', ax), ('type', 'node'), [])
            out.append(('dots', 1, ('path', base[1], base[2], base[3] + [('/', s)])))
            out.append(('dots', 1, ('path', base[1], base[2], base[3] + [('/', s), ('/', s)])))
            out.append(('dots', 1, ('path', base[1], base[2], base[3] + [('/', s), ('/', nm('a'))])))
    out.append(('dots', 1, ('path', ('abs', '/'), ('step', ('full', 'parent'), ('type', 'node'), []), [])))
    out.append(('dots', 1, ('path', ('abs', '/'), ('step', ('full', 'self'), ('type', 'node'), []), [])))
    out.append(('dots', 1, ('path', ('rel',), ('step', ('full', 'parent'), ('type', 'node'), []), [])))
    out.append(('dots', 1, ('path', ('rel',), ('step', ('full', 'self'), ('type', 'node'), []), [('/', nm('r'))])))
    return out

# ------------------------------------------------------------------ the search
def search(run, n_random, directed=True, with_model=True):
    rng = run.rng
    gen = xpgen.TreeGen(rng)
    cases = []      # {'kind','doc','tree'}
    if directed:
        for kind, d, t in directed_cases():
            cases.append({'kind': kind, 'doc': d, 'tree': t})
    for k in range(n_random):
        cases.append({'kind': 'random', 'doc': rng.randrange(len(xpgen.DOCS)), 'tree': gen.expr(0)})
    # round 1: the two canonical spellings of every tree, computed by the extracted Coq functions
    req = []
    for ci, c in enumerate(cases):
        t = c['tree']
        dens = rng.choice([0.0, 0.3, 0.6, 1.0])
        for cmd in ('min 0', 'min 1'):
            req.append((ci, '%s %s %s' % (cmd, xpgen.ser(t), xpgen.ser_w(xpgen.mk_w(t, rng, dens) if dens else xpgen.W0))))
    rc, out = lib.run_bin(lib.spec_bin('xparse'), ['xparse'], [r for _, r in req], timeout=600, shards=lib.NPROC)
    if len(out) != len(req):
        run.tie_breaks.append('spec driver answered %d lines for %d requests' % (len(out), len(req)))
        return
    spellings = []   # {'case','src','s','A','N','tree'}
    for (ci, r), l in zip(req, out):
        d = parse_spec_line(l)
        if d is None:
            run.tie_breaks.append('spec driver: %r on %r' % (l[:80], r[:120])); continue
        if not d['wf']:
            run.count('spec:not-derivable'); continue       # leaves outside the lexical classes: no claim
        cases[ci].setdefault('N', d['N'])
        if d['N'] != cases[ci]['N']:
            run.tie_breaks.append('norm differs between the canonical spellings of one tree: %r' % r[:120]); continue
        spellings.append({'case': ci, 'src': r.split(' ')[0] + r.split(' ')[1], 's': d['s'], 'A': d['A'], 'N': d['N']})
    # round 2: untrusted respellings of the canonical surface trees (random abbreviation flips, redundant
    # parentheses, other white space); kept only when Coq says derivable and equivalent
    req2 = []
    for sp in list(spellings):
        if sp['src'] != 'min0':
            continue
        ci = sp['case']
        try:
            surf = read_tree(sp['A'])
        except Exception as ex:
            run.tie_breaks.append('cannot read back %r: %s' % (sp['A'][:80], ex)); continue
        variants = [xpgen.respell(surf, rng, 0.5), xpgen.add_parens(surf, rng, 0.25), xpgen.full_parens(surf),
                    xpgen.add_parens(xpgen.respell(surf, rng, 0.3), rng, 0.15)]
        if cases[ci]['kind'] == 'random':
            variants = variants[:1] + variants[3:]
        for v in variants:
            dens = rng.choice([0.0, 0.5, 1.0])
            req2.append((ci, 'spell %s %s' % (xpgen.ser(v), xpgen.ser_w(xpgen.mk_w(v, rng, dens) if dens else xpgen.W0))))
    rc, out2 = lib.run_bin(lib.spec_bin('xparse'), ['xparse'], [r for _, r in req2], timeout=600, shards=lib.NPROC)
    for (ci, r), l in zip(req2, out2):
        d = parse_spec_line(l)
        if d is None:
            run.tie_breaks.append('spec driver: %r on %r' % (l[:80], r[:120])); continue
        if not d['wf']:
            run.count('respell:not-derivable'); continue
        if d['N'] != cases[ci]['N']:
            run.count('respell:not-equivalent'); continue
        spellings.append({'case': ci, 'src': 'respell', 's': d['s'], 'A': d['A'], 'N': d['N']})
    # de-duplicate strings per case
    seen = set(); uniq = []
    for sp in spellings:
        key = (sp['case'], sp['s'])
        if key in seen: continue
        seen.add(key); uniq.append(sp)
    spellings = uniq
    # implementation and model
    ilines = ['v %s %s' % (enc(sp['s']), enc(xpgen.DOCS[cases[sp['case']]['doc']])) for sp in spellings]
    rc, iout = lib.run_bin(lib.rust_bin(), ['xparse'], ilines, timeout=600, shards=min(8, lib.NPROC))
    if with_model:
        rc, mout = lib.run_bin(lib.model_bin('xparse'), ['xparse'], ['d %s' % enc(sp['s']) for sp in spellings], timeout=900, shards=lib.NPROC)
    else:
        mout = [None] * len(spellings)
    if len(iout) != len(spellings) or len(mout) != len(spellings):
        run.tie_breaks.append('xparse: %d spellings, %d implementation lines, %d model lines' % (len(spellings), len(iout), len(mout)))
        return
    creq = []
    for sp, il, ml in zip(spellings, iout, mout):
        dump, rest, val = split_impl(il)
        sp['dump'], sp['rest'], sp['val'], sp['iline'] = dump, rest, val, il
        ipart = il.split(' # V ')[0]
        if ml is not None and ipart != ml:
            run.tie_breaks.append('xparse correspondence: %r: implementation %r, model %r' % (sp['s'], ipart[:200], ml[:200]))
        if dump is not None:
            creq.append((sp, 'canon ' + dump))
    rc, cout = lib.run_bin(lib.spec_bin('xparse'), ['xparse'], [r for _, r in creq], timeout=600, shards=lib.NPROC)
    for (sp, _), l in zip(creq, cout):
        d = parse_canon_line(l)
        if d is None:
            run.tie_breaks.append('spec canon: %r' % l[:120]); continue
        sp['pA'], sp['pN'] = d['A'], d['N']
    # verdicts
    bycase = {}
    for sp in spellings:
        ci = sp['case']; c = cases[ci]
        run.evaluations += 1
        run.count('kind:' + c['kind']); run.count('src:' + sp['src'])
        run.nontrivial.add(sp['s'])
        bycase.setdefault(ci, []).append(sp)
        fail = None
        if sp['dump'] is None:
            fail = ('rejected', 'a derivable spelling is rejected by expr::parse')
        elif sp['rest'] != 0:
            fail = ('rejected', 'a derivable spelling is not consumed completely (rest %d)' % sp['rest'])
        elif sp.get('pA') != sp['A']:
            fail = ('other-tree', 'the spelling parses to another tree than the one spelled')
        if fail:
            report(run, {'what': fail[0], 'msg': fail[1], 'kind': c['kind'], 'expr': sp['s'], 'doc': xpgen.DOCS[c['doc']],
                         'spelled_tree': sp['A'], 'parsed_tree': sp.get('pA'), 'implementation': sp['iline'], 'trees': [read_tree(sp['A'])]})
    for ci, sps in bycase.items():
        good = [sp for sp in sps if sp['dump'] is not None and sp['rest'] == 0]
        vals = {}
        for sp in good:
            vals.setdefault(sp['val'], sp)
        run.count('values:' + ('1' if len(vals) <= 1 else 'differ'))
        for v in vals:
            run.count('value-class:' + (v or 'none').split(':')[0])
        if len(vals) > 1:
            (v1, s1), (v2, s2) = list(vals.items())[:2]
            report(run, {'what': 'values-differ', 'msg': 'equivalent spellings evaluate differently', 'kind': cases[ci]['kind'],
                         'doc': xpgen.DOCS[cases[ci]['doc']], 'expr': s1['s'], 'value': v1, 'expr2': s2['s'], 'value2': v2,
                         'values': list(vals), 'trees': [read_tree(s1['A']), read_tree(s2['A'])]})
    # the same spellings with a DEFAULT namespace bound in the caller's context (Context::add_ns(None, ..)): which
    # spelling is used may still not matter (one shared evaluation context per case, as xq/xe use it)
    from . import xpath_common as X
    dcases, owners = [], []
    for ci, sps in bycase.items():
        good = [sp for sp in sps if sp['dump'] is not None and sp['rest'] == 0]
        if len(good) >= 2:
            dcases.append({'doc': xpgen.DOCS[cases[ci]['doc']], 'exprs': [sp['s'] for sp in good], 'merged': True, 'binds': [(None, 'urn:d')]})
            owners.append((ci, good))
    douts = X.run_impl(dcases) if dcases else []
    for (ci, good), c, o in zip(owners, dcases, douts):
        if o.get('hang') or len(o.get('R', [])) != len(good):
            continue
        vals = {}
        for sp, r in zip(good, o['R']):
            run.evaluations += 1
            v = 'err' if r[0].startswith('err') else r[0]
            vals.setdefault(v, sp)
        run.count('values-default-binding:' + ('1' if len(vals) <= 1 else 'differ'))
        if len(vals) > 1:
            (v1, s1), (v2, s2) = list(vals.items())[:2]
            report(run, {'what': 'values-differ', 'msg': 'equivalent spellings evaluate differently when the context binds a default namespace', 'kind': cases[ci]['kind'],
                         'doc': c['doc'], 'expr': s1['s'], 'value': v1, 'expr2': s2['s'], 'value2': v2, 'binds': [['', 'urn:d']],
                         'values': list(vals), 'trees': [read_tree(s1['A']), read_tree(s2['A'])]})
    for sp in spellings[:4] + spellings[len(spellings) // 2:len(spellings) // 2 + 4]:
        run.sample({'kind': cases[sp['case']]['kind'], 'spelling': sp['s'], 'value': sp['val'], 'via': sp['src']})

KNOWN_TEXT = {
    'C08-fname-case': 'a function name that equals a NodeType up to letter case (Text(), NODE()) is rejected by the parser: take_except compares case-insensitively',
}

def report(run, fail):
    fid = classify(fail)
    fail = dict(fail)
    fail.pop('trees', None)
    fail['property'] = PROP
    listed = {e.get('id') for e in lib.known_findings(PROP)}
    if fid and fid in listed:
        what, n = run.known_hits.get(fid, (KNOWN_TEXT[fid], 0))
        run.known_hits[fid] = (what, n + 1)
        return
    fail['class'] = fail['what'] + ':' + fail.get('kind', '')
    fail['replay'] = 'python3 -c "print(\'v %s %s\')" | harness/target/debug/xh xparse' % (enc(fail['expr']), enc(fail.get('doc', '')))
    run.failing_inputs.append(fail)

# ------------------------------------------------------------------ correspondence on grammar-generated sentences
def grammar_correspondence(run, n):
    info = peggen.load_info('GrammarXPathGen')
    g = peggen.Gen(info, run.rng)
    strings = []
    for rel in ['xpath/src/expr/mod.rs']:
        try:
            strings += [(s, 'test-literal') for p, s in peggen.harvest_test_literals(lib.REPO, rel, info['names'])]
        except Exception as ex:
            run.notes.append('harvest failed: %s' % ex)
    for k in range(n):
        try:
            s = g.gen('expr')
        except RecursionError:
            continue
        s = s[:300]
        m = k % 4
        kind = 'sentence'
        if m == 1: s = peggen.mutate(s, run.rng, 1); kind = 'mut1'
        elif m == 2: s = peggen.mutate(s, run.rng, 3); kind = 'mut3'
        elif m == 3: s = s + peggen.garbage(run.rng, run.rng.randint(1, 3)); kind = 'tail'
        s = [c for c in s if peggen.valid_scalar(c) and c not in (0,)]
        strings.append((s, kind))
    lines = ['d %s' % (','.join(str(c) for c in s) if s else '-') for s, _ in strings]
    rc, iout = lib.run_bin(lib.rust_bin(), ['xparse'], lines, timeout=600, shards=min(8, lib.NPROC))
    rc, mout = lib.run_bin(lib.model_bin('xparse'), ['xparse'], lines, timeout=900, shards=lib.NPROC)
    if len(iout) != len(lines) or len(mout) != len(lines):
        run.tie_breaks.append('xparse grammar correspondence: %d cases, %d implementation lines, %d model lines' % (len(lines), len(iout), len(mout)))
    bad = 0
    for (s, kind), a, b in zip(strings, iout, mout):
        run.evaluations += 1
        run.count('corr:' + kind)
        run.count('corr:result:' + ('err' if a == 'P err' else 'ok' if a.endswith(' R0') else 'partial'))
        run.nontrivial.add(tuple(s))
        if a != b:
            bad += 1
            if bad <= 5:
                run.tie_breaks.append('xparse correspondence on %r: implementation %r, model %r' % (''.join(chr(c) for c in s), a[:200], b[:200]))
    for (s, kind), a in list(zip(strings, iout))[:3]:
        run.sample({'corr': ''.join(chr(c) for c in s), 'kind': kind, 'implementation': a[:160]})

# ------------------------------------------------------------------ parser half of C06
def nesting_cases(depths):
    out = []
    for d in depths:
        o = lambda a, b, core: (a * d + core + b * d, a * d + core)
        for name, (closed, unclosed) in [
                ('paren', o('(', ')', '1')), ('pred', o('a[', ']', '1')), ('call', o('f(', ')', '1')),
                ('filter-pred', o('(1)[', ']', '1')), ('paren-pred', o('(a[', '])', '1')), ('call-paren', o('f((', '))', '1')),
                ('neg-paren', o('-(', ')', '1')), ('path-pred', o('a/b[', ']', 'c')), ('union-paren', o('(a|', ')', 'b')),
                ('or-paren', o('(1 or ', ')', '2')), ('pi-pred', o('a[processing-instruction(', ')]', '"x"'))]:
            out.append(('%s-%d' % (name, d), closed))
            out.append(('%s-%d-unclosed' % (name, d), unclosed))
            out.append(('%s-%d-garbage' % (name, d), closed[:-1] + '!'))
        out.append(('minus-%d' % d, '-' * d + '1'))
        out.append(('steps-%d' % d, '/'.join(['a'] * d)))
        out.append(('dsteps-%d' % d, '//'.join(['a'] * d) + '//'))
        out.append(('ops-%d' % d, ' or '.join(['1'] * d) + ' or'))
    return out

def parser_totality(run, limit_s=5.0, with_model=True):
    """the parser answers (accept / reject) on nested, hostile and garbage expressions within a time limit,
    never panics, never aborts.  Records failing inputs under property C06-parser in run.failing_inputs."""
    rng = run.rng
    thorough = run.tier == 'thorough'
    depths = [1, 2, 6, 12, 24] + ([48, 200] if thorough else [])
    worst = 0.0
    for name, e in nesting_cases(depths):
        t0 = time.time()
        cls, out = lib.run_isolated(lib.rust_bin(), ['xparse'], 's ' + enc(e), timeout=limit_s * 2)
        dt = time.time() - t0
        worst = max(worst, dt)
        run.evaluations += 1
        run.count('total:nest:' + (out.split(' ')[0] if cls == 'ok' and out else cls))
        run.nontrivial.add(e)
        bad = None
        if cls != 'ok': bad = cls
        elif out == 'panic': bad = 'panic'
        elif dt > limit_s: bad = 'slow (%.1fs)' % dt
        elif not (out.startswith('ok ') or out == 'err'): bad = 'unexpected output %r' % out[:40]
        if bad:
            run.failing_inputs.append({'property': 'C06', 'class': 'parser-totality:' + name.split('-')[0], 'what': 'expr::parse does not answer in time / panics: %s' % bad,
                                       'case': name, 'expr': e, 'seconds': round(dt, 2),
                                       'replay': 'python3 -c "print(\'s %s\')" | timeout 60 harness/target/debug/xh xparse' % enc(e)})
    run.extra['parser_totality_worst_case_s'] = round(worst, 3)
    # garbage and token mutations, in one batch; a missing line = crash or hang of that case
    info = peggen.load_info('GrammarXPathGen')
    g = peggen.Gen(info, rng)
    toks = ['(', ')', '[', ']', '/', '//', '..', '.', '@', '::', ',', '|', '*', '+', '-', '=', '!=', '<', '<=', '>', '>=', 'or', 'and', 'div', 'mod',
            '$x', '"a"', "'b'", '1', '1.5', '.5', 'a', 'p:a', 'p:*', 'text()', 'node()', 'comment()', 'processing-instruction(', 'child::', 'self::',
            'ancestor-or-self::', 'f(', 'count(', ' ', '\t', '\n', '"', "'", '!', ':', '$', 'é', 'あ', '\U0001F600', '\x01']
    strings = []
    n = 4000 if thorough else 600
    for k in range(n):
        m = k % 3
        if m == 0:
            s = ''.join(rng.choice(toks) for _ in range(rng.randint(1, 14)))
        elif m == 1:
            try:
                cps = g.gen('expr')[:200]
            except RecursionError:
                cps = [49]
            cps = peggen.mutate(cps, rng, rng.randint(1, 4))
            s = ''.join(chr(c) for c in cps if peggen.valid_scalar(c))
        else:
            s = ''.join(chr(c) for c in peggen.garbage(rng, rng.randint(1, 12)) if peggen.valid_scalar(c))
        strings.append(s)
    lines = ['s ' + enc(s) for s in strings]
    t0 = time.time()
    rc, out = lib.run_bin(lib.rust_bin(), ['xparse'], lines, timeout=120)
    mout = []
    if with_model and os.path.exists(lib.model_bin('xparse')):
        rcm, mout = lib.run_bin(lib.model_bin('xparse'), ['xparse'], lines, timeout=600, shards=lib.NPROC)
    for i, s in enumerate(strings):
        run.evaluations += 1
        run.nontrivial.add(s)
        r = out[i] if i < len(out) else None
        run.count('total:garbage:' + (r.split(' ')[0] if r else 'missing'))
        if r is None or r == 'panic' or not (r.startswith('ok ') or r == 'err'):
            cls, o = lib.run_isolated(lib.rust_bin(), ['xparse'], lines[i], timeout=limit_s * 2)
            if cls != 'ok' or o == 'panic':
                run.failing_inputs.append({'property': 'C06', 'class': 'parser-totality:garbage', 'what': 'expr::parse %s' % (cls if cls != 'ok' else 'panics'),
                                           'expr': s, 'replay': 'echo %s | harness/target/debug/xh xparse' % lines[i]})
            if r is None:
                break
        elif i < len(mout) and mout[i] != r:
            run.tie_breaks.append('xparse correspondence (garbage) on %r: implementation %r, model %r' % (s, r, mout[i]))
    return worst

# ------------------------------------------------------------------ entry points
def check(run):
    run.trusted = ['Coq 8.16.1 kernel', 'translator T2 tools/rs2v/grammar.py (validated by the prod and xparse correspondences below)',
                   'Model/Peg.v: semantics of the nom combinators (validated by the same correspondences)',
                   'Spec/XPathSyntax.v: transcription of XPath 1.0 sections 2, 2.5, 3.7 (grammar, abbreviations, lexical structure)',
                   'harness/src/domains/xparse.rs, extraction (ExtrOcamlBasic only) + ocaml drivers']
    phases = {}
    t0 = time.time()
    proved, _ = lib.proof_step(run, PROP, ['T1', 'T2'])
    phases['proofs'] = round(time.time() - t0, 1); t0 = time.time()
    okr, mok, sok = lib.build_binaries(run, model_areas=['xparse', 'peg'], spec_areas=['xparse'])
    phases['binaries'] = round(time.time() - t0, 1); t0 = time.time()
    thorough = run.tier == 'thorough'
    if okr and mok.get('peg'):
        try:
            from . import pegcorr
            pegcorr.prod_correspondence(run, 'xpath', 60 if thorough else 8)
        except Exception as ex:
            run.tie_breaks.append('prod correspondence did not run: %s' % ex)
    phases['prod'] = round(time.time() - t0, 1); t0 = time.time()
    if okr and mok.get('xparse'):
        grammar_correspondence(run, 6000 if thorough else 500)
    phases['grammar-corr'] = round(time.time() - t0, 1); t0 = time.time()
    if okr and sok.get('xparse'):
        search(run, 4000 if thorough else 250, with_model=bool(mok.get('xparse')))
    phases['search'] = round(time.time() - t0, 1); t0 = time.time()
    if okr:
        parser_totality(run, with_model=bool(mok.get('xparse')))
    phases['totality'] = round(time.time() - t0, 1)
    run.extra['phase_seconds'] = phases
    return run.finish(level='proof',
        rule='a case = one concrete spelling (string) of a generated tree; distinct by string; every spelling is evaluated on a document and compared with the other spellings of its tree',
        assumptions=['the theorems are about the model: G_xpath regenerated by T2 + Model/Peg.v (semantics of the nom combinators) + Model/ParseActionsXPath.v; tied to the crates by the prod and xparse correspondences only',
                     'evaluation equality of spellings (spelling_irrelevant) is established by the search on the real query(), not by proof (the evaluator model belongs to C05)',
                     'parse_spell excludes function names that equal a NodeType up to letter case (known finding C08-fname-case, residue of the D28 repair)'])

def replay(path):
    d = json.load(open(path))
    print(json.dumps(d, indent=1, ensure_ascii=False))
    if 'expr' not in d:
        return 0
    for e, label in [(d.get('expr'), 'expr'), (d.get('expr2'), 'expr2')]:
        if e is None:
            continue
        line = ('v %s %s' % (enc(e), enc(d['doc']))) if d.get('doc') else 's ' + enc(e)
        cls, out = lib.run_isolated(lib.rust_bin(), ['xparse'], line, timeout=60)
        print('%s implementation: [%s] %s' % (label, cls, out))
        if os.path.exists(lib.model_bin('xparse')):
            rc, m = lib.run_bin(lib.model_bin('xparse'), ['xparse'], [line], timeout=120)
            print('%s model:          %s' % (label, m[0] if m else '?'))
        if os.path.exists(lib.spec_bin('xparse')) and out.startswith('P ') and out != 'P err':
            dump = split_impl(out)[0]
            rc, c = lib.run_bin(lib.spec_bin('xparse'), ['xparse'], ['canon ' + dump], timeout=60)
            print('%s parsed tree:    %s' % (label, c[0] if c else '?'))
    return 0
