(** * C13: [normalize] (Model/DomNormalize.v, raw view) refines [dom_normalize] of Spec/DomL1.v (reading R7)

    The model is a program over [step] ([append_data], [remove_child]); the specification is the same walk over
    [dom_step] ([AAppendData], [ARemoveChild]).  The rungs "character data" and "remove_child" of
    Proofs/DomL1Refine.v carry every single call across [abs]; the loop and the recursion follow by induction.
    The specification follows the nesting one level further than the model's fuel ([S (length nodes)] against
    [next]): fuel adequacy (Proofs/DomNormalizeSpec.v) closes the gap. *)
From Coq Require Import List NArith Bool Lia.
From XmlRs Require Import Base.CPred Model.Store Model.DomOps Model.DomNormalize
  Proofs.DomBase Proofs.DomTree Proofs.DomOpsInv Proofs.DomL1Abs Proofs.DomL1Refine
  Proofs.DomNormalizeHist Proofs.DomNormalizeFrame Proofs.DomNormalizeSpec.
From XmlRs Require Spec.DomCharData Spec.DomL1.
Import ListNotations.
Open Scope N_scope.

Lemma normalize_run_inv merged f w r : WInv w -> WInv (normalize_run merged f w r).
Proof. intros Hw. destruct (normalize_is_history merged f w r) as [ops [E _]]. rewrite E. apply run_inv. exact Hw. Qed.

Lemma outcome_done o : (exists rt, o = Ok rt /\ exists ar, outcome_class o = DomL1.ADone ar)
  \/ ((forall rt, o <> Ok rt) /\ forall ar, outcome_class o <> DomL1.ADone ar).
Proof.
  destruct o as [rt|e| |].
  - left. exists rt. split; [reflexivity|]. destruct rt; eexists; reflexivity.
  - right. split; intros; discriminate.
  - right. split; intros; discriminate.
  - right. split; intros; discriminate.
Qed.

Lemma norm_children_refines (rec : world -> nref -> world) (arec : DomL1.adom -> DomL1.nid -> DomL1.adom) k :
  (forall w c, WInv w -> WInv (rec w (k, c)) /\ WNF w (rec w (k, c)) /\ abs (rec w (k, c)) = arec (abs w) (k, c)) ->
  forall l w i prev, WInv w -> kind_in w (k, i) = Some KEl ->
    (forall p, prev = Some p -> kind_in w (k, p) = Some KTx) ->
    abs (norm_children rec w (k, i) prev (map Plain l)) = DomL1.norm_kids arec (abs w) (k, i) prev l.
Proof.
  intros Hrec. induction l as [|c t IH]; intros w i prev Hw Kr Kp; cbn [map norm_children DomL1.norm_kids fst]; [reflexivity|].
  destruct (kind_in_inv _ _ _ Kr) as [s [D Ks]]. cbn [fst snd] in D, Ks.
  pose proof (aget_abs w (k, c) s Hw D) as Ea. cbn [fst snd] in Ea.
  unfold id in *. rewrite Ea. clear Ea.
  unfold kind_in at 1. cbn [fst snd]. rewrite D. unfold kind_of at 1.
  destruct (get s c) as [cit|] eqn:Gc; cbn [option_map]; [|apply IH; [exact Hw | exact Kr | intros p E; discriminate]].
  change (DomL1.n_type (abs_item cit)) with (abs_type (ikind cit)).
  destruct (ikind cit) eqn:Kc; cbn [abs_type]; try (apply IH; [exact Hw | exact Kr | intros p E; discriminate]).
  - (* element child *)
    destruct (Hrec w c Hw) as [Hw1 [F1 E1]]. unfold id in *. rewrite <- E1.
    apply IH; [exact Hw1 | rewrite (WNF_kind_in _ _ _ F1); exact Kr | intros p E; discriminate].
  - (* Text child *)
    assert (Kc' : kind_in w (k, c) = Some KTx).
    { unfold kind_in, kind_of. cbn [fst snd]. rewrite D, Gc. cbn [option_map]. rewrite Kc. reflexivity. }
    destruct prev as [p|]; [|apply IH; [exact Hw | exact Kr | intros p E; inversion E; subst; exact Kc']].
    assert (Ed : data_in w (k, c) = idata cit) by (unfold data_in, data_of; cbn [fst snd]; rewrite D, Gc; reflexivity).
    assert (Ev : DomL1.n_value (abs_item cit) = idata cit) by (unfold abs_item, abs_value; cbn [DomL1.n_value]; rewrite Kc; reflexivity).
    rewrite Ed, Ev.
    destruct (step_refines_partial_data w (AppendData (k, p) (text_arg (idata cit))) (DomL1.AAppendData (k, p) (idata cit))
                Hw eq_refl eq_refl) as [Ea Eo].
    pose proof (step_inv w (AppendData (k, p) (text_arg (idata cit))) Hw) as Hw1.
    pose proof (WNF_append w (k, p) (text_arg (idata cit)) (Kp p eq_refl)) as F1.
    unfold id in *.
    destruct (step w (AppendData (k, p) (text_arg (idata cit)))) as [w1 oc].
    destruct (DomL1.dom_step (abs w) (DomL1.AAppendData (k, p) (idata cit))) as [a1 ao].
    cbn [fst snd] in Ea, Eo, Hw1, F1. subst a1 ao.
    assert (Kr1 : kind_in w1 (k, i) = Some KEl) by (rewrite (WNF_kind_in _ _ _ F1); exact Kr).
    assert (Kc1 : kind_in w1 (k, c) = Some KTx) by (rewrite (WNF_kind_in _ _ _ F1); exact Kc').
    assert (Kp1 : kind_in w1 (k, p) = Some KTx) by (rewrite (WNF_kind_in _ _ _ F1); exact (Kp p eq_refl)).
    assert (RM : abs (norm_children rec (fst (step w1 (RemoveChild (k, i) (k, c)))) (k, i) (Some p) (map Plain t))
                 = DomL1.norm_kids arec (fst (DomL1.dom_step (abs w1) (DomL1.ARemoveChild (k, i) (k, c)))) (k, i) (Some p) t).
    { destruct (step_refines_partial_remove w1 (k, i) (k, c) Hw1) as [Eb _].
      { cbn [KnownLeafRm]. rewrite Kr1. reflexivity. }
      unfold id in *. rewrite <- Eb.
      pose proof (WNF_remove w1 (k, i) c Kr1 Kc1) as F2. cbn [fst] in F2.
      apply IH.
      * apply step_inv. exact Hw1.
      * rewrite (WNF_kind_in _ _ _ F2). exact Kr1.
      * intros q E. inversion E; subst q. rewrite (WNF_kind_in _ _ _ F2). exact Kp1. }
    assert (ST : abs (norm_children rec w1 (k, i) (Some c) (map Plain t)) = DomL1.norm_kids arec (abs w1) (k, i) (Some c) t).
    { apply IH; [exact Hw1 | exact Kr1 | intros q E; inversion E; subst q; exact Kc1]. }
    destruct oc as [[| |n]|e| |]; cbn [outcome_class]; assumption.
Qed.

Lemma abs_type_element k : abs_type k = DomL1.TElement -> k = KEl.
Proof. destruct k; cbn; intros H; try discriminate; reflexivity. Qed.

Theorem normalize_run_refines : forall f w r, WInv w ->
  abs (normalize_run false f w r) = DomL1.dom_normalize_run f (abs w) r.
Proof.
  induction f as [|f IH]; intros w [k i] Hw; cbn [normalize_run DomL1.dom_normalize_run fst snd]; [reflexivity|].
  destruct (doc_at w k) as [s|] eqn:D.
  2:{ rewrite (aget_abs_none w (k, i) D). reflexivity. }
  rewrite (aget_abs w (k, i) s Hw D). cbn [snd]. unfold kind_of.
  destruct (get s i) as [it|] eqn:G; cbn [option_map]; [|reflexivity].
  change (DomL1.n_type (abs_item it)) with (abs_type (ikind it)).
  destruct (ikind it) eqn:K; cbn [abs_type]; try reflexivity.
  assert (Ks : kind_of s i = Some KEl) by (unfold kind_of; rewrite G; cbn [option_map]; rewrite K; reflexivity).
  rewrite (DomNormalizeStore.child_view_raw s i Ks). unfold children_of. rewrite G.
  change (DomL1.n_children (abs_item it)) with (ichildren it).
  apply (norm_children_refines (normalize_run false f) (DomL1.dom_normalize_run f) k).
  - intros w' c Hw'. split; [apply normalize_run_inv; exact Hw'|]. split; [apply normalize_run_frame | apply IH; exact Hw'].
  - exact Hw.
  - unfold kind_in. cbn [fst snd]. rewrite D. exact Ks.
  - intros p E. discriminate.
Qed.

(** the rung: the call refines the specification, state and outcome *)
Theorem normalize_refines : forall w r, WInv w ->
  abs (fst (normalize false w r)) = fst (DomL1.dom_normalize (abs w) r)
  /\ outcome_class (snd (normalize false w r)) = snd (DomL1.dom_normalize (abs w) r).
Proof.
  intros w [k i] Hw. unfold normalize, DomL1.dom_normalize, kind_in. cbn [fst snd].
  rewrite doc_of_abs. destruct (doc_at w k) as [s|] eqn:D; cbn [option_map]; [|split; reflexivity].
  rewrite (aget_abs w (k, i) s Hw D). cbn [snd]. unfold kind_of.
  destruct (get s i) as [it|] eqn:G; cbn [option_map]; [|split; reflexivity].
  change (DomL1.n_type (abs_item it)) with (abs_type (ikind it)).
  destruct (ikind it) eqn:K; cbn [abs_type]; try (split; reflexivity).
  cbn [fst snd outcome_class]. split; [|reflexivity].
  assert (L : length (DomL1.d_nodes (abs_store s)) = N.to_nat (next s)).
  { unfold abs_store. cbn [DomL1.d_nodes]. rewrite map_length, seq_length. reflexivity. }
  rewrite L. rewrite <- (normalize_run_refines _ w (k, i) Hw).
  assert (Ef : normalize_fuel w (k, i) = N.to_nat (next s)) by (unfold normalize_fuel; cbn [fst]; rewrite D; reflexivity).
  rewrite Ef. f_equal. symmetry.
  rewrite <- Ef. apply normalize_fuel_adequate; [exact Hw | rewrite Ef; lia].
Qed.

(** the merged-text view: [normalize] leaves the world as it is ([normalize_merged_view]) although the raw tree
    underneath may hold adjacent Text nodes -- the caller of that view is shown every run as ONE node, so what he
    sees is in normal form; seen through [abs] (the raw tree) the call does not refine [dom_normalize].  Witness:
    the example of Proofs/DomNormalizeC12.v. *)
From XmlRs Require Import Proofs.DomExample Proofs.DomC12 Proofs.DomNormalizeC12.

Example nz_merged_view_not_raw :
  WInv nz_before /\ fst (normalize true nz_before (0, 2)) = nz_before
  /\ abs (fst (normalize true nz_before (0, 2))) <> fst (DomL1.dom_normalize (abs nz_before) (0, 2)).
Proof.
  assert (Hw : WInv nz_before) by (apply tree_inv_reachable_with_normalize; exact ex_world_inv).
  split; [exact Hw|]. split; [apply normalize_merged_view|].
  rewrite normalize_merged_view. rewrite <- (proj1 (normalize_refines nz_before (0, 2) Hw)).
  intros E.
  apply (f_equal (fun a => match DomL1.doc_of a 0 with Some d => DomL1.children d 3 | None => [] end)) in E.
  vm_compute in E. discriminate.
Qed.
