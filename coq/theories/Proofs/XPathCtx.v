(** * The evaluation context is restored (C19).

    [restores m]: whenever the computation [m] ends with a value or an error, the context it
    returns is the context it was started with -- the position stack, the size stack and the
    bindings.  Proved for every function of the evaluator by mutual induction on the AST. *)
From Coq Require Import List NArith Bool Lia.
From XmlRs Require Import Base.CPred Base.NList Base.Float64.
From XmlRs Require Import Spec.XPathCore Model.XPathFuncs.
From XmlRs Require Import Model.XPathAst Model.XDoc Model.XPathScalar Model.XPathEval.
From XmlRs Require Import Proofs.XPathEvalEqs.
Import ListNotations.
Open Scope N_scope.

Definition settled {A} (r : res A) : Prop :=
  match r with Ok _ | Err _ => True | Panic | OutOfFuel => False end.

Definition restores {A} (m : M A) : Prop :=
  forall c r c', m c = (r, c') -> settled r -> c' = c.

Lemma restores_ret {A} (a : A) : restores (ret a).
Proof. intros c r c' H _. inversion H. reflexivity. Qed.

Lemma restores_lift {A} (x : res A) : restores (lift x).
Proof. intros c r c' H _. inversion H. reflexivity. Qed.

Lemma restores_bind {A B} (m : M A) (f : A -> M B) :
  restores m -> (forall a, restores (f a)) -> restores (bindM m f).
Proof.
  intros Hm Hf c r c' H Hs. unfold bindM in H.
  destruct (m c) as [ra c1] eqn:E.
  destruct ra as [a|e| |].
  - assert (c1 = c) by (eapply Hm; [exact E|exact I]). subst c1.
    eapply Hf; eauto.
  - inversion H; subst. eapply Hm; [exact E|exact I].
  - inversion H; subst. destruct Hs.
  - inversion H; subst. destruct Hs.
Qed.

Lemma restores_if {A} (b : bool) (m1 m2 : M A) :
  restores m1 -> restores m2 -> restores (if b then m1 else m2).
Proof. destruct b; auto. Qed.

Lemma pop_push_position p c : pop_position (push_position p c) = c.
Proof. destruct c; reflexivity. Qed.

Lemma pop_push_size s c : pop_size (push_size s c) = c.
Proof. destruct c; reflexivity. Qed.

Lemma pop_size_pop_push_position p c :
  pop_size (pop_position (push_position p c)) = pop_size c.
Proof. destruct c; reflexivity. Qed.

(** the predicate loop: a value leaves the context as it was; an error has popped the size
    that the caller pushed *)
Lemma pred_loop_ctx (f : node -> M bool) :
  (forall n, restores (f n)) ->
  forall nodes pos c r c', pred_loop f nodes pos c = (r, c') ->
    match r with
    | Ok _ => c' = c
    | Err _ => c' = pop_size c
    | _ => True
    end.
Proof.
  intros Hf nodes. induction nodes as [|n t IH]; intros pos c r c' H; cbn [pred_loop] in H.
  - inversion H. reflexivity.
  - destruct (f n (push_position pos c)) as [rk c1] eqn:E.
    destruct rk as [keep|e| |].
    + assert (c1 = push_position pos c) by (eapply Hf; [exact E|exact I]). subst c1.
      rewrite pop_push_position in H.
      destruct (pred_loop f t (pos + 1) c) as [rr c2] eqn:E2.
      specialize (IH _ _ _ _ E2).
      destruct rr; inversion H; subst; auto.
    + assert (c1 = push_position pos c) by (eapply Hf; [exact E|exact I]). subst c1.
      inversion H; subst. apply pop_size_pop_push_position.
    + inversion H; subst. exact I.
    + inversion H; subst. exact I.
Qed.

Lemma restores_flat_map_m (f : node -> M (list node)) :
  (forall n, restores (f n)) -> forall l, restores (flat_map_m f l).
Proof.
  intros Hf l. induction l as [|n t IH]; cbn [flat_map_m].
  - apply restores_ret.
  - apply restores_bind; [apply Hf|]. intros a.
    apply restores_bind; [exact IH|]. intros b. apply restores_ret.
Qed.

Lemma restores_predicate_of (ev : node -> M xvalue) n :
  restores (ev n) -> restores (predicate_of ev n).
Proof.
  intros H. unfold predicate_of. apply restores_bind; [exact H|].
  intros v c r c' E _. destruct v; inversion E; reflexivity.
Qed.

Lemma restores_exec_fn doc local args n : restores (exec_fn doc local args n).
Proof.
  intros c r c' H _. unfold exec_fn in H.
  repeat match type of H with
         | (if ?b then _ else _) = _ => destruct b
         end; inversion H; reflexivity.
Qed.

Section Ctx.
Variable doc : xdoc.

Definition P_or (e : or_expr) := forall n, restores (eval_or_expr doc e n).
Definition P_and_list (l : and_list) := forall op1 n, restores (eval_or_rest doc l op1 n).
Definition P_and (e : and_expr) := forall n, restores (eval_and_expr doc e n).
Definition P_eq_list (l : eq_list) := forall op1 n, restores (eval_and_rest doc l op1 n).
Definition P_eq (e : eq_expr) := forall n, restores (eval_eq_expr doc e n).
Definition P_eqop_list (l : eqop_list) := forall op1 n, restores (eval_eq_ops doc l op1 n).
Definition P_rel (e : rel_expr) := forall n, restores (eval_rel_expr doc e n).
Definition P_relop_list (l : relop_list) := forall op1 n, restores (eval_rel_ops doc l op1 n).
Definition P_add (e : add_expr) := forall n, restores (eval_add_expr doc e n).
Definition P_addop_list (l : addop_list) := forall op1 n, restores (eval_add_ops doc l op1 n).
Definition P_mul (e : mul_expr) := forall n, restores (eval_mul_expr doc e n).
Definition P_mulop_list (l : mulop_list) := forall op1 n, restores (eval_mul_ops doc l op1 n).
Definition P_unary (e : unary_expr) := forall n, restores (eval_unary_expr doc e n).
Definition P_union (e : union_expr) := forall n, restores (eval_union_expr doc e n).
Definition P_path_list (l : path_list) :=
  (forall acc n, restores (eval_union_rest doc l acc n)) /\
  (forall n, restores (eval_union_expr doc (EUnion l) n)).
Definition P_path (e : path_expr) := forall n, restores (eval_path_expr doc e n).
Definition P_filter (e : filter_expr) := forall n, restores (eval_filter_expr doc e n).
Definition P_primary (e : primary_expr) := forall n, restores (eval_primary_expr doc e n).
Definition P_expr_list (l : expr_list) :=
  (forall n, restores (eval_args doc l n)) /\ (forall nodes, restores (eval_predicates doc l nodes)).
Definition P_rel_path (e : rel_path) := forall n, restores (eval_rel_path doc e n).
Definition P_stepop_list (l : stepop_list) := forall nodes, restores (eval_stepops doc l nodes).
Definition P_step (s : step) := forall n, restores (eval_step doc s n).

Ltac rb := repeat first
  [ apply restores_ret | apply restores_lift
  | apply restores_bind; [first [apply restores_lift | solve [eauto]] | intros ?]
  | apply restores_if ].

Lemma restores_match_nodes {A} (v : xvalue) (f : list node -> M A) (g : M A) :
  (forall l, restores (f l)) -> restores g ->
  restores (match v with XNodes l => f l | _ => g end).
Proof. destruct v; auto. Qed.

Theorem eval_restores_all :
  (forall e, P_or e) /\ (forall l, P_and_list l) /\ (forall e, P_and e) /\ (forall l, P_eq_list l) /\
  (forall e, P_eq e) /\ (forall l, P_eqop_list l) /\ (forall e, P_rel e) /\ (forall l, P_relop_list l) /\
  (forall e, P_add e) /\ (forall l, P_addop_list l) /\ (forall e, P_mul e) /\ (forall l, P_mulop_list l) /\
  (forall e, P_unary e) /\ (forall e, P_union e) /\ (forall l, P_path_list l) /\ (forall e, P_path e) /\
  (forall e, P_filter e) /\ (forall e, P_primary e) /\ (forall l, P_expr_list l) /\
  (forall e, P_rel_path e) /\ (forall l, P_stepop_list l) /\ (forall s, P_step s).
Proof.
  apply ast_mutind;
    unfold P_or, P_and_list, P_and, P_eq_list, P_eq, P_eqop_list, P_rel, P_relop_list, P_add,
      P_addop_list, P_mul, P_mulop_list, P_unary, P_union, P_path_list, P_path, P_filter,
      P_primary, P_expr_list, P_rel_path, P_stepop_list, P_step.
  - (* EOr *) intros first Hf rest Hr n. rewrite eval_or_expr_eq. rb. apply Hr.
  - (* AndNil *) intros op1 n. rewrite eval_or_rest_nil. rb.
  - (* AndCons *) intros a Ha t Ht op1 n. rewrite eval_or_rest_cons. rb. apply Ht.
  - (* EAnd *) intros first Hf rest Hr n. rewrite eval_and_expr_eq. rb. apply Hr.
  - intros op1 n. rewrite eval_and_rest_nil. rb.
  - intros a Ha t Ht op1 n. rewrite eval_and_rest_cons. rb. apply Ht.
  - (* EEq *) intros o Ho ops Hops n. rewrite eval_eq_expr_eq. rb. apply Hops.
  - intros op1 n. rewrite eval_eq_ops_nil. rb.
  - intros op e He t Ht op1 n. rewrite eval_eq_ops_cons. rb. apply Ht.
  - (* ERel *) intros o Ho ops Hops n. rewrite eval_rel_expr_eq. rb. apply Hops.
  - intros op1 n. rewrite eval_rel_ops_nil. rb.
  - intros op e He t Ht op1 n. rewrite eval_rel_ops_cons. rb. apply Ht.
  - (* EAdd *) intros o Ho ops Hops n. rewrite eval_add_expr_eq. rb. apply Hops.
  - intros op1 n. rewrite eval_add_ops_nil. rb.
  - intros op e He t Ht op1 n. rewrite eval_add_ops_cons. rb. apply Ht.
  - (* EMul *) intros o Ho ops Hops n. rewrite eval_mul_expr_eq. rb. apply Hops.
  - intros op1 n. rewrite eval_mul_ops_nil. rb.
  - intros op e He t Ht op1 n. rewrite eval_mul_ops_cons. rb. apply Ht.
  - (* EUnary *) intros inv u Hu n. rewrite eval_unary_expr_eq. rb.
  - (* EUnion *) intros l [_ Hl] n. apply Hl.
  - (* PathNil *) split.
    + intros acc n. rewrite eval_union_rest_nil. rb.
    + intros n. rewrite eval_union_expr_nil. rb.
  - (* PathCons *) intros p Hp t [Ht _]. split.
    + intros acc n. rewrite eval_union_rest_cons. rb.
      apply restores_match_nodes; [intros; apply Ht|rb].
    + intros n. destruct t as [|p2 t2].
      * rewrite eval_union_expr_one. rb. destruct a; rb.
      * rewrite eval_union_expr_many. rb.
        apply restores_match_nodes; [intros; apply Ht|rb].
  - (* PRoot *) intros n. rewrite eval_path_expr_root. rb.
  - (* PFilter *) intros f Hf n. rewrite eval_path_expr_filter. apply Hf.
  - (* PRel *) intros l Hl n. rewrite eval_path_expr_rel.
    apply restores_bind; [apply restores_flat_map_m; exact Hl|intros; rb].
  - (* PAbs *) intros op l Hl n. rewrite eval_path_expr_abs. rb.
    apply restores_bind; [apply restores_flat_map_m; exact Hl|intros; rb].
  - (* PFilterPath *) intros f Hf op l Hl n. rewrite eval_path_expr_filterpath. rb.
    apply restores_match_nodes; [|rb]. intros fl. rb.
    apply restores_bind; [apply restores_flat_map_m; exact Hl|intros; rb].
  - (* EFilter *) intros primary Hp preds [_ Hpreds] n. destruct preds as [|p t].
    + rewrite eval_filter_expr_nopred. apply Hp.
    + rewrite eval_filter_expr_preds. rb.
      apply restores_match_nodes; [|rb]. intros l.
      apply restores_bind; [apply Hpreds|intros; rb].
  - (* PrimVariable *) intros q n. rewrite eval_primary_expr_variable.
    intros c r c' H _. destruct (expanded_name (c_ns c) q) as [[[? ?] ?]| | |]; inversion H; reflexivity.
  - (* PrimExpr *) intros e He n. rewrite eval_primary_expr_expr. apply He.
  - (* PrimLiteral *) intros s n. rewrite eval_primary_expr_literal. rb.
  - (* PrimNumber *) intros s n. rewrite eval_primary_expr_number.
    destruct (rust_parse_f64 s); rb.
  - (* PrimFunction *) intros name args [Hargs _] n. rewrite eval_primary_expr_function.
    intros c r c' H Hs.
    destruct (resolve_fn (c_ns c) name (expr_list_len args)) as [local|e| |].
    + revert H Hs. apply (restores_bind (eval_args doc args n) (fun vs => exec_fn doc local vs n)).
      * apply Hargs.
      * intros vs. apply restores_exec_fn.
    + inversion H; reflexivity.
    + inversion H; reflexivity.
    + inversion H; reflexivity.
  - (* ExprNil *) split.
    + intros n. rewrite eval_args_nil. rb.
    + intros nodes. rewrite eval_predicates_nil. rb.
  - (* ExprCons *) intros e He t [Hta Htp]. split.
    + intros n. rewrite eval_args_cons. rb.
    + intros nodes. rewrite eval_predicates_cons. intros c r c' H Hs.
      destruct (pred_loop (predicate_of (eval_or_expr doc e)) nodes 1 (push_size (len nodes) c))
        as [rl c1] eqn:E.
      pose proof (pred_loop_ctx (predicate_of (eval_or_expr doc e))
                    (fun n => restores_predicate_of _ n (He n)) _ _ _ _ _ E) as Hc.
      destruct rl as [filtered|er| |].
      * subst c1. rewrite pop_push_size in H. eapply Htp; eauto.
      * inversion H; subst. apply pop_push_size.
      * inversion H; subst. destruct Hs.
      * inversion H; subst. destruct Hs.
  - (* ERelPath *) intros s Hs ops Hops n. rewrite eval_rel_path_eq. rb. apply Hops.
  - (* StepopNil *) intros nodes. rewrite eval_stepops_nil. rb.
  - (* StepopCons *) intros op s Hs t Ht nodes. rewrite eval_stepops_cons. rb.
    apply restores_bind; [apply restores_flat_map_m; exact Hs|intros; apply Ht].
  - (* StepTest *) intros axis test preds [_ Hpreds] n. rewrite eval_step_test.
    intros c r c' H Hs.
    destruct (bind (axis_nodes doc axis n) (filter_res (eval_node_test doc (c_ns c) axis test)))
      as [tested|e| |].
    + eapply Hpreds; eauto.
    + inversion H; reflexivity.
    + inversion H; reflexivity.
    + inversion H; reflexivity.
  - (* StepCurrent *) intros n. rewrite eval_step_current. rb.
  - (* StepParent *) intros n. rewrite eval_step_parent. rb.
Qed.

(** the statement of C19 for a whole expression *)
Theorem eval_restores_context_lemma :
  forall (c : ctx) (e : expr) (n : node) (r : res xvalue) (c' : ctx),
    eval_expr doc e n c = (r, c') -> settled r -> c' = c.
Proof.
  intros c e n r c' H Hs. destruct eval_restores_all as [Hor _].
  unfold eval_expr in H. eapply Hor; eauto.
Qed.

End Ctx.
