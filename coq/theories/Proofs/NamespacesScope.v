(** * C10, part 1: the in-scope namespaces computed by walking the ancestors are the bindings of the
      top-down environment of Namespaces in XML. *)
From Coq Require Import List NArith Bool Lia.
From XmlRs Require Import Base.CPred Spec.AttrNorm Spec.Namespaces Model.NsModel Proofs.AttrNormProofs.
Import ListNotations.
Open Scope N_scope.

(** ** prefixes *)
Lemma prefix_eqb_refl (p : prefix) : prefix_eqb p p = true.
Proof. destruct p; cbn [prefix_eqb]; [apply str_eqb_refl|reflexivity]. Qed.

Lemma prefix_eqb_eq (p q : prefix) : prefix_eqb p q = true -> p = q.
Proof. destruct p, q; cbn [prefix_eqb]; intros H; try discriminate; [f_equal; apply str_eqb_eq; exact H|reflexivity]. Qed.

Lemma prefix_eqb_neq (p q : prefix) : prefix_eqb p q = false -> p <> q.
Proof. intros H ->. rewrite prefix_eqb_refl in H. discriminate. Qed.

Lemma prefix_eqb_sym (p q : prefix) : prefix_eqb p q = prefix_eqb q p.
Proof.
  destruct (prefix_eqb p q) eqn:E.
  - apply prefix_eqb_eq in E. subst. symmetry. apply prefix_eqb_refl.
  - destruct (prefix_eqb q p) eqn:E2; [|reflexivity]. apply prefix_eqb_eq in E2. subst.
    rewrite prefix_eqb_refl in E. discriminate.
Qed.

Definition has_prefix (l : list nsdecl) (p : prefix) : bool := existsb (fun d => prefix_eqb (fst d) p) l.

Lemma has_prefix_in l p : has_prefix l p = true <-> In p (map fst l).
Proof.
  unfold has_prefix. rewrite existsb_exists. split.
  - intros ((q, u) & Hin & E). apply prefix_eqb_eq in E. cbn in E. subst q.
    apply in_map_iff. exists (p, u). auto.
  - intros H. apply in_map_iff in H as ((q, u) & E & Hin). cbn in E. subst q.
    exists (p, u). split; [exact Hin|apply prefix_eqb_refl].
Qed.

Lemma has_prefix_false l p : has_prefix l p = false <-> ~ In p (map fst l).
Proof.
  split.
  - intros H Hin. apply has_prefix_in in Hin. congruence.
  - intros H. destruct (has_prefix l p) eqn:E; [|reflexivity]. apply has_prefix_in in E. contradiction.
Qed.

Lemma nodup_prefixes_spec l : nodup_prefixes l = true <-> NoDup (map fst l).
Proof.
  induction l as [|(p, u) r IH]; cbn [nodup_prefixes map fst]; [split; [constructor|reflexivity]|].
  rewrite andb_true_iff, negb_true_iff, IH. fold (has_prefix r p). rewrite has_prefix_false. split.
  - intros [H1 H2]. constructor; assumption.
  - intros H. inversion H; subst. auto.
Qed.

(** ** association lists *)
Lemma assoc_app a b p : assoc (a ++ b) p = match assoc a p with Some u => Some u | None => assoc b p end.
Proof.
  induction a as [|(q, u) r IH]; [reflexivity|]. cbn [app assoc].
  destruct (prefix_eqb q p); [reflexivity|exact IH].
Qed.

Lemma assoc_none l p : assoc l p = None <-> has_prefix l p = false.
Proof.
  unfold has_prefix. induction l as [|(q, u) r IH]; cbn [assoc existsb fst]; [split; reflexivity|].
  destruct (prefix_eqb q p); cbn [orb]; [split; discriminate|exact IH].
Qed.

Lemma assoc_some_in l p u : assoc l p = Some u -> In (p, u) l.
Proof.
  induction l as [|(q, v) r IH]; cbn [assoc]; [discriminate|].
  destruct (prefix_eqb q p) eqn:E.
  - intros H. injection H as ->. apply prefix_eqb_eq in E. subst q. left. reflexivity.
  - intros H. right. auto.
Qed.

Lemma assoc_nodup l p u : NoDup (map fst l) -> In (p, u) l -> assoc l p = Some u.
Proof.
  induction l as [|(q, v) r IH]; intros Hnd Hin; [destruct Hin|].
  cbn [map fst] in Hnd. inversion Hnd as [|? ? Hq Hr]; subst. cbn [assoc].
  destruct Hin as [E|Hin].
  - injection E as -> ->. rewrite prefix_eqb_refl. reflexivity.
  - destruct (prefix_eqb q p) eqn:E; [|auto].
    apply prefix_eqb_eq in E. subst q. exfalso. apply Hq. apply in_map_iff. exists (p, u). auto.
Qed.

(** ** the specification's listing of the in-scope namespaces *)
Lemma in_scope_from_spec e : forall seen p u,
  In (p, u) (in_scope_from seen e) <->
  (existsb (prefix_eqb p) seen = false /\ ns_lookup e p = Some u).
Proof.
  induction e as [|(q, v) r IH]; intros seen p u; cbn [in_scope_from].
  - unfold ns_lookup. cbn [assoc]. split; [intros []|intros [_ H]; discriminate].
  - unfold ns_lookup in *. cbn [assoc].
    destruct (existsb (prefix_eqb q) seen) eqn:Es.
    + rewrite IH. destruct (prefix_eqb q p) eqn:E.
      * apply prefix_eqb_eq in E. subst q. split; [intros [H _]; congruence|intros [H _]; congruence].
      * reflexivity.
    + assert (Hseen : forall p', existsb (prefix_eqb p') (q :: seen) = prefix_eqb p' q || existsb (prefix_eqb p') seen)
        by reflexivity.
      destruct (prefix_eqb q p) eqn:E.
      * apply prefix_eqb_eq in E. subst q.
        destruct v as [|c v'].
        -- rewrite IH, Hseen, prefix_eqb_refl. cbn [orb]. split; [intros [H _]; discriminate|intros [_ H]; discriminate].
        -- cbn [In]. rewrite IH, Hseen, prefix_eqb_refl. cbn [orb]. split.
           ++ intros [H|[H _]]; [injection H as <-; auto|discriminate].
           ++ intros [_ H]. injection H as <-. left. reflexivity.
      * assert (Hpq : prefix_eqb p q = false) by (rewrite prefix_eqb_sym; exact E).
        destruct v as [|c v'].
        -- rewrite IH, Hseen, Hpq. cbn [orb]. reflexivity.
        -- cbn [In]. rewrite IH, Hseen, Hpq. cbn [orb]. split.
           ++ intros [H|H]; [injection H as <- _; rewrite prefix_eqb_refl in E; discriminate|exact H].
           ++ intros H. right. exact H.
Qed.

Theorem in_scope_spec e p u : In (p, u) (in_scope e) <-> ns_lookup e p = Some u.
Proof. unfold in_scope. rewrite in_scope_from_spec. cbn [existsb]. tauto. Qed.

(** ** the inheritance loop *)
Definition not_in (items : list nsdecl) (ns : nsdecl) : bool := negb (has_prefix items (fst ns)).

Lemma same_prefix_has acc ns : existsb (fun v => m_same_prefix v ns) acc = has_prefix acc (fst ns).
Proof. reflexivity. Qed.

Lemma has_prefix_app a b p : has_prefix (a ++ b) p = has_prefix a p || has_prefix b p.
Proof. unfold has_prefix. apply existsb_app. Qed.

Lemma m_inherit_filter ps : forall items, NoDup (map fst ps) ->
  m_inherit items ps = items ++ filter (not_in items) ps.
Proof.
  unfold m_inherit. induction ps as [|ns r IH]; intros items Hnd; cbn [fold_left filter].
  - rewrite app_nil_r. reflexivity.
  - cbn [map] in Hnd. inversion Hnd as [|? ? Hns Hr]; subst.
    rewrite same_prefix_has. unfold not_in at 1.
    destruct (has_prefix items (fst ns)) eqn:E; cbn [negb].
    + apply IH. exact Hr.
    + rewrite IH by exact Hr. rewrite <- app_assoc. cbn [app]. do 2 f_equal.
      apply filter_ext_in. intros d Hd. unfold not_in. rewrite has_prefix_app.
      assert (G : has_prefix [ns] (fst d) = false).
      { unfold has_prefix. cbn [existsb]. rewrite orb_false_r.
        destruct (prefix_eqb (fst ns) (fst d)) eqn:E2; [|reflexivity].
        apply prefix_eqb_eq in E2. exfalso. apply Hns. rewrite E2. apply in_map. exact Hd. }
      apply f_equal. transitivity (has_prefix items (fst d) || false); [f_equal; exact G|apply orb_false_r].
Qed.

(** ** one step: own declarations on top of the parent's scope *)
Definition nonempty_uri (v : nsdecl) : bool := match snd v with [] => false | _ => true end.

(** [scope_rel S E]: the list [S] holds exactly the bindings of environment [E], once each *)
Definition scope_rel (S : list nsdecl) (E : env) : Prop :=
  NoDup (map fst S) /\ forall p u, In (p, u) S <-> ns_lookup E p = Some u.

Lemma nodup_app_disjoint {A} (a b : list A) :
  NoDup a -> NoDup b -> (forall x, In x a -> ~ In x b) -> NoDup (a ++ b).
Proof.
  induction a as [|x r IH]; intros Ha Hb Hd; [exact Hb|]. cbn [app].
  inversion Ha as [|? ? Hx Hr]; subst. constructor.
  - intros H. apply in_app_or in H as [H|H]; [exact (Hx H)|]. apply (Hd x); [left; reflexivity|exact H].
  - apply IH; [exact Hr|exact Hb|]. intros y Hy. apply Hd. right. exact Hy.
Qed.

Lemma nodup_map_filter {A B} (f : A -> B) (g : A -> bool) l : NoDup (map f l) -> NoDup (map f (filter g l)).
Proof.
  induction l as [|x r IH]; intros H; [constructor|]. cbn [map] in H. inversion H as [|? ? Hx Hr]; subst.
  cbn [filter]. destruct (g x); [|auto]. cbn [map]. constructor; [|auto].
  intros Hin. apply Hx. apply in_map_iff in Hin as (y & E & Hy). apply filter_In in Hy as [Hy _].
  rewrite <- E. apply in_map. exact Hy.
Qed.

Lemma lookup_nonempty E p u : ns_lookup E p = Some u -> u <> [].
Proof. unfold ns_lookup. destruct (assoc E p) as [[|c v]|]; intros H; try discriminate. injection H as <-. discriminate. Qed.

Lemma filter_all {A} (g : A -> bool) l : forallb g l = true -> filter g l = l.
Proof.
  induction l as [|x r IH]; intros H; [reflexivity|]. cbn [forallb] in H. apply andb_prop in H as [Hx Hr].
  cbn [filter]. rewrite Hx, IH by exact Hr. reflexivity.
Qed.

Lemma scope_step items PS E :
  NoDup (map fst items) -> scope_rel PS E ->
  scope_rel (filter nonempty_uri (m_inherit items PS)) (items ++ E).
Proof.
  intros Hit [Hps Hmem]. rewrite (m_inherit_filter PS items Hps). rewrite filter_app.
  assert (Hps_ne : filter nonempty_uri (filter (not_in items) PS) = filter (not_in items) PS).
  { apply filter_all. apply forallb_forall. intros (p, u) Hin. apply filter_In in Hin as [Hin _].
    apply Hmem, lookup_nonempty in Hin. unfold nonempty_uri. cbn [snd]. destruct u; [congruence|reflexivity]. }
  rewrite Hps_ne. split.
  - rewrite map_app. apply nodup_app_disjoint.
    + apply nodup_map_filter. exact Hit.
    + apply nodup_map_filter. exact Hps.
    + intros p Hp Hq. apply in_map_iff in Hp as ((p1, u1) & E1 & H1). cbn in E1. subst p1.
      apply in_map_iff in Hq as ((p2, u2) & E2 & H2). cbn in E2. subst p2.
      apply filter_In in H1 as [H1 _]. apply filter_In in H2 as [_ H2].
      unfold not_in in H2. cbn [fst] in H2. apply negb_true_iff, has_prefix_false in H2.
      apply H2. apply in_map_iff. exists (p, u1). auto.
  - intros p u. rewrite in_app_iff, !filter_In. unfold ns_lookup at 1. rewrite assoc_app.
    destruct (assoc items p) as [u'|] eqn:Ea.
    + pose proof (assoc_some_in _ _ _ Ea) as Hin'. split.
      * intros [[Hin Hne]|[_ Hni]].
        -- rewrite (assoc_nodup items p u Hit Hin) in Ea. injection Ea as <-.
           unfold nonempty_uri in Hne. cbn [snd] in Hne. destruct u; [discriminate|reflexivity].
        -- exfalso. unfold not_in in Hni. cbn [fst] in Hni. apply negb_true_iff, has_prefix_false in Hni.
           apply Hni. apply in_map_iff. exists (p, u'). auto.
      * intros H. left. destruct u' as [|c v]; [discriminate|]. injection H as <-. split; [exact Hin'|reflexivity].
    + apply assoc_none in Ea. split.
      * intros [[Hin _]|[Hin _]].
        -- exfalso. apply has_prefix_false in Ea. apply Ea. apply in_map_iff. exists (p, u). auto.
        -- apply Hmem in Hin. exact Hin.
      * intros H. right. split; [apply Hmem; exact H|]. unfold not_in. cbn [fst]. rewrite Ea. reflexivity.
Qed.

Lemma init_scope_rel : scope_rel [(Some p_xml, xml_ns)] init_env.
Proof.
  split; [constructor; [intros []|constructor]|]. intros p u. unfold ns_lookup, init_env. cbn [assoc In].
  destruct (prefix_eqb (Some p_xml) p) eqn:E.
  - apply prefix_eqb_eq in E. subst p. split.
    + intros [H|[]]. injection H as <-. reflexivity.
    + intros H. left. vm_compute in H. injection H as <-. reflexivity.
  - split; [|discriminate]. intros [H|[]]. injection H as <- _. rewrite prefix_eqb_refl in E. discriminate.
Qed.

Lemma root_case items :
  (if existsb (fun v => m_same_prefix v (Some p_xml, xml_ns)) items then items else items ++ [(Some p_xml, xml_ns)])
  = m_inherit items [(Some p_xml, xml_ns)].
Proof. unfold m_inherit. cbn [fold_left]. reflexivity. Qed.

Definition decls_nodup (chain : list elem) : Prop := Forall (fun x => NoDup (map fst (el_decls x))) chain.

(** *** in-scope namespaces: the walk towards the root computes the environment's bindings *)
Theorem in_scope_char : forall chain, chain <> [] -> decls_nodup chain ->
  scope_rel (m_in_scope chain) (env_of chain).
Proof.
  induction chain as [|x up IH]; intros Hne Hnd; [congruence|].
  inversion Hnd as [|? ? Hx Hup]; subst. cbn [m_in_scope env_of]. unfold m_namespaces.
  destruct up as [|y up'].
  - rewrite root_case. apply scope_step; [exact Hx|]. cbn [env_of]. exact init_scope_rel.
  - apply scope_step; [exact Hx|]. apply IH; [discriminate|exact Hup].
Qed.

Lemma chain_ok_nodup chain : chain_ok chain = true -> decls_nodup chain.
Proof.
  unfold chain_ok. rewrite forallb_forall. intros H. apply Forall_forall. intros x Hx.
  specialize (H x Hx). unfold elem_ok in H. rewrite !andb_true_iff in H. destruct H as [[[H _] _] _].
  apply nodup_prefixes_spec. exact H.
Qed.

Theorem in_scope_refines_proof : forall chain, chain <> [] -> chain_ok chain = true ->
  NoDup (map fst (m_in_scope chain)) /\
  forall p u, In (p, u) (m_in_scope chain) <-> In (p, u) (in_scope (env_of chain)).
Proof.
  intros chain Hne Hok. destruct (in_scope_char chain Hne (chain_ok_nodup chain Hok)) as [H1 H2].
  split; [exact H1|]. intros p u. rewrite in_scope_spec. apply H2.
Qed.
