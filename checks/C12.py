"""C12 -- the DOM stays a tree: navigation views agree after any edit history."""
import json
from . import lib, domlib as D

TRUSTED = ['Coq 8.16.1 kernel + VM', 'Model/Store.v + Model/DomOps.v: hand-written model of info/dom editing (the repaired code), tied by the dom correspondence below',
           'string-level facts (names, character data, attribute values) are parameters of the model ops, computed by the harness with xml_parser',
           'harness/src/domains/dom.rs (dump through the public DOM API), ocaml/domains/dom/dom.ml, extraction (ExtrOcamlBasic only)',
           'python oracle checks/domlib.py:c12_violations evaluated on the implementation dump']

def classify(f):
    """known-finding classifiers of C12 (none listed: every defect found so far has a fix: commit)"""
    return None

def check(run):
    run.trusted = TRUSTED
    proved, _ = lib.proof_step(run, 'C12', ['-'])
    okr, mok, _ = lib.build_binaries(run, model_areas=['dom'])
    if okr and mok.get('dom'):
        s = D.campaign(run)
        run.evaluations = s['ops']
        run.hist = s['hist']
        run.samples = s['samples']
        run.extra.update({'cases': s['cases'], 'distinct_states_checked': s['states'], 'campaign_cached': s.get('cached'),
                          'campaign_seconds': s['times'], 'initial_stores_failing_tree_inv_b': s['ti_fail']})
        run.nontrivial = set(range(s['nontrivial']))
        if s['ti_fail']:
            run.tie_breaks.append('%d initial store(s) built from the implementation dump fail the extracted tree_inv_b (hypothesis of tree_inv_reachable)' % s['ti_fail'])
        for c in s['crashes'][:3]:
            run.tie_breaks.append('harness produced no records: %s' % c['line'])
        seen = set()
        for m in s['mismatches']:
            key = (m['tag'], tuple(m['ops'][-1]) [0] if m['ops'] else 'init')
            if key in seen: continue
            seen.add(key)
            if len(seen) > 4: break
            g = D.shrink_mismatch(m)
            p = run.write_replay('tie%d' % len(seen), dict(g, property='C12', what='model and implementation differ'))
            run.tie_breaks.append('dom correspondence: model and implementation differ after %s (replay %s)' % (D.describe_failure(g), p))
        seen = set()
        for f in s['c12']:
            if f['clause'] in seen: continue
            seen.add(f['clause'])
            g = D.shrink_failure(f, 'c12')
            fid = classify(g)
            if fid:
                what, n = run.known_hits.get(fid[0], (fid[1], 0))
                run.known_hits[fid[0]] = (what, n + 1)
            else:
                run.failing_inputs.append(dict(g, property='C12', **{'class': g['clause'], 'what': D.describe_failure(g)}))
    return run.finish(level='proof',
        rule='ops executed on the implementation with a full dump after each; distinct non-trivial = distinct (state before, op) pairs whose result is not `na`; every distinct dump is checked by the C12 oracle',
        assumptions=['the handle table keeps every node alive (Context::node finds every parent)', 'documents without DTD-defaulted attributes',
                     'initial stores satisfy TreeInv (checked per case by the extracted tree_inv_b)'])

def replay(path):
    return D.replay_file(path, 'c12')
