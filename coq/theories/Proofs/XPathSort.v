(** * Sorting and de-duplication by order key (what [eval_union_expr] does to its result).

    [union_finish l = sort_by_key (dedup_keys [] l)] is strictly sorted by key -- for every
    document table and every list, no hypothesis.  Two lists strictly sorted by key with the same
    elements are equal, which gives the algebra of unions once keys identify nodes. *)
From Coq Require Import List NArith Bool Lia Sorting.Sorted Sorting.Permutation.
From XmlRs Require Import Base.CPred.
From XmlRs Require Import Model.XDoc Model.XPathEval.
Import ListNotations.
Open Scope N_scope.

Section Sort.
Variable doc : xdoc.

Definition key_le (a b : node) : Prop := key doc a <= key doc b.
Definition key_lt (a b : node) : Prop := key doc a < key doc b.

(** ** insertion sort *)
Lemma insert_perm x l : Permutation (x :: l) (insert_by_key doc x l).
Proof.
  induction l as [|y t IH]; cbn [insert_by_key]; [apply Permutation_refl|].
  destruct (key doc x <=? key doc y); [apply Permutation_refl|].
  eapply Permutation_trans; [apply perm_swap|]. apply perm_skip. exact IH.
Qed.

Lemma sort_perm l : Permutation l (sort_by_key doc l).
Proof.
  induction l as [|x t IH]; cbn [sort_by_key fold_right]; [apply Permutation_refl|].
  eapply Permutation_trans; [apply perm_skip; exact IH|]. apply insert_perm.
Qed.

Lemma insert_sorted x l : StronglySorted key_le l -> StronglySorted key_le (insert_by_key doc x l).
Proof.
  induction l as [|y t IH]; intros H; cbn [insert_by_key].
  - constructor; constructor.
  - inversion H as [|y' t' Ht Hy]; subst.
    destruct (N.leb_spec (key doc x) (key doc y)) as [Hle|Hgt].
    + constructor; [exact H|]. constructor; [exact Hle|].
      eapply Forall_impl; [|exact Hy]. intros z Hz. unfold key_le in *. lia.
    + constructor; [apply IH; exact Ht|].
      assert (Hall : Forall (key_le y) (x :: t)) by (constructor; [unfold key_le; lia|exact Hy]).
      eapply Permutation_Forall; [apply insert_perm|exact Hall].
Qed.

Lemma sort_sorted l : StronglySorted key_le (sort_by_key doc l).
Proof.
  induction l as [|x t IH]; cbn [sort_by_key fold_right]; [constructor|].
  apply insert_sorted. exact IH.
Qed.

Lemma sort_length l : length (sort_by_key doc l) = length l.
Proof. symmetry. apply Permutation_length. apply sort_perm. Qed.

Lemma sort_in x l : In x (sort_by_key doc l) <-> In x l.
Proof.
  split; intros H.
  - eapply Permutation_in; [apply Permutation_sym; apply sort_perm|exact H].
  - eapply Permutation_in; [apply sort_perm|exact H].
Qed.

(** weakly sorted with pairwise distinct keys = strictly sorted *)
Lemma sorted_strict l :
  StronglySorted key_le l -> NoDup (map (key doc) l) -> StronglySorted key_lt l.
Proof.
  induction l as [|x t IH]; intros Hs Hnd; [constructor|].
  inversion Hs as [|x' t' Ht Hx]; subst. cbn [map] in Hnd. inversion Hnd as [|k ks Hnin Hnd']; subst.
  constructor; [apply IH; assumption|].
  apply Forall_forall. intros y Hy. rewrite Forall_forall in Hx. specialize (Hx y Hy).
  unfold key_le in Hx. unfold key_lt.
  assert (key doc x <> key doc y) by (intros E; apply Hnin; rewrite E; apply in_map; exact Hy). lia.
Qed.

(** ** de-duplication *)
Lemma existsb_eqb_In k (s : list N) : existsb (N.eqb k) s = true <-> In k s.
Proof.
  rewrite existsb_exists. split.
  - intros [x [Hx E]]. apply N.eqb_eq in E. subst. exact Hx.
  - intros H. exists k. split; [exact H|apply N.eqb_refl].
Qed.

Lemma dedup_seen_ext l : forall s1 s2, (forall k, In k s1 <-> In k s2) ->
  dedup_keys doc s1 l = dedup_keys doc s2 l.
Proof.
  induction l as [|x t IH]; intros s1 s2 H; cbn [dedup_keys]; [reflexivity|].
  assert (E : existsb (N.eqb (key doc x)) s1 = existsb (N.eqb (key doc x)) s2).
  { destruct (existsb (N.eqb (key doc x)) s1) eqn:E1, (existsb (N.eqb (key doc x)) s2) eqn:E2;
      try reflexivity.
    - apply existsb_eqb_In in E1. apply H in E1. apply existsb_eqb_In in E1. congruence.
    - apply existsb_eqb_In in E2. apply H in E2. apply existsb_eqb_In in E2. congruence. }
  rewrite E. destruct (existsb (N.eqb (key doc x)) s2).
  - apply IH. exact H.
  - f_equal. apply IH. intros k. cbn [In]. rewrite H. reflexivity.
Qed.

Lemma dedup_incl l : forall s x, In x (dedup_keys doc s l) -> In x l /\ ~ In (key doc x) s.
Proof.
  induction l as [|y t IH]; intros s x H; cbn [dedup_keys] in H; [destruct H|].
  destruct (existsb (N.eqb (key doc y)) s) eqn:E.
  - destruct (IH _ _ H) as [H1 H2]. split; [right; exact H1|exact H2].
  - destruct H as [->|H].
    + split; [left; reflexivity|]. intros Hin. apply existsb_eqb_In in Hin. congruence.
    + destruct (IH _ _ H) as [H1 H2]. split; [right; exact H1|].
      intros Hin. apply H2. right. exact Hin.
Qed.

Lemma dedup_nodup_keys l : forall s, NoDup (map (key doc) (dedup_keys doc s l)).
Proof.
  induction l as [|y t IH]; intros s; cbn [dedup_keys]; [constructor|].
  destruct (existsb (N.eqb (key doc y)) s); [apply IH|].
  cbn [map]. constructor; [|apply IH].
  intros Hin. apply in_map_iff in Hin. destruct Hin as [z [Ez Hz]].
  destruct (dedup_incl _ _ _ Hz) as [_ Hn]. apply Hn. left. symmetry. exact Ez.
Qed.

(** every key of [l] is seen before or kept *)
Lemma dedup_keys_cover l : forall s x, In x l ->
  In (key doc x) s \/ In (key doc x) (map (key doc) (dedup_keys doc s l)).
Proof.
  induction l as [|y t IH]; intros s x H; [destruct H|]. cbn [dedup_keys].
  destruct (existsb (N.eqb (key doc y)) s) eqn:E.
  - destruct H as [->|H]; [left; apply existsb_eqb_In; exact E|apply IH; exact H].
  - destruct H as [->|H]; [right; left; reflexivity|].
    destruct (IH (key doc y :: s) x H) as [[Hk|Hk]|Hk].
    + right. left. exact Hk.
    + left. exact Hk.
    + right. right. exact Hk.
Qed.

Lemma dedup_length l : forall s, (length (dedup_keys doc s l) <= length l)%nat.
Proof.
  induction l as [|y t IH]; intros s; cbn [dedup_keys length]; [lia|].
  destruct (existsb (N.eqb (key doc y)) s); [specialize (IH s)|specialize (IH (key doc y :: s))];
    cbn [length]; lia.
Qed.

Lemma dedup_all_seen l : forall s, (forall x, In x l -> In (key doc x) s) -> dedup_keys doc s l = [].
Proof.
  induction l as [|y t IH]; intros s H; cbn [dedup_keys]; [reflexivity|].
  assert (E : existsb (N.eqb (key doc y)) s = true) by (apply existsb_eqb_In; apply H; left; reflexivity).
  rewrite E. apply IH. intros x Hx. apply H. right. exact Hx.
Qed.

Lemma dedup_app l1 : forall s l2,
  dedup_keys doc s (l1 ++ l2) =
  dedup_keys doc s l1 ++ dedup_keys doc (map (key doc) (dedup_keys doc s l1) ++ s) l2.
Proof.
  induction l1 as [|y t IH]; intros s l2; cbn [app dedup_keys]; [reflexivity|].
  destruct (existsb (N.eqb (key doc y)) s); [apply IH|].
  cbn [app map]. f_equal. rewrite IH. f_equal. apply dedup_seen_ext.
  intros k. rewrite !in_app_iff. cbn [In]. rewrite in_app_iff. tauto.
Qed.

(** ** the result of a union *)
Theorem union_finish_sorted l : StronglySorted key_lt (union_finish doc l).
Proof.
  unfold union_finish. apply sorted_strict; [apply sort_sorted|].
  eapply Permutation_NoDup; [apply Permutation_map; apply sort_perm|]. apply dedup_nodup_keys.
Qed.

Lemma union_finish_incl l x : In x (union_finish doc l) -> In x l.
Proof.
  unfold union_finish. intros H. apply (proj1 (sort_in _ _)) in H. apply dedup_incl in H. apply H.
Qed.

Lemma union_finish_length l : (length (union_finish doc l) <= length l)%nat.
Proof. unfold union_finish. rewrite sort_length. apply dedup_length. Qed.

(** when keys identify the nodes of [l], nothing but repetitions is lost *)
Definition key_inj (l : list node) : Prop :=
  forall a b, In a l -> In b l -> key doc a = key doc b -> a = b.

Lemma union_finish_in l x : key_inj l -> In x l -> In x (union_finish doc l).
Proof.
  intros Hinj Hx. unfold union_finish. apply sort_in.
  destruct (dedup_keys_cover l [] x Hx) as [[]|Hk].
  apply in_map_iff in Hk. destruct Hk as [z [Ez Hz]].
  assert (z = x). { apply Hinj; [apply (dedup_incl _ _ _ Hz)|exact Hx|exact Ez]. }
  subst z. exact Hz.
Qed.

Lemma union_finish_idem_app l : union_finish doc (l ++ l) = union_finish doc l.
Proof.
  unfold union_finish. f_equal. rewrite dedup_app.
  rewrite (dedup_all_seen l (map (key doc) (dedup_keys doc [] l) ++ [])).
  - apply app_nil_r.
  - intros x Hx. apply in_or_app. left.
    destruct (dedup_keys_cover l [] x Hx) as [[]|Hk]. exact Hk.
Qed.

(** strictly key-sorted lists are determined by their elements *)
Lemma sorted_unique (l1 : list node) : forall l2,
  StronglySorted key_lt l1 -> StronglySorted key_lt l2 ->
  (forall x, In x l1 <-> In x l2) -> l1 = l2.
Proof.
  induction l1 as [|x t IH]; intros l2 H1 H2 Hin.
  - destruct l2 as [|y u]; [reflexivity|]. exfalso. apply (Hin y). left. reflexivity.
  - destruct l2 as [|y u]; [exfalso; apply (Hin x); left; reflexivity|].
    inversion H1 as [|x' t' Ht Hx]; subst. inversion H2 as [|y' u' Hu Hy]; subst.
    rewrite Forall_forall in Hx, Hy.
    assert (Exy : x = y).
    { assert (Hxin : In x (y :: u)) by (apply Hin; left; reflexivity).
      assert (Hyin : In y (x :: t)) by (apply Hin; left; reflexivity).
      destruct Hxin as [E|Hxu]; [symmetry; exact E|].
      destruct Hyin as [E|Hyt]; [exact E|].
      specialize (Hx y Hyt). specialize (Hy x Hxu). unfold key_lt in *. lia. }
    subst y. f_equal. apply IH; [exact Ht|exact Hu|].
    intros z. split; intros Hz.
    + assert (In z (x :: u)) by (apply Hin; right; exact Hz).
      destruct H as [E|H]; [|exact H]. subst z. specialize (Hx x Hz). unfold key_lt in Hx. lia.
    + assert (In z (x :: t)) by (apply Hin; right; exact Hz).
      destruct H as [E|H]; [|exact H]. subst z. specialize (Hy x Hz). unfold key_lt in Hy. lia.
Qed.

Lemma union_finish_same_elements l1 l2 :
  key_inj l1 -> key_inj l2 -> (forall x, In x l1 <-> In x l2) ->
  union_finish doc l1 = union_finish doc l2.
Proof.
  intros I1 I2 H. apply sorted_unique; try apply union_finish_sorted.
  intros x. split; intros Hx.
  - apply union_finish_in; [exact I2|]. apply H. apply union_finish_incl. exact Hx.
  - apply union_finish_in; [exact I1|]. apply H. apply union_finish_incl. exact Hx.
Qed.

(** a strictly sorted list is a fixed point *)
Lemma union_finish_fixed l : StronglySorted key_lt l -> union_finish doc l = l.
Proof.
  intros H. apply sorted_unique; [apply union_finish_sorted|exact H|].
  assert (Hinj : key_inj l).
  { clear -H. induction H as [|x t Ht IH Hx]; intros a b Ha Hb E; [destruct Ha|].
    rewrite Forall_forall in Hx.
    destruct Ha as [->|Ha], Hb as [->|Hb]; try reflexivity.
    - specialize (Hx b Hb). unfold key_lt in Hx. lia.
    - specialize (Hx a Ha). unfold key_lt in Hx. lia.
    - apply IH; assumption. }
  intros x. split; [apply union_finish_incl|apply union_finish_in; exact Hinj].
Qed.

(** ** the de-duplication after a step of a relative location path ([step_dedup]) *)
Lemma step_dedup_incl l : forall s x, In x (step_dedup_from doc s l) -> In x l.
Proof.
  induction l as [|y t IH]; intros s x H; cbn [step_dedup_from] in H; [destruct H|].
  destruct (key doc y =? 0).
  - destruct H as [->|H]; [left; reflexivity|right; apply (IH _ _ H)].
  - destruct (existsb (N.eqb (key doc y)) s).
    + right. apply (IH _ _ H).
    + destruct H as [->|H]; [left; reflexivity|right; apply (IH _ _ H)].
Qed.

(** every node of [l] is kept, or its key was seen before, or a node with its key is kept *)
Lemma step_dedup_cover l : forall s x, In x l ->
  In x (step_dedup_from doc s l) \/ In (key doc x) s \/
  exists y, In y (step_dedup_from doc s l) /\ In y l /\ key doc y = key doc x.
Proof.
  induction l as [|y t IH]; intros s x H; [destruct H|]. cbn [step_dedup_from].
  destruct (key doc y =? 0) eqn:E0.
  - destruct H as [->|H]; [left; left; reflexivity|].
    destruct (IH s x H) as [Hk|[Hk|[z [Hz [Hzt Ez]]]]].
    + left. right. exact Hk.
    + right. left. exact Hk.
    + right. right. exists z. split; [right; exact Hz|split; [right; exact Hzt|exact Ez]].
  - destruct (existsb (N.eqb (key doc y)) s) eqn:E.
    + destruct H as [->|H]; [right; left; apply existsb_eqb_In; exact E|].
      destruct (IH s x H) as [Hk|[Hk|[z [Hz [Hzt Ez]]]]].
      * left. exact Hk.
      * right. left. exact Hk.
      * right. right. exists z. split; [exact Hz|split; [right; exact Hzt|exact Ez]].
    + destruct H as [->|H]; [left; left; reflexivity|].
      destruct (IH (key doc y :: s) x H) as [Hk|[[Hk|Hk]|[z [Hz [Hzt Ez]]]]].
      * left. right. exact Hk.
      * right. right. exists y. split; [left; reflexivity|split; [left; reflexivity|exact Hk]].
      * right. left. exact Hk.
      * right. right. exists z. split; [right; exact Hz|split; [right; exact Hzt|exact Ez]].
Qed.

(** on a list whose keys identify its nodes the de-duplication keeps the set *)
Lemma step_dedup_in l x : key_inj l -> (In x (step_dedup doc l) <-> In x l).
Proof.
  intros Hinj. split; [apply step_dedup_incl|]. intros Hx. unfold step_dedup.
  destruct (step_dedup_cover l [] x Hx) as [H|[[]|[y [Hy [Hyl Ey]]]]]; [exact H|].
  assert (y = x) by (apply Hinj; assumption). subst y. exact Hy.
Qed.

(** with non-zero keys the kept nodes have pairwise distinct keys, none of them seen before *)
Lemma step_dedup_nodup_keys l : (forall x, In x l -> key doc x <> 0) -> forall s,
  NoDup (map (key doc) (step_dedup_from doc s l)) /\
  (forall x, In x (step_dedup_from doc s l) -> ~ In (key doc x) s).
Proof.
  induction l as [|y t IH]; intros Hnz s; cbn [step_dedup_from]; [split; [constructor|intros x []]|].
  assert (Hnzt : forall x, In x t -> key doc x <> 0) by (intros x Hx; apply Hnz; right; exact Hx).
  destruct (N.eqb_spec (key doc y) 0) as [E0|E0]; [exfalso; apply (Hnz y); [left; reflexivity|exact E0]|].
  destruct (existsb (N.eqb (key doc y)) s) eqn:E; [apply (IH Hnzt s)|].
  destruct (IH Hnzt (key doc y :: s)) as [IH1 IH2]. split.
  - cbn [map]. constructor; [|exact IH1]. intros Hin. apply in_map_iff in Hin. destruct Hin as [z [Ez Hz]].
    apply (IH2 z Hz). left. symmetry. exact Ez.
  - intros x [->|Hx].
    + intros Hin. apply existsb_eqb_In in Hin. congruence.
    + intros Hin. apply (IH2 x Hx). right. exact Hin.
Qed.

Lemma step_dedup_nodup l : (forall x, In x l -> key doc x <> 0) -> NoDup (step_dedup doc l).
Proof.
  intros Hnz. destruct (step_dedup_nodup_keys l Hnz []) as [H _]. unfold step_dedup.
  clear -H. induction (step_dedup_from doc [] l) as [|x t IH]; [constructor|].
  cbn [map] in H. inversion H as [|k ks Hk Hks]; subst. constructor; [|apply IH; exact Hks].
  intros Hin. apply Hk. apply in_map. exact Hin.
Qed.

Lemma step_dedup_length l : forall s, (length (step_dedup_from doc s l) <= length l)%nat.
Proof.
  induction l as [|y t IH]; intros s; cbn [step_dedup_from length]; [lia|].
  destruct (key doc y =? 0); [specialize (IH s); cbn [length]; lia|].
  destruct (existsb (N.eqb (key doc y)) s); [specialize (IH s)|specialize (IH (key doc y :: s))]; cbn [length]; lia.
Qed.

End Sort.
