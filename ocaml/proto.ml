(* Line-protocol driver around the extracted Coq model (gen/model.ml).
   Same protocol as harness/src/main.rs: `driver <domain>`, cases on stdin, one observation
   line per case on stdout.  Strings are decimal code points joined by ','; "-" is empty. *)

(* ---- conversions between OCaml ints/strings and the extracted inductives ---- *)
let rec pos_of_int (n : int) : positive =
  if n = 1 then XH else if n land 1 = 1 then XI (pos_of_int (n lsr 1)) else XO (pos_of_int (n lsr 1))
let n_of_int (n : int) : n = if n = 0 then N0 else Npos (pos_of_int n)
let rec int_of_pos (p : positive) : int =
  match p with XH -> 1 | XO q -> 2 * int_of_pos q | XI q -> 2 * int_of_pos q + 1
let int_of_n (x : n) : int = match x with N0 -> 0 | Npos p -> int_of_pos p

let dec (s : string) : n list =
  if s = "-" then [] else List.map (fun x -> n_of_int (int_of_string x)) (String.split_on_char ',' s)
let enc (l : n list) : string =
  if l = [] then "-" else String.concat "," (List.map (fun x -> string_of_int (int_of_n x)) l)
let ascii (l : n list) : string =
  String.concat "" (List.map (fun x -> String.make 1 (Char.chr (int_of_n x))) l)

let split_words (line : string) : string list =
  List.filter (fun s -> s <> "") (String.split_on_char ' ' line)


let main_loop (f : string list -> string) =
  (try
     while true do
       let line = input_line stdin in
       if line <> "" then begin
         let r = try f (split_words line) with Stack_overflow -> "stackoverflow" in
         print_endline r
       end
     done
   with End_of_file -> ())

(* ---- domain registry: a domain file calls [register] / [register_whole] at load time ---- *)
let case_domains : (string, string list -> string) Hashtbl.t = Hashtbl.create 16
let whole_domains : (string, unit -> unit) Hashtbl.t = Hashtbl.create 16
let register name f = Hashtbl.replace case_domains name f
(* same, but the function receives the raw input line *)
let line_domains : (string, string -> string) Hashtbl.t = Hashtbl.create 16
let register_line name f = Hashtbl.replace line_domains name f
let register_whole name f = Hashtbl.replace whole_domains name f

let main () =
  let domain = if Array.length Sys.argv > 1 then Sys.argv.(1) else "" in
  match Hashtbl.find_opt whole_domains domain with
  | Some f -> f ()
  | None ->
    match Hashtbl.find_opt case_domains domain with
    | Some f -> main_loop f
    | None ->
      match Hashtbl.find_opt line_domains domain with
      | Some f ->
        (try
           while true do
             let line = input_line stdin in
             if line <> "" then print_endline (try f line with Stack_overflow -> "stackoverflow")
           done
         with End_of_file -> ())
      | None -> (prerr_endline ("unknown domain " ^ domain); exit 2)
