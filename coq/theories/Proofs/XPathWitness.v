(** * Witnesses: the hypotheses of the evaluator theorems are satisfiable by non-trivial values, and
    the statements without those hypotheses are false on the faithful model (each witness is a
    dump of the real code, see Proofs/XPathExamples.v; the checks replay them on the implementation). *)
From Coq Require Import List NArith Bool Lia Sorting.Sorted.
From XmlRs Require Import Base.CPred Base.NList Base.Float64.
From XmlRs Require Import Model.XPathAst Model.XDoc Model.XDocCheck Model.XPathEval.
From XmlRs Require Import Proofs.XPathNav Proofs.XPathSort Proofs.XPathAstPred Proofs.XPathCanon
  Proofs.XPathDocCheck Proofs.XPathExamples Proofs.XPathUnion.
Import ListNotations.
Open Scope N_scope.

(** ** satisfiable hypotheses *)
Lemma ex_doc_inv : DocInv ex_doc.
Proof. apply doc_inv_b_sound. vm_compute. reflexivity. Qed.

Lemma ns_doc_inv : DocInv ns_doc.
Proof. apply doc_inv_b_sound. vm_compute. reflexivity. Qed.

(** a document with processing instructions (they have proper order keys since the dom fix D18) *)
Lemma pi_doc_inv : DocInv pi_doc.
Proof. apply doc_inv_b_sound. vm_compute. reflexivity. Qed.

(** a document with a DTD-default attribute is a well-formed table, but its keys are not in order *)
Lemma dtd_doc_wf : DocWf dtd_doc /\ doc_inv_b dtd_doc = false.
Proof. split; [apply doc_wf_b_sound; vm_compute; reflexivity|vm_compute; reflexivity]. Qed.

Lemma ex_good_root : good ex_doc doc_root.
Proof. split; [unfold valid; cbn; lia|vm_compute; discriminate]. Qed.

(** //e/following::* on <r a="1"><b>t<e/></b><c><f/></c><d/></r> selects c, f, d *)
Lemma ex_following : expr_total ex_doc_e0 = true /\ no_ns_axis ex_doc_e0 = true /\
  fst (query ex_doc ex_doc_e0 ctx_default) = Ok (XNodes [9; 11; 13]).
Proof. vm_compute. auto. Qed.

(** (//star)[2] counts in document order: the second element of the document is b *)
Lemma ex_filter_second : fst (query ex_doc ex_doc_e1 ctx_default) = Ok (XNodes [4]).
Proof. vm_compute. reflexivity. Qed.

(** //c | //b and //b | //c both give b, c *)
Lemma ex_union_both_orders :
  fst (query ex_doc ex_doc_e2 ctx_default) = Ok (XNodes [4; 9]) /\
  fst (query ex_doc ex_doc_e3 ctx_default) = Ok (XNodes [4; 9]).
Proof. vm_compute. auto. Qed.

(** //b[nosuch()] fails and leaves the context as it was *)
Lemma ex_error_restores :
  query ex_doc ex_doc_e4 ctx_default = (Err (XErrNotFoundFunction [110; 111; 115; 117; 99; 104]), ctx_default).
Proof. vm_compute. reflexivity. Qed.

(** /r/node() on <r><a/><?p x?><?q y?></r> lists a and the two PIs in document order; the sibling
    axis from a reaches both PIs (it did not terminate before the dom fixes D18/D21) *)
Lemma pi_examples :
  fst (query pi_doc pi_doc_e0 ctx_default) = Ok (XNodes [3; 5; 6]) /\
  fst (query pi_doc pi_doc_e4 ctx_default) = Ok (XNodes [5; 6]) /\
  fst (query pi_doc pi_doc_e5 ctx_default) = Ok (XNodes [6]).
Proof. vm_compute. auto. Qed.

(** unsupported constructs are errors or empty node-sets: $v, id("x") with and without a DTD;
    the parent of an attribute is its element (//@star/.. on <r a="1">...) *)
Lemma unsupported_examples :
  fst (query pi_doc pi_doc_e2 ctx_default) = Err (XErrNotFoundVariable [118]) /\
  fst (query pi_doc pi_doc_e6 ctx_default) = Ok (XNodes []) /\
  fst (query dtd_doc dtd_doc_e2 ctx_default) = Err (XErrNotFoundFunction [105; 100]) /\
  fst (query ex_doc pi_doc_e7 ctx_default) = Ok (XNodes [1]) /\
  expr_total pi_doc_e2 = true /\ expr_total pi_doc_e6 = true /\ expr_total pi_doc_e7 = true.
Proof. vm_compute. repeat split; reflexivity. Qed.

(** ** the namespace axis (D19): namespace nodes have key 0 or the key of an inherited declaration *)
Lemma ns_axis_not_canonical :
  fst (query ns_doc ns_doc_e0 ctx_default) = Ok (XNodes [3; 2]) /\
  ~ StronglySorted (doc_lt ns_doc) [3; 2] /\ no_ns_axis ns_doc_e0 = false.
Proof.
  split; [vm_compute; reflexivity|]. split; [|vm_compute; reflexivity].
  intros H. inversion H as [|a l Hl Ha]; subst. inversion Ha as [|b l' Hb _]; subst. unfold doc_lt in Hb. lia.
Qed.

Lemma ns_axis_union_not_commutative :
  fst (query ns_doc ns_doc_e1 ctx_default) = Ok (XNodes [3; 2]) /\
  fst (query ns_doc ns_doc_e2 ctx_default) = Ok (XNodes [5; 2]).
Proof. vm_compute. auto. Qed.

(** ** DTD-default attributes (D19): /r/@* on <!DOCTYPE r [<!ATTLIST r d CDATA "dv">]><r a="1"><b/></r>
    lists the default attribute d (key 0, row 5) before the specified attribute a (row 4) *)
Lemma default_attribute_not_canonical :
  fst (query dtd_doc dtd_doc_e0 ctx_default) = Ok (XNodes [5; 4]) /\
  ~ StronglySorted (doc_lt dtd_doc) [5; 4] /\ no_ns_axis dtd_doc_e0 = true.
Proof.
  split; [vm_compute; reflexivity|]. split; [|vm_compute; reflexivity].
  intros H. inversion H as [|a l Hl Ha]; subst. inversion Ha as [|b l' Hb _]; subst. unfold doc_lt in Hb. lia.
Qed.
