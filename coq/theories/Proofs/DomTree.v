(** * The tree invariant of a store and its preservation by the editing primitives

    [TreeInv s]: child / attribute lists and [parent_id] fields describe the same forest, lists have
    no duplicates, the allowed kinds are respected, parent chains are acyclic, ids are below the
    allocator, the only document item is the root and it has at most one element and one doctype
    child.  The three generic lemmas [detach_inv], [attach_inv], [create_inv] cover every way the
    model changes the shape of a store. *)
From Coq Require Import List NArith Bool Lia.
From XmlRs Require Import Base.CPred Model.Store Proofs.DomBase.
Import ListNotations.
Open Scope N_scope.

Definition par (s : store) (c p : id) : Prop :=
  exists cit, get s c = Some cit /\ iparent cit = Some p.

Definition lists (s : store) (p c : id) : Prop :=
  exists pit, get s p = Some pit /\ (In c (ichildren pit) \/ In c (iattrs pit)).

(** kinds a parent of kind [pk] accepts in its child list *)
Definition child_ok (pk ck : kind) : bool :=
  match pk with
  | KDoc => match ck with KCm | KPi | KDt | KEl => true | _ => false end
  | KEl => match ck with KCd | KCr | KCm | KEl | KPi | KTx | KEr => true | _ => false end
  | KAt => match ck with KCr | KTx | KEr => true | _ => false end
  | _ => false
  end.

Inductive anc (s : store) : id -> id -> Prop :=
| anc1 c p : par s c p -> anc s c p
| ancS c p a : par s c p -> anc s p a -> anc s c a.

Record TreeInv (s : store) : Prop := mkTreeInv {
  ti_bound : forall i it, get s i = Some it -> i < next s;
  ti_lists_par : forall p c, lists s p c -> par s c p;
  ti_par_lists : forall c p, par s c p -> lists s p c;
  ti_nodup_c : forall p pit, get s p = Some pit -> NoDup (ichildren pit);
  ti_nodup_a : forall p pit, get s p = Some pit -> NoDup (iattrs pit);
  ti_child_kind : forall p pit c cit, get s p = Some pit -> In c (ichildren pit) ->
                  get s c = Some cit -> child_ok (ikind pit) (ikind cit) = true;
  ti_attr_kind : forall p pit a ait, get s p = Some pit -> In a (iattrs pit) ->
                 get s a = Some ait -> ikind pit = KEl /\ ikind ait = KAt;
  ti_acyclic : forall i, ~ anc s i i;
  ti_root : exists rit, get s (sroot s) = Some rit /\ ikind rit = KDoc;
  ti_doc_root : forall i it, get s i = Some it -> ikind it = KDoc -> i = sroot s;
  ti_one_el : forall rit x y, get s (sroot s) = Some rit -> In x (ichildren rit) -> In y (ichildren rit) ->
              has_kind s KEl x = true -> has_kind s KEl y = true -> x = y;
  ti_one_dt : forall rit x y, get s (sroot s) = Some rit -> In x (ichildren rit) -> In y (ichildren rit) ->
              has_kind s KDt x = true -> has_kind s KDt y = true -> x = y
}.

(** ** consequences *)
Lemma par_fun s c p q : par s c p -> par s c q -> p = q.
Proof. intros [it [H1 H2]] [it' [H1' H2']]. congruence. Qed.

Lemma anc_trans s a b c : anc s a b -> anc s b c -> anc s a c.
Proof. induction 1 as [x p Hp | x p y Hp _ IH]; intros H2; [eapply ancS; eassumption | eapply ancS; [exact Hp | apply IH; exact H2]]. Qed.

Lemma anc_mono (s s' : store) : (forall c p, par s' c p -> par s c p) -> forall a b, anc s' a b -> anc s a b.
Proof.
  intros Hsub a b H. induction H as [c p Hp | c p a Hp _ IH].
  - apply anc1. apply Hsub. exact Hp.
  - eapply ancS; [apply Hsub; exact Hp | exact IH].
Qed.

Lemma child_ok_not_at pk ck : child_ok pk ck = true -> ck <> KAt /\ ck <> KDoc /\ ck <> KFr.
Proof. destruct pk, ck; cbn; intros H; try discriminate; repeat split; discriminate. Qed.

Lemma child_ok_container pk ck : child_ok pk ck = true -> container pk = true.
Proof. destruct pk, ck; cbn; intros H; try discriminate; reflexivity. Qed.

Section Consequences.
  Variable s : store.
  Hypothesis T : TreeInv s.

  Lemma lists_live_child p c : lists s p c -> exists cit, get s c = Some cit.
  Proof. intros H. destruct (ti_lists_par s T p c H) as [cit [Hc _]]. eauto. Qed.

  Lemma child_attr_disjoint p pit c : get s p = Some pit -> In c (ichildren pit) -> In c (iattrs pit) -> False.
  Proof.
    intros Hp Hc Ha.
    destruct (lists_live_child p c) as [cit Hcit]; [exists pit; split; [exact Hp | left; exact Hc]|].
    pose proof (ti_child_kind s T p pit c cit Hp Hc Hcit) as Hk.
    destruct (ti_attr_kind s T p pit c cit Hp Ha Hcit) as [_ Hat].
    apply child_ok_not_at in Hk. tauto.
  Qed.

  Lemma not_self_listed p : ~ lists s p p.
  Proof. intros H. apply (ti_acyclic s T p). apply anc1. apply (ti_lists_par s T). exact H. Qed.

  Lemma root_no_parent p : ~ par s (sroot s) p.
  Proof.
    intros H. pose proof (ti_par_lists s T _ _ H) as [pit [Hp [Hc|Ha]]].
    - destruct (ti_root s T) as [rit [Hr Hk]].
      pose proof (ti_child_kind s T p pit _ rit Hp Hc Hr) as Hok. rewrite Hk in Hok.
      apply child_ok_not_at in Hok. tauto.
    - destruct (ti_root s T) as [rit [Hr Hk]].
      destruct (ti_attr_kind s T p pit _ rit Hp Ha Hr) as [_ Hat]. congruence.
  Qed.

  Lemma no_parent_not_listed x xit p : get s x = Some xit -> iparent xit = None -> ~ lists s p x.
  Proof. intros Hx Hn H. destruct (ti_lists_par s T p x H) as [it [H1 H2]]. congruence. Qed.
End Consequences.

(** ** generic preservation lemmas *)

(** every update of the model keeps the kind of an item *)
Definition same_kind (a b : item) : Prop := ikind a = ikind b.

(** *** removing a set of nodes from the lists of one parent *)
Section Detach.
  Variables (s s' : store) (p : id) (pit : item) (l' a' : list id).
  Hypothesis T : TreeInv s.
  Hypothesis Hp : get s p = Some pit.
  Hypothesis Hnext : next s' = next s.
  Hypothesis Hroot : sroot s' = sroot s.
  Hypothesis Hl_sub : forall c, In c l' -> In c (ichildren pit).
  Hypothesis Ha_sub : forall c, In c a' -> In c (iattrs pit).
  Hypothesis Hl_nd : NoDup l'.
  Hypothesis Ha_nd : NoDup a'.

  Definition removed (x : id) : Prop :=
    (In x (ichildren pit) /\ ~ In x l') \/ (In x (iattrs pit) /\ ~ In x a').

  Hypothesis Hget_p : get s' p = Some (with_attrs a' (with_children l' pit)).
  Hypothesis Hget_rm : forall x, x <> p -> removed x -> get s' x = option_map (with_parent None) (get s x).
  Hypothesis Hget_other : forall x, x <> p -> ~ removed x -> get s' x = get s x.

  Lemma removed_dec x : removed x \/ ~ removed x.
  Proof.
    unfold removed.
    destruct (in_dec N.eq_dec x (ichildren pit)), (in_dec N.eq_dec x l'),
             (in_dec N.eq_dec x (iattrs pit)), (in_dec N.eq_dec x a'); tauto.
  Qed.

  Lemma removed_par x : removed x -> par s x p.
  Proof.
    intros H. apply (ti_lists_par s T). exists pit. split; [exact Hp|].
    destruct H as [[H _]|[H _]]; [left | right]; exact H.
  Qed.

  Lemma removed_ne x : removed x -> x <> p.
  Proof. intros H ->. apply (not_self_listed s T p). apply (ti_par_lists s T). apply removed_par. exact H. Qed.

  Lemma d_get_cases x :
       (x = p /\ get s' x = Some (with_attrs a' (with_children l' pit)))
    \/ (x <> p /\ removed x /\ get s' x = option_map (with_parent None) (get s x))
    \/ (x <> p /\ ~ removed x /\ get s' x = get s x).
  Proof.
    destruct (N.eq_dec x p) as [->|Hne].
    - left. split; [reflexivity | exact Hget_p].
    - destruct (removed_dec x) as [Hr|Hr].
      + right. left. repeat split; [assumption | assumption | apply Hget_rm; assumption].
      + right. right. repeat split; [assumption | assumption | apply Hget_other; assumption].
  Qed.

  Lemma d_kind x it' : get s' x = Some it' -> exists it, get s x = Some it /\ ikind it = ikind it'
                                             /\ iparent it' = (if N.eq_dec x p then iparent it else iparent it') .
  Proof.
    intros H. destruct (d_get_cases x) as [[-> HC]|[[Hne [Hr HC]]|[Hne [Hr HC]]]]; rewrite HC in H.
    - inversion H; subst it'. exists pit. split; [exact Hp|]. split; [reflexivity|].
      destruct (N.eq_dec p p); [reflexivity | contradiction].
    - destruct (get s x) as [it|] eqn:E; cbn in H; [|discriminate]. inversion H; subst it'.
      exists it. split; [reflexivity|]. split; [reflexivity|]. destruct (N.eq_dec x p); [contradiction | reflexivity].
    - exists it'. split; [exact H|]. split; [reflexivity|]. destruct (N.eq_dec x p); [contradiction | reflexivity].
  Qed.

  Lemma d_live x it' : get s' x = Some it' -> exists it, get s x = Some it /\ ikind it = ikind it'.
  Proof. intros H. destruct (d_kind x it' H) as [it [H1 [H2 _]]]. eauto. Qed.

  Lemma d_has_kind k x : has_kind s' k x = has_kind s k x.
  Proof.
    unfold has_kind.
    destruct (d_get_cases x) as [[-> HC]|[[Hne [Hr HC]]|[Hne [Hr HC]]]]; rewrite HC.
    - rewrite Hp. reflexivity.
    - destruct (get s x); reflexivity.
    - reflexivity.
  Qed.

  Lemma d_par c q : par s' c q <-> par s c q /\ ~ removed c.
  Proof.
    unfold par.
    destruct (d_get_cases c) as [[-> HC]|[[Hne [Hr HC]]|[Hne [Hr HC]]]]; rewrite HC.
    - split.
      + intros [cit [H1 H2]]. inversion H1; subst cit. cbn in H2. split.
        * exists pit. split; assumption.
        * intros Hr. apply (removed_ne p Hr). reflexivity.
      + intros [[cit [H1 H2]] _]. rewrite Hp in H1. inversion H1; subst cit.
        eexists. split; [reflexivity | exact H2].
    - split.
      + intros [cit [H1 H2]]. destruct (get s c); cbn in H1; [|discriminate]. inversion H1; subst cit. cbn in H2. discriminate.
      + intros [_ Hn]. contradiction.
    - split.
      + intros H. split; [exact H | exact Hr].
      + intros [H _]. exact H.
  Qed.

  Lemma d_lists q c : lists s' q c <-> lists s q c /\ ~ (q = p /\ removed c).
  Proof.
    unfold lists.
    destruct (d_get_cases q) as [[-> HC]|[[Hne [Hr HC]]|[Hne [Hr HC]]]]; rewrite HC.
    - split.
      + intros [it [H1 H2]]. inversion H1; subst it. cbn in H2. split.
        * exists pit. split; [exact Hp|]. destruct H2 as [H2|H2]; [left; apply Hl_sub | right; apply Ha_sub]; exact H2.
        * intros [_ [[Hin Hnot]|[Hin Hnot]]].
          -- destruct H2 as [H2|H2]; [contradiction|].
             eapply (child_attr_disjoint s T p pit c Hp Hin). apply Ha_sub. exact H2.
          -- destruct H2 as [H2|H2]; [|contradiction].
             eapply (child_attr_disjoint s T p pit c Hp); [apply Hl_sub; exact H2 | exact Hin].
      + intros [[it [H1 H2]] Hn]. rewrite Hp in H1. inversion H1; subst it.
        eexists. split; [reflexivity|]. cbn.
        destruct H2 as [H2|H2].
        * destruct (in_dec N.eq_dec c l') as [Hi|Hi]; [left; exact Hi|].
          exfalso. apply Hn. split; [reflexivity|]. left. split; assumption.
        * destruct (in_dec N.eq_dec c a') as [Hi|Hi]; [right; exact Hi|].
          exfalso. apply Hn. split; [reflexivity|]. right. split; assumption.
    - split.
      + intros [it [H1 H2]]. destruct (get s q) as [qit|]; cbn in H1; [|discriminate]. inversion H1; subst it. cbn in H2.
        split; [exists qit; split; [reflexivity | exact H2] | intros [Heq _]; contradiction].
      + intros [[it [H1 H2]] _]. rewrite H1. cbn. eexists. split; [reflexivity | exact H2].
    - split.
      + intros H. split; [exact H | intros [Heq _]; contradiction].
      + intros [H _]. exact H.
  Qed.

  Theorem detach_inv : TreeInv s'.
  Proof.
    constructor.
    - intros i it H. rewrite Hnext. destruct (d_live i it H) as [it0 [H0 _]]. eapply (ti_bound s T); eassumption.
    - intros q c H. apply d_lists in H. destruct H as [H Hn]. apply d_par. split; [apply (ti_lists_par s T); exact H|].
      intros Hr. apply Hn. split; [|exact Hr].
      eapply par_fun; [apply (ti_lists_par s T); exact H | apply removed_par; exact Hr].
    - intros c q H. apply d_par in H. destruct H as [H Hn]. apply d_lists. split; [apply (ti_par_lists s T); exact H|].
      intros [_ Hr]. contradiction.
    - intros q qit H.
      destruct (d_get_cases q) as [[-> HC]|[[Hne [Hr HC]]|[Hne [Hr HC]]]]; rewrite HC in H.
      + inversion H; subst qit. cbn. exact Hl_nd.
      + destruct (get s q) as [it|] eqn:E; cbn in H; [|discriminate]. inversion H; subst qit. cbn. eapply (ti_nodup_c s T); eassumption.
      + eapply (ti_nodup_c s T); eassumption.
    - intros q qit H.
      destruct (d_get_cases q) as [[-> HC]|[[Hne [Hr HC]]|[Hne [Hr HC]]]]; rewrite HC in H.
      + inversion H; subst qit. cbn. exact Ha_nd.
      + destruct (get s q) as [it|] eqn:E; cbn in H; [|discriminate]. inversion H; subst qit. cbn. eapply (ti_nodup_a s T); eassumption.
      + eapply (ti_nodup_a s T); eassumption.
    - intros q qit c cit Hq Hin Hc.
      assert (Hl : lists s' q c) by (exists qit; split; [exact Hq | left; exact Hin]).
      destruct (d_live c cit Hc) as [cit0 [Hc0 Hk0]]. rewrite <- Hk0.
      destruct (d_get_cases q) as [[-> HC]|[[Hne [Hr HC]]|[Hne [Hr HC]]]]; rewrite HC in Hq.
      + inversion Hq; subst qit. cbn in *. eapply (ti_child_kind s T p pit); [exact Hp | apply Hl_sub; exact Hin | exact Hc0].
      + destruct (get s q) as [it|] eqn:E; cbn in Hq; [|discriminate]. inversion Hq; subst qit. cbn in *.
        eapply (ti_child_kind s T q it); eassumption.
      + eapply (ti_child_kind s T q qit); eassumption.
    - intros q qit c cit Hq Hin Hc.
      destruct (d_live c cit Hc) as [cit0 [Hc0 Hk0]]. rewrite <- Hk0.
      destruct (d_get_cases q) as [[-> HC]|[[Hne [Hr HC]]|[Hne [Hr HC]]]]; rewrite HC in Hq.
      + inversion Hq; subst qit. cbn in *. eapply (ti_attr_kind s T p pit); [exact Hp | apply Ha_sub; exact Hin | exact Hc0].
      + destruct (get s q) as [it|] eqn:E; cbn in Hq; [|discriminate]. inversion Hq; subst qit. cbn in *.
        eapply (ti_attr_kind s T q it); eassumption.
      + eapply (ti_attr_kind s T q qit); eassumption.
    - intros i H. apply (ti_acyclic s T i). eapply anc_mono; [|exact H]. intros c q Hpar. apply d_par in Hpar. tauto.
    - rewrite Hroot. destruct (ti_root s T) as [rit [Hr Hk]].
      destruct (d_get_cases (sroot s)) as [[Heq HC]|[[Hne [Hrm HC]]|[Hne [Hrm HC]]]]; rewrite HC.
      + eexists. split; [reflexivity|]. cbn. rewrite <- Heq in Hp. congruence.
      + rewrite Hr. cbn. eexists. split; [reflexivity | exact Hk].
      + exists rit. split; assumption.
    - intros i it H Hk. rewrite Hroot. destruct (d_live i it H) as [it0 [H0 Hk0]]. eapply (ti_doc_root s T); [exact H0 | congruence].
    - intros rit x y Hr Hx Hy Hkx Hky. rewrite Hroot in Hr. rewrite d_has_kind in Hkx, Hky.
      destruct (ti_root s T) as [rit0 [Hr0 _]].
      assert (Hsub : forall z, In z (ichildren rit) -> In z (ichildren rit0)).
      { intros z Hz.
        destruct (d_get_cases (sroot s)) as [[Heq HC]|[[Hne [Hrm HC]]|[Hne [Hrm HC]]]]; rewrite HC in Hr.
        - inversion Hr; subst rit. cbn in Hz. rewrite <- Heq in Hp. rewrite Hp in Hr0. inversion Hr0; subst. apply Hl_sub. exact Hz.
        - rewrite Hr0 in Hr. cbn in Hr. inversion Hr; subst rit. exact Hz.
        - rewrite Hr0 in Hr. inversion Hr; subst. exact Hz. }
      eapply (ti_one_el s T rit0); eauto.
    - intros rit x y Hr Hx Hy Hkx Hky. rewrite Hroot in Hr. rewrite d_has_kind in Hkx, Hky.
      destruct (ti_root s T) as [rit0 [Hr0 _]].
      assert (Hsub : forall z, In z (ichildren rit) -> In z (ichildren rit0)).
      { intros z Hz.
        destruct (d_get_cases (sroot s)) as [[Heq HC]|[[Hne [Hrm HC]]|[Hne [Hrm HC]]]]; rewrite HC in Hr.
        - inversion Hr; subst rit. cbn in Hz. rewrite <- Heq in Hp. rewrite Hp in Hr0. inversion Hr0; subst. apply Hl_sub. exact Hz.
        - rewrite Hr0 in Hr. cbn in Hr. inversion Hr; subst rit. exact Hz.
        - rewrite Hr0 in Hr. inversion Hr; subst. exact Hz. }
      eapply (ti_one_dt s T rit0); eauto.
  Qed.
End Detach.

(** *** putting one parentless node into a list of a parent *)
Section Attach.
  Variables (s s' : store) (p x : id) (pit xit : item) (l' a' : list id).
  Hypothesis T : TreeInv s.
  Hypothesis Hp : get s p = Some pit.
  Hypothesis Hx : get s x = Some xit.
  Hypothesis Hne : x <> p.
  Hypothesis Hnopar : iparent xit = None.
  Hypothesis Hnoanc : ~ anc s p x.
  Hypothesis Hnext : next s' = next s.
  Hypothesis Hroot : sroot s' = sroot s.
  Hypothesis Hget_p : get s' p = Some (with_attrs a' (with_children l' pit)).
  Hypothesis Hget_x : get s' x = Some (with_parent (Some p) xit).
  Hypothesis Hget_other : forall y, y <> p -> y <> x -> get s' y = get s y.
  Hypothesis Hl_in : forall y, In y l' -> y = x \/ In y (ichildren pit).
  Hypothesis Hl_old : forall y, In y (ichildren pit) -> In y l'.
  Hypothesis Ha_in : forall y, In y a' -> y = x \/ In y (iattrs pit).
  Hypothesis Ha_old : forall y, In y (iattrs pit) -> In y a'.
  Hypothesis Hx_in : In x l' \/ In x a'.
  Hypothesis Hl_nd : NoDup l'.
  Hypothesis Ha_nd : NoDup a'.
  Hypothesis Hkind_c : In x l' -> child_ok (ikind pit) (ikind xit) = true.
  Hypothesis Hkind_a : In x a' -> ikind pit = KEl /\ ikind xit = KAt.
  Hypothesis Hdoc_el : In x l' -> p = sroot s -> ikind xit = KEl ->
                       forall y, In y (ichildren pit) -> has_kind s KEl y = false.
  Hypothesis Hdoc_dt : In x l' -> p = sroot s -> ikind xit = KDt ->
                       forall y, In y (ichildren pit) -> has_kind s KDt y = false.

  Lemma a_get_cases y :
       (y = p /\ get s' y = Some (with_attrs a' (with_children l' pit)))
    \/ (y = x /\ get s' y = Some (with_parent (Some p) xit))
    \/ (y <> p /\ y <> x /\ get s' y = get s y).
  Proof.
    destruct (N.eq_dec y p) as [->|H1]; [left; split; [reflexivity | exact Hget_p]|].
    destruct (N.eq_dec y x) as [->|H2]; [right; left; split; [reflexivity | exact Hget_x]|].
    right. right. repeat split; [assumption | assumption | apply Hget_other; assumption].
  Qed.

  Lemma a_live y it' : get s' y = Some it' ->
    exists it, get s y = Some it /\ ikind it = ikind it'.
  Proof.
    intros H. destruct (a_get_cases y) as [[-> HC]|[[-> HC]|[H1 [H2 HC]]]]; rewrite HC in H.
    - inversion H; subst it'. exists pit. split; [exact Hp | reflexivity].
    - inversion H; subst it'. exists xit. split; [exact Hx | reflexivity].
    - exists it'. split; [exact H | reflexivity].
  Qed.

  Lemma a_has_kind k y : has_kind s' k y = has_kind s k y.
  Proof.
    unfold has_kind. destruct (a_get_cases y) as [[-> HC]|[[-> HC]|[H1 [H2 HC]]]]; rewrite HC.
    - rewrite Hp. reflexivity.
    - rewrite Hx. reflexivity.
    - reflexivity.
  Qed.

  Lemma a_par c q : par s' c q <-> par s c q \/ (c = x /\ q = p).
  Proof.
    unfold par. destruct (a_get_cases c) as [[-> HC]|[[-> HC]|[H1 [H2 HC]]]]; rewrite HC.
    - split.
      + intros [it [E1 E2]]. inversion E1; subst it. cbn in E2. left. exists pit. split; assumption.
      + intros [[it [E1 E2]]|[E _]]; [|symmetry in E; contradiction].
        rewrite Hp in E1. inversion E1; subst it. eexists. split; [reflexivity | exact E2].
    - split.
      + intros [it [E1 E2]]. inversion E1; subst it. cbn in E2. inversion E2. right. split; reflexivity.
      + intros [[it [E1 E2]]|[_ ->]].
        * rewrite Hx in E1. inversion E1; subst it. congruence.
        * eexists. split; reflexivity.
    - split.
      + intros H. left. exact H.
      + intros [H|[E _]]; [exact H | contradiction].
  Qed.

  Lemma a_lists q c : lists s' q c <-> lists s q c \/ (q = p /\ c = x).
  Proof.
    unfold lists. destruct (a_get_cases q) as [[-> HC]|[[-> HC]|[H1 [H2 HC]]]]; rewrite HC.
    - split.
      + intros [it [E1 E2]]. inversion E1; subst it. cbn in E2.
        destruct E2 as [E2|E2].
        * destruct (Hl_in c E2) as [->|Hin]; [right; split; reflexivity | left; exists pit; split; [exact Hp | left; exact Hin]].
        * destruct (Ha_in c E2) as [->|Hin]; [right; split; reflexivity | left; exists pit; split; [exact Hp | right; exact Hin]].
      + intros [[it [E1 E2]]|[_ ->]].
        * rewrite Hp in E1. inversion E1; subst it. eexists. split; [reflexivity|]. cbn.
          destruct E2 as [E2|E2]; [left; apply Hl_old | right; apply Ha_old]; exact E2.
        * eexists. split; [reflexivity|]. cbn. exact Hx_in.
    - split.
      + intros [it [E1 E2]]. inversion E1; subst it. cbn in E2. left. exists xit. split; assumption.
      + intros [[it [E1 E2]]|[E _]]; [|contradiction].
        rewrite Hx in E1. inversion E1; subst it. eexists. split; [reflexivity | exact E2].
    - split.
      + intros H. left. exact H.
      + intros [H|[E _]]; [exact H | contradiction].
  Qed.

  Lemma a_anc i j : anc s' i j -> anc s i j \/ ((i = x \/ anc s i x) /\ (j = p \/ anc s p j)).
  Proof.
    induction 1 as [c q Hpar | c q a Hpar _ IH].
    - apply a_par in Hpar. destruct Hpar as [Hpar|[-> ->]].
      + left. apply anc1. exact Hpar.
      + right. split; left; reflexivity.
    - apply a_par in Hpar. destruct Hpar as [Hpar|[-> ->]].
      + destruct IH as [IH|[[->|IH1] IH2]].
        * left. eapply ancS; eassumption.
        * right. split; [right; apply anc1; exact Hpar | exact IH2].
        * right. split; [right; eapply ancS; eassumption | exact IH2].
      + destruct IH as [IH|[[E|IH1] IH2]].
        * right. split; [left; reflexivity | right; exact IH].
        * exfalso. apply Hne. symmetry. exact E.
        * contradiction.
  Qed.

  Lemma x_not_root : x <> sroot s.
  Proof.
    intros ->. destruct (ti_root s T) as [rit [Hr Hk]]. rewrite Hx in Hr. inversion Hr; subst rit.
    destruct Hx_in as [H|H].
    - apply Hkind_c in H. rewrite Hk in H. apply child_ok_not_at in H. tauto.
    - apply Hkind_a in H. destruct H as [_ H]. congruence.
  Qed.

  Theorem attach_inv : TreeInv s'.
  Proof.
    constructor.
    - intros i it H. rewrite Hnext. destruct (a_live i it H) as [it0 [H0 _]]. eapply (ti_bound s T); eassumption.
    - intros q c H. apply a_lists in H. apply a_par. destruct H as [H|[-> ->]].
      + left. apply (ti_lists_par s T). exact H.
      + right. split; reflexivity.
    - intros c q H. apply a_par in H. apply a_lists. destruct H as [H|[-> ->]].
      + left. apply (ti_par_lists s T). exact H.
      + right. split; reflexivity.
    - intros q qit H. destruct (a_get_cases q) as [[-> HC]|[[-> HC]|[H1 [H2 HC]]]]; rewrite HC in H.
      + inversion H; subst qit. cbn. exact Hl_nd.
      + inversion H; subst qit. cbn. eapply (ti_nodup_c s T); eassumption.
      + eapply (ti_nodup_c s T); eassumption.
    - intros q qit H. destruct (a_get_cases q) as [[-> HC]|[[-> HC]|[H1 [H2 HC]]]]; rewrite HC in H.
      + inversion H; subst qit. cbn. exact Ha_nd.
      + inversion H; subst qit. cbn. eapply (ti_nodup_a s T); eassumption.
      + eapply (ti_nodup_a s T); eassumption.
    - intros q qit c cit Hq Hin Hc.
      destruct (a_live c cit Hc) as [cit0 [Hc0 Hk0]]. rewrite <- Hk0.
      destruct (a_get_cases q) as [[-> HC]|[[-> HC]|[H1 [H2 HC]]]]; rewrite HC in Hq.
      + inversion Hq; subst qit. cbn in *. destruct (Hl_in c Hin) as [->|Hold].
        * rewrite Hx in Hc0. inversion Hc0; subst cit0. apply Hkind_c. exact Hin.
        * eapply (ti_child_kind s T p pit); eassumption.
      + inversion Hq; subst qit. cbn in *. eapply (ti_child_kind s T x xit); eassumption.
      + eapply (ti_child_kind s T q qit); eassumption.
    - intros q qit c cit Hq Hin Hc.
      destruct (a_live c cit Hc) as [cit0 [Hc0 Hk0]]. rewrite <- Hk0.
      destruct (a_get_cases q) as [[-> HC]|[[-> HC]|[H1 [H2 HC]]]]; rewrite HC in Hq.
      + inversion Hq; subst qit. cbn in *. destruct (Ha_in c Hin) as [->|Hold].
        * rewrite Hx in Hc0. inversion Hc0; subst cit0. apply Hkind_a. exact Hin.
        * eapply (ti_attr_kind s T p pit); eassumption.
      + inversion Hq; subst qit. cbn in *. eapply (ti_attr_kind s T x xit); eassumption.
      + eapply (ti_attr_kind s T q qit); eassumption.
    - intros i H. apply a_anc in H. destruct H as [H|[[->|H1] [E|H2]]].
      + apply (ti_acyclic s T i). exact H.
      + contradiction.
      + contradiction.
      + subst i. contradiction.
      + apply Hnoanc. eapply anc_trans; eassumption.
    - rewrite Hroot. destruct (ti_root s T) as [rit [Hr Hk]].
      destruct (a_get_cases (sroot s)) as [[E HC]|[[E HC]|[H1 [H2 HC]]]]; rewrite HC.
      + eexists. split; [reflexivity|]. cbn. rewrite <- E in Hp. congruence.
      + exfalso. apply x_not_root. symmetry. exact E.
      + exists rit. split; assumption.
    - intros i it H Hk. rewrite Hroot. destruct (a_live i it H) as [it0 [H0 Hk0]]. eapply (ti_doc_root s T); [exact H0 | congruence].
    - intros rit y z Hr Hy Hz Hky Hkz. rewrite Hroot in Hr. rewrite a_has_kind in Hky, Hkz.
      destruct (ti_root s T) as [rit0 [Hr0 _]].
      destruct (a_get_cases (sroot s)) as [[E HC]|[[E HC]|[H1 [H2 HC]]]]; rewrite HC in Hr.
      + inversion Hr; subst rit. cbn in Hy, Hz. rewrite <- E in Hp. rewrite Hp in Hr0. inversion Hr0; subst rit0.
        assert (Hxk : forall w, w = x -> has_kind s KEl w = true -> ikind xit = KEl).
        { intros w -> Hw. unfold has_kind in Hw. rewrite Hx in Hw. destruct (kind_eqb_spec (ikind xit) KEl); [assumption | discriminate]. }
        destruct (Hl_in y Hy) as [Ey|Oy], (Hl_in z Hz) as [Ez|Oz].
        * congruence.
        * exfalso. subst y. rewrite (Hdoc_el Hy (eq_sym E) (Hxk x eq_refl Hky) z Oz) in Hkz. discriminate.
        * exfalso. subst z. rewrite (Hdoc_el Hz (eq_sym E) (Hxk x eq_refl Hkz) y Oy) in Hky. discriminate.
        * eapply (ti_one_el s T pit); eauto.
      + exfalso. apply x_not_root. symmetry. exact E.
      + rewrite Hr0 in Hr. inversion Hr; subst rit0. eapply (ti_one_el s T rit); eauto.
    - intros rit y z Hr Hy Hz Hky Hkz. rewrite Hroot in Hr. rewrite a_has_kind in Hky, Hkz.
      destruct (ti_root s T) as [rit0 [Hr0 _]].
      destruct (a_get_cases (sroot s)) as [[E HC]|[[E HC]|[H1 [H2 HC]]]]; rewrite HC in Hr.
      + inversion Hr; subst rit. cbn in Hy, Hz. rewrite <- E in Hp. rewrite Hp in Hr0. inversion Hr0; subst rit0.
        assert (Hxk : forall w, w = x -> has_kind s KDt w = true -> ikind xit = KDt).
        { intros w -> Hw. unfold has_kind in Hw. rewrite Hx in Hw. destruct (kind_eqb_spec (ikind xit) KDt); [assumption | discriminate]. }
        destruct (Hl_in y Hy) as [Ey|Oy], (Hl_in z Hz) as [Ez|Oz].
        * congruence.
        * exfalso. subst y. rewrite (Hdoc_dt Hy (eq_sym E) (Hxk x eq_refl Hky) z Oz) in Hkz. discriminate.
        * exfalso. subst z. rewrite (Hdoc_dt Hz (eq_sym E) (Hxk x eq_refl Hkz) y Oy) in Hky. discriminate.
        * eapply (ti_one_dt s T pit); eauto.
      + exfalso. apply x_not_root. symmetry. exact E.
      + rewrite Hr0 in Hr. inversion Hr; subst rit0. eapply (ti_one_dt s T rit); eauto.
  Qed.
End Attach.

(** *** changes that keep kind, parent and lists of every item (data, flags, order vector) *)
Definition shape_eq (a b : item) : Prop :=
  ikind a = ikind b /\ iparent a = iparent b /\ ichildren a = ichildren b /\ iattrs a = iattrs b.

Definition shape_rel (s s' : store) : Prop :=
  forall i, match get s i, get s' i with
            | Some a, Some b => shape_eq a b
            | None, None => True
            | _, _ => False
            end.

Lemma shape_rel_refl s : shape_rel s s.
Proof. intros i. destruct (get s i); [repeat split | exact I]. Qed.

Section Shape.
  Variables s s' : store.
  Hypothesis T : TreeInv s.
  Hypothesis R : shape_rel s s'.
  Hypothesis Hnext : next s' = next s.
  Hypothesis Hroot : sroot s' = sroot s.

  Lemma sh_back i it' : get s' i = Some it' -> exists it, get s i = Some it /\ shape_eq it it'.
  Proof. intros H. specialize (R i). rewrite H in R. destruct (get s i) as [it|]; [exists it; split; [reflexivity | exact R] | contradiction]. Qed.

  Lemma sh_fwd i it : get s i = Some it -> exists it', get s' i = Some it' /\ shape_eq it it'.
  Proof. intros H. specialize (R i). rewrite H in R. destruct (get s' i) as [it'|]; [exists it'; split; [reflexivity | exact R] | contradiction]. Qed.

  Lemma sh_par c q : par s' c q <-> par s c q.
  Proof.
    split; intros [it [H1 H2]].
    - destruct (sh_back c it H1) as [it0 [H0 [_ [Hp _]]]]. exists it0. split; [exact H0 | congruence].
    - destruct (sh_fwd c it H1) as [it0 [H0 [_ [Hp _]]]]. exists it0. split; [exact H0 | congruence].
  Qed.

  Lemma sh_lists q c : lists s' q c <-> lists s q c.
  Proof.
    split; intros [it [H1 H2]].
    - destruct (sh_back q it H1) as [it0 [H0 [_ [_ [Hc Ha]]]]]. exists it0. split; [exact H0 | rewrite Hc, Ha; exact H2].
    - destruct (sh_fwd q it H1) as [it0 [H0 [_ [_ [Hc Ha]]]]]. exists it0. split; [exact H0 | rewrite <- Hc, <- Ha; exact H2].
  Qed.

  Lemma sh_has_kind k x : has_kind s' k x = has_kind s k x.
  Proof.
    unfold has_kind. specialize (R x). destruct (get s x) as [a|], (get s' x) as [b|]; try contradiction; [|reflexivity].
    destruct R as [Hk _]. rewrite Hk. reflexivity.
  Qed.

  Theorem shape_inv : TreeInv s'.
  Proof.
    constructor.
    - intros i it H. rewrite Hnext. destruct (sh_back i it H) as [it0 [H0 _]]. eapply (ti_bound s T); eassumption.
    - intros q c H. apply sh_par. apply (ti_lists_par s T). apply sh_lists. exact H.
    - intros c q H. apply sh_lists. apply (ti_par_lists s T). apply sh_par. exact H.
    - intros q qit H. destruct (sh_back q qit H) as [it0 [H0 [_ [_ [Hc _]]]]]. rewrite <- Hc. eapply (ti_nodup_c s T); eassumption.
    - intros q qit H. destruct (sh_back q qit H) as [it0 [H0 [_ [_ [_ Ha]]]]]. rewrite <- Ha. eapply (ti_nodup_a s T); eassumption.
    - intros q qit c cit Hq Hin Hc.
      destruct (sh_back q qit Hq) as [q0 [Hq0 [Hk [_ [Hch _]]]]]. destruct (sh_back c cit Hc) as [c0 [Hc0 [Hkc _]]].
      rewrite <- Hk, <- Hkc. eapply (ti_child_kind s T q q0); [exact Hq0 | rewrite Hch; exact Hin | exact Hc0].
    - intros q qit c cit Hq Hin Hc.
      destruct (sh_back q qit Hq) as [q0 [Hq0 [Hk [_ [_ Hat]]]]]. destruct (sh_back c cit Hc) as [c0 [Hc0 [Hkc _]]].
      rewrite <- Hk, <- Hkc. eapply (ti_attr_kind s T q q0); [exact Hq0 | rewrite Hat; exact Hin | exact Hc0].
    - intros i H. apply (ti_acyclic s T i). eapply anc_mono; [|exact H]. intros c q Hp. apply sh_par. exact Hp.
    - rewrite Hroot. destruct (ti_root s T) as [rit [Hr Hk]]. destruct (sh_fwd _ rit Hr) as [r' [Hr' [Hk' _]]].
      exists r'. split; [exact Hr' | congruence].
    - intros i it H Hk. rewrite Hroot. destruct (sh_back i it H) as [it0 [H0 [Hk0 _]]]. eapply (ti_doc_root s T); [exact H0 | congruence].
    - intros rit x y Hr Hx Hy Hkx Hky. rewrite Hroot in Hr. rewrite sh_has_kind in Hkx, Hky.
      destruct (sh_back _ rit Hr) as [r0 [Hr0 [_ [_ [Hc _]]]]]. rewrite <- Hc in Hx, Hy. eapply (ti_one_el s T r0); eauto.
    - intros rit x y Hr Hx Hy Hkx Hky. rewrite Hroot in Hr. rewrite sh_has_kind in Hkx, Hky.
      destruct (sh_back _ rit Hr) as [r0 [Hr0 [_ [_ [Hc _]]]]]. rewrite <- Hc in Hx, Hy. eapply (ti_one_dt s T r0); eauto.
  Qed.
End Shape.

(** *** a new isolated node *)
Section Create.
  Variables (s s' : store) (it : item).
  Hypothesis T : TreeInv s.
  Hypothesis Hnext : next s' = next s + 1.
  Hypothesis Hroot : sroot s' = sroot s.
  Hypothesis Hnew : get s' (next s) = Some it.
  Hypothesis Hold : forall i, i <> next s -> get s' i = get s i.
  Hypothesis Hpar : iparent it = None.
  Hypothesis Hch : ichildren it = [].
  Hypothesis Hat : iattrs it = [].
  Hypothesis Hk : ikind it <> KDoc.

  Lemma fresh_dead : get s (next s) = None.
  Proof. destruct (get s (next s)) as [x|] eqn:E; [|reflexivity]. pose proof (ti_bound s T _ _ E). lia. Qed.

  Lemma c_par c q : par s' c q <-> par s c q.
  Proof.
    unfold par. destruct (N.eq_dec c (next s)) as [->|Hne].
    - rewrite Hnew, fresh_dead. split; intros [x [H1 H2]]; [inversion H1; subst; congruence | discriminate].
    - rewrite (Hold c Hne). tauto.
  Qed.

  Lemma c_lists q c : lists s' q c <-> lists s q c.
  Proof.
    unfold lists. destruct (N.eq_dec q (next s)) as [->|Hne].
    - rewrite Hnew, fresh_dead. split; intros [x [H1 H2]]; [inversion H1; subst; rewrite Hch, Hat in H2; cbn in H2; tauto | discriminate].
    - rewrite (Hold q Hne). tauto.
  Qed.

  Lemma c_has_kind k x : x <> next s -> has_kind s' k x = has_kind s k x.
  Proof. intros Hne. unfold has_kind. rewrite (Hold x Hne). reflexivity. Qed.

  Lemma c_root_old : sroot s <> next s.
  Proof. destruct (ti_root s T) as [rit [Hr _]]. intros E. rewrite E, fresh_dead in Hr. discriminate. Qed.

  Theorem create_inv : TreeInv s'.
  Proof.
    constructor.
    - intros i x H. rewrite Hnext. destruct (N.eq_dec i (next s)) as [->|Hne]; [lia|].
      rewrite (Hold i Hne) in H. pose proof (ti_bound s T _ _ H). lia.
    - intros q c H. apply c_par. apply (ti_lists_par s T). apply c_lists. exact H.
    - intros c q H. apply c_lists. apply (ti_par_lists s T). apply c_par. exact H.
    - intros q qit H. destruct (N.eq_dec q (next s)) as [->|Hne].
      + rewrite Hnew in H. inversion H; subst. rewrite Hch. constructor.
      + rewrite (Hold q Hne) in H. eapply (ti_nodup_c s T); eassumption.
    - intros q qit H. destruct (N.eq_dec q (next s)) as [->|Hne].
      + rewrite Hnew in H. inversion H; subst. rewrite Hat. constructor.
      + rewrite (Hold q Hne) in H. eapply (ti_nodup_a s T); eassumption.
    - intros q qit c cit Hq Hin Hc. destruct (N.eq_dec q (next s)) as [->|Hne].
      + rewrite Hnew in Hq. inversion Hq; subst. rewrite Hch in Hin. contradiction.
      + rewrite (Hold q Hne) in Hq.
        assert (Hcne : c <> next s).
        { intros ->. destruct (lists_live_child s T q (next s)) as [z Hz]; [exists qit; split; [exact Hq | left; exact Hin]|].
          rewrite fresh_dead in Hz. discriminate. }
        rewrite (Hold c Hcne) in Hc. eapply (ti_child_kind s T q qit); eassumption.
    - intros q qit c cit Hq Hin Hc. destruct (N.eq_dec q (next s)) as [->|Hne].
      + rewrite Hnew in Hq. inversion Hq; subst. rewrite Hat in Hin. contradiction.
      + rewrite (Hold q Hne) in Hq.
        assert (Hcne : c <> next s).
        { intros ->. destruct (lists_live_child s T q (next s)) as [z Hz]; [exists qit; split; [exact Hq | right; exact Hin]|].
          rewrite fresh_dead in Hz. discriminate. }
        rewrite (Hold c Hcne) in Hc. eapply (ti_attr_kind s T q qit); eassumption.
    - intros i H. apply (ti_acyclic s T i). eapply anc_mono; [|exact H]. intros c q Hp. apply c_par. exact Hp.
    - rewrite Hroot. rewrite (Hold _ c_root_old). exact (ti_root s T).
    - intros i x H Hkx. rewrite Hroot. destruct (N.eq_dec i (next s)) as [->|Hne].
      + rewrite Hnew in H. inversion H; subst. contradiction.
      + rewrite (Hold i Hne) in H. eapply (ti_doc_root s T); eassumption.
    - intros rit x y Hr Hx Hy Hkx Hky. rewrite Hroot in Hr. rewrite (Hold _ c_root_old) in Hr.
      assert (Hne : forall z, In z (ichildren rit) -> z <> next s).
      { intros z Hz ->. destruct (lists_live_child s T (sroot s) (next s)) as [w Hw]; [exists rit; split; [exact Hr | left; exact Hz]|].
        rewrite fresh_dead in Hw. discriminate. }
      rewrite c_has_kind in Hkx by (apply Hne; exact Hx). rewrite c_has_kind in Hky by (apply Hne; exact Hy).
      eapply (ti_one_el s T rit); eauto.
    - intros rit x y Hr Hx Hy Hkx Hky. rewrite Hroot in Hr. rewrite (Hold _ c_root_old) in Hr.
      assert (Hne : forall z, In z (ichildren rit) -> z <> next s).
      { intros z Hz ->. destruct (lists_live_child s T (sroot s) (next s)) as [w Hw]; [exists rit; split; [exact Hr | left; exact Hz]|].
        rewrite fresh_dead in Hw. discriminate. }
      rewrite c_has_kind in Hkx by (apply Hne; exact Hx). rewrite c_has_kind in Hky by (apply Hne; exact Hy).
      eapply (ti_one_dt s T rit); eauto.
  Qed.
End Create.
