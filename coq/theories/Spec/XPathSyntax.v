(** * The syntax of XPath 1.0 expressions (recommendation sections 2, 2.5, 3 and 3.7).

    [xexpr] is the abstract syntax the recommendation gives: binary operators ([21]-[27], [18]),
    unary minus [27], primaries [15] (variable reference, parenthesised expression, literal,
    number, function call), filter expressions [20], location paths [1]-[5] with the abbreviated
    forms of [10]-[13] kept as constructors ([AOmit], [AAt], [XDot], [XDotDot], [SDSlash]).
    Independent of /repo.

    - [level], [wf]: which trees the grammar derives WITHOUT adding parentheses (the ladder
      or < and < equality < relational < additive < multiplicative < unary < union < path, every
      binary operator left-associative), plus the lexical side conditions of 3.7: [XRoot] may
      not be followed by an operator name or [*] (after the token [/] these are name tests),
      and a function name is not a node type.
    - [spell_surface a w]: the concrete spelling of a derivable tree; [w : wtree] chooses the
      white space at every token boundary (zero or more of #x20 #x9 #xD #xA) and the quote of
      each literal.  Where 3.7 requires white space (an operator name or [-] after a name, a
      name character after an operator name) and [w] gives none, one space is written.
    - [norm], [xequiv] (written [a ≈ b]): the equivalences the recommendation declares:
      redundant parentheses, [//] for [/descendant-or-self::node()/], [.] for [self::node()],
      [..] for [parent::node()], [@] for [attribute::], an omitted [child::], and a predicate
      that is a number [n] for [position() = n].
    - a [spelling] of [a] is any derivable tree equivalent to [a] together with a choice of white
      space; [paren] (minimal parentheses) and [abbreviate] (every abbreviation that applies)
      compute two canonical ones for an arbitrary tree. *)
From Coq Require Import List NArith Bool Arith.
From XmlRs Require Import Base.CPred Spec.XmlChars.
Import ListNotations.
Local Open Scope N_scope.

(** ** abstract syntax *)
Inductive xqname := QN (prefix : option str) (local : str).

Inductive axis :=
| XAncestor | XAncestorOrSelf | XAttribute | XChild | XDescendant | XDescendantOrSelf
| XFollowing | XFollowingSibling | XNamespace | XParent | XPreceding | XPrecedingSibling | XSelf.

Inductive axis_spec :=
| AFull (a : axis)      (* AxisName '::' *)
| AAt                   (* '@' *)
| AOmit.                (* nothing: child *)

Inductive ntype := KComment | KText | KPi | KNode.

Inductive ntest :=
| TAny                  (* the name test that is a single star *)
| TNs (p : str)         (* NCName ':' star *)
| TName (q : xqname)
| TType (k : ntype)     (* NodeType '(' ')' *)
| TPi (lit : str).      (* 'processing-instruction' '(' Literal ')' *)

Inductive binop :=
| BOr | BAnd | BEq | BNe | BLt | BGt | BLe | BGe | BAdd | BSub | BMul | BDiv | BMod | BUnion.

Inductive sep := SSlash | SDSlash.

(** steps and path heads are parametrised by the type of expressions so that [xexpr] is a
    single (nested) inductive *)
Inductive xstep_ (E : Type) :=
| XStep (a : axis_spec) (t : ntest) (preds : list E)
| XDot
| XDotDot.
Arguments XStep {E} a t preds.
Arguments XDot {E}.
Arguments XDotDot {E}.

Inductive xstart_ (E : Type) :=
| SRel                        (* RelativeLocationPath *)
| SAbs (s : sep)              (* '/' RelativeLocationPath, '//' RelativeLocationPath *)
| SFrom (f : E) (s : sep).    (* FilterExpr '/' RelativeLocationPath, FilterExpr '//' ... *)
Arguments SRel {E}.
Arguments SAbs {E} s.
Arguments SFrom {E} f s.

Inductive xexpr :=
| XBin (o : binop) (a b : xexpr)
| XNeg (a : xexpr)
| XLit (s : str)
| XNum (s : str)
| XVar (q : xqname)
| XCall (f : xqname) (args : list xexpr)
| XParen (a : xexpr)
| XFilter (p : xexpr) (preds : list xexpr)       (* PrimaryExpr Predicate+ *)
| XRoot                                           (* '/' *)
| XPath (start : xstart_ xexpr) (first : xstep_ xexpr) (rest : list (sep * xstep_ xexpr)).

Notation xstep := (xstep_ xexpr).
Notation xstart := (xstart_ xexpr).

(** ** lexical classes *)
Definition is_ws (c : N) : bool := eval spec_S c.
Definition ncname_char (c : N) : bool := eval spec_NameChar c && negb (c =? colon).
Definition is_digit (c : N) : bool := (48 <=? c) && (c <=? 57).

Fixpoint mem (c : N) (s : str) : bool :=
  match s with [] => false | x :: t => (x =? c) || mem c t end.

Fixpoint str_eqb (a b : str) : bool :=
  match a, b with
  | [], [] => true
  | x :: a', y :: b' => (x =? y) && str_eqb a' b'
  | _, _ => false
  end.

Fixpoint take_while (f : N -> bool) (s : str) : str * str :=
  match s with
  | c :: s' => if f c then let (a, b) := take_while f s' in (c :: a, b) else ([], s)
  | [] => ([], [])
  end.

(** [30] Number ::= Digits ('.' Digits?)? | '.' Digits *)
Definition is_number (s : str) : bool :=
  match take_while is_digit s with
  | (_ :: _, []) => true
  | (_ :: _, c :: fp) => (c =? 46) && forallb is_digit fp
  | ([], c :: fp) => (c =? 46) && match fp with [] => false | _ => true end && forallb is_digit fp
  | ([], []) => false
  end.

(** ** token texts *)
Definition t_ancestor : str := [97;110;99;101;115;116;111;114].
Definition t_ancestor_or_self : str := [97;110;99;101;115;116;111;114;45;111;114;45;115;101;108;102].
Definition t_attribute : str := [97;116;116;114;105;98;117;116;101].
Definition t_child : str := [99;104;105;108;100].
Definition t_descendant : str := [100;101;115;99;101;110;100;97;110;116].
Definition t_descendant_or_self : str := [100;101;115;99;101;110;100;97;110;116;45;111;114;45;115;101;108;102].
Definition t_following : str := [102;111;108;108;111;119;105;110;103].
Definition t_following_sibling : str := [102;111;108;108;111;119;105;110;103;45;115;105;98;108;105;110;103].
Definition t_namespace : str := [110;97;109;101;115;112;97;99;101].
Definition t_parent : str := [112;97;114;101;110;116].
Definition t_preceding : str := [112;114;101;99;101;100;105;110;103].
Definition t_preceding_sibling : str := [112;114;101;99;101;100;105;110;103;45;115;105;98;108;105;110;103].
Definition t_self : str := [115;101;108;102].
Definition t_comment : str := [99;111;109;109;101;110;116].
Definition t_text : str := [116;101;120;116].
Definition t_processing_instruction : str := [112;114;111;99;101;115;115;105;110;103;45;105;110;115;116;114;117;99;116;105;111;110].
Definition t_node : str := [110;111;100;101].
Definition t_position : str := [112;111;115;105;116;105;111;110].

Definition axis_text (a : axis) : str :=
  match a with
  | XAncestor => t_ancestor | XAncestorOrSelf => t_ancestor_or_self | XAttribute => t_attribute
  | XChild => t_child | XDescendant => t_descendant | XDescendantOrSelf => t_descendant_or_self
  | XFollowing => t_following | XFollowingSibling => t_following_sibling | XNamespace => t_namespace
  | XParent => t_parent | XPreceding => t_preceding | XPrecedingSibling => t_preceding_sibling
  | XSelf => t_self
  end.

Definition ntype_text (k : ntype) : str :=
  match k with KComment => t_comment | KText => t_text | KPi => t_processing_instruction | KNode => t_node end.

Definition binop_text (o : binop) : str :=
  match o with
  | BOr => [111;114] | BAnd => [97;110;100]
  | BEq => [61] | BNe => [33;61]
  | BLt => [60] | BGt => [62] | BLe => [60;61] | BGe => [62;61]
  | BAdd => [43] | BSub => [45]
  | BMul => [42] | BDiv => [100;105;118] | BMod => [109;111;100]
  | BUnion => [124]
  end.

Definition sep_text (s : sep) : str := match s with SSlash => [47] | SDSlash => [47;47] end.

Definition qname_text (q : xqname) : str :=
  match q with QN None l => l | QN (Some p) l => p ++ [58] ++ l end.

(** ** the precedence ladder *)
Definition lvl (o : binop) : nat :=
  match o with
  | BOr => 0 | BAnd => 1 | BEq | BNe => 2 | BLt | BGt | BLe | BGe => 3
  | BAdd | BSub => 4 | BMul | BDiv | BMod => 5 | BUnion => 7
  end%nat.

Definition level (a : xexpr) : nat :=
  match a with XBin o _ _ => lvl o | XNeg _ => 6 | _ => 8 end%nat.

Definition is_primary (a : xexpr) : bool :=
  match a with XLit _ | XNum _ | XVar _ | XCall _ _ | XParen _ => true | _ => false end.

Definition is_filter (a : xexpr) : bool :=
  match a with XLit _ | XNum _ | XVar _ | XCall _ _ | XParen _ | XFilter _ _ => true | _ => false end.

(** operators whose token is a name, or the star: after the token [/] they would be read as
    name tests (3.7) *)
Definition name_op (o : binop) : bool :=
  match o with BOr | BAnd | BDiv | BMod => true | _ => false end.
Definition bad_after_root (o : binop) : bool :=
  match o with BOr | BAnd | BDiv | BMod | BMul => true | _ => false end.

(** the last token of the spelling is the [/] of [XRoot] *)
Fixpoint ends_root (a : xexpr) : bool :=
  match a with
  | XBin _ _ b => ends_root b
  | XNeg a => ends_root a
  | XRoot => true
  | _ => false
  end.

(** the last token of the spelling is a name (NameTest that is a QName, or a variable) *)
Definition step_ends_name (s : xstep) : bool :=
  match s with XStep _ (TName _) [] => true | _ => false end.

Fixpoint last_step (first : xstep) (rest : list (sep * xstep)) : xstep :=
  match rest with [] => first | (_, s) :: r => last_step s r end.

Fixpoint ends_name (a : xexpr) : bool :=
  match a with
  | XBin _ _ b => ends_name b
  | XNeg a => ends_name a
  | XVar _ => true
  | XPath _ first rest => step_ends_name (last_step first rest)
  | _ => false
  end.

(** ** derivable trees *)
Definition wf_qname (q : xqname) : bool :=
  match q with QN None l => is_NCName l | QN (Some p) l => is_NCName p && is_NCName l end.

Definition is_nodetype_name (s : str) : bool :=
  str_eqb s t_comment || str_eqb s t_text || str_eqb s t_processing_instruction || str_eqb s t_node.

(** [35] FunctionName ::= QName - NodeType *)
Definition wf_fname (q : xqname) : bool :=
  wf_qname q && negb (match q with QN None l => is_nodetype_name l | _ => false end).

(** [29] Literal: a string without the quote that delimits it *)
Definition wf_lit (s : str) : bool := negb (mem 34 s && mem 39 s).

Definition wf_ntest (t : ntest) : bool :=
  match t with
  | TAny => true | TNs p => is_NCName p | TName q => wf_qname q | TType _ => true | TPi l => wf_lit l
  end.

Definition nonempty {A} (l : list A) : bool := match l with [] => false | _ => true end.

Fixpoint wfb (a : xexpr) : bool :=
  match a with
  | XBin o a b =>
      (lvl o <=? level a)%nat && (lvl o <? level b)%nat
      && negb (bad_after_root o && ends_root a) && wfb a && wfb b
  | XNeg a => (6 <=? level a)%nat && wfb a
  | XLit s => wf_lit s
  | XNum s => is_number s
  | XVar q => wf_qname q
  | XCall f args => wf_fname f && forallb wfb args
  | XParen a => wfb a
  | XFilter p preds => is_primary p && wfb p && nonempty preds && forallb wfb preds
  | XRoot => true
  | XPath st first rest =>
      let wf_step := fun s : xstep =>
        match s with XStep _ t preds => wf_ntest t && forallb wfb preds | _ => true end in
      match st with SRel => true | SAbs _ => true | SFrom f _ => is_filter f && wfb f end
      && wf_step first
      && forallb (fun x : sep * xstep => let (_, s) := x in wf_step s) rest
  end.

Definition wf (a : xexpr) : Prop := wfb a = true.

(** ** white space choices: a tree shaped like the syntax tree; missing entries mean "none" *)
Inductive wtree := W (flag : bool) (gaps : list str) (kids : list wtree).

Definition wdef : wtree := W false [] [].
Definition gap (w : wtree) (i : nat) : str := match w with W _ g _ => nth i g [] end.
Definition kid (w : wtree) (i : nat) : wtree := match w with W _ _ k => nth i k wdef end.
Definition kids_from (w : wtree) (i : nat) : list wtree := match w with W _ _ k => skipn i k end.
Definition wflag (w : wtree) : bool := match w with W f _ _ => f end.

Fixpoint ws_ok (w : wtree) : bool :=
  match w with W _ g k => forallb (forallb is_ws) g && forallb ws_ok k end.

(** 3.7: white space is REQUIRED exactly where gluing two tokens would lex differently: a name
    followed by a name character.  The tokens that end like a name are names themselves, the
    operator names, and nothing else that an expression can end with ([ends_name]); the next
    token starts with a name character when it is a name, a number, [.], [..] or [-]. *)
Definition starts_nc (s : str) : bool := match s with c :: _ => ncname_char c | [] => false end.
Definition gap_after_name (g right : str) : str :=
  match g with [] => if starts_nc right then [32] else [] | _ => g end.
Definition gap_before_nc (left_is_name : bool) (g : str) : str :=
  match g with [] => if left_is_name then [32] else [] | _ => g end.

Definition spell_bin (o : binop) (left_is_name : bool) (sa g0 g1 sb : str) : str :=
  sa
  ++ (if name_op o || match o with BSub => true | _ => false end then gap_before_nc left_is_name g0 else g0)
  ++ binop_text o
  ++ (if name_op o then gap_after_name g1 sb else g1)
  ++ sb.

(** the quote of a literal: the one asked for when the string allows it *)
Definition quote_of (single : bool) (s : str) : N :=
  if single && negb (mem 39 s) then 39 else if mem 34 s then 39 else 34.
Definition spell_lit (single : bool) (s : str) : str :=
  let q := quote_of single s in q :: s ++ [q].

(** predicates: wrapper [wp] per predicate: gap 0 before '[', gap 1 after it, gap 2 before ']' *)
Definition spell_preds_with (f : xexpr -> wtree -> str) : list xexpr -> list wtree -> str :=
  fix go (l : list xexpr) (ws : list wtree) : str :=
    match l with
    | [] => []
    | p :: l' =>
        let wp := hd wdef ws in
        gap wp 0 ++ [91] ++ gap wp 1 ++ f p (kid wp 0) ++ gap wp 2 ++ [93] ++ go l' (tl ws)
    end.

(** arguments: wrapper per argument: gap 0 before ',', gap 1 after it (unused for the first) *)
Definition spell_args_with (f : xexpr -> wtree -> str) : bool -> list xexpr -> list wtree -> str :=
  fix go (first : bool) (l : list xexpr) (ws : list wtree) : str :=
    match l with
    | [] => []
    | x :: l' =>
        let wx := hd wdef ws in
        (if first then [] else gap wx 0 ++ [44] ++ gap wx 1) ++ f x (kid wx 0) ++ go false l' (tl ws)
    end.

(** a step; wrapper [w]: gaps 0,1 around the separator in front of it (not used here), gap 2
    between axis name and '::', gap 3 after '::' or '@', gap 4 before '(', gap 5 after '(',
    gap 6 before ')' of processing-instruction(lit); flag = quote of that literal; kids =
    predicate wrappers *)
Definition spell_ntest (t : ntest) (w : wtree) : str :=
  match t with
  | TAny => [42]
  | TNs p => p ++ [58;42]
  | TName q => qname_text q
  | TType k => ntype_text k ++ gap w 4 ++ [40] ++ gap w 5 ++ [41]
  | TPi l => t_processing_instruction ++ gap w 4 ++ [40] ++ gap w 5 ++ spell_lit (wflag w) l ++ gap w 6 ++ [41]
  end.

Definition spell_step_with (f : xexpr -> wtree -> str) (s : xstep) (w : wtree) : str :=
  match s with
  | XStep a t preds =>
      (match a with
       | AFull x => axis_text x ++ gap w 2 ++ [58;58] ++ gap w 3
       | AAt => [64] ++ gap w 3
       | AOmit => []
       end)
      ++ spell_ntest t w
      ++ spell_preds_with f preds (kids_from w 0)
  | XDot => [46]
  | XDotDot => [46;46]
  end.

Definition spell_steps_with (f : xexpr -> wtree -> str) : list (sep * xstep) -> list wtree -> str :=
  fix go (l : list (sep * xstep)) (ws : list wtree) : str :=
    match l with
    | [] => []
    | (s, x) :: l' =>
        let wx := hd wdef ws in
        gap wx 0 ++ sep_text s ++ gap wx 1 ++ spell_step_with f x wx ++ go l' (tl ws)
    end.

(** [spell_surface a w].  Layout of [w] per constructor:
    XBin: gap 0 before the operator, gap 1 after it, kids 0 and 1 the operands;
    XNeg: gap 0 after '-', kid 0;   XLit: flag = single quote;
    XCall: gap 0 before '(', gap 1 after it, gap 2 before ')', kids = argument wrappers;
    XParen: gap 0 after '(', gap 1 before ')', kid 0;
    XFilter: kid 0 the primary, kids from 1 the predicate wrappers;
    XPath: SAbs: gap 0 after the leading separator; SFrom: kid 0 the filter expression, gap 0
    before the separator, gap 1 after it; kid 1 the first step, kids from 2 the other steps. *)
Fixpoint spell_surface (a : xexpr) (w : wtree) {struct a} : str :=
  match a with
  | XBin o a b =>
      spell_bin o (ends_name a) (spell_surface a (kid w 0)) (gap w 0) (gap w 1) (spell_surface b (kid w 1))
  | XNeg a => [45] ++ gap w 0 ++ spell_surface a (kid w 0)
  | XLit s => spell_lit (wflag w) s
  | XNum s => s
  | XVar q => [36] ++ qname_text q
  | XCall f args =>
      qname_text f ++ gap w 0 ++ [40] ++ gap w 1
      ++ spell_args_with spell_surface true args (kids_from w 0)
      ++ gap w 2 ++ [41]
  | XParen a => [40] ++ gap w 0 ++ spell_surface a (kid w 0) ++ gap w 1 ++ [41]
  | XFilter p preds => spell_surface p (kid w 0) ++ spell_preds_with spell_surface preds (kids_from w 1)
  | XRoot => [47]
  | XPath st first rest =>
      (match st with
       | SRel => []
       | SAbs s => sep_text s ++ gap w 0
       | SFrom f s => spell_surface f (kid w 0) ++ gap w 0 ++ sep_text s ++ gap w 1
       end)
      ++ spell_step_with spell_surface first (kid w 1)
      ++ spell_steps_with spell_surface rest (kids_from w 2)
  end.

(** ** the equivalences of the recommendation *)
Definition position_call : xexpr := XCall (QN None t_position) [].
Definition dos_step : xstep := XStep (AFull XDescendantOrSelf) (TType KNode) [].

Definition norm_axis (a : axis_spec) : axis_spec :=
  match a with AFull x => AFull x | AAt => AFull XAttribute | AOmit => AFull XChild end.

(** a predicate that is a number literal means [position() = n] (2.4) *)
Definition norm_pred_top (q : xexpr) : xexpr :=
  match q with XNum n => XBin BEq position_call (XNum n) | _ => q end.

Fixpoint norm (a : xexpr) : xexpr :=
  match a with
  | XBin o a b => XBin o (norm a) (norm b)
  | XNeg a => XNeg (norm a)
  | XLit s => XLit s
  | XNum s => XNum s
  | XVar q => XVar q
  | XCall f args => XCall f (map norm args)
  | XParen a => norm a
  | XFilter p preds =>
      match preds with
      | [] => norm p
      | _ => XFilter (norm p) (map (fun q => norm_pred_top (norm q)) preds)
      end
  | XRoot => XRoot
  | XPath st first rest =>
      let nstep := fun s : xstep =>
        match s with
        | XStep a t preds => XStep (norm_axis a) t (map (fun q => norm_pred_top (norm q)) preds)
        | XDot => XStep (AFull XSelf) (TType KNode) []
        | XDotDot => XStep (AFull XParent) (TType KNode) []
        end in
      let lead := fun s : sep => match s with SSlash => [] | SDSlash => [dos_step] end in
      let st' := match st with SRel => SRel | SAbs _ => SAbs SSlash | SFrom f _ => SFrom (norm f) SSlash end in
      let steps :=
        match st with SRel => [] | SAbs s => lead s | SFrom _ s => lead s end
        ++ nstep first
        :: flat_map (fun x : sep * xstep => let (s, y) := x in lead s ++ [nstep y]) rest in
      match steps with
      | [] => XRoot
      | x :: r => XPath st' x (map (fun y => (SSlash, y)) r)
      end
  end.

Definition xequiv (a b : xexpr) : Prop := norm a = norm b.
Infix "≈" := xequiv (at level 70).

(** ** spellings *)
Record spelling := { surface : xexpr; white : wtree }.

(** a spelling of [a]: a derivable tree that the recommendation declares equivalent to [a]
    (this is where abbreviated or unabbreviated steps, extra parentheses, and [n] versus
    [position()=n] are chosen) and white space made of white space characters *)
Definition ok_spelling (a : xexpr) (sp : spelling) : Prop :=
  wf (surface sp) /\ surface sp ≈ a /\ ws_ok (white sp) = true.

Definition spell (a : xexpr) (sp : spelling) : str := spell_surface (surface sp) (white sp).

(** ** canonical spellings of an arbitrary tree *)

(** minimal parentheses: only where the ladder or 3.7 demands them *)
Definition wrap_if (c : bool) (a : xexpr) : xexpr := if c then XParen a else a.

Fixpoint paren (a : xexpr) : xexpr :=
  match a with
  | XBin o a b =>
      let a' := paren a in
      let b' := paren b in
      XBin o (wrap_if ((level a' <? lvl o)%nat || (bad_after_root o && ends_root a')) a')
             (wrap_if (level b' <=? lvl o)%nat b')
  | XNeg a => let a' := paren a in XNeg (wrap_if (level a' <? 6)%nat a')
  | XLit s => XLit s
  | XNum s => XNum s
  | XVar q => XVar q
  | XCall f args => XCall f (map paren args)
  | XParen a => XParen (paren a)
  | XFilter p preds =>
      let p' := paren p in XFilter (wrap_if (negb (is_primary p')) p') (map paren preds)
  | XRoot => XRoot
  | XPath st first rest =>
      let pstep := fun s : xstep =>
        match s with XStep a t preds => XStep a t (map paren preds) | XDot => XDot | XDotDot => XDotDot end in
      XPath (match st with
             | SRel => SRel
             | SAbs s => SAbs s
             | SFrom f s => let f' := paren f in SFrom (wrap_if (negb (is_filter f')) f') s
             end)
            (pstep first)
            (map (fun x : sep * xstep => let (s, y) := x in (s, pstep y)) rest)
  end.

(** every abbreviation that applies *)
Definition is_dos (s : xstep) : bool :=
  match s with XStep (AFull XDescendantOrSelf) (TType KNode) [] => true | _ => false end.

Definition abbr_pred_top (q : xexpr) : xexpr :=
  match q with
  | XBin BEq (XCall (QN None f) []) (XNum n) => if str_eqb f t_position then XNum n else q
  | _ => q
  end.

Fixpoint abbr_steps (l : list (sep * xstep)) : list (sep * xstep) :=
  match l with
  | (SSlash, d) :: (((SSlash, x) :: r) as t) =>
      if is_dos d then (SDSlash, x) :: abbr_steps r else (SSlash, d) :: abbr_steps t
  | y :: t => y :: abbr_steps t
  | [] => []
  end.

Fixpoint abbreviate (a : xexpr) : xexpr :=
  match a with
  | XBin o a b => XBin o (abbreviate a) (abbreviate b)
  | XNeg a => XNeg (abbreviate a)
  | XLit s => XLit s
  | XNum s => XNum s
  | XVar q => XVar q
  | XCall f args => XCall f (map abbreviate args)
  | XParen a => XParen (abbreviate a)
  | XFilter p preds => XFilter (abbreviate p) (map (fun q => abbr_pred_top (abbreviate q)) preds)
  | XRoot => XRoot
  | XPath st first rest =>
      let astep := fun s : xstep =>
        match s with
        | XStep a t preds =>
            match a, t, preds with
            | AFull XSelf, TType KNode, [] => XDot
            | AFull XParent, TType KNode, [] => XDotDot
            | _, _, _ =>
                XStep (match a with AFull XChild => AOmit | AFull XAttribute => AAt | _ => a end) t
                      (map (fun q => abbr_pred_top (abbreviate q)) preds)
            end
        | XDot => XDot
        | XDotDot => XDotDot
        end in
      let first' := astep first in
      let rest' := map (fun x : sep * xstep => let (s, y) := x in (s, astep y)) rest in
      match st with
      | SAbs SSlash =>
          match abbr_steps ((SSlash, first') :: rest') with
          | (s, x) :: r => XPath (SAbs s) x r
          | [] => XPath st first' []
          end
      | SFrom f SSlash =>
          match abbr_steps ((SSlash, first') :: rest') with
          | (s, x) :: r => XPath (SFrom (abbreviate f) s) x r
          | [] => XPath (SFrom (abbreviate f) SSlash) first' []
          end
      | SFrom f SDSlash => XPath (SFrom (abbreviate f) SDSlash) first' (abbr_steps rest')
      | _ => XPath st first' (abbr_steps rest')
      end
  end.
