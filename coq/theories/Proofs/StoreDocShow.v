(** * C15: [doc_of_store] is faithful to the printer -- [display (doc_of_store s) = show_doc s]

    [Store.show_doc] is the model of what the real code prints for the edited document (tied to the
    implementation by the `dom` correspondence domain: field S of every dump); [display] is the
    printer of the infoset model.  Under the tree invariant and the lexical invariant the two
    agree on the document that the store denotes, so the round trip of C04 speaks about the text
    the real code prints. *)
From Coq Require Import List NArith Bool Lia.
From XmlRs Require Import Base.CPred Spec.XmlChars Model.Peg Model.ParseActions Model.Info Model.Display.
From XmlRs Require Import Proofs.StoreDocLex.
From XmlRs Require Import Model.Store Model.PrintableCheck Model.DomOps Model.StoreDoc.
From XmlRs Require Import Proofs.DomBase Proofs.DomTree Proofs.DomAnc Proofs.DomOrder Proofs.DomPrintable Proofs.StoreDocInv.
Import ListNotations.
Open Scope N_scope.

(** ** lists *)
Lemma flat_map_ext_in {A B} (f g : A -> list B) l : (forall x, In x l -> f x = g x) -> flat_map f l = flat_map g l.
Proof.
  induction l as [|x l IH]; intros H; cbn [flat_map]; [reflexivity|].
  rewrite (H x (or_introl eq_refl)), IH; [reflexivity|]. intros y Hy. apply H. right. exact Hy.
Qed.

Lemma flat_map_flat_map {A B C} (f : A -> list B) (g : B -> list C) l :
  flat_map g (flat_map f l) = flat_map (fun x => flat_map g (f x)) l.
Proof. induction l as [|x l IH]; cbn [flat_map]; [reflexivity|]. rewrite flat_map_app, IH. reflexivity. Qed.

Lemma flat_map_single_nonempty {A B} (f : A -> list B) x l : (exists y, f x = [y]) -> flat_map f (x :: l) <> [].
Proof. intros [y E]. cbn [flat_map]. rewrite E. discriminate. Qed.

(** ** entities *)
Lemma peg_str_eqb_refl (a : str) : Peg.str_eqb a a = true.
Proof. apply peg_str_eqb_eq. reflexivity. Qed.

Lemma predefined_name name e : Info.predefined name = Some e -> en_name e = name.
Proof.
  unfold Info.predefined. repeat (match goal with |- context [if ?c then _ else _] => destruct c end);
    intros H; inversion H; reflexivity.
Qed.

Lemma lookup_entity2_name ents name e d : lookup_entity2 ents name = IOk (e, d) -> en_name e = name.
Proof.
  unfold lookup_entity2. destruct (find _ ents) as [e'|] eqn:F.
  - intros H. inversion H; subst. apply find_some in F. destruct F as [_ F]. apply peg_str_eqb_eq. exact F.
  - destruct (Info.predefined name) as [e'|] eqn:P; [|discriminate]. intros H. inversion H; subst. eapply predefined_name. exact P.
Qed.

Lemma entity_of_name ents name : en_name (entity_of ents name) = name.
Proof.
  unfold entity_of. destruct (lookup_entity2 ents name) as [[e d]| | |] eqn:L; try reflexivity.
  eapply lookup_entity2_name. exact L.
Qed.

(** ** quoting *)
Lemma escape_quote_att_value (v : str) : Store.escape v = quote_att_value v.
Proof.
  unfold Store.escape, quote_att_value, Display.escape, c_dq, c_sq, Store.s_quot, Display.s_quot.
  destruct (existsb (N.eqb 34) v), (existsb (N.eqb 39) v); reflexivity.
Qed.

(** ** the walk *)
Section Show.
  Variable s : store.
  Hypothesis T : TreeInv s.
  Hypothesis L : Lex15 s.
  Let h := hdr s.

  (** every descendant is closer than [fuel] *)
  Definition deep (n : id) (fuel : nat) : Prop := forall d k, ancn s k d n -> (k < fuel)%nat.

  Lemma deep_child n c fuel : deep n (S fuel) -> par s c n -> deep c fuel /\ (0 < fuel)%nat.
  Proof.
    intros D P. split.
    - intros d k Hk. pose proof (D d (S k)) as X. assert (ancn s (S k) d n) as Y.
      { clear X. induction Hk as [c' p Hp | m c' p a Hp Hn IH]; [econstructor; [exact Hp | constructor; exact P]|].
        econstructor; [exact Hp | apply IH; exact P]. }
      specialize (X Y). lia.
    - specialize (D c 1%nat (ancn1 s c n P)). lia.
  Qed.

  Lemma child_par n it c : get s n = Some it -> In c (ichildren it) -> par s c n.
  Proof. intros Hn Hc. apply (ti_lists_par s T). exists it. split; [exact Hn | left; exact Hc]. Qed.

  Lemma attr_par n it a : get s n = Some it -> In a (iattrs it) -> par s a n.
  Proof. intros Hn Hc. apply (ti_lists_par s T). exists it. split; [exact Hn | right; exact Hc]. Qed.

  Lemma child_live n it c : get s n = Some it -> In c (ichildren it) ->
    exists cit, get s c = Some cit /\ child_ok (ikind it) (ikind cit) = true.
  Proof.
    intros Hn Hc. destruct (child_par n it c Hn Hc) as [cit [Hg _]]. exists cit. split; [exact Hg|].
    eapply (ti_child_kind s T); eassumption.
  Qed.

  (** the leaves print the same *)
  Lemma show_value f v vit : get s v = Some vit -> child_ok KAt (ikind vit) = true ->
    d_avalues (avalue_of s (ents_of h) v) = show_fuel (S f) s v.
  Proof.
    intros Hv Hk. unfold avalue_of. cbn [show_fuel]. rewrite Hv.
    pose proof (lex15_item s v vit L Hv) as Ho. unfold item_ok15 in Ho. apply andb_prop in Ho. destruct Ho as [_ Hx].
    unfold extra15 in Hx.
    destruct (ikind vit); try discriminate; cbn [d_avalues flat_map d_avalue app].
    - rewrite app_nil_r. reflexivity.
    - destruct (charref_ok_ref _ _ Hx) as [_ [_ E]]. rewrite app_nil_r, E. reflexivity.
    - rewrite entity_of_name, app_nil_r. reflexivity.
  Qed.

  Lemma show_attr f a ait : get s a = Some ait -> ikind ait = KAt -> deep a f -> (0 < f)%nat ->
    flat_map (fun x => 32 :: Display.d_attr x) (attr_of s (ents_of h) a) = c_sp :: show_fuel f s a.
  Proof.
    intros Ha Hk D Hf. destruct f as [|f]; [lia|]. unfold attr_of. cbn [show_fuel]. rewrite Ha, Hk.
    cbn [flat_map app]. rewrite app_nil_r. unfold c_sp. f_equal. unfold Display.d_attr. cbn [xa_prefix xa_local xa_values].
    unfold Store.qname, d_name, c_colon, c_eq. rewrite escape_quote_att_value.
    assert (E : d_avalues (flat_map (avalue_of s (ents_of h)) (ichildren ait)) = flat_map (show_fuel f s) (ichildren ait)).
    { unfold d_avalues. rewrite flat_map_flat_map. apply flat_map_ext_in. intros v Hv.
      destruct (child_live a ait v Ha Hv) as [vit [Hg Hok]]. rewrite Hk in Hok.
      destruct (deep_child a v f D (child_par a ait v Ha Hv)) as [_ Hpos].
      destruct f as [|f]; [lia|]. apply (show_value f v vit Hg Hok). }
    rewrite E. destruct (iprefix ait); cbn [app]; rewrite <- ?app_assoc; reflexivity.
  Qed.

  (** a child of an element denotes exactly one item *)
  Lemma item_single f c cit : get s c = Some cit -> child_ok KEl (ikind cit) = true ->
    exists i, item_fuel (S f) s h c = [i].
  Proof.
    intros Hc Hk. cbn [item_fuel]. rewrite Hc. destruct (ikind cit); try discriminate; eauto.
  Qed.

  Lemma show_item : forall f n it, get s n = Some it -> child_ok KEl (ikind it) = true -> deep n f -> (0 < f)%nat ->
    flat_map (d_item false) (item_fuel f s h n) = show_fuel f s n.
  Proof.
    induction f as [|f IH]; intros n it Hn Hk D Hf; [lia|].
    cbn [item_fuel show_fuel]. rewrite Hn.
    pose proof (lex15_item s n it L Hn) as Ho. unfold item_ok15 in Ho. apply andb_prop in Ho. destruct Ho as [_ Hx].
    unfold extra15 in Hx.
    destruct (ikind it) eqn:K; try discriminate; cbn [flat_map d_item app]; rewrite ?app_nil_r.
    - (* element *)
      unfold c_lt, c_gt, c_sp, c_sl, Store.qname, d_name, c_colon, s_empty_close, s_etag_open.
      assert (EA : flat_map (fun a => 32 :: Display.d_attr a) (flat_map (attr_of s (ents_of h)) (iattrs it))
                   = flat_map (fun a => c_sp :: show_fuel f s a) (iattrs it)).
      { rewrite flat_map_flat_map. apply flat_map_ext_in. intros a Ha.
        pose proof (attr_par n it a Hn Ha) as P. destruct P as [ait [Hg Hp]].
        destruct (ti_attr_kind s T n it a ait Hn Ha Hg) as [_ Hat].
        destruct (deep_child n a f D (ex_intro _ ait (conj Hg Hp))) as [Da Hpos].
        apply (show_attr f a ait Hg Hat Da Hpos). }
      assert (EC : flat_map (d_item false) (flat_map (item_fuel f s h) (ichildren it)) = flat_map (show_fuel f s) (ichildren it)).
      { rewrite flat_map_flat_map. apply flat_map_ext_in. intros c Hc.
        destruct (child_live n it c Hn Hc) as [cit [Hg Hok]]. rewrite K in Hok.
        destruct (deep_child n c f D (child_par n it c Hn Hc)) as [Dc Hpos].
        apply (IH c cit Hg Hok Dc Hpos). }
      destruct (ichildren it) as [|c0 cs] eqn:EL.
      + cbn [flat_map]. rewrite EA. destruct (iprefix it); cbn [app]; rewrite <- ?app_assoc; reflexivity.
      + assert (NE : flat_map (item_fuel f s h) (c0 :: cs) <> []).
        { apply flat_map_single_nonempty.
          assert (Hin : In c0 (ichildren it)) by (rewrite EL; left; reflexivity).
          destruct (child_live n it c0 Hn Hin) as [cit [Hg Hok]]. rewrite K in Hok.
          destruct (deep_child n c0 f D (child_par n it c0 Hn Hin)) as [_ Hpos].
          destruct f as [|f']; [lia|]. eapply item_single; eassumption. }
        destruct (flat_map (item_fuel f s h) (c0 :: cs)) as [|i0 is0] eqn:EI; [contradiction|].
        rewrite EA, EC. unfold c_sp. destruct (iprefix it); cbn [app flat_map]; rewrite <- ?app_assoc; cbn [app]; reflexivity.
    - (* text *) reflexivity.
    - (* CDATA *) reflexivity.
    - (* character reference *)
      destruct (charref_ok_ref _ _ Hx) as [_ [_ E]]. rewrite E. reflexivity.
    - (* entity reference *)
      unfold d_entref. rewrite entity_of_name. reflexivity.
    - (* PI *)
      unfold Display.d_pi, s_lt_q, s_q_gt, c_lt, c_q, c_gt, c_sp. cbn [pi_target pi_value].
      destruct (iflag it); cbn [app]; rewrite <- ?app_assoc; reflexivity.
    - (* comment *) reflexivity.
  Qed.

  (** ** the document *)
  Hypothesis H : hdr_ok s = true.

  Lemma hdr_decl : d_xmldecl (doc_of_store s) = sdecl s.
  Proof.
    unfold hdr_ok in H. unfold doc_of_store, hdr.
    destruct (header_of (sdecl s) (dt_text s)) as [h0|]; [|discriminate].
    apply andb_prop in H. destruct H as [H1 _]. apply peg_str_eqb_eq in H1. exact H1.
  Qed.

  Lemma hdr_doctype d : doc_decl s = Some d -> exists x, h_doctype h = Some x /\ d_doctype false x = dt_text s.
  Proof.
    intros Hd. unfold hdr_ok in H. unfold h, hdr.
    destruct (header_of (sdecl s) (dt_text s)) as [h0|]; [|discriminate].
    apply andb_prop in H. destruct H as [_ H2]. rewrite Hd in H2.
    destruct (h_doctype h0) as [x|]; [|discriminate]. exists x. split; [reflexivity|]. apply peg_str_eqb_eq. exact H2.
  Qed.

  Lemma hdr_no_doctype : doc_decl s = None -> h_doctype h = None.
  Proof.
    intros Hd. unfold hdr_ok in H. unfold h, hdr.
    destruct (header_of (sdecl s) (dt_text s)) as [h0|]; [|discriminate].
    apply andb_prop in H. destruct H as [_ H2]. rewrite Hd in H2.
    destruct (h_doctype h0) as [x|]; [discriminate | reflexivity].
  Qed.

  (** a document type child of the document is THE document type *)
  Lemma doctype_child rit c cit : get s (sroot s) = Some rit -> In c (ichildren rit) -> get s c = Some cit -> ikind cit = KDt ->
    doc_decl s = Some c.
  Proof.
    intros Hr Hc Hg Hk. unfold doc_decl, children_of. rewrite Hr.
    destruct (find (has_kind s KDt) (ichildren rit)) as [d|] eqn:F.
    - apply find_some in F. destruct F as [Hd Hkd]. f_equal.
      eapply (ti_one_dt s T rit d c Hr Hd Hc Hkd). unfold has_kind. rewrite Hg, Hk. reflexivity.
    - exfalso. pose proof (find_none _ _ F c Hc) as X. unfold has_kind in X. rewrite Hg, Hk in X. discriminate.
  Qed.

  Lemma show_doc_child f rit c : get s (sroot s) = Some rit -> ikind rit = KDoc -> In c (ichildren rit) ->
    deep c f -> (0 < f)%nat -> flat_map (d_item false) (item_fuel f s h c) = show_fuel f s c.
  Proof.
    intros Hr Hkr Hc D Hf. destruct (child_live (sroot s) rit c Hr Hc) as [cit [Hg Hok]]. rewrite Hkr in Hok.
    destruct (ikind cit) eqn:K; try discriminate.
    - eapply show_item; try eassumption. rewrite K. reflexivity.
    - eapply show_item; try eassumption. rewrite K. reflexivity.
    - eapply show_item; try eassumption. rewrite K. reflexivity.
    - (* the document type *)
      destruct f as [|f]; [lia|]. cbn [item_fuel show_fuel]. rewrite Hg, K.
      pose proof (doctype_child rit c cit Hr Hc Hg K) as Hd.
      destruct (hdr_doctype c Hd) as [x [Hx Ex]]. rewrite Hx. cbn [flat_map d_item]. rewrite app_nil_r, Ex.
      unfold dt_text. rewrite Hd, Hg. reflexivity.
  Qed.

  Theorem display_show_doc : display (doc_of_store s) = show_doc s.
  Proof.
    unfold display, display_gen. rewrite hdr_decl. unfold show_doc, show. unfold doc_of_store. cbn [doc_children].
    unfold doc_items. destruct (ti_root s T) as [rit [Hr Hk]].
    assert (Hpos : (0 < N.to_nat (next s))%nat) by (pose proof (ti_bound s T _ _ Hr); lia).
    destruct (N.to_nat (next s)) as [|f] eqn:E; [lia|].
    cbn [show_fuel]. rewrite Hr, Hk. f_equal. unfold children_of. rewrite Hr.
    rewrite flat_map_flat_map. apply flat_map_ext_in. intros c Hc.
    assert (P : par s c (sroot s)) by (eapply child_par; eassumption).
    assert (D : deep (sroot s) (S f)).
    { intros d k Hk'. rewrite <- E. eapply ancn_strict; eassumption. }
    destruct (deep_child (sroot s) c f D P) as [Dc Hf].
    eapply show_doc_child; eassumption.
  Qed.
End Show.
