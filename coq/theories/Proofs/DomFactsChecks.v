(** * The validity checks of character data are what the model of the parser answers

    XmlText::check, XmlComment::check and XmlCData::check (info/src/lib.rs) call the parser on the
    text itself / on the text between the comment / CDATA delimiters and ask for a complete parse.
    Model/CharData.v models them as string predicates ([check_text], [check_comment], [check_cdata];
    equal to the storability predicates of XML 1.0, Proofs/CharDataProofs.v) and Model/DomOps.v
    applies those to the resulting string of every edit ([valid_str]).  The facts [d_text],
    [d_comment], [d_cdata] of Model/DomFacts.v are computed by the MODEL of the parser on the same
    markup.  For EVERY string they are equal:

      text_fact_spec     text_fact s = CharData.check_text s
      comment_fact_spec  comment_fact s = CharData.check_comment s
      cdata_fact_spec    cdata_fact s = CharData.check_cdata s
      valid_for_model    valid_for k (facts_of_data s) = valid_str k s      (every node kind)

    No exclusion: these productions do not contain a Name. *)
From Coq Require Import List NArith Arith Lia Bool.
From XmlRs Require Import Base.CPred Spec.XmlChars Model.Peg Gen.XmlcharGen Gen.GrammarXmlGen Model.ParseActions
  Proofs.XmlcharProofs Proofs.PegTermination Proofs.GrammarTermination Proofs.PegLemmas Proofs.PegInv
  Proofs.DisplayLex Proofs.ActionLemmas Proofs.DisplayElem Proofs.ParseInv
  Model.DomFacts Proofs.DomFactsName Proofs.DomFactsData.
From XmlRs Require Model.CharData Model.Store Model.DomOps Spec.DomCharData Proofs.CharDataProofs Proofs.StoreDocLex.
Import ListNotations.
Local Open Scope N_scope.

(** ** dictionary, converse direction of Proofs/StoreDocLex.v *)
Lemma is_char_xml_chars (d : str) : forallb (eval is_char) d = true -> forallb CharData.is_xml_char d = true.
Proof. apply forallb_impl'. intros c H. rewrite StoreDocLex.xml_char_is_char. exact H. Qed.

Lemma find_none_has_sub (p s : str) : find_sub p s = None -> CharData.has_sub p s = false.
Proof. intros H. rewrite CharDataProofs.has_sub_spec. apply contains_find. exact H. Qed.

(** ** CDATA sections *)
Theorem cdata_fact_spec : forall s, cdata_fact s = CharData.check_cdata s.
Proof.
  intros s. unfold cdata_fact. destruct (CharData.check_cdata s) eqn:E.
  - pose proof (StoreDocLex.check_cdata_ok s E) as Hok.
    assert (Hp : parse_cdsect ([60; 33; 91; 67; 68; 65; 84; 65; 91] ++ s ++ [93; 93; 62]) = POk (s, [])).
    { apply (parse_with_yields nt_cdsect _ _ (VCData s) []); [|reflexivity].
      pose proof (yields_cdsect s [] Hok) as Hy. rewrite app_nil_r in Hy. exact Hy. }
    rewrite Hp. reflexivity.
  - destruct (whole _) as [c|] eqn:W; [|reflexivity]. exfalso.
    apply whole_some in W. apply parse_with_ok in W. destruct W as [t [Hr _]]. apply run_succ in Hr.
    inv_nt Hr body_cdsect. invs.
    match goal with H : _ ++ _ = _ ++ _ |- _ => apply app_inv_head in H; subst end.
    match goal with H : succ _ (TakeUntil _ _) _ _ _ |- _ => apply inv_take_until_mc_str in H; [|discriminate]; destruct H as [x [_ [Hx1 [Hx2 Ex]]]] end.
    cbn [app] in Ex. apply app_inv_tail in Ex. subst x.
    assert (X : CharData.check_cdata s = true); [|congruence].
    unfold CharData.check_cdata, CharData.has_cdend. rewrite (is_char_xml_chars s Hx1), (find_none_has_sub _ s Hx2). reflexivity.
Qed.

(** ** comments *)
Lemma inv_comment_str s t r : S (NT nt_comment) s t r ->
  exists c : str, eval_tree t = VComment c /\ comment_ok c /\ s = [60; 33; 45; 45] ++ c ++ [45; 45; 62] ++ r.
Proof.
  intros H. inv_nt H body_comment. fold cm_item in *. invs.
  match goal with H : succ_many _ cm_item _ _ _ |- _ => destruct (inv_cm_many _ _ _ H) as [c0 [E [Hok _]]] end.
  match goal with H : ?c ++ ?r = ?c0 ++ ?r |- _ => apply app_inv_tail in H; subst c end.
  eexists. split; [reflexivity|]. split; [exact Hok | reflexivity].
Qed.

Lemma nondash_props y : eval nondash y = true -> DomCharData.isChar y = true /\ (y =? 45) = false.
Proof.
  unfold nondash. rewrite is_char_except_equiv. cbn [existsb]. rewrite orb_false_r. intros H. apply andb_prop in H.
  destruct H as [H1 H2]. apply negb_true_iff in H2. split; assumption.
Qed.

Lemma comment_okb_storable : forall n (c : str), (length c <= n)%nat -> comment_okb c = true -> DomCharData.storable_comment c = true.
Proof.
  induction n as [|n IH]; intros c Hl H.
  - destruct c; [reflexivity | cbn [length] in Hl; lia].
  - destruct c as [|x c']; [reflexivity|]. cbn [comment_okb] in H. apply andb_prop in H. destruct H as [Hx Hc'].
    cbn [DomCharData.storable_comment]. destruct (x =? 45) eqn:E.
    + destruct c' as [|d c'']; [discriminate|]. destruct (nondash_props d Hx) as [D1 D2]. rewrite D1, D2. cbn [andb negb].
      cbn [comment_okb] in Hc'. apply andb_prop in Hc'. destruct Hc' as [_ Hc'']. apply IH; [cbn [length] in Hl; lia | exact Hc''].
    + destruct (nondash_props x Hx) as [D1 _]. rewrite D1. cbn [andb]. apply IH; [cbn [length] in Hl; lia | exact Hc'].
Qed.

Theorem comment_fact_spec : forall s, comment_fact s = CharData.check_comment s.
Proof.
  intros s. unfold comment_fact. destruct (CharData.check_comment s) eqn:E.
  - pose proof (StoreDocLex.check_comment_ok s E) as Hok.
    assert (Hp : parse_comment ([60; 33; 45; 45] ++ s ++ [45; 45; 62]) = POk (s, [])).
    { apply (parse_with_yields nt_comment _ _ (VComment s) []); [|reflexivity].
      pose proof (yields_comment s [] Hok) as Hy. rewrite app_nil_r in Hy. exact Hy. }
    rewrite Hp. reflexivity.
  - destruct (whole _) as [c|] eqn:W; [|reflexivity]. exfalso.
    apply whole_some in W. apply parse_with_ok in W. destruct W as [t [Hr _]]. apply run_succ in Hr.
    apply inv_comment_str in Hr. destruct Hr as [c' [_ [Hok Es]]].
    apply app_inv_head in Es. rewrite app_nil_r in Es. apply app_inv_tail in Es. subst c'.
    assert (X : CharData.check_comment s = true); [|congruence].
    rewrite CharDataProofs.check_comment_spec. apply (comment_okb_storable (length s) s (le_n _)). exact Hok.
Qed.

(** ** text: content(s) with nothing left and no child *)
Lemma body_content' : body G_xml nt_content = Map L_closure_11e3fda0 (Seq (Opt (NT nt_char_data)) (Many0 cell_expr)).
Proof. reflexivity. Qed.

Lemma child_alt_fails_nil : F child_alt [].
Proof.
  unfold child_alt. repeat apply fails_alt; apply fails_map.
  - apply fails_element_no_lt. reflexivity.
  - apply fails_nt. rewrite body_reference. apply fails_alt.
    + apply fails_nt. rewrite body_entity_ref. apply fails_map. apply fails_seqr_l. apply fails_tag. reflexivity.
    + apply fails_nt. rewrite body_char_ref. apply fails_alt; apply fails_map; apply fails_seqr_l; apply fails_tag; reflexivity.
  - apply fails_cdsect. reflexivity.
  - apply fails_pi. reflexivity.
  - apply fails_comment. reflexivity.
Qed.

Lemma text_ok_of_check s : CharData.check_text s = true -> text_ok s.
Proof.
  unfold CharData.check_text, CharData.has_cdend. intros H. apply andb_prop in H. destruct H as [H1 H2]. apply negb_true_iff in H2. split.
  - apply StoreDocLex.text_lex_chars. exact H1.
  - apply StoreDocLex.has_sub_find. exact H2.
Qed.

Lemma check_of_text_ok s : text_ok s -> CharData.check_text s = true.
Proof.
  intros [H1 H2]. unfold CharData.check_text, CharData.has_cdend. rewrite (find_none_has_sub _ s H2). cbn [negb]. rewrite andb_true_r.
  revert H1. apply forallb_impl'. intros c Hc. rewrite is_char_except_equiv in Hc. cbn [existsb] in Hc. rewrite orb_false_r in Hc.
  apply andb_prop in Hc. destruct Hc as [C1 C2]. apply negb_true_iff in C2. apply orb_false_iff in C2. destruct C2 as [C2 C3].
  rewrite CharDataProofs.is_xml_char_spec. unfold DomCharData.isChar. rewrite C1, C2, C3. reflexivity.
Qed.

Lemma inv_char_data_str s t r : S (NT nt_char_data) s t r -> exists x : str, t = TStr x /\ text_ok x /\ s = x ++ r.
Proof.
  intros H. inv_nt H body_char_data. unfold xc_char_except0 in *.
  match goal with H' : succ _ (TakeUntil _ _) _ _ _ |- _ => inv H' end.
  - match goal with H1 : succ _ (Chars0 _) _ _ _ |- _ => inv H1 end.
    match goal with H : ?v ++ ?r = ?a ++ ?r |- _ => apply app_inv_tail in H; subst a end.
    eexists. split; [reflexivity|]. split; [split; assumption | reflexivity].
  - match goal with H1 : succ _ (Chars0 _) _ _ _ |- _ => inv H1 end.
    match goal with H : ?v ++ ?r = ?a ++ ?r |- _ => apply app_inv_tail in H; subst a end.
    match goal with Hf : find_sub _ ?v = Some ?i, Hc : forallb _ ?v = true |- _ =>
      pose proof (find_sub_le _ _ _ Hf) as Hle; exists (firstn i v); split; [rewrite (firstn_app_le i v _ Hle); reflexivity|];
      split; [split; [apply forallb_firstn; exact Hc | apply find_sub_firstn; [discriminate | assumption]]|];
      rewrite <- (firstn_app_le i v r0 Hle); symmetry; apply firstn_skipn end.
Qed.

Lemma content_view_cells a b l (h : option str) :
  match apply_label L_closure_11e3fda0 (VPair a (VList (b :: l))) with VContent c => Some c | _ => None end = Some (h, []) -> False.
Proof.
  change (apply_label L_closure_11e3fda0 (VPair a (VList (b :: l))))
    with (match as_opt as_str a, as_list as_cell (VList (b :: l)) with Some h', Some c' => VContent (h', c') | _, _ => VBad end).
  destruct (as_opt as_str a) as [h'|]; [|discriminate].
  cbn [as_list map all_some]. destruct (as_cell b) as [c1|]; [|discriminate].
  destruct (all_some (map as_cell l)) as [cl|]; discriminate.
Qed.

Theorem text_fact_spec : forall s, text_fact s = CharData.check_text s.
Proof.
  intros s. unfold text_fact. destruct (CharData.check_text s) eqn:E.
  - pose proof (text_ok_of_check s E) as Hok.
    assert (Hp : parse_content s = POk ((Some s, []), [])).
    { apply (parse_with_yields nt_content _ _ (VContent (Some s, [])) []); [|reflexivity].
      apply yields_nt. rewrite body_content'.
      apply (yields_map' (VPair (VSome (VStr s)) (VList (map (fun c : contents * str => VPair (VContents (fst c)) (VSome (VStr (snd c)))) [])))); [apply (al_content s [])|].
      eapply yields_seq.
      - apply yields_opt_some. apply yields_str. pose proof (parses_char_data s [] Hok I) as Hp. rewrite app_nil_r in Hp. exact Hp.
      - apply yields_many0. apply my_stop. apply fails_seq_l. apply child_alt_fails_nil. }
    rewrite Hp. reflexivity.
  - destruct (whole (parse_content s)) as [[h cells]|] eqn:W; [|reflexivity]. destruct cells as [|c cells]; [|reflexivity]. exfalso.
    apply whole_some in W. apply parse_with_ok in W. destruct W as [t [Hr Hv]]. apply run_succ in Hr.
    inv_nt Hr body_content'. invs.
    + (* text first *)
      match goal with H : succ_many _ _ _ ?ts _ |- _ => destruct ts as [|t1 ts']; [inv H|] end.
      * match goal with H : succ _ (NT nt_char_data) _ _ _ |- _ => apply inv_char_data_str in H; destruct H as [x [_ [Hx Ex]]] end.
        rewrite app_nil_r in Ex. subst x. rewrite (check_of_text_ok s Hx) in E. discriminate.
      * cbn [eval_tree map] in Hv. exact (content_view_cells _ _ _ _ Hv).
    + (* no text *)
      match goal with H : succ_many _ _ _ ?ts _ |- _ => destruct ts as [|t1 ts']; [inv H|] end.
      * discriminate E.
      * cbn [eval_tree map] in Hv. exact (content_view_cells _ _ _ _ Hv).
Qed.

(** ** the checks built into Model/DomOps.v are the answers of the model of the parser *)
Theorem valid_for_model : forall k s, DomOps.valid_for k (facts_of_data s) = DomOps.valid_str k s.
Proof.
  intros k s. destruct k; cbn [DomOps.valid_for DomOps.valid_str facts_of_data DomOps.d_text DomOps.d_comment DomOps.d_cdata]; try reflexivity.
  - apply text_fact_spec.
  - apply cdata_fact_spec.
  - apply comment_fact_spec.
Qed.
