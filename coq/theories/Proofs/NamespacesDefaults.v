(** * C10, part 4: namespace declarations (and attributes) supplied by attribute-list defaults (D67).

    [m_default_elem] -- the three loops of xml-info ([declaration_att_defs], [namespace_attributes],
    [attributes]) -- computes the defaulting step [default_elem] of the specification (XML 1.0 3.3, 3.3.2,
    then Namespaces in XML 3); defaulting keeps the syntactic well-formedness [tree_ok]; defaulting commutes
    with a renaming of prefixes.  The theorems of parts 1-3 are then transported to documents with a DTD. *)
From Coq Require Import List NArith Bool Lia.
From XmlRs Require Import Base.CPred Spec.AttrNorm Spec.Namespaces Model.NsModel Proofs.AttrNormProofs
  Proofs.NamespacesScope Proofs.NamespacesNames Proofs.NamespacesDoc.
Import ListNotations.
Open Scope N_scope.

(** ** the boolean equalities decide equality *)
Lemma qname_eqb_refl q : qname_eqb q q = true.
Proof. unfold qname_eqb. rewrite prefix_eqb_refl, str_eqb_refl. reflexivity. Qed.

Lemma qname_eqb_eq a b : qname_eqb a b = true -> a = b.
Proof.
  destruct a as [pa la], b as [pb lb]. unfold qname_eqb. cbn [qn_prefix qn_local]. intros H.
  apply andb_prop in H as [H1 H2]. apply prefix_eqb_eq in H1. apply str_eqb_eq in H2. subst. reflexivity.
Qed.

Lemma qname_eqb_iff a b : qname_eqb a b = true <-> a = b.
Proof. split; [apply qname_eqb_eq|intros ->; apply qname_eqb_refl]. Qed.

Lemma attname_eqb_refl n : attname_eqb n n = true.
Proof. destruct n; cbn [attname_eqb]; [apply prefix_eqb_refl|apply qname_eqb_refl]. Qed.

Lemma attname_eqb_eq a b : attname_eqb a b = true -> a = b.
Proof.
  destruct a, b; cbn [attname_eqb]; intros H; try discriminate.
  - apply prefix_eqb_eq in H. subst. reflexivity.
  - apply qname_eqb_eq in H. subst. reflexivity.
Qed.

Lemma attname_eqb_iff a b : attname_eqb a b = true <-> a = b.
Proof. split; [apply attname_eqb_eq|intros ->; apply attname_eqb_refl]. Qed.

Lemma eqb_sym_of_iff {A} (eqb : A -> A -> bool) :
  (forall a b, eqb a b = true <-> a = b) -> forall a b, eqb a b = eqb b a.
Proof. intros H a b. apply eq_true_iff_eq. rewrite !H. split; intros E; symmetry; exact E. Qed.

Lemma qname_eqb_sym a b : qname_eqb a b = qname_eqb b a.
Proof. apply (eqb_sym_of_iff qname_eqb qname_eqb_iff). Qed.
Lemma attname_eqb_sym a b : attname_eqb a b = attname_eqb b a.
Proof. apply (eqb_sym_of_iff attname_eqb attname_eqb_iff). Qed.

Lemma eqb_false_of_neq {A} (eqb : A -> A -> bool) :
  (forall a b, eqb a b = true <-> a = b) -> forall a b, a <> b -> eqb a b = false.
Proof. intros H a b Hn. destruct (eqb a b) eqn:E; [|reflexivity]. apply H in E. contradiction. Qed.

(** ** the binding definitions *)
Definition tyb (x : elem) (a : nsdef) : bool := qname_eqb (nd_elem a) (el_name x).

Lemma tyb_eq x a : tyb x a = true -> nd_elem a = el_name x.
Proof. apply qname_eqb_eq. Qed.

Lemma same_def_same_type x a b : tyb x a = true -> tyb x b = true ->
  same_def a b = attname_eqb (nd_name a) (nd_name b).
Proof.
  intros Ha Hb. unfold same_def. rewrite (tyb_eq x a Ha), (tyb_eq x b Hb), qname_eqb_refl. reflexivity.
Qed.

Lemma same_def_other_type x a b : tyb x a = true -> tyb x b = false -> same_def a b = false.
Proof.
  intros Ha Hb. unfold same_def. rewrite (tyb_eq x a Ha). unfold tyb in Hb. rewrite qname_eqb_sym, Hb. reflexivity.
Qed.

Lemma binding_defs_incl : forall d seen a, In a (binding_defs seen d) -> In a d.
Proof.
  induction d as [|b r IH]; intros seen a H; [exact H|]. cbn [binding_defs] in H.
  destruct (existsb (same_def b) seen).
  - right. exact (IH seen a H).
  - destruct H as [H|H]; [left; exact H|right; exact (IH _ a H)].
Qed.

Lemma binding_defs_fresh : forall d seen a, In a (binding_defs seen d) -> existsb (same_def a) seen = false.
Proof.
  induction d as [|b r IH]; intros seen a H; [destruct H|]. cbn [binding_defs] in H.
  destruct (existsb (same_def b) seen) eqn:Es.
  - exact (IH seen a H).
  - destruct H as [H|H]; [subst; exact Es|]. specialize (IH (b :: seen) a H). cbn [existsb] in IH.
    apply orb_false_elim in IH as [_ IH]. exact IH.
Qed.

(** N4, per element type: the binding definitions of one type have pairwise different attribute names *)
Lemma binding_names_nodup x : forall d seen, NoDup (map nd_name (filter (tyb x) (binding_defs seen d))).
Proof.
  induction d as [|a r IH]; intros seen; [constructor|]. cbn [binding_defs].
  destruct (existsb (same_def a) seen) eqn:Es; [apply IH|]. cbn [filter].
  destruct (tyb x a) eqn:Ea; [|apply IH]. cbn [map]. constructor; [|apply IH].
  intros Hin. apply in_map_iff in Hin as (b & Eb & Hb). apply filter_In in Hb as [Hb Hbt].
  apply binding_defs_fresh in Hb. cbn [existsb] in Hb. apply orb_false_elim in Hb as [Hb _].
  rewrite (same_def_same_type x b a Hbt Ea), Eb, attname_eqb_refl in Hb. discriminate.
Qed.

(** [declaration_att_defs] computes the binding definitions of the element's type (first definition binding) *)
Definition m_att_step (x : elem) (defs : list nsdef) (a : nsdef) : list nsdef :=
  if qname_eqb (nd_elem a) (el_name x)
  then if existsb (fun v => attname_eqb (nd_name v) (nd_name a)) defs then defs else defs ++ [a]
  else defs.

Lemma att_defs_gen x : forall d seen defs0,
  (forall a, tyb x a = true ->
     existsb (same_def a) seen = existsb (fun v => attname_eqb (nd_name v) (nd_name a)) defs0) ->
  fold_left (m_att_step x) d defs0 = defs0 ++ filter (tyb x) (binding_defs seen d).
Proof.
  induction d as [|a r IH]; intros seen defs0 Hinv; cbn [fold_left binding_defs].
  - cbn [filter]. rewrite app_nil_r. reflexivity.
  - remember (m_att_step x defs0 a) as defs1 eqn:E1. unfold m_att_step in E1.
    destruct (qname_eqb (nd_elem a) (el_name x)) eqn:Ety.
    + rewrite <- (Hinv a Ety) in E1. destruct (existsb (same_def a) seen) eqn:Es; subst defs1.
      * apply IH. exact Hinv.
      * cbn [filter]. unfold tyb at 1. rewrite Ety.
        rewrite (IH (a :: seen) (defs0 ++ [a])); [rewrite <- app_assoc; reflexivity|].
        intros b Hb. cbn [existsb]. rewrite existsb_app. cbn [existsb]. rewrite (Hinv b Hb), orb_false_r.
        rewrite (same_def_same_type x b a Hb Ety), attname_eqb_sym. apply orb_comm.
    + subst defs1. destruct (existsb (same_def a) seen) eqn:Es.
      * apply IH. exact Hinv.
      * cbn [filter]. unfold tyb at 1. rewrite Ety. apply IH.
        intros b Hb. cbn [existsb]. rewrite (same_def_other_type x b a Hb Ety). cbn [orb]. apply Hinv. exact Hb.
Qed.

Lemma att_defs_refines d x : m_att_defs d x = filter (tyb x) (binding_defs [] d).
Proof.
  unfold m_att_defs. change (fold_left (m_att_step x) d [] = filter (tyb x) (binding_defs [] d)).
  rewrite (att_defs_gen x d [] []); [reflexivity|]. intros a _. reflexivity.
Qed.

(** ** the two loops over the definitions *)
Definition spec_contrib (x : elem) (a : nsdef) : list (attname * str) :=
  if negb (written x (nd_name a))
  then match default_of (nd_default a) with Some v => [(nd_name a, v)] | None => [] end
  else [].

Lemma defaulted_filter x : forall l,
  flat_map (fun a =>
    if qname_eqb (nd_elem a) (el_name x) && negb (written x (nd_name a))
    then match default_of (nd_default a) with Some v => [(nd_name a, v)] | None => [] end
    else []) l
  = flat_map (spec_contrib x) (filter (tyb x) l).
Proof.
  induction l as [|a r IH]; [reflexivity|]. cbn [flat_map filter]. unfold tyb at 1.
  destruct (qname_eqb (nd_elem a) (el_name x)) eqn:E; cbn [andb flat_map].
  - rewrite IH. reflexivity.
  - exact IH.
Qed.

Lemma defaulted_char d x : defaulted d x = flat_map (spec_contrib x) (m_att_defs d x).
Proof. unfold defaulted. rewrite defaulted_filter, att_defs_refines. reflexivity. Qed.

Lemma decls_in_app a b : decls_in (a ++ b) = decls_in a ++ decls_in b.
Proof. unfold decls_in. apply flat_map_app. Qed.
Lemma attrs_in_app a b : attrs_in (a ++ b) = attrs_in a ++ attrs_in b.
Proof. unfold attrs_in. apply flat_map_app. Qed.

Definition m_ns_step (items : list nsdecl) (a : nsdef) : list nsdecl :=
  match nd_name a, default_of (nd_default a) with
  | ANDecl p, Some v => if existsb (fun it => prefix_eqb (fst it) p) items then items else items ++ [(p, v)]
  | _, _ => items
  end.

Lemma existsb_false_of {A} (g : A -> bool) l : (forall y, In y l -> g y = false) -> existsb g l = false.
Proof.
  intros H. destruct (existsb g l) eqn:E; [|reflexivity]. apply existsb_exists in E as (y & Hy & Gy).
  rewrite (H y Hy) in Gy. discriminate.
Qed.

Lemma ns_fold x : forall L (acc : list nsdecl), NoDup (map nd_name L) ->
  (forall p u, In (p, u) acc -> ~ In (ANDecl p) (map nd_name L)) ->
  fold_left m_ns_step L (el_decls x ++ acc) = el_decls x ++ acc ++ decls_in (flat_map (spec_contrib x) L).
Proof.
  induction L as [|a r IH]; intros acc Hnd Hacc; cbn [fold_left flat_map].
  - cbn [decls_in flat_map]. rewrite app_nil_r. reflexivity.
  - cbn [map] in Hnd. inversion Hnd as [|? ? Hna Hr]; subst.
    assert (Hacc' : forall p u, In (p, u) acc -> ~ In (ANDecl p) (map nd_name r)).
    { intros p u Hin Hc. apply (Hacc p u Hin). cbn [map]. right. exact Hc. }
    rewrite decls_in_app. remember (m_ns_step (el_decls x ++ acc) a) as items eqn:Ei.
    unfold m_ns_step in Ei. unfold spec_contrib at 1.
    destruct (nd_name a) as [p|q] eqn:En.
    + destruct (default_of (nd_default a)) as [v|] eqn:Ed.
      * rewrite existsb_app in Ei.
        match type of Ei with context [@existsb ?T ?g acc] => assert (Hfalse : @existsb T g acc = false) end.
        { apply existsb_false_of. intros [p' u'] Hy. cbn [fst]. destruct (prefix_eqb p' p) eqn:Ep; [|reflexivity].
          apply prefix_eqb_eq in Ep. subst p'. exfalso. apply (Hacc p u' Hy). cbn [map]. left. exact En. }
        rewrite Hfalse, orb_false_r in Ei. subst items. cbn [written]. unfold nsdecl in *.
        destruct (existsb (fun d : prefix * uri => prefix_eqb (fst d) p) (el_decls x)) eqn:Ew; cbn [negb].
        -- cbn [decls_in flat_map app]. apply IH; assumption.
        -- cbn [decls_in flat_map fst snd app]. rewrite <- app_assoc.
           rewrite (IH (acc ++ [(p, v)]) Hr).
           ++ rewrite <- !app_assoc. reflexivity.
           ++ intros p' u' Hin Hc. apply in_app_or in Hin as [Hin|Hin]; [exact (Hacc' p' u' Hin Hc)|].
              destruct Hin as [Hin|[]]. inversion Hin; subst. exact (Hna Hc).
      * subst items. replace (decls_in (if negb (written x (ANDecl p)) then [] else [])) with (@nil nsdecl)
          by (destruct (negb (written x (ANDecl p))); reflexivity).
        cbn [app]. apply IH; assumption.
    + subst items.
      replace (decls_in (if negb (written x (ANAttr q))
                         then match default_of (nd_default a) with Some v => [(ANAttr q, v)] | None => [] end else []))
        with (@nil nsdecl)
        by (destruct (negb (written x (ANAttr q))); [destruct (default_of (nd_default a))|]; reflexivity).
      cbn [app]. apply IH; assumption.
Qed.

Lemma namespace_attributes_refines d x :
  m_namespace_attributes d x = el_decls x ++ decls_in (defaulted d x).
Proof.
  unfold m_namespace_attributes.
  change (fold_left m_ns_step (m_att_defs d x) (el_decls x) = el_decls x ++ decls_in (defaulted d x)).
  rewrite defaulted_char. rewrite <- (app_nil_r (el_decls x)) at 1.
  rewrite (ns_fold x (m_att_defs d x) []); [reflexivity| |intros p u []].
  rewrite att_defs_refines. apply binding_names_nodup.
Qed.

(** [#REQUIRED] on an ordinary attribute: xml-info materialises it (listed finding D36 of C11) *)
Definition req_ok (a : nsdef) : bool :=
  match nd_name a, nd_default a with ANAttr _, NDRequired => false | _, _ => true end.
Definition nsdtd_no_required_attr (d : nsdtd) : bool := forallb req_ok d.

Definition m_at_step (items : list qname) (a : nsdef) : list qname :=
  match nd_name a with
  | ANAttr q => if m_is_implied (nd_default a) then items
                else if existsb (qname_eqb q) items then items else items ++ [q]
  | ANDecl _ => items
  end.

Lemma at_fold x : forall L acc, NoDup (map nd_name L) ->
  (forall q, In q acc -> ~ In (ANAttr q) (map nd_name L)) ->
  (forall a, In a L -> req_ok a = true) ->
  fold_left m_at_step L (el_attrs x ++ acc) = el_attrs x ++ acc ++ attrs_in (flat_map (spec_contrib x) L).
Proof.
  induction L as [|a r IH]; intros acc Hnd Hacc Hreq; cbn [fold_left flat_map].
  - cbn [attrs_in flat_map]. rewrite app_nil_r. reflexivity.
  - cbn [map] in Hnd. inversion Hnd as [|? ? Hna Hr]; subst.
    assert (Hacc' : forall q, In q acc -> ~ In (ANAttr q) (map nd_name r)).
    { intros q Hin Hc. apply (Hacc q Hin). cbn [map]. right. exact Hc. }
    assert (Hreq' : forall b, In b r -> req_ok b = true) by (intros b Hb; apply Hreq; right; exact Hb).
    pose proof (Hreq a (or_introl eq_refl)) as Hra. unfold req_ok in Hra.
    rewrite attrs_in_app. remember (m_at_step (el_attrs x ++ acc) a) as items eqn:Ei.
    unfold m_at_step in Ei. unfold spec_contrib at 1.
    destruct (nd_name a) as [p|q] eqn:En.
    + subst items.
      replace (attrs_in (if negb (written x (ANDecl p))
                         then match default_of (nd_default a) with Some v => [(ANDecl p, v)] | None => [] end else []))
        with (@nil qname)
        by (destruct (negb (written x (ANDecl p))); [destruct (default_of (nd_default a))|]; reflexivity).
      cbn [app]. apply IH; assumption.
    + rewrite existsb_app in Ei.
      assert (Hfalse : existsb (qname_eqb q) acc = false).
      { apply existsb_false_of. intros q' Hy. destruct (qname_eqb q q') eqn:Eq; [|reflexivity].
        apply qname_eqb_eq in Eq. subst q'. exfalso. apply (Hacc q Hy). cbn [map]. left. exact En. }
      rewrite Hfalse, orb_false_r in Ei. subst items. cbn [written].
      destruct (nd_default a) as [v|v| |] eqn:Ed; cbn [m_is_implied default_of] in *; try discriminate Hra.
      * destruct (existsb (qname_eqb q) (el_attrs x)) eqn:Ew; cbn [negb].
        -- cbn [attrs_in flat_map app]. apply IH; assumption.
        -- cbn [attrs_in flat_map fst snd app]. rewrite <- app_assoc.
           rewrite (IH (acc ++ [q]) Hr).
           ++ rewrite <- !app_assoc. reflexivity.
           ++ intros q' Hin Hc. apply in_app_or in Hin as [Hin|Hin]; [exact (Hacc' q' Hin Hc)|].
              destruct Hin as [Hin|[]]. subst q'. exact (Hna Hc).
           ++ exact Hreq'.
      * destruct (existsb (qname_eqb q) (el_attrs x)) eqn:Ew; cbn [negb].
        -- cbn [attrs_in flat_map app]. apply IH; assumption.
        -- cbn [attrs_in flat_map fst snd app]. rewrite <- app_assoc.
           rewrite (IH (acc ++ [q]) Hr).
           ++ rewrite <- !app_assoc. reflexivity.
           ++ intros q' Hin Hc. apply in_app_or in Hin as [Hin|Hin]; [exact (Hacc' q' Hin Hc)|].
              destruct Hin as [Hin|[]]. subst q'. exact (Hna Hc).
           ++ exact Hreq'.
      * destruct (negb (existsb (qname_eqb q) (el_attrs x))); cbn [attrs_in flat_map app]; apply IH; assumption.
Qed.

Lemma attributes_refines d x : nsdtd_no_required_attr d = true ->
  m_attributes d x = el_attrs x ++ attrs_in (defaulted d x).
Proof.
  intros Hreq. unfold m_attributes.
  change (fold_left m_at_step (m_att_defs d x) (el_attrs x) = el_attrs x ++ attrs_in (defaulted d x)).
  rewrite defaulted_char. rewrite <- (app_nil_r (el_attrs x)) at 1.
  rewrite (at_fold x (m_att_defs d x) []); [reflexivity| |intros q []|].
  - rewrite att_defs_refines. apply binding_names_nodup.
  - intros a Ha. rewrite att_defs_refines in Ha. apply filter_In in Ha as [Ha _].
    apply binding_defs_incl in Ha. unfold nsdtd_no_required_attr in Hreq. rewrite forallb_forall in Hreq.
    exact (Hreq a Ha).
Qed.

(** *** the defaulting step of xml-info is the one of XML 1.0 3.3.2 *)
Theorem default_elem_refines : forall d x, nsdtd_no_required_attr d = true -> m_default_elem d x = default_elem d x.
Proof.
  intros d x Hreq. unfold m_default_elem, default_elem.
  rewrite namespace_attributes_refines, (attributes_refines d x Hreq). reflexivity.
Qed.

(** the declarations never depend on the hypothesis about [#REQUIRED] *)
Theorem default_decls_refine : forall d x, el_decls (m_default_elem d x) = el_decls (default_elem d x).
Proof. intros d x. cbn [m_default_elem default_elem el_decls]. apply namespace_attributes_refines. Qed.

Theorem default_tree_refines : forall d t, nsdtd_no_required_attr d = true -> m_default_tree d t = default_tree d t.
Proof.
  intros d t Hreq. induction t as [x kids IH] using tree_ind'. cbn [m_default_tree default_tree].
  rewrite (default_elem_refines d x Hreq). f_equal.
  induction IH as [|k r Hk _ IHr]; [reflexivity|]. cbn [map]. rewrite Hk, IHr. reflexivity.
Qed.

(** D36 seen from here: a [#REQUIRED] ordinary attribute that is not written is an attribute of the model *)
Definition ex_req_dtd : nsdtd :=
  [{| nd_elem := {| qn_prefix := None; qn_local := [97] |};
      nd_name := ANAttr {| qn_prefix := None; qn_local := [119] |}; nd_default := NDRequired |}].
Definition ex_req_elem : elem := {| el_name := {| qn_prefix := None; qn_local := [97] |}; el_decls := []; el_attrs := [] |}.
Theorem default_elem_required_refuted : m_default_elem ex_req_dtd ex_req_elem <> default_elem ex_req_dtd ex_req_elem.
Proof. vm_compute. discriminate. Qed.

(** no DTD: nothing changes *)
Lemma default_elem_nil x : default_elem [] x = x.
Proof. destruct x. unfold default_elem, defaulted. cbn. rewrite !app_nil_r. reflexivity. Qed.

Theorem default_tree_nil : forall t, default_tree [] t = t.
Proof.
  intros t. induction t as [x kids IH] using tree_ind'. cbn [default_tree]. rewrite default_elem_nil. f_equal.
  induction IH as [|k r Hk _ IHr]; [reflexivity|]. cbn [map]. rewrite Hk, IHr. reflexivity.
Qed.

(** ** defaulting keeps the syntactic conditions *)
Lemma defaulted_in d x n v : In (n, v) (defaulted d x) ->
  written x n = false /\ exists a, In a d /\ nd_name a = n /\ In n (map nd_name (m_att_defs d x)).
Proof.
  rewrite defaulted_char. intros H. apply in_flat_map in H as (a & Ha & Hc). unfold spec_contrib in Hc.
  destruct (written x (nd_name a)) eqn:Ew; cbn [negb] in Hc; [destruct Hc|].
  destruct (default_of (nd_default a)); [|destruct Hc]. destruct Hc as [Hc|[]]. inversion Hc; subst. split; [exact Ew|].
  exists a. split; [|split; [reflexivity|apply in_map; exact Ha]].
  rewrite att_defs_refines in Ha. apply filter_In in Ha as [Ha _]. exact (binding_defs_incl _ _ _ Ha).
Qed.

Lemma contrib_names_nodup x : forall L, NoDup (map nd_name L) ->
  NoDup (map fst (flat_map (spec_contrib x) L)).
Proof.
  induction L as [|a r IH]; intros H; [constructor|]. cbn [map] in H. inversion H as [|? ? Hna Hr]; subst.
  cbn [flat_map]. rewrite map_app. apply nodup_app_disjoint; [| apply IH; exact Hr|].
  - unfold spec_contrib. destruct (negb (written x (nd_name a))); [|constructor].
    destruct (default_of (nd_default a)); [|constructor]. cbn [map fst]. constructor; [intros []|constructor].
  - intros n Hn Hc. apply Hna. unfold spec_contrib in Hn. destruct (negb (written x (nd_name a))); [|destruct Hn].
    destruct (default_of (nd_default a)); [|destruct Hn]. destruct Hn as [Hn|[]]. cbn [fst] in Hn. subst n.
    apply in_map_iff in Hc as ([n' v'] & En & Hin). cbn [fst] in En. subst n'.
    apply in_flat_map in Hin as (b & Hb & Hbc). unfold spec_contrib in Hbc.
    destruct (negb (written x (nd_name b))); [|destruct Hbc]. destruct (default_of (nd_default b)); [|destruct Hbc].
    destruct Hbc as [Hbc|[]]. apply in_map_iff. exists b. split; [congruence|exact Hb].
Qed.

Lemma decls_in_fst l p : In p (map fst (decls_in l)) <-> In (ANDecl p) (map fst l).
Proof.
  induction l as [|[n v] r IH]; [split; intros []|]. cbn [decls_in flat_map map fst] in *.
  fold (decls_in r). rewrite map_app, in_app_iff, IH. destruct n as [p'|q]; cbn [map fst snd In].
  - split; [intros [[H|[]]|H]; [left; f_equal; exact H|right; exact H]|intros [H|H]; [left; left; congruence|right; exact H]].
  - split; [intros [[]|H]; right; exact H|intros [H|H]; [discriminate|right; exact H]].
Qed.

Lemma decls_in_nodup l : NoDup (map fst l) -> NoDup (map fst (decls_in l)).
Proof.
  induction l as [|[n v] r IH]; intros H; [constructor|]. cbn [map fst] in H. inversion H as [|? ? Hn Hr]; subst.
  cbn [decls_in flat_map fst snd]. fold (decls_in r). destruct n as [p|q]; cbn [app]; [|apply IH; exact Hr].
  cbn [map fst]. constructor; [|apply IH; exact Hr]. intros Hc. apply Hn. apply decls_in_fst. exact Hc.
Qed.

Lemma default_elem_ok d x : nsdtd_ok d = true -> elem_ok x = true -> elem_ok (default_elem d x) = true.
Proof.
  intros Hd Hx. destruct (elem_ok_parts x Hx) as (H1 & H2 & H3 & H4).
  unfold nsdtd_ok in Hd. rewrite forallb_forall in Hd.
  unfold elem_ok. cbn [default_elem el_decls el_name el_attrs]. rewrite !andb_true_iff. repeat split.
  - apply nodup_prefixes_spec. rewrite map_app. apply nodup_app_disjoint; [exact H1| |].
    + apply decls_in_nodup. rewrite defaulted_char. apply contrib_names_nodup.
      rewrite att_defs_refines. apply binding_names_nodup.
    + intros p Hp Hc. apply decls_in_fst in Hc. apply in_map_iff in Hc as ([n v] & En & Hin). cbn [fst] in En. subst n.
      apply defaulted_in in Hin as [Hw _]. cbn [written] in Hw. apply has_prefix_false in Hw. exact (Hw Hp).
  - rewrite forallb_app. apply andb_true_intro. split; [exact H2|]. apply forallb_forall. intros [p u] Hin. cbn [fst].
    assert (Hp : In p (map fst (decls_in (defaulted d x)))) by (apply in_map_iff; exists (p, u); split; [reflexivity|exact Hin]).
    apply decls_in_fst in Hp. apply in_map_iff in Hp as ([n v] & En & Hin'). cbn [fst] in En. subst n.
    apply defaulted_in in Hin' as [_ (a & Ha & En & _)]. specialize (Hd a Ha). rewrite En in Hd. exact Hd.
  - exact H3.
  - rewrite forallb_app. apply andb_true_intro. split; [exact H4|]. apply forallb_forall. intros q Hin.
    unfold attrs_in in Hin. apply in_flat_map in Hin as ([n v] & Hnv & Hq). cbn [fst] in Hq.
    destruct n as [p|q']; [destruct Hq|]. destruct Hq as [Hq|[]]. subst q'.
    apply defaulted_in in Hnv as [_ (a & Ha & En & _)]. specialize (Hd a Ha). rewrite En in Hd. exact Hd.
Qed.

Theorem default_tree_ok : forall d t, nsdtd_ok d = true -> tree_ok t = true -> tree_ok (default_tree d t) = true.
Proof.
  intros d t Hd. induction t as [x kids IH] using tree_ind'. intros Ht. cbn [tree_ok default_tree] in *.
  apply andb_prop in Ht as [Hx Hk]. apply andb_true_intro. split; [apply default_elem_ok; assumption|].
  rewrite forallb_forall in Hk. rewrite Forall_forall in IH. apply forallb_forall. intros k' Hk'.
  apply in_map_iff in Hk' as (k & <- & Hin). exact (IH k Hin (Hk k Hin)).
Qed.

Lemma default_chain_ok d chain : nsdtd_ok d = true -> chain_ok chain = true ->
  chain_ok (map (default_elem d) chain) = true.
Proof.
  intros Hd. unfold chain_ok. induction chain as [|x r IH]; intros H; [reflexivity|]. cbn [map forallb] in *.
  apply andb_prop in H as [Hx Hr]. rewrite (default_elem_ok d x Hd Hx). exact (IH Hr).
Qed.

Lemma default_chain_refines d chain : nsdtd_no_required_attr d = true ->
  map (m_default_elem d) chain = map (default_elem d) chain.
Proof. intros H. apply map_ext. intros x. apply default_elem_refines. exact H. Qed.

(** ** the theorems of parts 1-3 for documents with a DTD *)
Theorem in_scope_refines_dtd_proof : forall d chain,
  chain <> [] -> chain_ok chain = true -> nsdtd_ok d = true -> nsdtd_no_required_attr d = true ->
  NoDup (map fst (m_in_scope (map (m_default_elem d) chain))) /\
  forall p u, In (p, u) (m_in_scope (map (m_default_elem d) chain))
              <-> In (p, u) (in_scope (env_of (map (default_elem d) chain))).
Proof.
  intros d chain Hne Hok Hd Hreq. rewrite (default_chain_refines d chain Hreq).
  apply in_scope_refines_proof; [destruct chain; [congruence|discriminate]|apply default_chain_ok; assumption].
Qed.

Theorem elem_name_refines_dtd : forall d x up en,
  chain_ok (x :: up) = true -> nsdtd_ok d = true -> nsdtd_no_required_attr d = true ->
  resolve_elem (env_of (map (default_elem d) (x :: up))) (el_name x) = Some en ->
  m_elem_dom (map (m_default_elem d) (x :: up)) = Some en /\ m_elem_info (map (m_default_elem d) (x :: up)) = Some en.
Proof.
  intros d x up en Hok Hd Hreq Hres. rewrite (default_chain_refines d (x :: up) Hreq). cbn [map] in *.
  apply elem_name_refines; [exact (default_chain_ok d (x :: up) Hd Hok)|exact Hres].
Qed.

Theorem attr_name_refines_dtd : forall d x up q en,
  chain_ok (x :: up) = true -> nsdtd_ok d = true -> nsdtd_no_required_attr d = true ->
  In q (el_attrs (default_elem d x)) ->
  resolve_attr (env_of (map (default_elem d) (x :: up))) q = Some en ->
  m_attr_dom (map (m_default_elem d) (x :: up)) q = en /\ m_attr_info (map (m_default_elem d) (x :: up)) q = en.
Proof.
  intros d x up q en Hok Hd Hreq Hin Hres. rewrite (default_chain_refines d (x :: up) Hreq). cbn [map] in *.
  apply attr_name_refines; [exact (default_chain_ok d (x :: up) Hd Hok)|exact Hin|exact Hres].
Qed.

Theorem doc_refines_dtd_proof : forall d t, tree_ok t = true -> nsdtd_ok d = true -> nsdtd_no_required_attr d = true ->
  model_ddoc d t = map model_obs (chains [] (default_tree d t)) /\
  spec_ddoc d t = flat_map obs_of_chain (chains [] (default_tree d t)) /\
  Forall (fun c =>
    match c with
    | x :: up =>
        (forall en, resolve_elem (env_of c) (el_name x) = Some en -> m_elem_dom c = Some en /\ m_elem_info c = Some en) /\
        (forall q en, In q (el_attrs x) -> resolve_attr (env_of c) q = Some en -> m_attr_dom c q = en /\ m_attr_info c q = en) /\
        NoDup (map fst (m_in_scope c)) /\
        (forall p u, In (p, u) (m_in_scope c) <-> In (p, u) (in_scope (env_of c)))
    | [] => False
    end) (chains [] (default_tree d t)).
Proof.
  intros d t Ht Hd Hreq. split; [|split].
  - unfold model_ddoc, model_doc. rewrite (default_tree_refines d t Hreq). reflexivity.
  - unfold spec_ddoc. apply spec_doc_flat.
  - apply doc_refines_proof. apply default_tree_ok; assumption.
Qed.

Theorem select_refines_dtd_proof : forall b t attrs d doc,
  NoDup (map fst b) -> tree_ok doc = true -> nsdtd_ok d = true -> nsdtd_no_required_attr d = true ->
  doc_nswf (default_tree d doc) = true -> test_ok b t = true ->
  model_dselect b t attrs d doc = spec_dselect b t attrs d doc.
Proof.
  intros b t attrs d doc Hb Hdoc Hd Hreq Hn Ht. unfold model_dselect, spec_dselect.
  rewrite (default_tree_refines d doc Hreq).
  apply select_refines_proof; [exact Hb|apply default_tree_ok; assumption|exact Hn|exact Ht].
Qed.

(** ** defaulting commutes with a renaming of the prefixes of the document AND of its DTD *)
Definition nsdef_prefixes (a : nsdef) : list str := opt_list (qn_prefix (nd_elem a)) ++ attname_prefixes (nd_name a).

Lemma incl_appl' {A} (a b c : list A) : incl (a ++ b) c -> incl a c.
Proof. intros H x Hx. apply H. apply in_or_app. left. exact Hx. Qed.
Lemma incl_appr' {A} (a b c : list A) : incl (a ++ b) c -> incl b c.
Proof. intros H x Hx. apply H. apply in_or_app. right. exact Hx. Qed.

Lemma qname_eqb_rn f ps a b : injective_on f ps ->
  incl (opt_list (qn_prefix a)) ps -> incl (opt_list (qn_prefix b)) ps ->
  qname_eqb (rn_qname f a) (rn_qname f b) = qname_eqb a b.
Proof.
  intros Hf Ha Hb. unfold qname_eqb. cbn [rn_qname qn_prefix qn_local].
  rewrite (prefix_eqb_rn f ps _ _ Hf Ha Hb). reflexivity.
Qed.

Lemma attname_eqb_rn f ps a b : injective_on f ps ->
  incl (attname_prefixes a) ps -> incl (attname_prefixes b) ps ->
  attname_eqb (rn_attname f a) (rn_attname f b) = attname_eqb a b.
Proof.
  intros Hf Ha Hb. destruct a, b; cbn [rn_attname attname_eqb attname_prefixes] in *;
    [apply (prefix_eqb_rn f ps); assumption|reflexivity|reflexivity|apply (qname_eqb_rn f ps); assumption].
Qed.

Lemma same_def_rn f ps a b : injective_on f ps -> incl (nsdef_prefixes a) ps -> incl (nsdef_prefixes b) ps ->
  same_def (rn_nsdef f a) (rn_nsdef f b) = same_def a b.
Proof.
  intros Hf Ha Hb. unfold same_def, nsdef_prefixes in *. cbn [rn_nsdef nd_elem nd_name].
  rewrite (qname_eqb_rn f ps _ _ Hf (incl_appl' _ _ _ Ha) (incl_appl' _ _ _ Hb)).
  rewrite (attname_eqb_rn f ps _ _ Hf (incl_appr' _ _ _ Ha) (incl_appr' _ _ _ Hb)). reflexivity.
Qed.

Lemma existsb_same_def_rn f ps a seen : injective_on f ps -> incl (nsdef_prefixes a) ps ->
  (forall b, In b seen -> incl (nsdef_prefixes b) ps) ->
  existsb (same_def (rn_nsdef f a)) (map (rn_nsdef f) seen) = existsb (same_def a) seen.
Proof.
  intros Hf Ha Hs. induction seen as [|b r IH]; [reflexivity|]. cbn [map existsb].
  rewrite (same_def_rn f ps a b Hf Ha (Hs b (or_introl eq_refl))), IH; [reflexivity|].
  intros c Hc. apply Hs. right. exact Hc.
Qed.

Lemma binding_defs_rn f ps : injective_on f ps -> forall d seen,
  (forall a, In a d -> incl (nsdef_prefixes a) ps) -> (forall a, In a seen -> incl (nsdef_prefixes a) ps) ->
  binding_defs (map (rn_nsdef f) seen) (map (rn_nsdef f) d) = map (rn_nsdef f) (binding_defs seen d).
Proof.
  intros Hf. induction d as [|a r IH]; intros seen Hd Hs; [reflexivity|]. cbn [map binding_defs].
  rewrite (existsb_same_def_rn f ps a seen Hf (Hd a (or_introl eq_refl)) Hs).
  assert (Hr : forall b, In b r -> incl (nsdef_prefixes b) ps) by (intros b Hb; apply Hd; right; exact Hb).
  destruct (existsb (same_def a) seen).
  - apply IH; assumption.
  - cbn [map]. f_equal. change (rn_nsdef f a :: map (rn_nsdef f) seen) with (map (rn_nsdef f) (a :: seen)).
    apply IH; [exact Hr|]. intros b [<-|Hb]; [apply Hd; left; reflexivity|apply Hs; exact Hb].
Qed.

Lemma written_rn f ps x n : injective_on f ps -> incl (elem_prefixes x) ps -> incl (attname_prefixes n) ps ->
  written (rn_elem f x) (rn_attname f n) = written x n.
Proof.
  intros Hf Hx Hn. unfold elem_prefixes in Hx. apply incl_appr' in Hx.
  destruct n as [p|q]; cbn [rn_attname written rn_elem el_decls el_attrs attname_prefixes] in *.
  - apply incl_appl' in Hx. revert Hx. generalize (el_decls x). intros l. induction l as [|[p' u] r IH]; intros Hd; [reflexivity|].
    cbn [map existsb rn_decl fst snd flat_map] in *.
    rewrite (prefix_eqb_rn f ps p' p Hf (incl_appl' _ _ _ Hd) Hn), (IH (incl_appr' _ _ _ Hd)). reflexivity.
  - apply incl_appr' in Hx. revert Hx. generalize (el_attrs x). intros l. induction l as [|q' r IH]; intros Ha; [reflexivity|].
    cbn [map existsb flat_map] in *.
    rewrite (qname_eqb_rn f ps q q' Hf Hn (incl_appl' _ _ _ Ha)), (IH (incl_appr' _ _ _ Ha)). reflexivity.
Qed.

Definition rn_nv (f : str -> str) (nv : attname * str) : attname * str := (rn_attname f (fst nv), snd nv).

Lemma defaulted_rn f ps d x : injective_on f ps ->
  (forall a, In a d -> incl (nsdef_prefixes a) ps) -> incl (elem_prefixes x) ps ->
  defaulted (rn_nsdtd f d) (rn_elem f x) = map (rn_nv f) (defaulted d x).
Proof.
  intros Hf Hd Hx. unfold defaulted, rn_nsdtd.
  pose proof (binding_defs_rn f ps Hf d [] Hd (fun a (H : In a []) => match H with end)) as HB. cbn [map] in HB. rewrite HB.
  assert (HI : forall a, In a (binding_defs [] d) -> incl (nsdef_prefixes a) ps)
    by (intros a Ha; apply Hd; exact (binding_defs_incl _ _ _ Ha)).
  revert HI. generalize (binding_defs [] d). intros B. induction B as [|a r IH]; intros HI; [reflexivity|].
  cbn [map flat_map]. rewrite map_app. rewrite IH by (intros b Hb; apply HI; right; exact Hb). f_equal.
  pose proof (HI a (or_introl eq_refl)) as Ha. unfold nsdef_prefixes in Ha.
  cbn [rn_nsdef nd_elem nd_name nd_default].
  replace (el_name (rn_elem f x)) with (rn_qname f (el_name x)) by reflexivity.
  rewrite (qname_eqb_rn f ps (nd_elem a) (el_name x) Hf (incl_appl' _ _ _ Ha))
    by (unfold elem_prefixes in Hx; exact (incl_appl' _ _ _ Hx)).
  rewrite (written_rn f ps x (nd_name a) Hf Hx (incl_appr' _ _ _ Ha)).
  destruct (qname_eqb (nd_elem a) (el_name x) && negb (written x (nd_name a))); [|reflexivity].
  destruct (default_of (nd_default a)); reflexivity.
Qed.

Lemma decls_in_rn f l : decls_in (map (rn_nv f) l) = map (rn_decl f) (decls_in l).
Proof.
  unfold decls_in. induction l as [|[n v] r IH]; [reflexivity|]. cbn [map flat_map rn_nv fst snd]. rewrite map_app, IH.
  destruct n; reflexivity.
Qed.
Lemma attrs_in_rn f l : attrs_in (map (rn_nv f) l) = map (rn_qname f) (attrs_in l).
Proof.
  unfold attrs_in. induction l as [|[n v] r IH]; [reflexivity|]. cbn [map flat_map rn_nv fst snd]. rewrite map_app, IH.
  destruct n; reflexivity.
Qed.

Lemma default_elem_rn f ps d x : injective_on f ps ->
  (forall a, In a d -> incl (nsdef_prefixes a) ps) -> incl (elem_prefixes x) ps ->
  default_elem (rn_nsdtd f d) (rn_elem f x) = rn_elem f (default_elem d x).
Proof.
  intros Hf Hd Hx. unfold default_elem. rewrite (defaulted_rn f ps d x Hf Hd Hx), decls_in_rn, attrs_in_rn.
  unfold rn_elem. cbn [el_name el_decls el_attrs]. rewrite !map_app. reflexivity.
Qed.

Lemma default_tree_rn f ps d : injective_on f ps -> (forall a, In a d -> incl (nsdef_prefixes a) ps) ->
  forall t, incl (tree_prefixes t) ps -> default_tree (rn_nsdtd f d) (rn_tree f t) = rn_tree f (default_tree d t).
Proof.
  intros Hf Hd t. induction t as [x kids IH] using tree_ind'. intros Ht. cbn [rn_tree default_tree tree_prefixes] in *.
  rewrite (default_elem_rn f ps d x Hf Hd (incl_appl' _ _ _ Ht)). f_equal. rewrite !map_map.
  apply incl_appr' in Ht. induction IH as [|k r Hk _ IHr]; [reflexivity|]. cbn [map flat_map] in *.
  rewrite (Hk (incl_appl' _ _ _ Ht)), (IHr (incl_appr' _ _ _ Ht)). reflexivity.
Qed.

Lemma nsdef_prefixes_incl d a : In a d -> incl (nsdef_prefixes a) (nsdtd_prefixes d).
Proof. intros Ha p Hp. unfold nsdtd_prefixes. apply in_flat_map. exists a. split; [exact Ha|exact Hp]. Qed.

Lemma default_elem_prefixes d x : incl (elem_prefixes (default_elem d x)) (elem_prefixes x ++ nsdtd_prefixes d).
Proof.
  intros p Hp. unfold elem_prefixes in *. cbn [default_elem el_name el_decls el_attrs] in Hp.
  rewrite !flat_map_app in Hp. apply in_or_app.
  apply in_app_or in Hp as [Hp|Hp]; [left; apply in_or_app; left; exact Hp|].
  apply in_app_or in Hp as [Hp|Hp].
  - apply in_app_or in Hp as [Hp|Hp]; [left; apply in_or_app; right; apply in_or_app; left; exact Hp|]. right.
    apply in_flat_map in Hp as ([p' u] & Hin & Hp). cbn [fst] in Hp. destruct p' as [s|]; [|destruct Hp].
    destruct Hp as [<-|[]].
    assert (H1 : In (Some s) (map fst (decls_in (defaulted d x)))) by (apply in_map_iff; exists (Some s, u); split; [reflexivity|exact Hin]).
    apply decls_in_fst in H1. apply in_map_iff in H1 as ([n v] & En & Hnv). cbn [fst] in En. subst n.
    apply defaulted_in in Hnv as [_ (a & Ha & En & _)]. apply (nsdef_prefixes_incl d a Ha). unfold nsdef_prefixes.
    apply in_or_app. right. rewrite En. left. reflexivity.
  - apply in_app_or in Hp as [Hp|Hp]; [left; apply in_or_app; right; apply in_or_app; right; exact Hp|]. right.
    apply in_flat_map in Hp as (q & Hin & Hp). unfold attrs_in in Hin. apply in_flat_map in Hin as ([n v] & Hnv & Hq).
    cbn [fst] in Hq. destruct n as [p'|q']; [destruct Hq|]. destruct Hq as [<-|[]].
    apply defaulted_in in Hnv as [_ (a & Ha & En & _)]. apply (nsdef_prefixes_incl d a Ha). unfold nsdef_prefixes.
    apply in_or_app. right. rewrite En. exact Hp.
Qed.

Lemma default_tree_prefixes d t : incl (tree_prefixes (default_tree d t)) (tree_prefixes t ++ nsdtd_prefixes d).
Proof.
  induction t as [x kids IH] using tree_ind'. cbn [default_tree tree_prefixes]. intros p Hp.
  apply in_app_or in Hp as [Hp|Hp].
  - apply default_elem_prefixes in Hp. apply in_app_or in Hp as [Hp|Hp]; apply in_or_app; [left; apply in_or_app; left; exact Hp|right; exact Hp].
  - apply in_flat_map in Hp as (k' & Hk' & Hp). apply in_map_iff in Hk' as (k & <- & Hk).
    rewrite Forall_forall in IH. apply (IH k Hk) in Hp. apply in_app_or in Hp as [Hp|Hp]; apply in_or_app; [left|right; exact Hp].
    apply in_or_app. right. apply in_flat_map. exists k. split; assumption.
Qed.

Lemma consistent_incl f ps qs : consistent f ps -> incl qs ps -> consistent f qs.
Proof.
  intros [H1 H2] Hi. split; [exact H1|]. intros p q Hp Hq. apply H2.
  - destruct Hp as [Hp|Hp]; [left; exact Hp|right; apply Hi; exact Hp].
  - destruct Hq as [Hq|Hq]; [left; exact Hq|right; apply Hi; exact Hq].
Qed.

Lemma consistent_injective f ps : consistent f ps -> injective_on f ps.
Proof. intros [_ H] p q Hp Hq. apply H; right; assumption. Qed.

Lemma default_tree_rn_consistent f d t : consistent f (tree_prefixes t ++ nsdtd_prefixes d) ->
  default_tree (rn_nsdtd f d) (rn_tree f t) = rn_tree f (default_tree d t).
Proof.
  intros Hc. apply (default_tree_rn f (tree_prefixes t ++ nsdtd_prefixes d)).
  - apply consistent_injective. exact Hc.
  - intros a Ha p Hp. apply in_or_app. right. exact (nsdef_prefixes_incl d a Ha p Hp).
  - intros p Hp. apply in_or_app. left. exact Hp.
Qed.

(** *** expanded names do not depend on the prefixes chosen in the document and its DTD *)
Theorem doc_prefix_renaming_dtd_proof : forall f d t, consistent f (tree_prefixes t ++ nsdtd_prefixes d) ->
  map strip (spec_ddoc (rn_nsdtd f d) (rn_tree f t)) = map (rn_strip f) (spec_ddoc d t).
Proof.
  intros f d t Hc. unfold spec_ddoc. rewrite (default_tree_rn_consistent f d t Hc).
  apply doc_prefix_renaming_proof. exact (consistent_incl f _ _ Hc (default_tree_prefixes d t)).
Qed.

Theorem doc_prefix_renaming_select_dtd_proof : forall f b t attrs d doc,
  consistent f (tree_prefixes doc ++ nsdtd_prefixes d) ->
  spec_dselect b t attrs (rn_nsdtd f d) (rn_tree f doc) = option_map (map (rn_ref f)) (spec_dselect b t attrs d doc).
Proof.
  intros f b t attrs d doc Hc. unfold spec_dselect. rewrite (default_tree_rn_consistent f d doc Hc).
  apply doc_prefix_renaming_select_proof. exact (consistent_incl f _ _ Hc (default_tree_prefixes d doc)).
Qed.

Theorem expr_prefix_renaming_dtd_proof : forall f b t attrs d doc,
  injective_on f (map fst b ++ test_prefixes t) ->
  spec_dselect (rn_bindings f b) (rn_test f t) attrs d doc = spec_dselect b t attrs d doc.
Proof. intros f b t attrs d doc H. unfold spec_dselect. apply expr_prefix_renaming_proof. exact H. Qed.

Lemma no_required_rn f d : nsdtd_no_required_attr (rn_nsdtd f d) = nsdtd_no_required_attr d.
Proof.
  unfold nsdtd_no_required_attr, rn_nsdtd. induction d as [|a r IH]; [reflexivity|]. cbn [map forallb]. rewrite IH. f_equal.
  unfold req_ok. cbn [rn_nsdef nd_name nd_default]. destruct (nd_name a); reflexivity.
Qed.

(** ... transported to the model *)
Theorem model_doc_renaming_dtd_proof : forall f b t attrs d doc,
  NoDup (map fst b) -> test_ok b t = true ->
  tree_ok doc = true -> tree_ok (rn_tree f doc) = true -> nsdtd_ok d = true -> nsdtd_ok (rn_nsdtd f d) = true ->
  nsdtd_no_required_attr d = true -> doc_nswf (default_tree d doc) = true ->
  consistent f (tree_prefixes doc ++ nsdtd_prefixes d) ->
  model_dselect b t attrs (rn_nsdtd f d) (rn_tree f doc) = option_map (map (rn_ref f)) (model_dselect b t attrs d doc).
Proof.
  intros f b t attrs d doc Hb Ht Hd Hd' Hk Hk' Hreq Hn Hc. unfold model_dselect.
  rewrite (default_tree_refines d doc Hreq).
  rewrite (default_tree_refines (rn_nsdtd f d) (rn_tree f doc)) by (rewrite no_required_rn; exact Hreq).
  pose proof (default_tree_ok (rn_nsdtd f d) (rn_tree f doc) Hk' Hd') as Hok'.
  rewrite (default_tree_rn_consistent f d doc Hc) in *.
  apply model_doc_renaming_proof; try assumption.
  - apply default_tree_ok; assumption.
  - exact (consistent_incl f _ _ Hc (default_tree_prefixes d doc)).
Qed.

Theorem model_expr_renaming_dtd_proof : forall f b t attrs d doc,
  NoDup (map fst b) -> test_ok b t = true -> tree_ok doc = true -> nsdtd_ok d = true ->
  nsdtd_no_required_attr d = true -> doc_nswf (default_tree d doc) = true ->
  injective_on f (map fst b ++ test_prefixes t) ->
  model_dselect (rn_bindings f b) (rn_test f t) attrs d doc = model_dselect b t attrs d doc.
Proof.
  intros f b t attrs d doc Hb Ht Hd Hk Hreq Hn Hf. unfold model_dselect. rewrite (default_tree_refines d doc Hreq).
  apply model_expr_renaming_proof; try assumption. apply default_tree_ok; assumption.
Qed.

(** ** the hypotheses are satisfiable: D67's document
    [<!DOCTYPE r [<!ATTLIST r xmlns:p CDATA "u" xmlns CDATA #FIXED "v" xmlns:q CDATA #IMPLIED>
                  <!ATTLIST r xmlns:p CDATA "w">  <!ATTLIST p:a p:y CDATA "1">]><r><p:a z="2"/></r>] *)
Definition dq (p : option str) (l : str) : qname := {| qn_prefix := p; qn_local := l |}.
Definition ex_dtd : nsdtd :=
  [ {| nd_elem := dq None [114]; nd_name := ANDecl (Some [112]); nd_default := NDValue [117] |};
    {| nd_elem := dq None [114]; nd_name := ANDecl None; nd_default := NDFixed [118] |};
    {| nd_elem := dq None [114]; nd_name := ANDecl (Some [113]); nd_default := NDImplied |};
    {| nd_elem := dq None [114]; nd_name := ANDecl (Some [112]); nd_default := NDValue [119] |};
    {| nd_elem := dq (Some [112]) [97]; nd_name := ANAttr (dq (Some [112]) [121]); nd_default := NDValue [49] |} ].
Definition ex_ddoc : tree :=
  Node {| el_name := dq None [114]; el_decls := []; el_attrs := [] |}
       [ Node {| el_name := dq (Some [112]) [97]; el_decls := []; el_attrs := [dq None [122]] |} [] ].

Example ex_ddoc_hyps :
  tree_ok ex_ddoc = true /\ nsdtd_ok ex_dtd = true /\ nsdtd_no_required_attr ex_dtd = true /\
  doc_nswf (default_tree ex_dtd ex_ddoc) = true /\ doc_nswf ex_ddoc = false.
Proof. repeat split; vm_compute; reflexivity. Qed.

Example ex_ddoc_names :
  map strip (spec_ddoc ex_dtd ex_ddoc) =
  [ (Some ([114], Some [118]), []);
    (Some ([97], Some [117]), [(dq None [122], Some ([122], None)); (dq (Some [112]) [121], Some ([121], Some [117]))]) ]
  /\ model_ddoc ex_dtd ex_ddoc = map model_obs (chains [] (default_tree ex_dtd ex_ddoc)).
Proof. split; vm_compute; reflexivity. Qed.

Definition ex_drn (s : str) : str := if str_eqb s [112] then [115] else s.
Example ex_drn_consistent : consistent ex_drn (tree_prefixes ex_ddoc ++ nsdtd_prefixes ex_dtd).
Proof.
  split; [reflexivity|]. intros p q Hp Hq. vm_compute in Hp, Hq.
  repeat (destruct Hp as [<-|Hp]; [repeat (destruct Hq as [<-|Hq]; [vm_compute; intros E; first [reflexivity|discriminate E]|]); destruct Hq|]).
  destruct Hp.
Qed.
