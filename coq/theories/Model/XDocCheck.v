(** * A decision procedure for the document invariants ([DocWf], [KeysOk] of Proofs/XPathNav.v and
    Proofs/XPathCanon.v): [doc_inv_b doc = true] implies [DocInv doc] (Proofs/XPathDocCheck.v).

    Extracted with the model: the driver reports for every case of the correspondence run whether
    the document satisfies the hypotheses of the C06 / C07 theorems, so the evidence shows on
    which part of the generated population the theorems speak.  No proofs here. *)
From Coq Require Import List NArith Bool.
From XmlRs Require Import Base.CPred Model.XDoc.
Import ListNotations.
Open Scope N_scope.

Definition indices (doc : xdoc) : list node := map N.of_nat (seq 0 (length doc)).

Definition in_table (doc : xdoc) (i : node) : bool := i <? N.of_nat (length doc).

Fixpoint nodup_b (l : list N) : bool :=
  match l with
  | [] => true
  | x :: t => negb (existsb (N.eqb x) t) && nodup_b t
  end.

Definition is_ns (doc : xdoc) (i : node) : bool := nkind_eqb (kind doc i) KNamespace.

Definition is_none (o : option N) : bool := match o with None => true | Some _ => false end.

Definition opt_eqb (o : option N) (i : N) : bool :=
  match o with Some p => p =? i | None => false end.

Definition row_wf_b (doc : xdoc) (i : node) : bool :=
  let r := getd doc i in
  forallb (fun c => in_table doc c && (i <? c)) (n_children r)
  && forallb (in_table doc) (n_attrs r)
  && match n_nss r with Some l => forallb (in_table doc) l | None => false end
  && match n_parent r with Some p => in_table doc p && (p <? i) | None => true end
  && forallb (fun c => opt_eqb (parent_node doc c) i
                       || (is_none (next_sibling doc c) && is_none (previous_sibling doc c))) (n_children r)
  && nodup_b (map (nid doc) (n_children r))
  && match n_data r with DataErr => false | _ => true end
  && match n_name r with XNameErr => false | _ => true end
  && match n_kind r with
     | KDocument | KDocumentFragment => existsb (fun c => nkind_eqb (kind doc c) KElement) (n_children r)
     | _ => true
     end.

Definition doc_wf_b (doc : xdoc) : bool :=
  in_table doc doc_root && forallb (row_wf_b doc) (indices doc).

Definition row_keys_b (doc : xdoc) (i : node) : bool :=
  let r := getd doc i in
  forallb (fun c => negb (is_ns doc c)) (n_children r)
  && forallb (fun c => negb (is_ns doc c)) (n_attrs r)
  && match n_parent r with Some p => negb (is_ns doc p) | None => true end
  && (is_ns doc i || (0 <? key doc i))
  && forallb (fun j => is_ns doc i || is_ns doc j || negb (i <? j) || (key doc i <? key doc j)) (indices doc).

Definition keys_ok_b (doc : xdoc) : bool :=
  negb (is_ns doc doc_root) && forallb (row_keys_b doc) (indices doc).

Definition doc_inv_b (doc : xdoc) : bool := doc_wf_b doc && keys_ok_b doc.
