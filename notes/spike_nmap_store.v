From stdpp Require Import nmap list.
From Coq Require Import NArith.
Record item := { parent : option N; children : list N }.
Notation store := (Nmap item).
Definition add_child (s : store) (p c : N) : store :=
  match s !! p with
  | Some it => <[p := {| parent := parent it; children := children it ++ [c] |}]> 
               (<[c := {| parent := Some p; children := [] |}]> s)
  | None => s
  end.
Definition demo := add_child (add_child (<[1%N := {| parent := None; children := [] |}]> ∅) 1 2) 1 3.
Eval vm_compute in (children <$> (demo !! 1%N)).
Lemma add_child_parent s p c it : s !! p = Some it -> p <> c -> parent <$> (add_child s p c !! c) = Some (Some p).
Proof. intros H Hne. unfold add_child. rewrite H. rewrite lookup_insert_ne by done. rewrite lookup_insert. done. Qed.
Print Assumptions add_child_parent.

Require Extraction. Require Import ExtrOcamlBasic.
Extraction "nm.ml" demo add_child.
