(** * The table of a store satisfies the document invariant of the evaluator (C14 bridge)

    [xdoc_of_store F merged s] (Model/StoreView.v) is the table the XPath evaluator sees for the
    document of store [s].  Under the tree invariant (C12) and the order invariant (C14, first
    sentence) of the store, and when the document has a document element, the table satisfies
    [DocInv] (Proofs/XPathCanon.v): it is a tree ([DocWf]) and on the rows that are not namespace
    nodes the order keys are non-zero and strictly increasing along the table ([KeysOk]) -- the
    hypothesis of the C07 / C05 theorems about the evaluator.  For every string facts [F] and
    both DOM views. *)
From Coq Require Import List NArith Bool Lia.
From XmlRs Require Import Base.CPred.
From XmlRs Require Import Model.XPathAst Model.XDoc Model.XPathEval Proofs.XPathNav Proofs.XPathCanon.
From XmlRs Require Import Model.Store Model.StoreView
  Proofs.DomBase Proofs.DomTree Proofs.DomAnc Proofs.DomNav Proofs.DomOrder
  Proofs.StoreViewBase Proofs.StoreViewWalk.
Import ListNotations.
Open Scope N_scope.

(** ** lists *)
Lemma split_two {A} (p1 q1 p2 q2 : list A) x y :
  p1 ++ x :: q1 = p2 ++ y :: q2 -> (length p1 < length p2)%nat ->
  exists b, q1 = b ++ y :: q2 /\ p2 = p1 ++ x :: b.
Proof.
  intros E Hlt. apply app_eq_app in E. destruct E as [l [[E1 E2]|[E1 E2]]].
  - exfalso. rewrite E1, app_length in Hlt. lia.
  - destruct l as [|x' l'].
    + exfalso. rewrite E1, app_nil_r in Hlt. lia.
    + cbn [app] in E2. inversion E2; subst x'. exists l'. split; [reflexivity | exact E1].
Qed.

Lemma same_pos {A} (p1 q1 p2 q2 : list A) x y :
  p1 ++ x :: q1 = p2 ++ y :: q2 -> length p1 = length p2 -> p1 = p2 /\ x = y /\ q1 = q2.
Proof.
  revert p2. induction p1 as [|a t IH]; intros [|b u] E Hl; cbn [length app] in *; try discriminate.
  - inversion E. repeat split; reflexivity.
  - inversion E; subst. destruct (IH u H1 ltac:(lia)) as [-> [-> ->]]. repeat split; reflexivity.
Qed.

(** ** namespaces in scope *)
Section Scope.
Variable F : sfacts.
Variable s : store.

Lemma inherit_in items ps x : In x (inherit items ps) -> In x items \/ In x ps.
Proof.
  unfold inherit. revert items. induction ps as [|y t IH]; intros items H; cbn [fold_left] in H; [left; exact H|].
  destruct (existsb _ items).
  - destruct (IH items H) as [H1|H1]; [left; exact H1 | right; right; exact H1].
  - destruct (IH _ H) as [H1|H1]; [|right; right; exact H1].
    apply in_app_or in H1. destruct H1 as [H1|[<-|[]]]; [left; exact H1 | right; left; reflexivity].
Qed.

Lemma inherit_incl items ps x : In x items -> In x (inherit items ps).
Proof.
  unfold inherit. revert items. induction ps as [|y t IH]; intros items H; cbn [fold_left]; [exact H|].
  destruct (existsb _ items); apply IH; [exact H | apply in_or_app; left; exact H].
Qed.

Lemma own_ns_key e x : In x (own_ns F s e) -> exists a, ne_key x = KNs a /\ In a (ns_attrs s e).
Proof.
  unfold own_ns. intros H. apply in_flat_map in H. destruct H as [a [Ha Hx]].
  destruct (get s a) as [it|]; [|destruct Hx]. destruct Hx as [<-|[]]. exists a. split; [reflexivity | exact Ha].
Qed.

Definition nonempty (x : nsent) : Prop := ne_value x <> [].

Lemma keep_nonempty x : (match ne_value x with [] => false | _ => true end) = true <-> nonempty x.
Proof. unfold nonempty. destruct (ne_value x); split; intros H; try discriminate; try reflexivity; contradiction. Qed.

Lemma own_in_scope f e x : In x (own_ns F s e) -> nonempty x -> In x (inscope_fuel F s (S f) e).
Proof.
  intros H Hv. cbn [inscope_fuel]. apply filter_In. split; [|apply keep_nonempty; exact Hv].
  destruct (parent_of s e) as [p|]; [|exact H].
  destruct (kind_of s p) as [[]|]; try exact H; apply inherit_incl; exact H.
Qed.

Lemma scope_cases f e x : In x (inscope_fuel F s f e) ->
  nonempty x /\
  (In x (own_ns F s e) \/ x = xml_ent e \/
   exists f' p y, f = S f' /\ parent_of s e = Some p /\ kind_of s p = Some KEl /\
                  In y (inscope_fuel F s f' p) /\ x = rekey e y).
Proof.
  destruct f as [|f]; [intros []|]. cbn [inscope_fuel]. intros H. apply filter_In in H. destruct H as [H Hv].
  split; [apply keep_nonempty; exact Hv|].
  destruct (parent_of s e) as [p|] eqn:Ep; [|left; exact H].
  destruct (kind_of s p) as [k|] eqn:Kp; [|left; exact H].
  destruct k; try (left; exact H).
  - apply inherit_in in H. destruct H as [H|[<-|[]]]; [left; exact H | right; left; reflexivity].
  - apply inherit_in in H. destruct H as [H|H]; [left; exact H|]. right. right.
    apply in_map_iff in H. destruct H as [y [Ey Hy]]. exists f, p, y. split; [reflexivity|]. split; [first [exact Ep | reflexivity]|]. split; [first [exact Kp | reflexivity]|]. split; [exact Hy | symmetry; exact Ey].
Qed.

End Scope.

Section Bridge.
Variable F : sfacts.
Variable merged : bool.
Variable s : store.
Hypothesis T : TreeInv s.

Notation L := (vrows F merged s).
Notation ixk := (ix F merged s).
Notation row := (row_of F merged s).
Notation doc := (xdoc_of_store F merged s).

(** ** rows and positions *)
Lemma doc_length : length doc = length L.
Proof. unfold xdoc_of_store. apply map_length. Qed.

Lemma row_at_split pre k post :
  L = pre ++ k :: post -> valid doc (N.of_nat (length pre)) /\ getd doc (N.of_nat (length pre)) = row k.
Proof.
  intros E. unfold valid, getd, xdoc_of_store. rewrite Nat2N.id, E, map_app. cbn [map]. split.
  - rewrite app_length, map_length. cbn [length]. lia.
  - rewrite <- (map_length row pre). apply nth_middle.
Qed.

Lemma row_at i : valid doc i ->
  exists pre k post, L = pre ++ k :: post /\ length pre = N.to_nat i /\ getd doc i = row k.
Proof.
  intros V. unfold valid in V. rewrite doc_length in V.
  destruct (nth_error L (N.to_nat i)) as [k|] eqn:E; [|apply nth_error_None in E; lia].
  apply nth_error_split in E. destruct E as [pre [post [E Hl]]].
  exists pre, k, post. split; [exact E|]. split; [exact Hl|].
  destruct (row_at_split pre k post E) as [_ H]. rewrite Hl, N2Nat.id in H. exact H.
Qed.

Lemma ix_spec k : In k L ->
  exists pre post, L = pre ++ k :: post /\ ixk k = N.of_nat (length pre) /\
                   valid doc (ixk k) /\ getd doc (ixk k) = row k.
Proof.
  intros H. destruct (idx_in k L 0 H) as [pre [post [E [_ Hi]]]].
  exists pre, post. split; [exact E|]. unfold ix. rewrite Hi. cbn [N.add].
  split; [reflexivity|]. apply (row_at_split pre k post E).
Qed.

Lemma node_pos pre v post : L = pre ++ KNode v :: post ->
  ixk (KNode v) = N.of_nat (length pre).
Proof. apply row_ix. exact T. Qed.

Lemma node_before pre v post w : L = pre ++ KNode v :: post -> In (KNode w) post ->
  In (KNode w) L /\ ixk (KNode v) < ixk (KNode w).
Proof.
  intros E Hw. split; [rewrite E; apply in_or_app; right; right; exact Hw|].
  rewrite (node_pos pre v post E).
  apply in_split in Hw. destruct Hw as [p1 [p2 Ew]].
  assert (E' : L = (pre ++ KNode v :: p1) ++ KNode w :: p2) by (rewrite E, Ew, <- app_assoc; reflexivity).
  rewrite (node_pos _ w p2 E'). rewrite app_length. cbn [length]. lia.
Qed.

(** ** kinds *)
Lemma row_kind_node v : n_kind (row (KNode v)) <> KNamespace.
Proof.
  destruct v as [n|n]; cbn [row_of]; [|discriminate].
  destruct (get s n) as [it|]; [|discriminate]. cbn [n_kind]. destruct (ikind it); discriminate.
Qed.

Lemma row_kind_ns k : n_kind (row k) <> KNamespace -> exists v, k = KNode v.
Proof. destruct k as [v|a|e]; [intros _; exists v; reflexivity | |]; cbn [row_of n_kind]; intros H; contradiction. Qed.

(** ** parents *)
Lemma parent_node_par x q : Store.parent_node s x = Some q -> par s x q.
Proof.
  intros H. apply (parent_lists_child s T) in H. apply (in_child_list s T) in H.
  destruct H as [pit [Hp Hc]]. apply (ti_lists_par s T). exists pit. split; [exact Hp | left; exact Hc].
Qed.

Lemma owner_par x q : owner_element s x = Some q -> par s x q.
Proof.
  unfold owner_element, parent_of. destruct (get s x) as [it|] eqn:Hx; [|discriminate].
  destruct (iparent it) as [p|] eqn:Hp; [|discriminate]. destruct (has_kind s KEl p); [|discriminate].
  intros E; inversion E; subst p. exists it. split; assumption.
Qed.

(** the node a node row is listed by is the store's parent, and its row comes first *)
Lemma lister_row pre v post p : L = pre ++ KNode v :: post -> par s (vid v) p ->
  exists pre1 post1, pre = pre1 ++ KNode (Plain p) :: post1 /\ In v (vlisted merged s (Plain p)).
Proof.
  intros E Hp. destruct (row_lister F merged s T pre v post E) as [[-> ->]|[u [Hu Hv]]].
  - exfalso. cbn [vid] in Hp. exact (root_no_parent s T p Hp).
  - pose proof (vlisted_par merged s T u v Hv) as Hp'.
    assert (Eu : u = Plain p).
    { destruct u as [n|n]; [|destruct Hv]. cbn [vid] in Hp'. f_equal. eapply par_fun; eassumption. }
    subst u. apply in_split in Hu. destruct Hu as [pre1 [post1 ->]]. exists pre1, post1. split; [reflexivity | exact Hv].
Qed.

Lemma parent_row pre v post p : L = pre ++ KNode v :: post -> par s (vid v) p ->
  In (KNode (Plain p)) L /\ ixk (KNode (Plain p)) < N.of_nat (length pre).
Proof.
  intros E Hp. destruct (lister_row pre v post p E Hp) as [pre1 [post1 [-> _]]].
  rewrite <- app_assoc in E. cbn [app] in E. split.
  - rewrite E. apply in_elt.
  - rewrite (node_pos _ _ _ E). rewrite app_length. cbn [length]. lia.
Qed.

Definition dom_parent (v : vnode) : option id :=
  match v with
  | Plain n => match get s n with
               | Some it => match ikind it with KAt => owner_element s n | _ => Store.parent_node s n end
               | None => None
               end
  | Merged n => Store.parent_node s n
  end.

Lemma row_parent v : n_parent (row (KNode v)) = node_ix F merged s (dom_parent v).
Proof.
  destruct v as [n|n]; cbn [row_of dom_parent]; [|reflexivity].
  destruct (get s n) as [it|]; [|reflexivity]. cbn [n_parent]. destruct (ikind it); reflexivity.
Qed.

Lemma dom_parent_par v q : dom_parent v = Some q -> par s (vid v) q.
Proof.
  destruct v as [n|n]; cbn [dom_parent vid]; [|apply parent_node_par].
  destruct (get s n) as [it|]; [|discriminate].
  destruct (ikind it); try apply parent_node_par. apply owner_par.
Qed.

(** a listed child reports the lister *)
Lemma child_dom_parent n it w : get s n = Some it -> In w (child_view s merged n) -> dom_parent w = Some n.
Proof.
  intros Hn Hw. pose proof (child_view_in merged s n it w Hn Hw) as Hc.
  assert (Hpn : Store.parent_node s (vid w) = Some n).
  { apply (child_reports_parent s T). apply (in_child_list s T). exists it. split; assumption. }
  destruct w as [c|c]; cbn [dom_parent vid] in *; [|exact Hpn].
  destruct (lists_live_child s T n c) as [cit Hcit]; [exists it; split; [exact Hn | left; exact Hc]|].
  rewrite Hcit. pose proof (ti_child_kind s T n it c cit Hn Hc Hcit) as Hok.
  apply child_ok_not_at in Hok. destruct (ikind cit); try exact Hpn. tauto.
Qed.


(** ** the rows of the namespaces in scope *)
Lemma node_parent_in v p : In (KNode v) L -> par s (vid v) p -> In (KNode (Plain p)) L.
Proof.
  intros H Hp. apply in_split in H. destruct H as [pre [post E]]. apply (parent_row pre v post p E Hp).
Qed.

Lemma ns_attr_elem e a : In a (ns_attrs s e) -> has_kind s KEl e = true.
Proof.
  unfold ns_attrs, attrs_of, has_kind. intros H. apply filter_In in H. destruct H as [H _].
  destruct (get s e) as [it|] eqn:He; [|destruct H].
  destruct (lists_live_child s T e a) as [ait Ha]; [exists it; split; [exact He | right; exact H]|].
  destruct (ti_attr_kind s T e it a ait He H Ha) as [K _]. rewrite K. reflexivity.
Qed.

Lemma has_kind_get k n : has_kind s k n = true -> exists it, get s n = Some it /\ ikind it = k.
Proof.
  unfold has_kind. destruct (get s n) as [it|]; [|discriminate]. intros H. exists it. split; [reflexivity|].
  destruct (kind_eqb_spec (ikind it) k); [assumption | discriminate].
Qed.

Lemma fuel_pos n it : get s n = Some it -> exists f, N.to_nat (next s) = S f.
Proof.
  intros H. pose proof (ti_bound s T n it H) as Hb. destruct (N.to_nat (next s)) as [|f] eqn:E; [lia|]. exists f. reflexivity.
Qed.

Lemma new_ns_row e k : In (KNode (Plain e)) L -> has_kind s KEl e = true -> In k (new_ns F s e) -> In k L.
Proof.
  intros He Hk Hin. apply in_split in He. destruct He as [pre [post E]]. rewrite E.
  apply in_or_app. right. right. eapply (row_extra_after F merged s T); [exact E|].
  cbn [vextra]. rewrite Hk. exact Hin.
Qed.

Lemma scope_rows_any f : forall e x, In x (inscope_fuel F s f e) -> In (KNode (Plain e)) L ->
  (exists a, ne_key x = KNs a /\ In (KNs a) L) \/ ne_key x = KXml e.
Proof.
  induction f as [|f IH]; intros e x Hx He; [destruct Hx|].
  destruct (scope_cases F s (S f) e x Hx) as [Hv [Hown|[->|[f' [p [y [Ef [Ep [Kp [Hy ->]]]]]]]]]].
  - destruct (own_ns_key F s e x Hown) as [a [Ek Ha]]. left. exists a. split; [exact Ek|].
    pose proof (ns_attr_elem e a Ha) as Hel. destruct (has_kind_get _ _ Hel) as [eit [Hg _]].
    destruct (fuel_pos e eit Hg) as [f0 Ef0].
    apply (new_ns_row e (KNs a) He Hel). unfold new_ns. apply filter_In. split.
    + rewrite <- Ek. apply in_map. unfold inscope. rewrite Ef0. apply own_in_scope; assumption.
    + cbn [is_new]. apply mem_spec. exact Ha.
  - right. reflexivity.
  - inversion Ef; subst f'.
    assert (Hp : par s e p).
    { unfold parent_of in Ep. destruct (get s e) as [eit|] eqn:Hg; [|discriminate]. exists eit. split; [exact Hg | exact Ep]. }
    pose proof (node_parent_in (Plain e) p He Hp) as Hpin.
    destruct (IH p y Hy Hpin) as [[a [Ek Hin]]|Ek].
    + left. exists a. unfold rekey. rewrite Ek. split; [exact Ek | exact Hin].
    + right. unfold rekey. rewrite Ek. reflexivity.
Qed.

Lemma scope_rows e x : In (KNode (Plain e)) L -> has_kind s KEl e = true -> In x (inscope F s e) -> In (ne_key x) L.
Proof.
  intros He Hk Hx. destruct (scope_rows_any _ e x Hx He) as [[a [Ek Hin]]|Ek]; [rewrite Ek; exact Hin|].
  apply (new_ns_row e _ He Hk). unfold new_ns. apply filter_In. split; [apply in_map; exact Hx|].
  rewrite Ek. cbn [is_new]. apply N.eqb_refl.
Qed.

(** ** what a row refers to *)
Lemma pos_eq (pre : list vkey) i : length pre = N.to_nat i -> i = N.of_nat (length pre).
Proof. intros H. rewrite H, N2Nat.id. reflexivity. Qed.

Lemma child_row i c : valid doc i -> In c (child_nodes doc i) ->
  exists pre n it post w, L = pre ++ KNode (Plain n) :: post /\ i = N.of_nat (length pre) /\
    get s n = Some it /\ In w (child_view s merged n) /\ In (KNode w) post /\ c = ixk (KNode w).
Proof.
  intros V Hc. destruct (row_at i V) as [pre [k [post [E [Hl Hr]]]]]. unfold child_nodes in Hc. rewrite Hr in Hc.
  destruct k as [[n|n]|a|e]; cbn [row_of n_children] in Hc; try destruct Hc.
  destruct (get s n) as [it|] eqn:Hn; [|destruct Hc]. cbn [n_children] in Hc.
  assert (Hw : exists w, In w (child_view s merged n) /\ In w (vlisted merged s (Plain n)) /\ c = ixk (KNode w)).
  { destruct (ikind it) eqn:K; try destruct Hc; apply in_map_iff in Hc; destruct Hc as [w [Ew Hw]]; exists w;
      (split; [exact Hw|]); (split; [|symmetry; exact Ew]); cbn [vlisted]; rewrite Hn, K; [exact Hw | apply in_or_app; right; exact Hw]. }
  destruct Hw as [w [Hw [Hv Ec]]]. exists pre, n, it, post, w.
  split; [exact E|]. split; [apply pos_eq; exact Hl|]. split; [exact Hn|]. split; [exact Hw|].
  split; [eapply (row_listed_after F merged s T); eassumption | exact Ec].
Qed.

Lemma attr_row i a : valid doc i -> In a (attributes doc i) ->
  exists pre n it post b, L = pre ++ KNode (Plain n) :: post /\ i = N.of_nat (length pre) /\
    get s n = Some it /\ ikind it = KEl /\ In b (plain_attrs s n) /\
    In (KNode (Plain b)) post /\ a = ixk (KNode (Plain b)).
Proof.
  intros V Ha. destruct (row_at i V) as [pre [k [post [E [Hl Hr]]]]]. unfold attributes in Ha. rewrite Hr in Ha.
  destruct k as [[n|n]|a'|e]; cbn [row_of n_attrs] in Ha; try destruct Ha.
  destruct (get s n) as [it|] eqn:Hn; [|destruct Ha]. cbn [n_attrs] in Ha.
  destruct (ikind it) eqn:K; try destruct Ha. apply in_map_iff in Ha. destruct Ha as [b [Eb Hb]].
  exists pre, n, it, post, b. split; [exact E|]. split; [apply pos_eq; exact Hl|]. split; [exact Hn|].
  split; [exact K|]. split; [exact Hb|]. split; [|symmetry; exact Eb].
  eapply (row_listed_after F merged s T); [exact E|]. cbn [vlisted]. rewrite Hn, K.
  apply in_or_app. left. apply in_map. exact Hb.
Qed.

Lemma parent_row_of i p : valid doc i -> XDoc.parent_node doc i = Some p ->
  exists q, In (KNode (Plain q)) L /\ p = ixk (KNode (Plain q)) /\ p < i.
Proof.
  intros V Hp. destruct (row_at i V) as [pre [k [post [E [Hl Hr]]]]]. unfold XDoc.parent_node in Hp. rewrite Hr in Hp.
  destruct k as [v|a|e]; [|discriminate|discriminate].
  rewrite row_parent in Hp. destruct (dom_parent v) as [q|] eqn:Eq; [|discriminate].
  cbn [node_ix] in Hp. inversion Hp; subst p. exists q.
  destruct (parent_row pre v post q E (dom_parent_par v q Eq)) as [Hin Hlt].
  split; [exact Hin|]. split; [reflexivity|]. rewrite (pos_eq pre i Hl). exact Hlt.
Qed.

Lemma node_row_at k : In k L -> valid doc (ixk k) /\ getd doc (ixk k) = row k.
Proof. intros H. destruct (ix_spec k H) as [pre [post [_ [_ [V G]]]]]. split; assumption. Qed.

Lemma in_rows pre k post (E : L = pre ++ k :: post) x : In x post -> In x L.
Proof. intros H. rewrite E. apply in_or_app. right. right. exact H. Qed.

Lemma row_id_live v : In (KNode v) L -> n_id (row (KNode v)) = vid v.
Proof.
  intros H. destruct (row_live F merged s T v H) as [it Hg].
  destruct v as [n|n]; cbn [row_of vid] in *; [rewrite Hg|]; reflexivity.
Qed.

Lemma no_fragment_row n it : In (KNode (Plain n)) L -> get s n = Some it -> ikind it <> KFr.
Proof.
  intros H Hn K. apply in_split in H. destruct H as [pre [post E]].
  destruct (row_lister F merged s T pre (Plain n) post E) as [[_ Er]|[u [_ Hv]]].
  - inversion Er; subst n. destruct (ti_root s T) as [rit [Hr Kr]]. congruence.
  - destruct u as [p|p]; [|destruct Hv]. cbn [vlisted] in Hv.
    destruct (get s p) as [pit|] eqn:Hp; [|destruct Hv].
    assert (Hch : In (Plain n) (child_view s merged p) -> False).
    { intros Hc. pose proof (child_view_in merged s p pit _ Hp Hc) as Hc'. cbn [vid] in Hc'.
      pose proof (ti_child_kind s T p pit n it Hp Hc' Hn) as Hok. rewrite K in Hok. destruct (ikind pit); discriminate. }
    destruct (ikind pit) eqn:Kp; try destruct Hv; [exact (Hch Hv)|].
    apply in_app_or in Hv. destruct Hv as [Hv|Hv]; [|exact (Hch Hv)].
    apply in_map_iff in Hv. destruct Hv as [b [Eb Hb]]. inversion Eb; subst b.
    unfold plain_attrs, attrs_of in Hb. rewrite Hp in Hb. apply filter_In in Hb. destruct Hb as [Hb _].
    destruct (ti_attr_kind s T p pit n it Hp Hb Hn) as [_ Ka]. congruence.
Qed.

(** ** the table is a tree *)
Hypothesis HasEl : doc_element s <> None.

Theorem view_wf : DocWf doc.
Proof.
  constructor.
  - (* root *)
    destruct (rows_head F merged s T) as [t E].
    destruct (row_at_split [] _ t E) as [V _]. exact V.
  - (* children *)
    intros i c V Hc. destruct (child_row i c V Hc) as [pre [n [it [post [w [E [Ei [Hn [Hw [Hpost Ec]]]]]]]]]].
    destruct (node_before pre _ post w E Hpost) as [Hin Hlt]. subst c. split.
    + apply node_row_at. exact Hin.
    + rewrite Ei, <- (node_pos pre _ post E). exact Hlt.
  - (* attributes *)
    intros i a V Ha. destruct (attr_row i a V Ha) as [pre [n [it [post [b [E [_ [_ [_ [_ [Hpost Ea]]]]]]]]]]]. subst a.
    apply node_row_at. eapply in_rows; eassumption.
  - (* namespaces *)
    intros i V. destruct (row_at i V) as [pre [k [post [E [Hl Hr]]]]]. rewrite Hr.
    destruct k as [[n|n]|a|e]; cbn [row_of n_nss]; try (eexists; split; [reflexivity | constructor]).
    destruct (get s n) as [it|] eqn:Hn; [|eexists; split; [reflexivity | constructor]].
    cbn [n_nss]. eexists. split; [reflexivity|].
    destruct (ikind it) eqn:K; try constructor.
    apply Forall_forall. intros y Hy. apply in_map_iff in Hy. destruct Hy as [x [<- Hx]].
    apply node_row_at. apply (scope_rows n x); [rewrite E; apply in_elt | unfold has_kind; rewrite Hn, K; reflexivity | exact Hx].
  - (* parent *)
    intros i p V Hp. destruct (parent_row_of i p V Hp) as [q [Hin [-> Hlt]]].
    split; [apply node_row_at; exact Hin | exact Hlt].
  - (* a child reports its parent *)
    intros p c V Hc. left. destruct (child_row p c V Hc) as [pre [n [it [post [w [E [Ei [Hn [Hw [Hpost Ec]]]]]]]]]].
    destruct (node_row_at (KNode w) (in_rows pre _ post E _ Hpost)) as [_ G].
    unfold XDoc.parent_node. rewrite Ec, G, row_parent, (child_dom_parent n it w Hn Hw).
    cbn [node_ix]. rewrite (node_pos pre _ post E), Ei. reflexivity.
  - (* sibling ids *)
    intros p V. destruct (row_at p V) as [pre [k [post [E [Hl Hr]]]]]. unfold child_nodes. rewrite Hr.
    destruct k as [[n|n]|a|e]; cbn [row_of n_children]; try constructor.
    destruct (get s n) as [it|] eqn:Hn; [|constructor]. cbn [n_children].
    assert (Hgen : (forall w, In w (child_view s merged n) -> In w (vlisted merged s (Plain n))) ->
                   NoDup (map (nid doc) (map (fun v => ixk (KNode v)) (child_view s merged n)))).
    { intros Hvl. rewrite map_map. rewrite (map_ext_in _ vid).
      - eapply Sub_nodup; [apply (child_view_sub merged s n it Hn) | apply (ti_nodup_c s T n it Hn)].
      - intros w Hw. unfold nid.
        pose proof (row_listed_after F merged s T pre _ post w E (Hvl w Hw)) as Hpost.
        pose proof (in_rows pre _ post E _ Hpost) as Hin.
        destruct (node_row_at (KNode w) Hin) as [_ G]. rewrite G. apply row_id_live. exact Hin. }
    destruct (ikind it) eqn:K; try constructor; apply Hgen; intros w Hw; cbn [vlisted]; rewrite Hn, K;
      [exact Hw | apply in_or_app; right; exact Hw].
  - (* data *)
    intros i V. destruct (row_at i V) as [pre [k [post [E [Hl Hr]]]]]. rewrite Hr.
    destruct k as [[n|n]|a|e]; cbn [row_of n_data]; try discriminate.
    destruct (get s n) as [it|]; [|discriminate]. cbn [n_data]. unfold xdata_of. destruct (ikind it); discriminate.
  - (* names *)
    intros i V. destruct (row_at i V) as [pre [k [post [E [Hl Hr]]]]]. rewrite Hr.
    destruct k as [[n|n]|a|e]; cbn [row_of n_name]; try discriminate.
    + destruct (get s n) as [it|]; [|discriminate]. cbn [n_name]. unfold xname_of.
      destruct (ikind it); try discriminate. destruct (owner_element s n); [destruct (iprefix it)|]; discriminate.
    + destruct (get s a); discriminate.
  - (* document element *)
    intros i V Hk. destruct (row_at i V) as [pre [k [post [E [Hl Hr]]]]]. unfold XDoc.kind in Hk. rewrite Hr in Hk.
    destruct k as [[n|n]|a|e]; cbn [row_of n_kind] in Hk; try (destruct Hk; discriminate).
    destruct (get s n) as [it|] eqn:Hn; [|destruct Hk; discriminate]. cbn [n_kind] in Hk.
    assert (Hin : In (KNode (Plain n)) L) by (rewrite E; apply in_elt).
    assert (K : ikind it = KDoc).
    { destruct Hk as [Hk|Hk]; destruct (ikind it) eqn:K; try discriminate; [reflexivity|].
      exfalso. exact (no_fragment_row n it Hin Hn K). }
    pose proof (ti_doc_root s T n it Hn K) as En. subst n.
    destruct (doc_element s) as [e|] eqn:De; [|contradiction].
    unfold doc_element, children_of in De. rewrite Hn in De. apply find_some in De. destruct De as [He Hke].
    destruct (has_kind_get _ _ Hke) as [eit [Hge Kee]].
    assert (Hcv : In (Plain e) (child_view s merged (sroot s))).
    { unfold child_view. rewrite Hn, K. apply in_map. exact He. }
    assert (Hpost : In (KNode (Plain e)) post).
    { eapply (row_listed_after F merged s T); [exact E|]. cbn [vlisted]. rewrite Hn, K. exact Hcv. }
    exists (ixk (KNode (Plain e))). split.
    + unfold child_nodes. rewrite Hr. cbn [row_of]. rewrite Hn. cbn [n_children]. rewrite K.
      apply (in_map (fun v => ixk (KNode v))) in Hcv. exact Hcv.
    + destruct (node_row_at _ (in_rows pre _ post E _ Hpost)) as [_ G].
      unfold XDoc.kind. rewrite G. cbn [row_of]. rewrite Hge. cbn [n_kind]. rewrite Kee. reflexivity.
Qed.


(** ** order keys *)
Hypothesis O : OrderInv s.

Lemma node_attached v : In (KNode v) L -> In (vid v) (preorder s).
Proof.
  intros H. eapply Sub_in; [apply (rows_sub_preorder F merged s)|]. apply nodes_of_in. exact H.
Qed.

Lemma row_key_live v : In (KNode v) L -> n_key (row (KNode v)) = Store.key s (vid v).
Proof.
  intros H. destruct (row_live F merged s T v H) as [it Hg].
  destruct v as [n|n]; cbn [row_of vid] in *; [rewrite Hg|]; reflexivity.
Qed.

Lemma good_row i : good doc i ->
  exists pre v post, L = pre ++ KNode v :: post /\ length pre = N.to_nat i /\ getd doc i = row (KNode v).
Proof.
  intros [V Hk]. destruct (row_at i V) as [pre [k [post [E [Hl Hr]]]]].
  unfold XDoc.kind in Hk. rewrite Hr in Hk. destruct (row_kind_ns k Hk) as [v ->].
  exists pre, v, post. repeat split; assumption.
Qed.

Theorem view_keys : KeysOk doc.
Proof.
  constructor.
  - destruct (rows_head F merged s T) as [t E].
    destruct (row_at_split [] _ t E) as [_ G]. unfold XDoc.kind. cbn [length N.of_nat] in G.
    unfold doc_root. rewrite G. apply row_kind_node.
  - intros i c V Hc. destruct (child_row i c V Hc) as [pre [n [it [post [w [E [Ei [Hn [Hw [Hpost Ec]]]]]]]]]].
    destruct (node_row_at (KNode w) (in_rows pre _ post E _ Hpost)) as [_ G].
    unfold XDoc.kind. rewrite Ec, G. apply row_kind_node.
  - intros i a V Ha. destruct (attr_row i a V Ha) as [pre [n [it [post [b [E [_ [_ [_ [_ [Hpost Ea]]]]]]]]]]].
    destruct (node_row_at _ (in_rows pre _ post E _ Hpost)) as [_ G].
    unfold XDoc.kind. rewrite Ea, G. apply row_kind_node.
  - intros i p V Hp. destruct (parent_row_of i p V Hp) as [q [Hin [-> _]]].
    destruct (node_row_at _ Hin) as [_ G]. unfold XDoc.kind. rewrite G. apply row_kind_node.
  - intros i Gi. destruct (good_row i Gi) as [pre [v [post [E [Hl Hr]]]]].
    assert (Hin : In (KNode v) L) by (rewrite E; apply in_elt).
    unfold XDoc.key. rewrite Hr, (row_key_live v Hin).
    pose proof (oi_nonzero s O (vid v) (node_attached v Hin)) as Hnz. lia.
  - intros i j Gi Gj Hlt.
    destruct (good_row i Gi) as [pre [v [post [E [Hl Hr]]]]].
    destruct (good_row j Gj) as [pre' [w [post' [E' [Hl' Hr']]]]].
    assert (Hv : In (KNode v) L) by (rewrite E; apply in_elt).
    assert (Hw : In (KNode w) L) by (rewrite E'; apply in_elt).
    unfold XDoc.key. rewrite Hr, Hr', (row_key_live v Hv), (row_key_live w Hw).
    assert (Hs : exists b, post = b ++ KNode w :: post').
    { assert (E2 : pre ++ KNode v :: post = pre' ++ KNode w :: post') by (rewrite <- E; exact E').
      destruct (split_two _ _ _ _ _ _ E2 ltac:(lia)) as [b [Hb _]]. exists b. exact Hb. }
    destruct Hs as [b Hb].
    pose proof (rows_sub_preorder F merged s) as Hsub. rewrite E, Hb in Hsub.
    rewrite nodes_of_app, nodes_of_cons_node, nodes_of_app, nodes_of_cons_node in Hsub.
    apply Sub_two in Hsub. destruct Hsub as [l1 [l2 [l3 Hpre]]].
    exact (oi_increasing s O _ _ _ _ _ Hpre).
Qed.

Theorem view_inv : DocInv doc.
Proof. constructor; [exact view_wf | exact view_keys]. Qed.


End Bridge.

