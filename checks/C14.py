"""C14 -- document order survives edits."""
import json
from . import lib, domlib as D
from .C12 import TRUSTED

def classify(f):
    """known-finding classifiers of C14 -> (finding id, text) or None"""
    if f['clause'] == 'query-empty-text':
        # the two node-sets differ only by merged text nodes without characters: an empty text node
        # (created empty, or emptied by set_data / delete_data / split_text) is not printed, so the
        # re-parsed document does not have it
        return ('DD3', 'query on the edited document selects a text node without characters that the serialisation cannot represent (empty Text node)')
    return None

def check(run):
    run.trusted = TRUSTED + ['Model/StoreView.v (xdoc_of_store, the bridge of the second sentence of C14) is tied by the X ops of the dom correspondence: '
                             'Table::build of harness/src/domains/xpath.rs on the edited document vs the extracted xdoc_of_store on the model store, both views, row by row; '
                             'its string facts (normalised attribute values, replacement texts of entity references) are read from the implementation items and taken as given',
                             'python oracle checks/domlib.py:c14_violations (independent pre-order walk of the dumped tree) and the Q ops (xml_xpath::query on the edited document and on the re-parse)']
    proved, _ = lib.proof_step(run, 'C14', ['-'])
    okr, mok, _ = lib.build_binaries(run, model_areas=['dom'])
    if okr and mok.get('dom'):
        s = D.campaign(run)
        run.evaluations = s['ops']
        run.hist = s['hist']
        run.samples = s['samples']
        run.extra.update({'cases': s['cases'], 'distinct_states_checked': s['states'], 'campaign_cached': s.get('cached'),
                          'campaign_seconds': s['times'], 'queries': D.QUERIES})
        run.nontrivial = set(range(s['nontrivial']))
        if s['ti_fail']:
            run.tie_breaks.append('%d initial store(s) fail the extracted tree_inv_b (hypothesis of order_inv_reachable)' % s['ti_fail'])
        if s['mismatches']:
            m = s['mismatches'][0]
            run.tie_breaks.append('dom correspondence: model and implementation differ (%d histories; see bin/check C12) e.g. after %s' % (len(s['mismatches']), D.describe_failure(m)))
        # the tie of the bridge Model/StoreView.v (X ops)
        T = s.get('tables') or {}
        run.extra['table_tie'] = {k: v for k, v in T.items() if k != 'diffs'}
        run.extra['table_tie']['differences'] = len(T.get('diffs', []))
        run.extra['table_tie']['rule'] = ('xdoc_of_store (extracted) on the model store vs Table::build (harness, shared with the xpath domain) on the edited document, after the same ops; '
                                          'rows compared field by field (kind, id as handle, key as rank, parent, children, attrs, nss, name, data); skipped = known limits of the view, '
                                          'decided on the implementation table and counted in hist (skip:dtd-default-attribute, skip:failing-string-observation); '
                                          'documents without a document element ARE compared (equal-no-document-element)')
        for k, v in (T.get('hist') or {}).items():
            run.hist['table:' + k] = v
        if not T or not T.get('compared'):
            run.tie_breaks.append('table tie of Model/StoreView.v: no table was compared (X ops missing from the campaign)')
        seen_t = set()
        for m in T.get('diffs', []):
            key = (m.get('field'), m.get('table_view'))
            if key in seen_t or len(seen_t) >= 3: continue
            seen_t.add(key)
            g = D.shrink_table_diff(m)
            p = run.write_replay('tabletie%d' % len(seen_t), dict(g, property='C14', what='xdoc_of_store (Model/StoreView.v) and the table the evaluator sees on the edited document differ: ' + D.describe_table_diff(g)))
            run.tie_breaks.append('table tie of Model/StoreView.v: %d of %d tables differ; %s (replay %s)' % (T.get('hist', {}).get('diff', len(T['diffs'])), T['compared'], D.describe_table_diff(g)[:600], p))
        seen = set()
        for f in s['c14']:
            if f['clause'] in seen: continue
            seen.add(f['clause'])
            g = D.shrink_failure(f, 'c14')
            fid = classify(g)
            if fid:
                n = sum(1 for x in s['c14'] if x['clause'] == f['clause'])
                run.known_hits[fid[0]] = (fid[1] + '; e.g. ' + D.describe_failure(g), n)
            else:
                run.failing_inputs.append(dict(g, property='C14', **{'class': g['clause'], 'what': D.describe_failure(g)}))
    return run.finish(level='proof',
        rule='ops executed on the implementation; every distinct dump checked by the C14 oracle (keys vs independent pre-order walk); node-set queries on edited vs re-parsed documents compared as rank lists',
        assumptions=['initial stores satisfy TreeInv and have a fresh order vector', 'documents without DTD-defaulted attributes',
                     'second sentence of C14: proved on the model up to the hypothesis that the re-parsed serialisation shows the same tree (C15 / C04); the equality with a re-parse is checked on the implementation by the Q operations'])

def replay(path):
    return D.replay_file(path, 'c14')
