(** * Vocabulary of the panic-site inventory (translator T4, tools/rs2v/panicsites.py).
    Shared by the generated [Gen/PanicSitesGen.v] and the hand-classified [Model/PanicSites.v]. *)
From Coq Require Import List String Bool Arith.
Import ListNotations.

Inductive kind :=
| K_unwrap | K_expect | K_unimplemented | K_todo | K_unreachable | K_panic | K_index | K_as_usize | K_borrow_mut.

Record site := Site { s_file : string; s_fn : string; s_kind : kind; s_ordinal : nat }.

Definition kind_eqb (a b : kind) : bool :=
  match a, b with
  | K_unwrap, K_unwrap | K_expect, K_expect | K_unimplemented, K_unimplemented | K_todo, K_todo
  | K_unreachable, K_unreachable | K_panic, K_panic | K_index, K_index | K_as_usize, K_as_usize
  | K_borrow_mut, K_borrow_mut => true
  | _, _ => false
  end.

Definition site_eqb (a b : site) : bool :=
  String.eqb (s_file a) (s_file b) && String.eqb (s_fn a) (s_fn b)
  && kind_eqb (s_kind a) (s_kind b) && Nat.eqb (s_ordinal a) (s_ordinal b).

(** the two inventories list the same sites (order is irrelevant, duplicates are not allowed) *)
Definition same_sites (a b : list site) : bool :=
  Nat.eqb (List.length a) (List.length b)
  && forallb (fun s => existsb (site_eqb s) b) a
  && forallb (fun s => existsb (site_eqb s) a) b.
