(** * The name facts of Model/DomFacts.v, for every string

    [facts_of_name s] runs the model of the parser ([Peg.run] on the regenerated grammar, read
    through Model/ParseActions.v) on the markup the code builds around [s].  Here each field is
    characterised by the name predicates of the recommendations (Spec/XmlChars.v), for ALL strings:

      is_qname_spec    is_qname s = is_QName s
      elem_fact_spec   elem_fact s = if is_QName s then Some (name_split s) else None
      attr_fact_spec   attr_fact s = if is_QName s then Some (name_split s) else None
                       (also through the [xmlns] / [xmlns:p] alternative of the production)
      pi_fact_spec     pi_fact s = if forallb NC s && negb (is_xml_ci s) then Some s else None
      ref_fact_spec    ref_fact s = forallb NC s   ("&s;" is, as a whole, one reference to a general
                       entity named s: after repair D64 of create_entity_reference)

    The proofs use the two halves of the C04 ladder: the production re-parses what is written
    (Proofs/DisplayLex.v, Proofs/DisplayElem.v) and a successful run has the shape of the
    production (Proofs/PegInv.v, Proofs/ParseInv.v), together with C18's language theorems. *)
From Coq Require Import List NArith Arith Lia Bool.
From XmlRs Require Import Base.CPred Spec.XmlChars Model.Peg Gen.XmlcharGen Gen.GrammarXmlGen Model.ParseActions
  Proofs.XmlcharProofs Proofs.PegTermination Proofs.GrammarTermination Proofs.PegLemmas Proofs.PegInv
  Proofs.NameLanguage Proofs.QNameLanguage Proofs.DisplayLex Proofs.ActionLemmas Proofs.DisplayElem Proofs.ParseInv
  Model.DomFacts.
From XmlRs Require Model.Info.
Import ListNotations.
Local Open Scope N_scope.

(** ** from the big-step judgments to [run] and the typed entry points *)
Lemma run_parses n s t r : P (NT n) s t r -> run G_xml G_xml_R n s = Ok (t, r).
Proof. intros H. unfold run. apply (parses_at G_xml); [exact H|]. apply xml_grammar_terminates. Qed.

Lemma run_fails n s : F (NT n) s -> run G_xml G_xml_R n s = Fail.
Proof. intros H. unfold run. apply (fails_at G_xml); [exact H|]. apply xml_grammar_terminates. Qed.

Lemma parse_with_yields {A} n (view : val -> option A) s v r a :
  yields (NT n) s v r -> view v = Some a -> parse_with n view s = POk (a, r).
Proof. intros [t [Hp He]] Hv. unfold parse_with. rewrite (run_parses n s t r Hp), He, Hv. reflexivity. Qed.

Lemma parse_with_fails {A} n (view : val -> option A) s : F (NT n) s -> parse_with n view s = PFail.
Proof. intros H. unfold parse_with. rewrite (run_fails n s H). reflexivity. Qed.

(** a typed result comes from a run *)
Lemma parse_with_ok {A} n (view : val -> option A) s a r :
  parse_with n view s = POk (a, r) -> exists t, run G_xml G_xml_R n s = Ok (t, r) /\ view (eval_tree t) = Some a.
Proof.
  unfold parse_with. destruct (run G_xml G_xml_R n s) as [[t r']| |]; try discriminate.
  destruct (view (eval_tree t)) as [a'|] eqn:E; [|discriminate]. intros H. injection H as <- <-. eauto.
Qed.

Lemma whole_some {A} (x : pres (A * str)) a : whole x = Some a -> x = POk (a, []).
Proof. destruct x as [[a' [|c r]]| | |]; cbn [whole]; try discriminate. intros H. injection H as <-. reflexivity. Qed.

(** ** the name predicates of the C04 ladder are those of the recommendations *)
Lemma forallb_ext' {A} (f g : A -> bool) l : (forall x, f x = g x) -> forallb f l = forallb g l.
Proof. intros H. induction l as [|x l IH]; cbn [forallb]; [reflexivity|]. rewrite H, IH. reflexivity. Qed.

Lemma name_ok_NC n : name_ok n <-> forallb NC n = true.
Proof. unfold name_ok. rewrite (forallb_ext' _ NC n eval_NC). reflexivity. Qed.

Lemma ncname_ok_iff n : ncname_ok n <-> is_NCName n = true.
Proof.
  rewrite <- ncname_language. split.
  - intros H. exists (TStr n). apply run_parses. pose proof (parses_ncname n [] H I) as Hp. rewrite app_nil_r in Hp. exact Hp.
  - intros [t H]. apply run_succ in H. apply inv_ncname in H. destruct H as [n' [_ [Hn [E _]]]].
    rewrite app_nil_r in E. subst n'. exact Hn.
Qed.

(** the typed QName of a string *)
Definition qname_of (s : str) : qname :=
  match split_colon s with Some (p, l) => Prefixed p l | None => Unprefixed s end.

(** prefix and local part of a string (first colon) *)
Definition name_split (s : str) : option str * str :=
  match split_colon s with Some (p, l) => (Some p, l) | None => (None, s) end.

Lemma qname_of_ok s : is_QName s = true -> DisplayLex.qname_ok (qname_of s) /\ d_qname (qname_of s) = s.
Proof.
  unfold is_QName, qname_of. destruct (split_colon s) as [[p l]|] eqn:E.
  - intros H. apply andb_prop in H. destruct H as [Hp Hl]. destruct (split_colon_some _ _ _ E) as [-> _].
    split; [split; apply ncname_ok_iff; assumption | reflexivity].
  - intros H. split; [apply ncname_ok_iff; exact H | reflexivity].
Qed.

Lemma name_split_parts s : swap_parts (Info.qname_parts (qname_of s)) = name_split s.
Proof. unfold qname_of, name_split. destruct (split_colon s) as [[p l]|]; reflexivity. Qed.

(** ** [is_qname]: the whole string is one QName *)
Lemma parse_qname_ok s : is_QName s = true -> parse_qname s = POk (qname_of s, []).
Proof.
  intros H. destruct (qname_of_ok s H) as [Hq Hd]. unfold parse_qname.
  apply (parse_with_yields nt_qname as_qname s (VQName (qname_of s)) [] (qname_of s)); [|reflexivity].
  exists (tree_qname (qname_of s)). split; [|apply eval_tree_qname].
  pose proof (parses_qname (qname_of s) [] Hq I) as Hp. rewrite Hd, app_nil_r in Hp. exact Hp.
Qed.

Theorem is_qname_spec : forall s, is_qname s = is_QName s.
Proof.
  intros s. unfold is_qname. destruct (is_QName s) eqn:E.
  - rewrite (parse_qname_ok s E). reflexivity.
  - destruct (whole (parse_qname s)) as [q|] eqn:W; [|reflexivity]. exfalso.
    apply whole_some in W. apply parse_with_ok in W. destruct W as [t [Hr _]].
    assert (A : accepts nt_qname s) by (exists t; exact Hr).
    apply qname_language in A. congruence.
Qed.

(** ** element: "<s />" *)
Lemma parse_element_ok s : is_QName s = true ->
  parse_element ([60] ++ s ++ [32; 47; 62]) = POk (Element (qname_of s) [] None, []).
Proof.
  intros H. destruct (qname_of_ok s H) as [Hq Hd]. set (q := qname_of s) in *.
  apply (parse_with_yields nt_element _ _ (VElement (Element q [] None)) []); [|reflexivity].
  apply yields_nt. rewrite body_element. apply yields_alt_l. apply yields_nt. rewrite body_empty_tag.
  apply (yields_map' (VPair (VQName q) (VList (map VAttribute [])))); [apply al_element|].
  cbn [app]. eapply yields_seqr; [tag|].
  eapply yields_seql.
  - exists (TPair (tree_qname q) (TList [])). split; [|cbn [eval_tree map]; rewrite eval_tree_qname; reflexivity].
    eapply parses_seq.
    + rewrite <- Hd. apply parses_qname; [exact Hq|reflexivity].
    + apply parses_many0. apply mp_stop. apply attr_item_fails_tail. left. exists []. reflexivity.
  - eapply parses_seq; [apply parses_ws0_space; reflexivity | tag].
Qed.

Theorem elem_fact_spec : forall s, elem_fact s = if is_QName s then Some (name_split s) else None.
Proof.
  intros s. unfold elem_fact. rewrite is_qname_spec. destruct (is_QName s) eqn:E.
  - rewrite (parse_element_ok s E). cbn [whole e_name]. rewrite name_split_parts. reflexivity.
  - destruct (whole _); reflexivity.
Qed.

(** ** attribute: "s=''" *)
Definition att_name_of (s : str) : att_name :=
  match qname_of s with
  | Prefixed p l => if Peg.str_eqb p Info.s_xmlns then AnNamespace l else AnQName (Prefixed p l)
  | Unprefixed n => if Peg.str_eqb n Info.s_xmlns then AnDefaultNamespace else AnQName (Unprefixed n)
  end.

Lemma att_name_split s : swap_parts (Info.attribute_name (att_name_of s)) = name_split s.
Proof.
  unfold att_name_of, qname_of, name_split. destruct (split_colon s) as [[p l]|].
  - destruct (Peg.str_eqb p Info.s_xmlns) eqn:E; [|reflexivity]. apply Expansion.str_eqb_eq in E. subst p. reflexivity.
  - destruct (Peg.str_eqb s Info.s_xmlns) eqn:E; [|reflexivity]. apply Expansion.str_eqb_eq in E. subst s. reflexivity.
Qed.

(** "=''" *)
Lemma yields_eq_empty : yields (SeqR (NT nt_eq) (NT nt_att_value)) [61; 39; 39] (VList (map VAttValue [])) [].
Proof.
  eapply yields_seqr; [apply parses_eq; reflexivity|].
  apply (yields_att_value 39 [] []); [right; reflexivity | exact I].
Qed.

Lemma parse_attribute_ok s : is_QName s = true ->
  parse_attribute (s ++ [61; 39; 39]) = POk (Attribute (att_name_of s) [], []).
Proof.
  intros H. destruct (qname_of_ok s H) as [Hq Hd].
  apply (parse_with_yields nt_attribute as_attribute _ (VAttribute (Attribute (att_name_of s) [])) []); [|reflexivity].
  apply yields_nt. rewrite body_attribute.
  apply (yields_map' (VPair (VAttName (att_name_of s)) (VList (map VAttValue [])))); [apply al_attribute|].
  unfold att_name_of. set (q := qname_of s) in *. clearbody q. subst s.
  destruct q as [p l|n]; cbn [DisplayLex.qname_ok d_qname] in *.
  - destruct Hq as [Hp Hl]. destruct (Peg.str_eqb p Info.s_xmlns) eqn:E.
    + (* xmlns:l *) apply Expansion.str_eqb_eq in E. subst p. apply yields_alt_l.
      eapply yields_seq; [|exact yields_eq_empty].
      apply yields_nt. rewrite body_ns_att_name. apply yields_alt_l.
      apply (yields_map' (VStr l)); [reflexivity|].
      unfold Info.s_xmlns. norm_app. eapply yields_seqr; [tag|]. apply yields_str.
      apply parses_ncname; [exact Hl | apply stops_eq_ncname].
    + rewrite <- app_assoc. cbn [app]. apply yields_alt_r.
      * apply ns_alt_fails; [exact Hp | | left; reflexivity].
        intros ->. rewrite Expansion.str_eqb_refl in E. discriminate.
      * eapply yields_seq; [|exact yields_eq_empty].
        apply (yields_map' (VQName (Prefixed p l))); [reflexivity|].
        exists (tree_qname (Prefixed p l)). split; [|apply eval_tree_qname].
        pose proof (parses_qname (Prefixed p l) [61; 39; 39]) as Hp'.
        cbn [d_qname] in Hp'. rewrite <- app_assoc in Hp'. cbn [app] in Hp'. apply Hp'; [split; assumption | apply stops_eq_name].
  - destruct (Peg.str_eqb n Info.s_xmlns) eqn:E.
    + (* xmlns *) apply Expansion.str_eqb_eq in E. subst n. apply yields_alt_l.
      eapply yields_seq; [|exact yields_eq_empty].
      apply yields_nt. rewrite body_ns_att_name. apply yields_alt_r.
      * apply fails_map. apply fails_seqr_l. apply fails_tag. reflexivity.
      * apply (yields_map' (VStr Info.s_xmlns)); [reflexivity|]. apply yields_str. apply parses_tag.
    + apply yields_alt_r.
      * apply ns_alt_fails; [exact Hq | | right; reflexivity].
        intros ->. rewrite Expansion.str_eqb_refl in E. discriminate.
      * eapply yields_seq; [|exact yields_eq_empty].
        apply (yields_map' (VQName (Unprefixed n))); [reflexivity|].
        exists (tree_qname (Unprefixed n)). split; [|apply eval_tree_qname].
        apply (parses_qname (Unprefixed n)); [exact Hq | apply stops_eq_name].
Qed.

Theorem attr_fact_spec : forall s, attr_fact s = if is_QName s then Some (name_split s) else None.
Proof.
  intros s. unfold attr_fact. rewrite is_qname_spec. destruct (is_QName s) eqn:E.
  - rewrite (parse_attribute_ok s E). cbn [whole at_name]. rewrite att_name_split. reflexivity.
  - destruct (whole _); reflexivity.
Qed.

(** ** processing instruction target: "<?s?>" *)
Lemma pi_target_ok_iff t : pi_target_ok t <-> forallb NC t = true /\ is_xml_ci t = false.
Proof. unfold pi_target_ok. rewrite name_ok_NC, ci_reject_xml. reflexivity. Qed.

Theorem pi_fact_spec : forall s, pi_fact s = if forallb NC s && negb (is_xml_ci s) then Some s else None.
Proof.
  intros s. unfold pi_fact.
  destruct (forallb NC s && negb (is_xml_ci s)) eqn:E.
  - apply andb_prop in E. destruct E as [E1 E2]. apply negb_true_iff in E2.
    assert (Hp : parse_pi ([60; 63] ++ s ++ [63; 62]) = POk (PI s None, [])).
    { apply (parse_with_yields nt_pi _ _ (VPI (PI s None)) []); [|reflexivity].
      pose proof (yields_pi (PI s None) []) as Hy. unfold d_ppi in Hy. cbn [pi_target pi_value] in Hy.
      rewrite app_nil_r in Hy. apply Hy. split; [apply pi_target_ok_iff; split; assumption | exact I]. }
    rewrite Hp. cbn [whole pi_value pi_target]. rewrite Expansion.str_eqb_refl. reflexivity.
  - destruct (whole (parse_pi ([60; 63] ++ s ++ [63; 62]))) as [p|] eqn:W; [|reflexivity].
    destruct (pi_value p) eqn:V; [reflexivity|].
    destruct (Peg.str_eqb (pi_target p) s) eqn:T; [|reflexivity]. exfalso.
    apply Expansion.str_eqb_eq in T. apply whole_some in W. apply parse_with_ok in W. destruct W as [t [Hr Hv]].
    apply run_succ in Hr. apply inv_pi in Hr. destruct Hr as [p' [Ep [Hok _]]]. rewrite Ep in Hv. injection Hv as ->.
    rewrite T in Hok. apply pi_target_ok_iff in Hok. destruct Hok as [H1 H2]. rewrite H1, H2 in E. discriminate.
Qed.

(** ** reference: "&s;" is one entity reference whose name is s *)
Lemma inv_reference_str s t r : S (NT nt_reference) s t r ->
  exists x, eval_tree t = VReference x /\ reference_ok x /\ s = d_reference x ++ r.
Proof.
  intros H. inv_nt H body_reference. inv_alt.
  - match goal with H : succ _ (NT nt_entity_ref) _ _ _ |- _ => inv_nt H body_entity_ref end. invs.
    match goal with H : succ _ (NT nt_name) _ _ _ |- _ => apply inv_name in H; destruct H as [n [-> [Hn [-> _]]]] end.
    exists (RefEntity n). split; [reflexivity|]. split; [exact Hn|]. cbn [d_reference app]. rewrite <- app_assoc. reflexivity.
  - match goal with H : succ _ (NT nt_char_ref) _ _ _ |- _ => inv_nt H body_char_ref end. inv_alt; invs.
    + eexists (RefChar _ Dec). split; [reflexivity|]. split; [split; assumption|]. cbn [d_reference app]. rewrite <- app_assoc. reflexivity.
    + eexists (RefChar _ Hex). split; [reflexivity|]. split; [split; assumption|]. cbn [d_reference app]. rewrite <- app_assoc. reflexivity.
Qed.

Theorem ref_fact_spec : forall s, ref_fact s = forallb NC s.
Proof.
  intros s. unfold ref_fact. destruct (forallb NC s) eqn:E.
  - assert (Hp : parse_reference ([38] ++ s ++ [59]) = POk (RefEntity s, [])).
    { unfold parse_reference. apply (parse_with_yields nt_reference _ _ (VReference (RefEntity s)) []); [|reflexivity].
      pose proof (yields_reference (RefEntity s) []) as Hy. cbn [d_reference] in Hy. rewrite app_nil_r in Hy.
      apply Hy. apply name_ok_NC. exact E. }
    rewrite Hp. cbn [whole]. apply Expansion.str_eqb_refl.
  - destruct (whole (parse_reference ([38] ++ s ++ [59]))) as [[num r|v]|] eqn:W; try reflexivity.
    destruct (Peg.str_eqb v s) eqn:T; [|reflexivity]. exfalso.
    apply Expansion.str_eqb_eq in T. subst v. apply whole_some in W. apply parse_with_ok in W. destruct W as [t [Hr Hv]].
    apply run_succ in Hr. apply inv_reference in Hr. destruct Hr as [x [Ex Hok]]. rewrite Ex in Hv. injection Hv as ->.
    cbn [reference_ok] in Hok. apply name_ok_NC in Hok. congruence.
Qed.

Lemma ref_fact_NC s : forallb NC s = true -> ref_fact s = true.
Proof. intros H. rewrite ref_fact_spec. exact H. Qed.
