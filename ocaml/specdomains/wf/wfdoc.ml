(* wfdoc (spec side).  Case lines:
     v <document>        -> `x10=<verdict> ns=<verdict>`   (Spec.XmlWF: XML 1.0 / + Namespaces;
                            verdict = wf | notwf:<reason code> | unsupported)
     d <document>        -> the same, then ` I <infoset dump>` (Spec.Infoset.infoset_of_string; `I -`
                            when the text denotes no infoset)
     g <seed1> <seed2> <abstract document>
                         -> `valid=<0|1> r1=<rendering 1> r2=<rendering 2> w1=<0|1> w2=<0|1> i1=<0|1> i2=<0|1> D <dump of denote>`
                            rendering i = Spec.Infoset.render d (seeded seed_i); w = Spec.XmlWF.wf of
                            it; i = infoset_of_string of it equals denote d (self-consistency of the spec)
   The dump format is the one of harness/src/domains/wfdoc.rs.  The abstract document is a
   prefix-notation token stream (see tools/gen/wfgen.py: `serialise`). *)
let show_verdict v = match v with
  | WF -> "wf"
  | NotWF r -> "notwf:" ^ string_of_int (int_of_n (reason_code r))
  | Unsupported -> "unsupported"

let o = function None -> "~" | Some s -> enc s
let tok_string (t : token) : string = match t with
  | TDoc (v, e, sa) -> Printf.sprintf "D:%s:%s:%s" (o v) (o e) (match sa with None -> "~" | Some true -> "y" | Some false -> "n")
  | TComment s -> "c:" ^ enc s
  | TPI (t, d) -> Printf.sprintf "p:%s:%s" (enc t) (enc d)
  | TDoctype (n, p, s) -> Printf.sprintf "T:%s:%s:%s" (enc n) (o p) (o s)
  | TNotation (n, p, s) -> Printf.sprintf "n:%s:%s:%s" (enc n) (o p) (o s)
  | TUnparsed (n, p, s, nt) -> Printf.sprintf "u:%s:%s:%s:%s" (enc n) (o p) (enc s) (enc nt)
  | TEndDoctype -> "/T"
  | TElem n -> "E:" ^ enc n
  | TAttr (sp, n, v) -> Printf.sprintf "%s:%s:%s" (if sp then "a" else "b") (enc n) (enc v)
  | TEndElem -> "/E"
  | TText s -> "t:" ^ enc s
  | TUnexp n -> "x:" ^ enc n
let dump (l : token list) : string = String.concat " " (List.map tok_string l)

(* ---- reader of the serialised abstract document ---- *)
exception Bad of string
let rd_doc (words : string list) : adoc =
  let a = Array.of_list words in
  let pos = ref 0 in
  let next () = if !pos >= Array.length a then raise (Bad "eof") else (let w = a.(!pos) in incr pos; w) in
  let str () = dec (next ()) in
  let ostr () = let w = next () in if w = "~" then None else Some (dec w) in
  let num () = int_of_string (next ()) in
  let rec many n f = if n <= 0 then [] else (let x = f () in x :: many (n - 1) f) in
  let item () = match next () with
    | "T" -> IText (str ()) | "R" -> IRef (str ()) | w -> raise (Bad ("item " ^ w)) in
  let items () = let n = num () in many n item in
  let rec node () = match next () with
    | "t" -> AText (str ())
    | "r" -> ARef (str ())
    | "c" -> AComment (str ())
    | "p" -> let t = str () in let d = ostr () in API (t, d)
    | "e" -> let nm = str () in
             let na = num () in
             let atts = many na (fun () -> let n = str () in let v = items () in (n, v)) in
             let nk = num () in
             let kids = many nk node in
             AElem (nm, atts, kids)
    | w -> raise (Bad ("node " ^ w)) in
  let nodes () = let n = num () in many n node in
  let occ () = match next () with "1" -> OOne | "?" -> OOpt | "*" -> OStar | "+" -> OPlus | w -> raise (Bad ("occ " ^ w)) in
  let rec cp () = match next () with
    | "n" -> let nm = str () in let oc = occ () in CPName (nm, oc)
    | "c" -> let oc = occ () in let n = num () in let l = many n cp in CPChoice (l, oc)
    | "s" -> let oc = occ () in let n = num () in let l = many n cp in CPSeq (l, oc)
    | w -> raise (Bad ("cp " ^ w)) in
  let atype () = match next () with
    | "cdata" -> ATCData | "id" -> ATId | "idref" -> ATIdRef | "idrefs" -> ATIdRefs
    | "entity" -> ATEntity | "entities" -> ATEntities | "nmtoken" -> ATNmtoken | "nmtokens" -> ATNmtokens
    | "notation" -> let n = num () in ATNotation (many n str)
    | "enum" -> let n = num () in ATEnum (many n str)
    | w -> raise (Bad ("type " ^ w)) in
  let adefault () = match next () with
    | "req" -> DfRequired | "imp" -> DfImplied
    | "val" -> let f = next () = "1" in let v = items () in DfValue (f, v)
    | w -> raise (Bad ("default " ^ w)) in
  let decl () = match next () with
    | "E" -> let nm = str () in let v = items () in ADEntity (nm, v)
    | "X" -> let nm = str () in let p = ostr () in let s = str () in let nd = ostr () in ADExtEntity (nm, p, s, nd)
    | "N" -> let nm = str () in let p = ostr () in let s = ostr () in ADNotation (nm, p, s)
    | "A" -> let el = str () in let n = num () in
             ADAttlist (el, many n (fun () -> let nm = str () in let ty = atype () in let df = adefault () in ((nm, ty), df)))
    | "L" -> let nm = str () in
             let spec = (match next () with
               | "empty" -> CSEmpty | "any" -> CSAny
               | "mixed" -> let n = num () in CSMixed (many n str)
               | "children" -> CSChildren (cp ())
               | w -> raise (Bad ("spec " ^ w))) in
             ADElement (nm, spec)
    | "C" -> ADComment (str ())
    | "P" -> let t = str () in let d = ostr () in ADPI (t, d)
    | w -> raise (Bad ("decl " ^ w)) in
  (match next () with "X" -> () | w -> raise (Bad ("doc " ^ w)));
  let ver = ostr () in
  let en = ostr () in
  let sa = (match next () with "~" -> None | "y" -> Some true | _ -> Some false) in
  let m1 = nodes () in
  let dt = (match next () with
    | "~" -> None
    | "T" -> let nm = str () in let p = ostr () in let s = ostr () in
             let sub = (match next () with "~" -> None | w -> let n = int_of_string w in Some (many n decl)) in
             Some { ad_name = nm; ad_pub = p; ad_sys = s; ad_subset = sub }
    | w -> raise (Bad ("doctype " ^ w))) in
  let m2 = nodes () in
  let root = node () in
  let m3 = nodes () in
  { a_version = ver; a_encoding = en; a_standalone = sa; a_misc1 = m1; a_doctype = dt; a_misc2 = m2;
    a_root = root; a_misc3 = m3 }

let seed_of (w : string) : n list = List.map (fun x -> n_of_int (int_of_string x)) (String.split_on_char ',' w)
let b x = if x then "1" else "0"

let () = register "wfdoc" (fun words ->
  match words with
  | ["v"; doc] ->
    let s = dec doc in
    Printf.sprintf "x10=%s ns=%s" (show_verdict (verdict10 s)) (show_verdict (verdict_ns s))
  | ["d"; doc] ->
    let s = dec doc in
    Printf.sprintf "x10=%s ns=%s I %s" (show_verdict (verdict10 s)) (show_verdict (verdict_ns s))
      (match infoset_of_string s with Some l -> dump l | None -> "-")
  | "g" :: s1 :: s2 :: rest ->
    (try
       let d = rd_doc rest in
       let r1 = render d (seeded (seed_of s1)) and r2 = render d (seeded (seed_of s2)) in
       let den = denote d in
       let wfb r = (match verdict_ns r with WF -> true | _ -> false) in
       let same r = (match infoset_of_string r with Some l -> l = den | None -> false) in
       Printf.sprintf "valid=%s r1=%s r2=%s w1=%s w2=%s i1=%s i2=%s D %s" (b (valid d)) (enc r1) (enc r2)
         (b (wfb r1)) (b (wfb r2)) (b (same r1)) (b (same r2)) (dump den)
     with Bad m -> "badinput " ^ m | Failure m -> "badinput " ^ m)
  | _ -> "badinput")
