(** Class theorems of C18: the predicates generated from nom/src/xmlchar.rs equal the
    productions of XML 1.0 5th edition on every code point.  Each proof is one run of the
    verified equivalence check [CPred.equiv_sound] on the GENERATED term, so it is
    re-established for whatever the source says now. *)
From Coq Require Import List NArith Bool Lia.
From XmlRs Require Import Base.CPred Spec.XmlChars Gen.XmlcharGen.
Import ListNotations.
Open Scope N_scope.

Lemma is_char_equiv : forall c, eval is_char c = eval spec_Char c.
Proof. apply equiv_sound. vm_compute. reflexivity. Qed.

Lemma is_name_start_char_equiv : forall c, eval is_name_start_char c = eval spec_NameStartChar c.
Proof. apply equiv_sound. vm_compute. reflexivity. Qed.

Lemma is_name_char_equiv : forall c, eval is_name_char c = eval spec_NameChar c.
Proof. apply equiv_sound. vm_compute. reflexivity. Qed.

Lemma is_pubid_char_equiv : forall c, eval is_pubid_char c = eval spec_PubidChar c.
Proof. apply equiv_sound. vm_compute. reflexivity. Qed.

Lemma is_enc_name_equiv : forall c, eval is_enc_name c = eval spec_EncNameChar c.
Proof. apply equiv_sound. vm_compute. reflexivity. Qed.

(** the [*_except] helpers: the class minus the listed characters, for every list *)
Lemma existsb_point l c :
  existsb (fun x => (x <=? c) && (c <? x + 1)) l = existsb (N.eqb c) l.
Proof.
  induction l as [|x l IH]; cbn [existsb]; [reflexivity|]. rewrite IH. f_equal.
  destruct (N.leb_spec x c), (N.ltb_spec c (x + 1)), (N.eqb_spec c x); cbn; try reflexivity; lia.
Qed.

Lemma is_char_except_equiv ex c :
  eval (is_char_except ex) c = eval spec_Char c && negb (existsb (N.eqb c) ex).
Proof. unfold is_char_except. cbn [eval]. now rewrite is_char_equiv, existsb_point. Qed.

Lemma is_name_char_except_equiv ex c :
  eval (is_name_char_except ex) c = eval spec_NameChar c && negb (existsb (N.eqb c) ex).
Proof. unfold is_name_char_except. cbn [eval]. now rewrite is_name_char_equiv, existsb_point. Qed.

Lemma is_name_start_char_except_equiv ex c :
  eval (is_name_start_char_except ex) c = eval spec_NameStartChar c && negb (existsb (N.eqb c) ex).
Proof. unfold is_name_start_char_except. cbn [eval]. now rewrite is_name_start_char_equiv, existsb_point. Qed.

Lemma is_pubid_char_except_equiv ex c :
  eval (is_pubid_char_except ex) c = eval spec_PubidChar c && negb (existsb (N.eqb c) ex).
Proof. unfold is_pubid_char_except. cbn [eval]. now rewrite is_pubid_char_equiv, existsb_point. Qed.

(** non-vacuity: the classes are neither empty nor full, and differ from each other *)
Example classes_nontrivial :
  eval is_char 0x41 = true /\ eval is_char 0xFFFE = false /\
  eval is_name_start_char 0x2FEF = true /\ eval is_name_start_char 0x2FF0 = false /\
  eval is_name_char 0x2D = true /\ eval is_name_start_char 0x2D = false /\
  eval is_pubid_char 0x25 = true /\ eval is_pubid_char 0x26 = false /\
  eval is_enc_name 0x5F = true /\ eval is_enc_name 0x3A = false.
Proof. vm_compute. repeat split. Qed.
