(** * What the Rust code of the XPath function library does (xpath/src/eval/func.rs,
      xpath/src/eval/model.rs, the scalar operator cases of xpath/src/eval/mod.rs).

    One definition per Rust function, named after it ([m_<fn>]); the methods of [str] / [f64] /
    iterators the code calls are modelled first ([rs_*], hand-written from the standard
    library's documentation, on code points; the correspondence check validates them against
    the running code).  [Option::unwrap] on a missing argument is [RPanic].

    This is the REPAIRED code (branch commits "fix: ..." for D30-D34 and normalize-space);
    the section "Pinned" at the end keeps the behaviour of the pinned tree for the repaired
    functions, so that the defects stay visible as refutation examples.

    No proofs here (Proofs/XPathFuncs*.v). *)
From Coq Require Import ZArith NArith List Bool Ascii String.
From Coq Require Import Floats.SpecFloat.
From XmlRs Require Import Base.CPred Base.Float64 Base.Utf8 Spec.XPathCore Gen.FuncTableGen.
Import ListNotations.
Open Scope N_scope.

(** ** methods of [str], [char] and iterators *)

(** [str::starts_with(&str)] *)
Fixpoint rs_starts_with (s p : str) : bool :=
  match p, s with
  | [], _ => true
  | x :: p', y :: s' => (x =? y) && rs_starts_with s' p'
  | _ :: _, [] => false
  end.

(** [str::find(&str)]: index (in characters) of the first match *)
Fixpoint rs_find (s p : str) : option nat :=
  if rs_starts_with s p then Some O
  else match s with
       | [] => None
       | _ :: t => match rs_find t p with Some i => Some (S i) | None => None end
       end.

(** [str::contains(&str)] *)
Definition rs_contains (s p : str) : bool :=
  match rs_find s p with Some _ => true | None => false end.

(** [str::split_once(&str)]: [(&s[..start], &s[end..])] of the first match *)
Definition rs_split_once (s p : str) : option (str * str) :=
  match rs_find s p with
  | Some i => Some (firstn i s, skipn (i + List.length p) s)
  | None => None
  end.

(** [str::split(pred)]: the pieces between separators, empty ones included; [cur] is the
    current piece, reversed *)
Fixpoint rs_split (p : char -> bool) (s : str) (cur : str) : list str :=
  match s with
  | [] => [rev cur]
  | c :: t => if p c then rev cur :: rs_split p t [] else rs_split p t (c :: cur)
  end.

(** [[&str]::join(sep)] *)
Fixpoint rs_join (sep : str) (l : list str) : str :=
  match l with
  | [] => []
  | [x] => x
  | x :: t => x ++ sep ++ rs_join sep t
  end.

(** [str::trim_matches(pred)] *)
Definition rs_trim_matches (p : char -> bool) (s : str) : str :=
  rev (drop_while p (rev (drop_while p s))).

(** [str::strip_prefix(char).unwrap_or(s)] *)
Definition rs_strip_prefix_or (c : char) (s : str) : str :=
  match s with x :: t => if x =? c then t else s | [] => s end.

(** [Iterator::position] *)
Fixpoint rs_position (c : char) (s : str) : option nat :=
  match s with
  | [] => None
  | x :: t => if x =? c then Some O else match rs_position c t with Some i => Some (S i) | None => None end
  end.

(** [chars().enumerate().filter(|(i, _)| keep i).map(|(_, c)| c).collect()], [i] counted from [i0] *)
Fixpoint rs_filter_enumerate (keep : N -> bool) (i0 : N) (s : str) : str :=
  match s with
  | [] => []
  | c :: t => if keep i0 then c :: rs_filter_enumerate keep (i0 + 1) t else rs_filter_enumerate keep (i0 + 1) t
  end.

Definition rs_is_ascii_digit (c : char) : bool := (48 <=? c) && (c <=? 57).
(** [matches!(c, ' ' | '\t' | '\r' | '\n')] *)
Definition rs_xml_ws (c : char) : bool := (c =? 32) || (c =? 9) || (c =? 13) || (c =? 10).

(** [char::to_ascii_lowercase] *)
Definition rs_lower (c : char) : char := if (65 <=? c) && (c <=? 90) then c + 32 else c.

(** ** [f64]: parsing and printing *)
Definition lit_inf : str := Eval cbv in str_of "inf".
Definition lit_infinity : str := Eval cbv in str_of "infinity".
Definition lit_nan : str := Eval cbv in str_of "nan".
Definition lit_mInfinity : str := Eval cbv in str_of "-Infinity".

(** [str::parse::<f64>()] (core::num::dec2flt): an optional sign, then "inf" / "infinity" / "nan"
    in any letter case, or digits with an optional fraction and an optional exponent, at least
    one digit in the mantissa; nothing else (no white space).  The value is correctly rounded. *)
Definition rust_sign (s : str) : bool * str :=
  match s with
  | c :: t => if c =? 45 then (true, t) else if c =? 43 then (false, t) else (false, s)
  | [] => (false, s)
  end.

Definition rust_parse_f64 (s : str) : option f64 :=
  let '(neg, s1) := rust_sign s in
  let low := map rs_lower s1 in
  if str_eqb low lit_inf || str_eqb low lit_infinity then Some (S754_infinity neg)
  else if str_eqb low lit_nan then Some S754_nan
  else
    let '(ip, s2) := span rs_is_ascii_digit s1 in
    let '(dot, s2') := strip_char 46 s2 in
    let '(fp, s3) := if dot then span rs_is_ascii_digit s2' else ([], s2) in
    match ip ++ fp with
    | [] => None
    | _ :: _ =>
        let D := digits_val (ip ++ fp) in
        let k0 := (- Z.of_nat (List.length fp))%Z in
        match s3 with
        | [] => Some (f64_of_decimal neg D k0)
        | e :: s4 =>
            if (e =? 101) || (e =? 69) then
              let '(eneg, s5) := rust_sign s4 in
              let '(ed, s6) := span rs_is_ascii_digit s5 in
              match ed, s6 with
              | _ :: _, [] =>
                  let ev := digits_val ed in
                  Some (f64_of_decimal neg D (k0 + (if eneg then - ev else ev))%Z)
              | _, _ => None
              end
            else None
        end
    end.

(** [f64::to_string()] ([Display]): "NaN", "inf", "-inf", "0", "-0", otherwise the shortest
    digits that read back as the same value, in positional notation (never an exponent) *)
Definition rust_f64_to_string (x : f64) : str :=
  match x with
  | S754_nan => lit_NaN
  | S754_infinity s => (if s then lit_minus else []) ++ lit_inf
  | S754_zero s => (if s then lit_minus else []) ++ lit_0
  | S754_finite s _ _ => (if s then lit_minus else []) ++ f64_fmt_decimal x
  end.

(** ** model.rs: the three conversions [TryFrom<&Value>] *)

(** [impl TryFrom<&Value> for String] *)
Definition model_to_string (v : value) : str :=
  match v with
  | VBool b => if b then lit_true else lit_false
  | VNodes l => match l with f :: _ => f | [] => [] end
  | VNum x =>
      match x with
      | S754_infinity false => lit_Infinity
      | S754_infinity true => lit_mInfinity
      | _ => rust_f64_to_string x
      end
  | VStr s => s
  end.

(** [fn string_to_number(v: &str) -> f64] (fix D33) *)
Definition m_string_to_number (v : str) : f64 :=
  let t := rs_trim_matches rs_xml_ws v in
  let n := rs_strip_prefix_or 45 t in
  let number :=
    forallb (fun c => rs_is_ascii_digit c || (c =? 46)) n
    && existsb rs_is_ascii_digit n
    && Nat.leb (List.length (filter (fun c => c =? 46) n)) 1 in
  if number then match rust_parse_f64 t with Some x => x | None => f64_nan end
  else f64_nan.

(** [impl TryFrom<&Value> for f64] *)
Definition model_to_number (v : value) : f64 :=
  match v with
  | VBool b => if b then f64_one else f64_zero
  | VNodes l => m_string_to_number (match l with f :: _ => f | [] => [] end)
  | VNum x => x
  | VStr s => m_string_to_number s
  end.

(** [impl TryFrom<&Value> for bool]: [!(n == 0f64 || n.is_nan())] *)
Definition model_to_bool (v : value) : bool :=
  match v with
  | VBool b => b
  | VNodes l => negb (match l with [] => true | _ => false end)
  | VNum n => negb (f64_eqb n f64_zero || f64_is_nan n)
  | VStr s => negb (match s with [] => true | _ => false end)
  end.

(** ** func.rs *)
Definition mfn := str -> list value -> fres.

(** [if let Some(arg) = args.first() { arg } else { &Value::Node(vec![node]) }]: the context
    node enters only through its string-value [cs] *)
Definition first_or_context (cs : str) (args : list value) : value :=
  match args with a :: _ => a | [] => VNodes [cs] end.

Definition m_string : mfn := fun cs args =>
  ROk (VStr (model_to_string (first_or_context cs args))).

Definition m_concat : mfn := fun _ args =>
  ROk (VStr (fold_left (fun s a => s ++ model_to_string a) args [])).

Definition m_starts_with : mfn := fun _ args =>
  match args with
  | a :: b :: _ => ROk (VBool (rs_starts_with (model_to_string a) (model_to_string b)))
  | _ => RPanic
  end.

Definition m_contains : mfn := fun _ args =>
  match args with
  | a :: b :: _ => ROk (VBool (rs_contains (model_to_string a) (model_to_string b)))
  | _ => RPanic
  end.

Definition m_substring_before : mfn := fun _ args =>
  match args with
  | a :: b :: _ =>
      ROk (VStr (match rs_split_once (model_to_string a) (model_to_string b) with
                 | Some (x, _) => x
                 | None => []
                 end))
  | _ => RPanic
  end.

Definition m_substring_after : mfn := fun _ args =>
  match args with
  | a :: b :: _ =>
      ROk (VStr (match rs_split_once (model_to_string a) (model_to_string b) with
                 | Some (_, y) => y
                 | None => []
                 end))
  | _ => RPanic
  end.

(** [fn round_half_up(v: f64) -> f64] (fix D32) *)
Definition neg_half : f64 := S754_finite true 4503599627370496 (-53).
Definition m_round_half_up (v : f64) : f64 :=
  if f64_eqb (f64_fract v) neg_half then f64_trunc v else f64_round_away v.

(** [fn substring] (fix D30) *)
Definition m_substring : mfn := fun _ args =>
  match args with
  | a :: b :: rest =>
      let v := model_to_string a in
      let start := m_round_half_up (model_to_number b) in
      let en := match rest with
                | c :: _ => Some (f64_add start (m_round_half_up (model_to_number c)))
                | [] => None
                end in
      ROk (VStr (rs_filter_enumerate
                   (fun i => let p := f64_of_N (i + 1) in
                             f64_geb p start && match en with Some e => f64_ltb p e | None => true end)
                   0 v))
  | _ => RPanic
  end.

(** [fn string_length] (fix D31): [chars().count() as f64] *)
Definition m_string_length : mfn := fun cs args =>
  ROk (VNum (f64_of_N (N.of_nat (List.length (model_to_string (first_or_context cs args)))))).

(** [fn normalize_space] (fix: XML white space only) *)
Definition m_normalize_space : mfn := fun cs args =>
  let r := model_to_string (first_or_context cs args) in
  let w := filter (fun v => negb (match v with [] => true | _ => false end)) (rs_split rs_xml_ws r []) in
  ROk (VStr (rs_join [32] w)).

Definition m_translate : mfn := fun _ args =>
  match args with
  | a :: b :: c :: _ =>
      let s1 := model_to_string a in
      let s2 := model_to_string b in
      let s3 := model_to_string c in
      ROk (VStr (flat_map (fun ch => match rs_position ch s2 with
                                     | Some index => match nth_error s3 index with
                                                     | Some r => [r]
                                                     | None => []
                                                     end
                                     | None => [ch]
                                     end) s1))
  | _ => RPanic
  end.

Definition m_boolean : mfn := fun _ args =>
  match args with a :: _ => ROk (VBool (model_to_bool a)) | [] => RPanic end.
Definition m_not : mfn := fun _ args =>
  match args with a :: _ => ROk (VBool (negb (model_to_bool a))) | [] => RPanic end.
Definition m_ftrue : mfn := fun _ _ => ROk (VBool true).
Definition m_ffalse : mfn := fun _ _ => ROk (VBool false).

Definition m_number : mfn := fun cs args =>
  ROk (VNum (model_to_number (first_or_context cs args))).

Definition m_sum : mfn := fun _ args =>
  match args with
  | VNodes nodes :: _ => ROk (VNum (fold_left (fun s n => f64_add s (model_to_number (VNodes [n]))) nodes f64_zero))
  | _ :: _ => RErr EInvalidType
  | [] => RPanic
  end.

Definition m_floor : mfn := fun _ args =>
  match args with a :: _ => ROk (VNum (f64_floor (model_to_number a))) | [] => RPanic end.
Definition m_ceiling : mfn := fun _ args =>
  match args with a :: _ => ROk (VNum (f64_ceil (model_to_number a))) | [] => RPanic end.
Definition m_round : mfn := fun _ args =>
  match args with a :: _ => ROk (VNum (m_round_half_up (model_to_number a))) | [] => RPanic end.

(** node functions: only what they do with a scalar argument is modelled here *)
Definition m_count : mfn := fun _ args =>
  match args with
  | VNodes n :: _ => ROk (VNum (f64_of_N (N.of_nat (List.length n))))
  | _ :: _ => RErr EInvalidType
  | [] => RPanic
  end.
Definition m_name_like : mfn := fun _ args =>
  match args with
  | VNodes _ :: _ => RNeedsNode
  | _ :: _ => RErr EInvalidType
  | [] => RNeedsNode
  end.
Definition m_needs_node : mfn := fun _ _ => RNeedsNode.

(** the Rust functions by identifier *)
Definition rust_fn_names : list str := Eval cbv in map str_of [
  "last"; "position"; "count"; "id"; "local_name"; "namespace_uri"; "name";
  "string"; "concat"; "starts_with"; "contains"; "substring_before"; "substring_after";
  "substring"; "string_length"; "normalize_space"; "translate"; "boolean"; "not"; "ftrue";
  "ffalse"; "lang"; "number"; "sum"; "floor"; "ceiling"; "round"
]%string.
Definition rust_fn_impls : list mfn := [
  m_needs_node; m_needs_node; m_count; m_needs_node; m_name_like; m_name_like; m_name_like;
  m_string; m_concat; m_starts_with; m_contains; m_substring_before; m_substring_after;
  m_substring; m_string_length; m_normalize_space; m_translate; m_boolean; m_not; m_ftrue;
  m_ffalse; m_needs_node; m_number; m_sum; m_floor; m_ceiling; m_round
].
Definition rust_fns : list (str * mfn) := combine rust_fn_names rust_fn_impls.

Fixpoint lookup_rust_fn (id : str) (t : list (str * mfn)) : option mfn :=
  match t with
  | [] => None
  | (n, g) :: t' => if str_eqb n id then Some g else lookup_rust_fn id t'
  end.

Fixpoint lookup_call (f : str) (t : list (str * str)) : option str :=
  match t with
  | [] => None
  | (n, id) :: t' => if str_eqb n f then Some id else lookup_call f t'
  end.

(** mod.rs [eval_func_expr] after the arguments are evaluated: look the name up in [table()]
    (first entry with that local part; every namespace_uri is None), test the number of
    arguments against [min_args() ..= max_args()], call the entry *)
Definition model_fn (cs : str) (f : str) (args : list value) : fres :=
  match lookup_arity f FuncTableGen.table with
  | None => RErr ENotFoundFunction
  | Some (mn, mx) =>
      let n := N.of_nat (List.length args) in
      if (n <? mn) || match mx with Some m => m <? n | None => false end
      then RErr EInvalidArgumentCount
      else match lookup_call f FuncTableGen.table_calls with
           | Some id => match lookup_rust_fn id rust_fns with
                        | Some g => g cs args
                        | None => RNeedsNode
                        end
           | None => RNeedsNode
           end
  end.

(** ** mod.rs: operators on scalar operands ([equal_value], [not_equal_value], the four
    relational helpers, [impl Add/Sub/Mul/Div/Rem/Neg for Value]) *)
Definition m_equal_value (a b : value) : bool :=
  if is_vbool a || is_vbool b then Bool.eqb (model_to_bool a) (model_to_bool b)
  else if is_vnum a || is_vnum b then f64_eqb (model_to_number a) (model_to_number b)
  else str_eqb (model_to_string a) (model_to_string b).

Definition model_op (o : binop) (a b : value) : fres :=
  if is_vnodes a || is_vnodes b then RNeedsNode else
  let x := model_to_number a in
  let y := model_to_number b in
  match o with
  | OEq => ROk (VBool (m_equal_value a b))
  | ONe => ROk (VBool (negb (m_equal_value a b)))
  | OLt => ROk (VBool (f64_ltb x y))
  | OLe => ROk (VBool (f64_leb x y))
  | OGt => ROk (VBool (f64_gtb x y))
  | OGe => ROk (VBool (f64_geb x y))
  | OAdd => ROk (VNum (f64_add x y))
  | OSub => ROk (VNum (f64_sub x y))
  | OMul => ROk (VNum (f64_mul x y))
  | ODiv => ROk (VNum (f64_div x y))
  | OMod => ROk (VNum (f64_rem x y))
  end.

(** [impl ops::Neg for Value] (fix D34): [-a] *)
Definition model_neg (a : value) : fres :=
  if is_vnodes a then RNeedsNode else ROk (VNum (f64_neg (model_to_number a))).

(** number literals of an expression: [number.parse::<f64>().unwrap()] on the characters that
    the grammar production Number accepted *)
Definition model_literal (s : str) : fres :=
  match rust_parse_f64 s with Some x => ROk (VNum x) | None => RPanic end.

(** ** Pinned: the same functions before the repairs (tree 39fd5f9), kept for the refutations *)
Section Pinned.

(** [char::is_whitespace] (Unicode White_Space), used by [split_whitespace] *)
Definition rs_unicode_ws (c : char) : bool :=
  ((9 <=? c) && (c <=? 13)) || (c =? 32) || (c =? 0x85) || (c =? 0xA0) || (c =? 0x1680)
  || ((0x2000 <=? c) && (c <=? 0x200A)) || (c =? 0x2028) || (c =? 0x2029) || (c =? 0x202F)
  || (c =? 0x205F) || (c =? 0x3000).

(** D33: [v.parse::<f64>().unwrap_or(f64::NAN)] *)
Definition pinned_string_to_number (v : str) : f64 :=
  match rust_parse_f64 v with Some x => x | None => f64_nan end.

Definition pinned_to_number (v : value) : f64 :=
  match v with
  | VBool b => if b then f64_one else f64_zero
  | VNodes l => pinned_string_to_number (match l with f :: _ => f | [] => [] end)
  | VNum x => x
  | VStr s => pinned_string_to_number s
  end.

(** D30: [round() as usize - 1] (checked subtraction in the debug profile; in release the
    wrapped offset is past the end, [split_at] panics as well), byte offsets, [split_at] panics
    past the end and inside a character *)
Definition pinned_substring : mfn := fun _ args =>
  match args with
  | a :: b :: rest =>
      let v := model_to_string a in
      let s1 := f64_to_usize (f64_round_away (pinned_to_number b)) in
      if s1 =? 0 then RPanic else
      let s := s1 - 1 in
      let c := match rest with
               | x :: _ => Some (f64_to_usize (f64_round_away (pinned_to_number x)))
               | [] => None
               end in
      match split_at_bytes v s with
      | None => RPanic
      | Some (_, r) =>
          match c with
          | None => ROk (VStr r)
          | Some c => match split_at_bytes r c with
                      | None => RPanic
                      | Some (r', _) => ROk (VStr r')
                      end
          end
      end
  | _ => RPanic
  end.

(** D31: [String::len()] *)
Definition pinned_string_length : mfn := fun cs args =>
  ROk (VNum (f64_of_N (byte_len (model_to_string (first_or_context cs args))))).

(** D32: [f64::round] *)
Definition pinned_round : mfn := fun _ args =>
  match args with a :: _ => ROk (VNum (f64_round_away (pinned_to_number a))) | [] => RPanic end.

Definition pinned_number : mfn := fun cs args =>
  ROk (VNum (pinned_to_number (first_or_context cs args))).

(** D34: [0f64 - a] *)
Definition pinned_neg (a : value) : fres :=
  if is_vnodes a then RNeedsNode else ROk (VNum (f64_sub f64_zero (pinned_to_number a))).

(** [split_whitespace().collect().join(" ")] *)
Definition pinned_normalize_space : mfn := fun cs args =>
  let r := model_to_string (first_or_context cs args) in
  let w := filter (fun v => negb (match v with [] => true | _ => false end)) (rs_split rs_unicode_ws r []) in
  ROk (VStr (rs_join [32] w)).

End Pinned.
