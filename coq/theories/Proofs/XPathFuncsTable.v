(** C09, translator T3: the function table generated from xpath/src/eval/func.rs gives every
    name the arity the recommendation gives it.  The comparison is semantic (same answer of
    [lookup_arity] for EVERY name), obtained from a verified check run on the generated value,
    so reordering the entries of [table()] changes nothing. *)
From Coq Require Import List NArith Bool Lia.
From XmlRs Require Import Base.CPred Spec.XPathCore Gen.FuncTableGen.
Import ListNotations.
Open Scope N_scope.

Lemma str_eqb_eq a : forall b, str_eqb a b = true <-> a = b.
Proof.
  induction a as [|x a IH]; intros [|y b]; cbn [str_eqb]; split; intros H; try reflexivity; try discriminate.
  - apply andb_true_iff in H as [H1 H2]. apply N.eqb_eq in H1. apply IH in H2. now subst.
  - injection H as -> ->. rewrite N.eqb_refl. cbn. now apply IH.
Qed.

Lemma str_eqb_refl a : str_eqb a a = true.
Proof. now apply str_eqb_eq. Qed.

Definition arity_eqb (a b : option (N * option N)) : bool :=
  match a, b with
  | None, None => true
  | Some (m1, x1), Some (m2, x2) =>
      (m1 =? m2) && match x1, x2 with
                    | None, None => true
                    | Some p, Some q => p =? q
                    | _, _ => false
                    end
  | _, _ => false
  end.

Lemma arity_eqb_eq a b : arity_eqb a b = true -> a = b.
Proof.
  destruct a as [[m1 [p|]]|], b as [[m2 [q|]]|]; cbn [arity_eqb]; intros H; try discriminate; try reflexivity;
    try (apply andb_true_iff in H as [H1 H2]; apply N.eqb_eq in H1; subst; try apply N.eqb_eq in H2; subst; reflexivity);
    try (apply andb_true_iff in H as [H1 H2]; discriminate).
Qed.

Definition ename (e : str * N * option N) : str := fst (fst e).

(** the check: on every name that occurs in either table the two lookups agree *)
Definition tables_agree (t1 t2 : list (str * N * option N)) : bool :=
  forallb (fun e => arity_eqb (lookup_arity (ename e) t1) (lookup_arity (ename e) t2)) (t1 ++ t2).

Lemma lookup_none f t :
  (forall e, In e t -> str_eqb (ename e) f = false) -> lookup_arity f t = None.
Proof.
  induction t as [|[[n mn] mx] t IH]; intros H; cbn [lookup_arity]; [reflexivity|].
  pose proof (H (n, mn, mx) (or_introl eq_refl)) as H0. cbn [ename fst] in H0. rewrite H0. apply IH. intros e He. apply H. now right.
Qed.

Theorem tables_agree_sound t1 t2 :
  tables_agree t1 t2 = true -> forall f, lookup_arity f t1 = lookup_arity f t2.
Proof.
  intros H f. unfold tables_agree in H. rewrite forallb_forall in H.
  destruct (existsb (fun e => str_eqb (ename e) f) (t1 ++ t2)) eqn:Hex.
  - apply existsb_exists in Hex as (e & He & Hf). apply str_eqb_eq in Hf. subst f.
    apply arity_eqb_eq. now apply H.
  - assert (Hno : forall e, In e (t1 ++ t2) -> str_eqb (ename e) f = false).
    { intros e He. destruct (str_eqb (ename e) f) eqn:E; [|reflexivity].
      assert (existsb (fun e => str_eqb (ename e) f) (t1 ++ t2) = true) as Hc
          by (apply existsb_exists; exists e; auto).
      congruence. }
    rewrite !lookup_none; [reflexivity| |]; intros e He; apply Hno; apply in_or_app; auto.
Qed.

(** the arity of every function name, as the implementation's table has it (T3), is the arity
    of the recommendation *)
Theorem table_arity_lookup : forall f, lookup_arity f FuncTableGen.table = lookup_arity f arity_table.
Proof. apply tables_agree_sound. vm_compute. reflexivity. Qed.

(** the call targets: every name of the library is bound to the Rust function that carries its
    name (with [-] written [_], and [true] / [false] bound to [ftrue] / [ffalse]) *)
Definition rust_ident_of (n : str) : str :=
  let u := map (fun c => if c =? 45 then 95 else c) n in
  if str_eqb n [116;114;117;101] || str_eqb n [102;97;108;115;101] then 102 :: u else u.

Theorem table_calls_by_name :
  map (fun e => (fst e, rust_ident_of (fst e))) FuncTableGen.table_calls = FuncTableGen.table_calls
  /\ map fst FuncTableGen.table_calls = map ename FuncTableGen.table.
Proof. vm_compute. split; reflexivity. Qed.
