(** * C14, second sentence: the bridge between the edited store and the evaluator's table,
    for every reachable world (statements behind Properties/C14.v)

    [xdoc_of_store F merged s] (Model/StoreView.v): the table the evaluator sees for the document
    held in store [s] (string facts [F], DOM view [merged]).  For every document [s] of every world
    reachable by any history from a good initial world ([WGood]: tree invariant + usable order
    vector, as after [XmlDocument::new]) that still has a document element:
    - the table satisfies [DocInv] and [SpecShape]; when the document has no document type it
      satisfies [ParentsOk] too (the hypotheses of the C07 / C05 theorems);
    - hence every node-set any expression without the namespace axis returns on the edited
      document is duplicate-free and in document order BY POSITION IN THE TABLE, and the rows it
      lists, read as nodes of the store, follow the store's specified walk ([Walk], C14 first
      sentence);
    - and a query in the proved fragment of C05 has the value the XPath 1.0 specification
      prescribes for the tree, which does not depend on the order keys. *)
From Coq Require Import List NArith Bool Lia PeanoNat Sorting.Sorted.
From XmlRs Require Import Base.CPred.
From XmlRs Require Import Model.XPathAst Model.XDoc Model.XPathEval Spec.XPath10.
From XmlRs Require Import Proofs.XPathNav Proofs.XPathAstPred Proofs.XPathCanon Proofs.XPathRefine
  Proofs.XPathRefinePaths Proofs.XPathRefineSupp Proofs.XPathRefineEval Proofs.XPathTreeOnly.
From XmlRs Require Import Model.Store Model.StoreView Model.DomOps
  Proofs.DomTree Proofs.DomOpsInv Proofs.DomOrder Proofs.DomOrderInv
  Proofs.StoreViewBase Proofs.StoreViewWalk Proofs.StoreXDoc Proofs.StoreXDocShape Proofs.StoreXDocNames.
Import ListNotations.
Open Scope N_scope.

(** ** one store *)
Theorem bridge_docinv F merged s :
  TreeInv s -> OrderInv s -> doc_element s <> None -> DocInv (xdoc_of_store F merged s).
Proof. intros T O H. apply view_inv; assumption. Qed.

Theorem bridge_shape F merged s :
  TreeInv s -> doc_element s <> None -> SpecShape (xdoc_of_store F merged s).
Proof. apply view_shape. Qed.

(** the names of rows that are not elements or attributes are as [NamesOk] wants them: only the
    namespace part of C10 remains a hypothesis *)
Theorem bridge_names F merged s :
  TreeInv s -> OrderInv s -> doc_element s <> None -> NamesOk (xdoc_of_store F merged s).
Proof. intros T O H. apply view_names_ok; assumption. Qed.

Theorem bridge_parents F merged s :
  TreeInv s -> doc_element s <> None -> doc_decl s = None -> ParentsOk (xdoc_of_store F merged s).
Proof. apply view_parents. Qed.

(** the hypothesis on the document element cannot be dropped: [DocWf] asks every document row for
    an element child (the string-value of the root node) *)
Theorem bridge_needs_document_element F merged s :
  TreeInv s -> DocInv (xdoc_of_store F merged s) -> doc_element s <> None.
Proof.
  intros T [Hwf _] Hnone.
  destruct (rows_head F merged s T) as [t E].
  destruct (row_at_split F merged s [] _ t E) as [V G]. cbn [length N.of_nat] in V, G.
  destruct (ti_root s T) as [rit [Hr Kr]].
  assert (Hk : XDoc.kind (xdoc_of_store F merged s) 0 = KDocument).
  { unfold XDoc.kind. rewrite G. cbn [row_of]. rewrite Hr. cbn [n_kind]. rewrite Kr. reflexivity. }
  destruct (wf_docelem _ Hwf 0 V (or_introl Hk)) as [e [He Ke]].
  unfold child_nodes in He. rewrite G in He. cbn [row_of] in He. rewrite Hr in He. cbn [n_children] in He. rewrite Kr in He.
  apply in_map_iff in He. destruct He as [w [Ew Hw]].
  assert (Hcv : child_view s merged (sroot s) = map Plain (ichildren rit)).
  { unfold child_view. rewrite Hr, Kr. reflexivity. }
  rewrite Hcv in Hw. apply in_map_iff in Hw. destruct Hw as [x [<- Hx]].
  assert (Hpost : In (KNode (Plain x)) t).
  { eapply (row_listed_after F merged s T []); [exact E|]. cbn [vlisted]. rewrite Hr, Kr, Hcv. apply in_map. exact Hx. }
  destruct (node_row_at F merged s (KNode (Plain x)) (in_rows F merged s [] _ t E _ Hpost)) as [_ Gx].
  unfold XDoc.kind in Ke. rewrite <- Ew, Gx in Ke. cbn [row_of] in Ke.
  destruct (get s x) as [xit|] eqn:Hgx; [|discriminate]. cbn [n_kind] in Ke.
  assert (Kx : ikind xit = KEl) by (destruct (ikind xit); try discriminate; reflexivity).
  unfold doc_element, children_of in Hnone. rewrite Hr in Hnone.
  pose proof (find_none _ _ Hnone x Hx) as Hf. unfold has_kind in Hf. rewrite Hgx, Kx in Hf. discriminate.
Qed.

(** ** every reachable world *)
Section Reachable.
Variable F : sfacts.
Variable merged : bool.
Variables (init : world) (ops : list op) (k : N) (s : store).
Hypothesis Hinit : WGood init.
Hypothesis Hdoc : doc_at (run init ops) k = Some s.

Notation doc := (xdoc_of_store F merged s).

Lemma reachable_good : TreeInv s /\ OrderInv s.
Proof.
  pose proof (run_good ops init Hinit) as Hw.
  destruct (doc_at_P Good _ _ _ Hw Hdoc) as [T O]. split; [exact T | apply order_inv; assumption].
Qed.

Theorem bridge_reachable :
  doc_element s <> None ->
  DocInv doc /\ SpecShape doc /\ NamesOk doc /\ (doc_decl s = None -> ParentsOk doc).
Proof.
  intros He. destruct reachable_good as [T O].
  split; [apply bridge_docinv; assumption|]. split; [apply bridge_shape; assumption|].
  split; [apply bridge_names; assumption|]. intros Hd. apply bridge_parents; assumption.
Qed.

(** C07 on the edited document: every node-set value is duplicate-free and in document order by
    position in the table, and consists of rows that are not namespace nodes *)
Theorem edited_nodeset_canonical :
  doc_element s <> None ->
  forall (c : ctx) (e : expr) (n : node) (l : list node) (c' : ctx),
    no_ns_axis e = true -> good doc n ->
    eval_expr doc e n c = (XDoc.Ok (XNodes l), c') ->
    StronglySorted (doc_lt doc) l /\ NoDup l /\ Forall (good doc) l.
Proof.
  intros He c e n l c' Hns Gn H. destruct (bridge_reachable He) as [Hinv _].
  assert (Hs : StronglySorted (doc_lt doc) l) by (eapply nodeset_canonical_lemma; eauto).
  split; [exact Hs|]. split; [eapply doc_lt_sorted_nodup; exact Hs | eapply result_nodes_good; eauto].
Qed.

(** what the evaluator does to a list of rows -- de-duplicate by ORDER KEY, sort by ORDER KEY
    ([union_finish]) -- is on the edited document what XPath asks: the node-set by TREE POSITION *)
Theorem edited_sort_by_key_is_by_position :
  doc_element s <> None ->
  forall l : list node, Forall (good doc) l -> map Row (union_finish doc l) = nodeset doc (map Row l).
Proof.
  intros He l Hl. destruct (bridge_reachable He) as [Hinv _]. apply (canon_agrees doc Hinv l Hl).
Qed.

Corollary edited_query_canonical :
  doc_element s <> None ->
  forall (c : ctx) (e : expr) (l : list node) (c' : ctx),
    no_ns_axis e = true -> query doc e c = (XDoc.Ok (XNodes l), c') ->
    StronglySorted (doc_lt doc) l /\ NoDup l /\ Forall (good doc) l.
Proof.
  intros He c e l c' Hns H. destruct (bridge_reachable He) as [Hinv _].
  apply (edited_nodeset_canonical He c e doc_root l c' Hns (good_root doc Hinv) H).
Qed.

End Reachable.

(** ** position in the table is position in the walk of the store *)

(** the rows at strictly increasing positions of a list form a subsequence of it *)
Lemma sorted_positions_sub {A} (d : A) (L : list A) : forall (off : nat) (l : list N),
  StronglySorted N.lt l -> Forall (fun i => (off <= N.to_nat i < off + length L)%nat) l ->
  Sub (map (fun i => nth (N.to_nat i - off) L d) l) L.
Proof.
  induction L as [|x L' IH]; intros off l Hs Hb.
  - destruct l as [|i l']; [apply sub_nil|]. inversion Hb as [|i' l'' Hi _]; subst. cbn [length] in Hi. lia.
  - destruct l as [|i l']; [apply sub_nil|].
    inversion Hs as [|i' l'' Hs' Hlt]; subst. inversion Hb as [|i' l'' Hi Hb']; subst. cbn [length] in Hi.
    assert (Hrest : Forall (fun j => (S off <= N.to_nat j < S off + length L')%nat) l').
    { rewrite Forall_forall in *. intros j Hj. specialize (Hlt j Hj). specialize (Hb' j Hj). cbn [length] in Hb'. lia. }
    assert (Hshift : forall l0, Forall (fun j => (S off <= N.to_nat j)%nat) l0 ->
              map (fun j => nth (N.to_nat j - off) (x :: L') d) l0 = map (fun j => nth (N.to_nat j - S off) L' d) l0).
    { intros l0 H0. apply map_ext_in. intros j Hj. rewrite Forall_forall in H0. specialize (H0 j Hj).
      replace (N.to_nat j - off)%nat with (S (N.to_nat j - S off)) by lia. reflexivity. }
    destruct (Nat.eq_dec (N.to_nat i) off) as [Eo|Hne].
    + cbn [map]. rewrite Eo, Nat.sub_diag. cbn [nth]. apply sub_take.
      rewrite Hshift; [apply IH; assumption|].
      eapply Forall_impl; [|exact Hrest]. cbn beta. intros j Hj. lia.
    + apply sub_skip. rewrite Hshift.
      * apply IH; [exact Hs|]. constructor; [lia | exact Hrest].
      * constructor; [lia|]. eapply Forall_impl; [|exact Hrest]. cbn beta. intros j Hj. lia.
Qed.

Section Positions.
Variable F : sfacts.
Variable merged : bool.
Variable s : store.
Hypothesis T : TreeInv s.

Notation doc := (xdoc_of_store F merged s).

(** the row keys at the positions of a list *)
Definition keys_at (l : list node) : list vkey := map (fun i => nth (N.to_nat i) (vrows F merged s) (KXml 0)) l.

(** a list of rows in table order, read as nodes of the store, follows the store's pre-order walk:
    document order by position in the table is document order in the tree of the store *)
Theorem table_order_is_walk_order l :
  StronglySorted (doc_lt doc) l -> Forall (valid doc) l -> Sub (nodes_of (keys_at l)) (preorder s).
Proof.
  intros Hs Hv.
  assert (Hsub : Sub (keys_at l) (vrows F merged s)).
  { unfold keys_at.
    rewrite (map_ext _ (fun i => nth (N.to_nat i - 0) (vrows F merged s) (KXml 0)))
      by (intros i; rewrite Nat.sub_0_r; reflexivity).
    apply sorted_positions_sub; [exact Hs|].
    eapply Forall_impl; [|exact Hv]. cbn beta. intros i Vi. unfold valid in Vi. rewrite doc_length in Vi. lia. }
  clear Hs Hv.
  assert (Hn : forall a b : list vkey, Sub a b -> Sub (nodes_of a) (nodes_of b)).
  { intros a b H. induction H as [b0 | x a0 b0 _ IH | x a0 b0 _ IH].
    - apply sub_nil.
    - change (x :: b0) with ([x] ++ b0). rewrite nodes_of_app. apply Sub_app_l. exact IH.
    - change (x :: a0) with ([x] ++ a0). change (x :: b0) with ([x] ++ b0). rewrite !nodes_of_app.
      apply Sub_app; [apply Sub_refl | exact IH]. }
  pose proof (Hn _ _ Hsub) as H1. pose proof (rows_sub_preorder F merged s) as H2.
  clear Hn Hsub. revert H1 H2. generalize (nodes_of (keys_at l)) (nodes_of (vrows F merged s)) (preorder s).
  intros a b c Hab Hbc. revert a Hab. induction Hbc as [c0 | x b0 c0 _ IH | x b0 c0 _ IH]; intros a Hab.
  - apply Sub_nil_r in Hab. subst a. apply sub_nil.
  - apply sub_skip. apply IH. exact Hab.
  - inversion Hab as [l0 | y a0 b1 Ha | y a0 b1 Ha]; subst.
    + apply sub_nil.
    + apply sub_skip. apply IH. exact Ha.
    + apply sub_take. apply IH. exact Ha.
Qed.

End Positions.

(** ** C05 on the edited document, for the proved fragment *)
Theorem edited_path_query_refines F merged init ops k s :
  WGood init -> doc_at (run init ops) k = Some s ->
  doc_element s <> None -> doc_decl s = None ->
  forall (ns : list (option str * str)), ns_lookup ns None = None ->
  forall (p : path_expr) (c : ctx) (pos size : N), c_ns c = ns -> simple_path ns p ->
  exists lm : list node,
    query (xdoc_of_store F merged s) (path_query p) c = (XDoc.Ok (XNodes lm), c) /\
    spec_query (xdoc_of_store F merged s) ns pos size (path_query p) = Some (SNodes (map Row lm)).
Proof.
  intros Hi Hd He Hdt ns Hns p c pos size Hc Hp.
  destruct (bridge_reachable F merged init ops k s Hi Hd He) as [Hinv [Hsh [Hn Hpar]]].
  exact (path_query_agrees _ Hinv Hsh Hn (Hpar Hdt) ns Hns p c pos size Hc Hp).
Qed.

(** ** "as on a fresh parse": the value depends on the tree only *)

(** [NamesOk] is a property of the tree *)
Lemma names_ok_same_tree d1 d2 : same_tree d1 d2 -> NamesOk d1 -> NamesOk d2.
Proof.
  intros Hs Hn i Vi. unfold valid in Vi. rewrite <- (same_tree_length d1 d2 Hs) in Vi.
  specialize (Hn i Vi). unfold names_row_ok, name_of in *.
  rewrite <- (same_tree_kind d1 d2 Hs), <- (same_tree_name d1 d2 Hs i), <- (to_s_name d1 d2 Hs). exact Hn.
Qed.

Lemma map_row_inj (l1 l2 : list node) : map Row l1 = map Row l2 -> l1 = l2.
Proof.
  revert l2. induction l1 as [|x t IH]; intros [|y u] H; cbn [map] in H; try discriminate; [reflexivity|].
  inversion H. f_equal. apply IH. assumption.
Qed.

(** whatever refinement theorem gives the specification's node-set for an expression on two tables
    showing the same tree: the two lists of rows are equal *)
Theorem same_tree_same_nodeset d1 d2 ns pos size e l1 l2 :
  same_tree d1 d2 ->
  spec_query d1 ns pos size e = Some (SNodes (map Row l1)) ->
  spec_query d2 ns pos size e = Some (SNodes (map Row l2)) -> l1 = l2.
Proof.
  intros Hs H1 H2. rewrite (spec_query_tree_only d1 d2 Hs) in H1. rewrite H1 in H2.
  inversion H2 as [E]. apply map_row_inj. exact E.
Qed.

(** Two tables satisfying the hypotheses of the C05 fragment that are equal up to ids, order keys
    and parent pointers give the same rows, in the same order, for every query of the fragment. *)
Theorem same_tree_same_paths d1 d2 :
  DocInv d1 -> SpecShape d1 -> ParentsOk d1 -> DocInv d2 -> SpecShape d2 -> ParentsOk d2 ->
  NamesOk d1 -> same_tree d1 d2 ->
  forall (ns : list (option str * str)), ns_lookup ns None = None ->
  forall (p : path_expr) (c1 c2 : ctx), c_ns c1 = ns -> c_ns c2 = ns -> simple_path ns p ->
  exists l : list node,
    query d1 (path_query p) c1 = (XDoc.Ok (XNodes l), c1) /\
    query d2 (path_query p) c2 = (XDoc.Ok (XNodes l), c2) /\
    spec_query d1 ns 0 0 (path_query p) = Some (SNodes (map Row l)).
Proof.
  intros I1 S1 P1 I2 S2 P2 N1 Hs ns Hns p c1 c2 Hc1 Hc2 Hp.
  pose proof (names_ok_same_tree d1 d2 Hs N1) as N2.
  destruct (path_query_agrees d1 I1 S1 N1 P1 ns Hns p c1 0 0 Hc1 Hp) as [l1 [Q1 R1]].
  destruct (path_query_agrees d2 I2 S2 N2 P2 ns Hns p c2 0 0 Hc2 Hp) as [l2 [Q2 R2]].
  rewrite (spec_query_tree_only d1 d2 Hs) in R1. rewrite R1 in R2. inversion R2 as [E].
  apply map_row_inj in E. subst l2. exists l1. split; [exact Q1|]. split; [exact Q2|].
  rewrite (spec_query_tree_only d1 d2 Hs). exact R1.
Qed.

(** The edited document [s1] of a reachable world and any store [s2] satisfying the invariants
    (the store a fresh parse builds: WGood of an initial world) whose tables show the same tree. *)
Theorem query_depends_on_tree_only F1 F2 merged init ops k s1 s2 :
  WGood init -> doc_at (run init ops) k = Some s1 ->
  TreeInv s2 -> OrderInv s2 ->
  doc_element s1 <> None -> doc_decl s1 = None -> doc_element s2 <> None -> doc_decl s2 = None ->
  same_tree (xdoc_of_store F1 merged s1) (xdoc_of_store F2 merged s2) ->
  forall (ns : list (option str * str)), ns_lookup ns None = None ->
  forall (p : path_expr) (c1 c2 : ctx), c_ns c1 = ns -> c_ns c2 = ns -> simple_path ns p ->
  exists l : list node,
    query (xdoc_of_store F1 merged s1) (path_query p) c1 = (XDoc.Ok (XNodes l), c1) /\
    query (xdoc_of_store F2 merged s2) (path_query p) c2 = (XDoc.Ok (XNodes l), c2) /\
    spec_query (xdoc_of_store F1 merged s1) ns 0 0 (path_query p) = Some (SNodes (map Row l)).
Proof.
  intros Hi Hd T2 O2 He1 Hd1 He2 Hd2 Hs.
  destruct (bridge_reachable F1 merged init ops k s1 Hi Hd He1) as [I1 [S1 [N1 P1]]].
  apply same_tree_same_paths; try assumption.
  - apply P1. exact Hd1.
  - apply bridge_docinv; assumption.
  - apply bridge_shape; assumption.
  - apply bridge_parents; assumption.
Qed.

(** ** all supported expressions (C05 in full, Proofs/XPathRefineEval.v) *)

(** C05 on the edited document: for every supported expression the evaluator returns on the table
    of the edited document the value XPath 1.0 prescribes for its tree (and fails exactly when
    XPath 1.0 says the expression is in error); documents with a document type included *)
Theorem edited_eval_refines_spec F merged init ops k s :
  WGood init -> doc_at (run init ops) k = Some s -> doc_element s <> None ->
  forall (c : ctx) (e : expr), ns_lookup (c_ns c) None = None -> supported (c_ns c) e ->
    value_abs (fst (query (xdoc_of_store F merged s) e c)) =
    spec_query (xdoc_of_store F merged s) (c_ns c) (get_position c) (get_size c) e.
Proof.
  intros Hi Hd He c e Hns Hsup.
  destruct (bridge_reachable F merged init ops k s Hi Hd He) as [Hinv [Hsh [Hn _]]].
  exact (eval_refines_spec_lemma _ Hinv Hsh Hn (c_ns c) Hns c e eq_refl Hsup).
Qed.

(** two tables satisfying the hypotheses of C05 that show the same tree give the same value -- the
    same boolean, number, string, the same rows in the same order, or both an error -- for every
    supported expression *)
Theorem same_tree_same_value d1 d2 :
  DocInv d1 -> SpecShape d1 -> DocInv d2 -> SpecShape d2 -> NamesOk d1 -> same_tree d1 d2 ->
  forall (c1 c2 : ctx) (e : expr),
    c_ns c1 = c_ns c2 -> get_position c1 = get_position c2 -> get_size c1 = get_size c2 ->
    ns_lookup (c_ns c1) None = None -> supported (c_ns c1) e ->
    value_abs (fst (query d1 e c1)) = value_abs (fst (query d2 e c2)).
Proof.
  intros I1 S1 I2 S2 N1 Hs c1 c2 e Hc Hp Hz Hns Hsup.
  pose proof (names_ok_same_tree d1 d2 Hs N1) as N2.
  rewrite (eval_refines_spec_lemma d1 I1 S1 N1 (c_ns c1) Hns c1 e eq_refl Hsup).
  rewrite Hc in Hns, Hsup.
  rewrite (eval_refines_spec_lemma d2 I2 S2 N2 (c_ns c2) Hns c2 e eq_refl Hsup).
  rewrite Hc, Hp, Hz. apply spec_query_tree_only. exact Hs.
Qed.

(** C14, second sentence, for every supported expression: the edited document [s1] of a reachable
    world and any store [s2] satisfying the invariants whose table shows the same tree *)
Theorem query_depends_on_tree_only_all F1 F2 merged init ops k s1 s2 :
  WGood init -> doc_at (run init ops) k = Some s1 ->
  TreeInv s2 -> OrderInv s2 -> doc_element s1 <> None -> doc_element s2 <> None ->
  same_tree (xdoc_of_store F1 merged s1) (xdoc_of_store F2 merged s2) ->
  forall (c1 c2 : ctx) (e : expr),
    c_ns c1 = c_ns c2 -> get_position c1 = get_position c2 -> get_size c1 = get_size c2 ->
    ns_lookup (c_ns c1) None = None -> supported (c_ns c1) e ->
    value_abs (fst (query (xdoc_of_store F1 merged s1) e c1)) =
    value_abs (fst (query (xdoc_of_store F2 merged s2) e c2)) /\
    value_abs (fst (query (xdoc_of_store F1 merged s1) e c1)) =
    spec_query (xdoc_of_store F1 merged s1) (c_ns c1) (get_position c1) (get_size c1) e.
Proof.
  intros Hi Hd T2 O2 He1 He2 Hs c1 c2 e Hc Hp Hz Hns Hsup.
  destruct (bridge_reachable F1 merged init ops k s1 Hi Hd He1) as [I1 [S1 [N1 _]]]. split.
  - apply same_tree_same_value; try assumption.
    + apply bridge_docinv; assumption.
    + apply bridge_shape; assumption.
  - exact (eval_refines_spec_lemma _ I1 S1 N1 (c_ns c1) Hns c1 e eq_refl Hsup).
Qed.
