(** * The evaluator model against the XPath 1.0 specification (C05): the lower rungs.

    Rung 0 (identity and order): on a table satisfying [DocInv], what [eval_union_expr] does to a
    list of good nodes -- de-duplicate by order key, sort by order key -- is the node-set the
    specification builds from tree positions: [canon_agrees].
    Rung 1, navigation: for a context node that is the document or an element of a table in
    [SpecShape] (no document-type node among the children, only the document and elements have
    children in the tree) the child, attribute, self, descendant, descendant-or-self axes of the
    model and of the specification select the same nodes in the same order, and the string-values
    agree: [axis_child_agrees] ... [string_value_agrees]. *)
From Coq Require Import List NArith Bool Lia Sorting.Sorted.
From XmlRs Require Import Base.CPred Base.NList Base.Float64.
From XmlRs Require Import Spec.XPathCore Model.XPathFuncs.
From XmlRs Require Import Model.XPathAst Model.XDoc Model.XPathScalar Model.XPathEval.
From XmlRs Require Import Spec.XPath10.
From XmlRs Require Import Proofs.XPathNav Proofs.XPathSort Proofs.XPathCanon.
Import ListNotations.
Open Scope N_scope.

Section Refine.
Variable doc : xdoc.

(** ** rung 0 *)
Lemma sn_ltb_row a b : sn_ltb doc (Row a) (Row b) = (a <? b).
Proof.
  unfold sn_ltb, ord. destruct (N.ltb_spec a b) as [H|H]; cbn [orb]; [reflexivity|].
  destruct (N.eqb_spec a b); cbn [andb]; reflexivity.
Qed.

Lemma sn_eqb_row a b : sn_eqb doc (Row a) (Row b) = (a =? b).
Proof. unfold sn_eqb, ord. rewrite N.eqb_refl. apply andb_true_r. Qed.

(** insertion into an index-sorted list *)
Fixpoint n_insert (x : N) (l : list N) : list N :=
  match l with
  | [] => [x]
  | y :: t => if x =? y then l else if x <? y then x :: l else y :: n_insert x t
  end.

Definition n_nodeset (l : list N) : list N := fold_right n_insert [] l.

Lemma sn_insert_rows x l : sn_insert doc (Row x) (map Row l) = map Row (n_insert x l).
Proof.
  induction l as [|y t IH]; cbn [map sn_insert n_insert]; [reflexivity|].
  rewrite sn_eqb_row, sn_ltb_row. destruct (x =? y); [reflexivity|].
  destruct (x <? y); [reflexivity|]. cbn [map]. f_equal. exact IH.
Qed.

Lemma nodeset_rows l : nodeset doc (map Row l) = map Row (n_nodeset l).
Proof.
  induction l as [|x t IH]; cbn [map nodeset n_nodeset fold_right]; [reflexivity|].
  unfold nodeset in IH. rewrite IH. apply sn_insert_rows.
Qed.

Lemma n_insert_in x y l : In y (n_insert x l) <-> y = x \/ In y l.
Proof.
  induction l as [|z t IH]; cbn [n_insert In]; [intuition congruence|].
  destruct (N.eqb_spec x z) as [->|Hne].
  - cbn [In]. intuition congruence.
  - destruct (x <? z); cbn [In]; [intuition congruence|]. rewrite IH. intuition congruence.
Qed.

Lemma n_insert_sorted x l : StronglySorted N.lt l -> StronglySorted N.lt (n_insert x l).
Proof.
  induction l as [|y t IH]; intros H; cbn [n_insert]; [constructor; constructor|].
  inversion H as [|y' t' Ht Hy]; subst.
  destruct (N.eqb_spec x y) as [->|Hne]; [exact H|].
  destruct (N.ltb_spec x y) as [Hlt|Hge].
  - constructor; [exact H|]. constructor; [exact Hlt|]. eapply Forall_impl; [|exact Hy]. intros z Hz. lia.
  - constructor; [apply IH; exact Ht|]. apply Forall_forall. intros z Hz.
    apply n_insert_in in Hz. destruct Hz as [->|Hz]; [lia|]. rewrite Forall_forall in Hy. apply Hy. exact Hz.
Qed.

Lemma n_nodeset_sorted l : StronglySorted N.lt (n_nodeset l).
Proof. induction l as [|x t IH]; cbn [n_nodeset fold_right]; [constructor|]. apply n_insert_sorted. exact IH. Qed.

Lemma n_nodeset_in y l : In y (n_nodeset l) <-> In y l.
Proof.
  induction l as [|x t IH]; cbn [n_nodeset fold_right In]; [tauto|].
  rewrite n_insert_in. unfold n_nodeset in IH. rewrite IH. intuition congruence.
Qed.

Lemma lt_sorted_unique (l1 : list N) : forall l2,
  StronglySorted N.lt l1 -> StronglySorted N.lt l2 -> (forall x, In x l1 <-> In x l2) -> l1 = l2.
Proof.
  induction l1 as [|x t IH]; intros l2 H1 H2 Hin.
  - destruct l2 as [|y u]; [reflexivity|]. exfalso. apply (Hin y). left. reflexivity.
  - destruct l2 as [|y u]; [exfalso; apply (Hin x); left; reflexivity|].
    inversion H1 as [|x' t' Ht Hx]; subst. inversion H2 as [|y' u' Hu Hy]; subst.
    rewrite Forall_forall in Hx, Hy.
    assert (Exy : x = y).
    { assert (Hxin : In x (y :: u)) by (apply Hin; left; reflexivity).
      assert (Hyin : In y (x :: t)) by (apply Hin; left; reflexivity).
      destruct Hxin as [E|Hxu]; [symmetry; exact E|]. destruct Hyin as [E|Hyt]; [exact E|].
      specialize (Hx y Hyt). specialize (Hy x Hxu). lia. }
    subst y. f_equal. apply IH; [exact Ht|exact Hu|].
    intros z. split; intros Hz.
    + assert (In z (x :: u)) by (apply Hin; right; exact Hz).
      destruct H as [E|H]; [|exact H]. subst z. specialize (Hx x Hz). lia.
    + assert (In z (x :: t)) by (apply Hin; right; exact Hz).
      destruct H as [E|H]; [|exact H]. subst z. specialize (Hy x Hz). lia.
Qed.

Hypothesis Hinv : DocInv doc.

(** the model's canonical form of a list of good nodes is the specification's node-set *)
Theorem canon_agrees l :
  Forall (good doc) l -> map Row (union_finish doc l) = nodeset doc (map Row l).
Proof.
  intros Hg. rewrite nodeset_rows. f_equal.
  apply lt_sorted_unique.
  - assert (Hs : StronglySorted (doc_lt doc) (union_finish doc l)).
    { apply (sorted_key_to_doc doc Hinv); [|apply union_finish_sorted].
      apply Forall_forall. intros x Hx. rewrite Forall_forall in Hg. apply Hg.
      eapply union_finish_incl; eauto. }
    exact Hs.
  - apply n_nodeset_sorted.
  - intros x. rewrite n_nodeset_in. split.
    + apply union_finish_incl.
    + apply union_finish_in. apply (good_key_inj doc Hinv). exact Hg.
Qed.

(** ** rung 1: navigation on a table in the shape of the XPath data model *)
Definition doc_child_kind (k : nkind) : bool :=
  match k with KElement | KComment | KPI | KDocumentType => true | _ => false end.

Record SpecShape : Prop := {
  sh_child_kind : forall i c, valid doc i -> In c (child_nodes doc i) ->
                  kind doc c <> KAttribute /\ kind doc c <> KDocument;
  sh_refs : forall i, valid doc i -> kind doc i = KEntityReference -> n_data (getd doc i) = DataStr [];
  sh_attrs : forall i, valid doc i -> kind doc i <> KElement -> attributes doc i = [];
  sh_leaves : forall i, valid doc i -> kind doc i <> KDocument -> kind doc i <> KElement ->
              kind doc i <> KAttribute -> child_nodes doc i = [];
  (* round 2: the table is the pre-order walk of the tree of section 5, parent observations are
     those of the tree, the document node has one element child and otherwise comments,
     processing instructions and the document type *)
  sh_order : StronglySorted N.lt (rows_of (all_nodes doc));
  sh_attr_kind : forall i a, valid doc i -> In a (attributes doc i) -> kind doc a = KAttribute;
  sh_attr_parent : forall i a, valid doc i -> In a (attributes doc i) -> parent_node doc a = Some i;
  sh_child_parent : forall i c, valid doc i -> In c (child_nodes doc i) -> parent_node doc c = Some i;
  sh_child_nav : forall i c, valid doc i -> In c (child_nodes doc i) -> sibling_nav_kind (kind doc c) = true;
  sh_root_kind : kind doc doc_root = KDocument;
  sh_doc_children : forall c, In c (child_nodes doc doc_root) -> doc_child_kind (kind doc c) = true;
  sh_doc_one : exists e, filter (fun c => nkind_eqb (kind doc c) KElement) (child_nodes doc doc_root) = [e] }.

Hypothesis Hshape : SpecShape.
Let Hwf := inv_wf doc Hinv.

Definition is_container (i : node) : Prop := kind doc i = KDocument \/ kind doc i = KElement.

Lemma container_dec i : is_container i \/ ~ is_container i.
Proof.
  unfold is_container. destruct (kind doc i); try (right; intros [E|E]; discriminate).
  - left. right. reflexivity.
  - left. left. reflexivity.
Qed.

(** the children of a node are the same in the model ([fn child]) and in the data model *)
Lemma xp_child_xchildren i : valid doc i -> xp_child doc i = xchildren doc i.
Proof.
  intros Vi. unfold xp_child, xchildren.
  destruct (kind doc i) eqn:Ek; try reflexivity;
    rewrite (sh_leaves Hshape i Vi) by (rewrite Ek; discriminate); reflexivity.
Qed.

Lemma xchildren_leaf i : valid doc i -> ~ is_container i -> xchildren doc i = [].
Proof.
  intros Vi Hn. unfold xchildren.
  destruct (kind doc i) eqn:Ek; try reflexivity; exfalso; apply Hn; [right|left]; exact Ek.
Qed.

Theorem axis_child_agrees i : valid doc i ->
  axis_nodes doc (AxisName AxChild) i = Ok (xchildren doc i) /\
  s_axis doc AxChild (Row i) = map Row (xchildren doc i).
Proof.
  intros Vi. split; [cbn [axis_nodes]; rewrite (xp_child_xchildren i Vi); reflexivity|reflexivity].
Qed.

Theorem axis_attribute_agrees i : kind doc i = KElement ->
  axis_nodes doc (AxisName AxAttribute) i = Ok (attributes doc i) /\
  s_axis doc AxAttribute (Row i) = map Row (attributes doc i).
Proof. intros Hk. split; [reflexivity|]. cbn [s_axis]. rewrite Hk. reflexivity. Qed.

Theorem axis_self_agrees i :
  axis_nodes doc (AxisName AxCurrent) i = Ok [i] /\ s_axis doc AxCurrent (Row i) = [Row i].
Proof. split; reflexivity. Qed.

Lemma xchildren_incl i c : In c (xchildren doc i) -> In c (child_nodes doc i).
Proof.
  unfold xchildren. destruct (kind doc i); try (intros []); intros H; apply filter_In in H; apply H.
Qed.

Lemma desc_fuel_agrees : forall fuel i, valid doc i ->
  (length doc - N.to_nat i < fuel)%nat ->
  descendant_fuel doc fuel i = Ok (desc_fuel doc fuel i).
Proof.
  induction fuel as [|f IH]; intros i Vi Hlt; [lia|]. cbn [descendant_fuel desc_fuel].
  rewrite (xp_child_xchildren i Vi).
  assert (Hch : forall c, In c (xchildren doc i) ->
            descendant_fuel doc f c = Ok (desc_fuel doc f c)).
  { intros c Hc'. apply xchildren_incl in Hc'. destruct (wf_children doc Hwf i c Vi Hc') as [Vc Hic].
    apply IH; [exact Vc|unfold valid in Vc; lia]. }
  induction (xchildren doc i) as [|c t IHt]; cbn [flat_map_res flat_map]; [reflexivity|].
  rewrite (Hch c (or_introl eq_refl)). cbn [bind].
  rewrite IHt by (intros; apply Hch; right; assumption). reflexivity.
Qed.

Theorem axis_descendant_agrees i : valid doc i ->
  axis_nodes doc (AxisName AxDescendant) i = Ok (desc doc i) /\
  s_axis doc AxDescendant (Row i) = map Row (desc doc i).
Proof.
  intros Vi. split; [|reflexivity]. cbn [axis_nodes]. unfold descendant, desc, nav_fuel, fuel0.
  apply desc_fuel_agrees; [exact Vi|lia].
Qed.

Theorem axis_descendant_or_self_agrees i : valid doc i ->
  axis_nodes doc (AxisName AxDescendantOrSelf) i = Ok (i :: desc doc i) /\
  s_axis doc AxDescendantOrSelf (Row i) = map Row (i :: desc doc i).
Proof.
  intros Vi. split; [|reflexivity]. cbn [axis_nodes]. unfold descendant_and_self.
  destruct (axis_descendant_agrees i Vi) as [H _]. cbn [axis_nodes] in H. rewrite H. reflexivity.
Qed.

(** ** string-values *)
Lemma concat_res_oks (l : list str) : concat_res (map (@Ok str) l) = Ok (concat l).
Proof. induction l as [|x t IH]; cbn [map concat_res concat]; [reflexivity|]. rewrite IH. reflexivity. Qed.

Definition text_data (c : node) : str := if is_text_kind (kind doc c) then row_data doc c else [].

(** the text below a list of rows, as the specification collects it *)
Definition spec_text (fuel : nat) (c : node) : str :=
  concat (map (row_data doc) (filter (fun d => is_text_kind (kind doc d)) (desc_fuel doc fuel c))).

Lemma spec_text_forest fuel (l : list node) :
  concat (map (row_data doc) (filter (fun d => is_text_kind (kind doc d))
                                (flat_map (fun c => c :: desc_fuel doc fuel c) l))) =
  concat (map (fun c => text_data c ++ spec_text fuel c) l).
Proof.
  induction l as [|c t IH]; [reflexivity|].
  change (flat_map (fun c0 => c0 :: desc_fuel doc fuel c0) (c :: t))
    with ((c :: desc_fuel doc fuel c) ++ flat_map (fun c0 => c0 :: desc_fuel doc fuel c0) t).
  rewrite filter_app, map_app, concat_app. cbn [map concat]. f_equal; [|exact IH].
  cbn [filter]. unfold text_data, spec_text.
  destruct (is_text_kind (kind doc c)); cbn [map concat app]; reflexivity.
Qed.

Lemma spec_text_unfold fuel i :
  spec_text (S fuel) i = concat (map (fun c => text_data c ++ spec_text fuel c) (xchildren doc i)).
Proof. unfold spec_text at 1. cbn [desc_fuel]. apply spec_text_forest. Qed.

Lemma nkind_eqb_true_dt k : nkind_eqb k KDocumentType = true -> k = KDocumentType.
Proof. destruct k; cbn; intros H; try discriminate; reflexivity. Qed.

(** the string-value of an element in the model is the one of section 5 *)
Lemma string_value_fuel_agrees : forall fuel i, valid doc i -> kind doc i = KElement ->
  (length doc - N.to_nat i < fuel)%nat ->
  string_value_fuel fuel doc i = Ok (spec_text fuel i).
Proof.
  induction fuel as [|f IH]; intros i Vi Hk Hlt; [lia|]. cbn [string_value_fuel]. rewrite Hk.
  rewrite spec_text_unfold.
  assert (Hxc : xchildren doc i = filter (fun c => negb (nkind_eqb (kind doc c) KDocumentType)) (child_nodes doc i)).
  { unfold xchildren. rewrite Hk. reflexivity. }
  assert (Hch : forall c, In c (child_nodes doc i) ->
     match kind doc c with
     | KCData | KElement | KExpandedText | KText => string_value_fuel f doc c
     | _ => Ok []
     end = Ok (text_data c ++ spec_text f c)).
  { intros c Hc'. destruct (wf_children doc Hwf i c Vi Hc') as [Vc Hic].
    destruct (sh_child_kind Hshape i c Vi Hc') as [Ha Hd].
    destruct (container_dec c) as [Hcc|Hnc].
    - destruct Hcc as [Ek|Ek]; [contradiction|].
      rewrite Ek. unfold text_data. rewrite Ek. cbn [is_text_kind app].
      apply IH; [exact Vc|exact Ek|unfold valid in Vc; lia].
    - pose proof (xchildren_leaf c Vc Hnc) as E1.
      assert (Hst : spec_text f c = []).
      { unfold spec_text. destruct f; cbn [desc_fuel]; [reflexivity|]. rewrite E1. reflexivity. }
      rewrite Hst, app_nil_r. unfold text_data.
      assert (Hleaf : forall g, is_text_kind (kind doc c) = true ->
                string_value_fuel (S g) doc c = Ok (row_data doc c)).
      { intros g Ht. cbn [string_value_fuel]. unfold row_data.
        pose proof (wf_data doc Hwf c Vc) as Hdata. pose proof (sh_refs Hshape c Vc) as Hrefs.
        destruct (kind doc c); try discriminate Ht;
          try (rewrite (Hrefs eq_refl); reflexivity);
          destruct (n_data (getd doc c)); try reflexivity; exfalso; apply Hdata; reflexivity. }
      destruct f as [|g]; [unfold valid in Vc; lia|].
      destruct (kind doc c) eqn:Ek; cbn [is_text_kind]; try reflexivity;
        try (apply Hleaf; reflexivity);
        try (exfalso; apply Hnc; right; exact Ek);
        try (exfalso; apply Hnc; left; exact Ek).
      unfold row_data. rewrite (sh_refs Hshape c Vc Ek). reflexivity. }
  rewrite Hxc. clear -Hch Hwf Hshape. induction (child_nodes doc i) as [|c t IHt]; cbn [map concat_res concat filter]; [reflexivity|].
  rewrite (Hch c (or_introl eq_refl)). cbn [bind].
  rewrite IHt by (intros; apply Hch; right; assumption). cbn [bind].
  destruct (nkind_eqb (kind doc c) KDocumentType) eqn:Ed; cbn [negb map concat]; [|reflexivity].
  (* a document type child contributes no text on either side *)
  apply nkind_eqb_true_dt in Ed. unfold text_data, spec_text. rewrite Ed. cbn [is_text_kind app].
  destruct f; cbn [desc_fuel]; [reflexivity|]. unfold xchildren. rewrite Ed. reflexivity.
Qed.

Theorem string_value_agrees i : valid doc i -> kind doc i = KElement ->
  string_value doc i = Ok (s_string_value doc (Row i)).
Proof.
  intros Vi Hk. unfold string_value, s_string_value. rewrite Hk.
  rewrite (string_value_fuel_agrees (nav_fuel doc) i Vi Hk) by (unfold nav_fuel; lia).
  reflexivity.
Qed.

(** leaves: the reported data on both sides *)
Theorem string_value_leaf_agrees i : valid doc i -> ~ is_container i -> kind doc i <> KDocumentFragment ->
  kind doc i <> KEntityReference -> kind doc i <> KEntity -> kind doc i <> KDocumentType -> kind doc i <> KNotation ->
  string_value doc i = Ok (s_string_value doc (Row i)).
Proof.
  intros Vi Hn H1 H2 H3 H4 H5. unfold string_value, s_string_value, nav_fuel. cbn [string_value_fuel].
  pose proof (wf_data doc Hwf i Vi) as Hd. unfold row_data.
  destruct (kind doc i) eqn:Ek; try contradiction; try (exfalso; apply Hn; unfold is_container; rewrite Ek; auto; fail);
    destruct (n_data (getd doc i)); try reflexivity; exfalso; apply Hd; reflexivity.
Qed.

End Refine.

(** ** a decision procedure for [SpecShape] *)
Definition row_shape1_b (doc : xdoc) (i : node) : bool :=
  forallb (fun c => negb (nkind_eqb (kind doc c) KAttribute) && negb (nkind_eqb (kind doc c) KDocument))
          (child_nodes doc i)
  && (negb (nkind_eqb (kind doc i) KEntityReference) ||
      match n_data (getd doc i) with DataStr [] => true | _ => false end)
  && (nkind_eqb (kind doc i) KElement || match attributes doc i with [] => true | _ => false end)
  && (nkind_eqb (kind doc i) KDocument || nkind_eqb (kind doc i) KElement || nkind_eqb (kind doc i) KAttribute
      || match child_nodes doc i with [] => true | _ => false end).

Definition opt_is (o : option N) (i : N) : bool := match o with Some p => p =? i | None => false end.

Definition row_shape2_b (doc : xdoc) (i : node) : bool :=
  forallb (fun a => nkind_eqb (kind doc a) KAttribute && opt_is (parent_node doc a) i) (attributes doc i)
  && forallb (fun c => opt_is (parent_node doc c) i && sibling_nav_kind (kind doc c)) (child_nodes doc i).

Definition row_shape_b (doc : xdoc) (i : node) : bool := row_shape1_b doc i && row_shape2_b doc i.

Fixpoint sorted_b (l : list N) : bool :=
  match l with
  | x :: t => match t with y :: _ => (x <? y) && sorted_b t | [] => true end
  | [] => true
  end.

Definition global_shape_b (doc : xdoc) : bool :=
  sorted_b (rows_of (all_nodes doc))
  && nkind_eqb (kind doc doc_root) KDocument
  && forallb (fun c => doc_child_kind (kind doc c)) (child_nodes doc doc_root)
  && match filter (fun c => nkind_eqb (kind doc c) KElement) (child_nodes doc doc_root) with [_] => true | _ => false end.

Definition spec_shape_b (doc : xdoc) : bool :=
  forallb (row_shape_b doc) (map N.of_nat (seq 0 (length doc))) && global_shape_b doc.

Lemma nkind_eqb_true a b : nkind_eqb a b = true -> a = b.
Proof. destruct a, b; cbn; intros H; try reflexivity; discriminate. Qed.

Lemma nkind_eqb_false a b : nkind_eqb a b = false -> a <> b.
Proof. intros H E. subst. destruct b; discriminate. Qed.

Lemma sorted_b_sound l : sorted_b l = true -> StronglySorted N.lt l.
Proof.
  intros H. apply Sorted_StronglySorted; [intros x y z Hxy Hyz; lia|].
  induction l as [|x t IH]; [constructor|]. cbn [sorted_b] in H.
  destruct t as [|y u]; [constructor; constructor|].
  apply andb_prop in H. destruct H as [H1 H2]. constructor; [apply IH; exact H2|].
  constructor. apply N.ltb_lt. exact H1.
Qed.

Lemma opt_is_true o i : opt_is o i = true -> o = Some i.
Proof. destruct o as [p|]; cbn [opt_is]; intros H; [|discriminate]. apply N.eqb_eq in H. subst. reflexivity. Qed.

Theorem spec_shape_b_sound doc : spec_shape_b doc = true -> SpecShape doc.
Proof.
  intros H0. unfold spec_shape_b in H0. apply andb_prop in H0. destruct H0 as [H Hglob].
  rewrite forallb_forall in H.
  assert (Hrow0 : forall i, valid doc i -> row_shape_b doc i = true).
  { intros i Vi. apply H. apply in_map_iff. exists (N.to_nat i). unfold valid in Vi. split; [lia|]. apply in_seq. lia. }
  assert (Hrow : forall i, valid doc i -> row_shape1_b doc i = true).
  { intros i Vi. specialize (Hrow0 i Vi). unfold row_shape_b in Hrow0. apply andb_prop in Hrow0. apply Hrow0. }
  assert (Hrow2 : forall i, valid doc i -> row_shape2_b doc i = true).
  { intros i Vi. specialize (Hrow0 i Vi). unfold row_shape_b in Hrow0. apply andb_prop in Hrow0. apply Hrow0. }
  unfold global_shape_b in Hglob.
  apply andb_prop in Hglob. destruct Hglob as [Hglob Hg4]. apply andb_prop in Hglob. destruct Hglob as [Hglob Hg3].
  apply andb_prop in Hglob. destruct Hglob as [Hg1 Hg2].
  constructor.
  - intros i c Vi Hc. specialize (Hrow i Vi). unfold row_shape1_b in Hrow.
    apply andb_prop in Hrow. destruct Hrow as [Hrow _]. apply andb_prop in Hrow. destruct Hrow as [Hrow _].
    apply andb_prop in Hrow. destruct Hrow as [Hrow _].
    rewrite forallb_forall in Hrow. specialize (Hrow c Hc).
    apply andb_prop in Hrow. destruct Hrow as [H2 H3].
    split; apply nkind_eqb_false; apply negb_true_iff; assumption.
  - intros i Vi Hk. specialize (Hrow i Vi). unfold row_shape1_b in Hrow.
    apply andb_prop in Hrow. destruct Hrow as [Hrow _]. apply andb_prop in Hrow. destruct Hrow as [Hrow _].
    apply andb_prop in Hrow. destruct Hrow as [_ Hrow].
    rewrite Hk in Hrow. cbn [nkind_eqb negb orb] in Hrow.
    destruct (n_data (getd doc i)) as [| |[|? ?]]; try discriminate. reflexivity.
  - intros i Vi Hk. specialize (Hrow i Vi). unfold row_shape1_b in Hrow.
    apply andb_prop in Hrow. destruct Hrow as [Hrow _]. apply andb_prop in Hrow. destruct Hrow as [_ Hrow].
    destruct (nkind_eqb (kind doc i) KElement) eqn:E; [apply nkind_eqb_true in E; contradiction|].
    cbn [orb] in Hrow. destruct (attributes doc i); [reflexivity|discriminate].
  - intros i Vi H1 H2 H3. specialize (Hrow i Vi). unfold row_shape1_b in Hrow.
    apply andb_prop in Hrow. destruct Hrow as [_ Hrow].
    destruct (nkind_eqb (kind doc i) KDocument) eqn:E1; [apply nkind_eqb_true in E1; contradiction|].
    destruct (nkind_eqb (kind doc i) KElement) eqn:E2; [apply nkind_eqb_true in E2; contradiction|].
    destruct (nkind_eqb (kind doc i) KAttribute) eqn:E3; [apply nkind_eqb_true in E3; contradiction|].
    cbn [orb] in Hrow. destruct (child_nodes doc i); [reflexivity|discriminate].
  - apply sorted_b_sound. exact Hg1.
  - intros i a Vi Ha. specialize (Hrow2 i Vi). unfold row_shape2_b in Hrow2.
    apply andb_prop in Hrow2. destruct Hrow2 as [Hr _]. rewrite forallb_forall in Hr.
    specialize (Hr a Ha). apply andb_prop in Hr. apply nkind_eqb_true. apply Hr.
  - intros i a Vi Ha. specialize (Hrow2 i Vi). unfold row_shape2_b in Hrow2.
    apply andb_prop in Hrow2. destruct Hrow2 as [Hr _]. rewrite forallb_forall in Hr.
    specialize (Hr a Ha). apply andb_prop in Hr. apply opt_is_true. apply Hr.
  - intros i c Vi Hc. specialize (Hrow2 i Vi). unfold row_shape2_b in Hrow2.
    apply andb_prop in Hrow2. destruct Hrow2 as [_ Hr]. rewrite forallb_forall in Hr.
    specialize (Hr c Hc). apply andb_prop in Hr. apply opt_is_true. apply Hr.
  - intros i c Vi Hc. specialize (Hrow2 i Vi). unfold row_shape2_b in Hrow2.
    apply andb_prop in Hrow2. destruct Hrow2 as [_ Hr]. rewrite forallb_forall in Hr.
    specialize (Hr c Hc). apply andb_prop in Hr. apply Hr.
  - apply nkind_eqb_true. exact Hg2.
  - intros c Hc. rewrite forallb_forall in Hg3. apply Hg3. exact Hc.
  - destruct (filter (fun c => nkind_eqb (kind doc c) KElement) (child_nodes doc doc_root)) as [|e [|? ?]]; try discriminate.
    exists e. reflexivity.
Qed.
