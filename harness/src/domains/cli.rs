//! cli: the real `xe` / `xq` binaries against what the library says about the same inputs.
//!
//! case:  `<tool> <noindent 0|1> <doc> <xpath> <value|-> [prefix=uri ...]`   (strings as code points;
//!        tool = xe | xq; the binaries are found through $XH_EXAMPLES)
//! output (one line, fields separated by " | "):
//!   doc=<dump with selected nodes starred | err>   the document as parsed in the merged-text
//!                                                   view, elements/attributes/document selected
//!                                                   by the query carry a `*`
//!   sel=<nodes:k | scalar | err>                    what the query returned
//!   frag=<dump of the children of <e>VALUE</e> in the raw view | err | ->
//!   rc=<exit status | signal>  out=<dump of the re-parsed stdout | raw:<code points> | err>
//!   xq only: exp=<code points of the expected stdout computed from the library>
//!
//! dump:  (doc (C*))  (e NAME (A*) (C*))  (a NAME VALUE)  (t STR)  (c STR)  (p TARGET DATA)
//!        (r NAME)  (d STR)  -- NAME/STR as code points; attributes sorted by name, specified ones only.
use crate::util::{dec, enc};
use std::io::Write;
use std::process::{Command, Stdio};
use xml_dom::{AsStringValue, Attr, CharacterData, Node, ProcessingInstruction, XmlNode};

fn dump(n: &XmlNode, sel: &[usize], out: &mut String) {
    let star = if sel.contains(&n.id()) { "*" } else { "" };
    match n {
        XmlNode::Document(_) => {
            out.push_str(&format!("(doc{} (", star));
            for c in n.child_nodes().iter() {
                dump(&c, sel, out);
            }
            out.push_str("))");
        }
        XmlNode::Element(_) => {
            out.push_str(&format!("(e{} {} (", star, enc(&n.node_name())));
            if let Some(attrs) = n.attributes() {
                let mut v: Vec<_> = attrs.iter().collect();
                v.sort_by_key(|a| a.name());
                for a in v {
                    // attributes supplied by the DTD are not part of what the tool wrote or must keep
                    if !a.specified() {
                        continue;
                    }
                    let astar = if sel.contains(&XmlNode::Attribute(a.clone()).id()) { "*" } else { "" };
                    out.push_str(&format!(
                        "(a{} {} {})",
                        astar,
                        enc(&a.name()),
                        enc(&a.value().unwrap_or_else(|_| "?".to_string()))
                    ));
                }
            }
            out.push_str(") (");
            for c in n.child_nodes().iter() {
                dump(&c, sel, out);
            }
            out.push_str("))");
        }
        XmlNode::Text(v) => out.push_str(&format!("(t {})", enc(&v.data().unwrap_or_default()))),
        XmlNode::CData(v) => out.push_str(&format!("(t {})", enc(&v.data().unwrap_or_default()))),
        XmlNode::ExpandedText(v) => out.push_str(&format!("(t {})", enc(&v.as_string_value().unwrap_or_default()))),
        XmlNode::Comment(v) => out.push_str(&format!("(c {})", enc(&v.data().unwrap_or_default()))),
        XmlNode::PI(v) => out.push_str(&format!("(p {} {})", enc(&v.target()), enc(&v.data()))),
        XmlNode::EntityReference(_) => out.push_str(&format!("(r {})", enc(&n.node_name()))),
        XmlNode::DocumentType(_) => out.push_str(&format!("(d {})", enc(&format!("{}", n)))),
        _ => out.push_str(&format!("(x {})", enc(&n.node_name()))),
    }
}

fn parse_merged(s: &str) -> Option<xml_dom::XmlDocument> {
    let ctx = xml_dom::Context::from_text_expanded(true);
    match xml_dom::XmlDocument::from_raw_with_context(s, ctx) {
        Ok((rest, d)) if rest.is_empty() => Some(d),
        _ => None,
    }
}

pub fn case(line: &str) -> String {
    let w: Vec<&str> = line.split(' ').collect();
    if w.len() < 5 {
        return "badinput".to_string();
    }
    let tool = w[0];
    let noindent = w[1] == "1";
    let (doc, xpath, value) = match (dec(w[2]), dec(w[3]), dec(w[4])) {
        (Some(a), Some(b), Some(c)) => (a, b, c),
        _ => return "badinput".to_string(),
    };
    let mut ns: Vec<(String, String)> = Vec::new();
    for b in &w[5..] {
        if let Some((p, u)) = b.split_once('=') {
            if let (Some(p), Some(u)) = (dec(p), dec(u)) {
                ns.push((p, u));
            }
        }
    }
    let mut fields: Vec<String> = Vec::new();

    // what the library says
    let mut expected_xq: Option<String> = None;
    match parse_merged(&doc) {
        None => {
            fields.push("doc=err".to_string());
            fields.push("sel=err".to_string());
        }
        Some(d) => {
            let mut ctx = xml_xpath::eval::model::Context::default();
            for (p, u) in &ns {
                ctx.add_ns(if p.is_empty() { None } else { Some(p.as_str()) }, u.as_str());
            }
            let q = std::panic::catch_unwind(std::panic::AssertUnwindSafe(|| {
                xml_xpath::query(d.clone(), xpath.as_str(), &mut ctx).map_err(|e| e.to_string())
            }));
            let mut sel: Vec<usize> = Vec::new();
            let selfield = match q {
                Err(_) => "sel=panic".to_string(),
                Ok(Err(_)) => "sel=err".to_string(),
                Ok(Ok(xml_xpath::eval::model::Value::Node(nodes))) => {
                    let mut exp = String::new();
                    let mut kinds = String::new();
                    for n in nodes.iter() {
                        sel.push(n.id());
                        exp.push_str(&format!("{}\n", n));
                        kinds.push(match n {
                            XmlNode::Element(_) => 'e',
                            XmlNode::Attribute(_) => 'a',
                            XmlNode::Document(_) => 'd',
                            _ => 'o',
                        });
                    }
                    expected_xq = Some(exp);
                    format!("sel=nodes:{}:{}", nodes.len(), kinds)
                }
                Ok(Ok(v)) => {
                    expected_xq = Some(format!("{}\n", v));
                    "sel=scalar".to_string()
                }
            };
            let mut s = String::new();
            dump(&XmlNode::Document(d.clone()), &sel, &mut s);
            fields.push(format!("doc={}", s));
            fields.push(selfield);
        }
    }
    if tool == "xe" {
        let wrapped = format!("<e>{}</e>", value);
        match xml_dom::XmlDocument::from_raw(wrapped.as_str()) {
            Ok((rest, fd)) if rest.is_empty() => {
                let mut s = String::from("(");
                use xml_dom::Document;
                match fd.document_element() {
                    Ok(root) => {
                        for c in root.child_nodes().iter() {
                            // raw view: CDATA and references are separate children
                            match &c {
                                XmlNode::CData(v) => s.push_str(&format!("(cd {})", enc(&v.data().unwrap_or_default()))),
                                _ => dump(&c, &[], &mut s),
                            }
                        }
                        s.push(')');
                        fields.push(format!("frag={}", s));
                    }
                    Err(_) => fields.push("frag=err".to_string()),
                }
            }
            _ => fields.push("frag=err".to_string()),
        }
    } else {
        fields.push("frag=-".to_string());
    }

    // what the tool does
    let dir = std::env::var("XH_EXAMPLES").unwrap_or_else(|_| "/repo/target/debug/examples".to_string());
    let mut cmd = Command::new(format!("{}/{}", dir, tool));
    cmd.arg("--xpath").arg(&xpath);
    if tool == "xe" {
        cmd.arg("--value").arg(&value);
    }
    if noindent {
        cmd.arg("--no-indent");
    }
    for (p, u) in &ns {
        cmd.arg("--setns");
        if p.is_empty() {
            cmd.arg(format!("xmlns={}", u));
        } else {
            cmd.arg(format!("xmlns:{}={}", p, u));
        }
    }
    cmd.stdin(Stdio::piped()).stdout(Stdio::piped()).stderr(Stdio::piped());
    cmd.env("RUST_BACKTRACE", "0");
    match cmd.spawn() {
        Err(e) => fields.push(format!("rc=spawn-error:{}", e.kind() as u8)),
        Ok(mut child) => {
            if let Some(mut si) = child.stdin.take() {
                let _ = si.write_all(doc.as_bytes());
            }
            match child.wait_with_output() {
                Err(_) => fields.push("rc=wait-error".to_string()),
                Ok(o) => {
                    match o.status.code() {
                        Some(c) => fields.push(format!("rc={}", c)),
                        None => fields.push("rc=signal".to_string()),
                    }
                    let stdout = String::from_utf8_lossy(&o.stdout).to_string();
                    if tool == "xe" {
                        match parse_merged(stdout.trim_end_matches('\n')) {
                            Some(d2) if o.status.success() => {
                                let mut s = String::new();
                                dump(&XmlNode::Document(d2), &[], &mut s);
                                fields.push(format!("out={}", s));
                            }
                            _ => fields.push(format!("out=raw:{}", enc(&stdout))),
                        }
                    } else {
                        // is the printed text well-formed when wrapped in an element that
                        // declares the prefixes in scope? (only meaningful for element results)
                        let wrapped = format!("<w xmlns:p=\"u\" xmlns:q=\"v\">{}</w>", stdout);
                        let wf = matches!(xml_dom::XmlDocument::from_raw(wrapped.as_str()), Ok((rest, _)) if rest.is_empty());
                        fields.push(format!("outwf={}", if wf { 1 } else { 0 }));
                        fields.push(format!("out=raw:{}", enc(&stdout)));
                        match expected_xq {
                            Some(e) => fields.push(format!("exp={}", enc(&e))),
                            None => fields.push("exp=none".to_string()),
                        }
                    }
                    let panicked = String::from_utf8_lossy(&o.stderr).contains("panicked at");
                    fields.push(format!("crash={}", if panicked { 1 } else { 0 }));
                }
            }
        }
    }
    fields.join(" | ")
}
