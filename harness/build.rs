// Collects src/domains/*.rs into a dispatch table so that adding a domain is adding a file.
// A domain module exposes either `pub fn case(line: &str) -> String` (one observation per
// input line) or, when its file starts with the marker `//! whole`, `pub fn run(out: &mut dyn Write)`.
use std::{env, fs, path::Path};

fn main() {
    let dir = Path::new("src/domains");
    let mut names: Vec<(String, bool)> = Vec::new();
    for e in fs::read_dir(dir).unwrap() {
        let p = e.unwrap().path();
        if p.extension().map(|x| x == "rs").unwrap_or(false) {
            let name = p.file_stem().unwrap().to_string_lossy().to_string();
            let src = fs::read_to_string(&p).unwrap();
            names.push((name, src.starts_with("//! whole")));
        }
    }
    // the main harness compiles only the integrated domains (domains.enabled); a private
    // harness copy made by bin/agent-env has no such file and compiles what it links
    if let Ok(list) = fs::read_to_string("domains.enabled") {
        let enabled: Vec<&str> = list.lines().map(|l| l.trim()).filter(|l| !l.is_empty() && !l.starts_with('#')).collect();
        names.retain(|(n, _)| enabled.contains(&n.as_str()));
    }
    println!("cargo:rerun-if-changed=domains.enabled");
    names.sort();
    let mut out = String::new();
    let root = env::var("CARGO_MANIFEST_DIR").unwrap();
    for (n, _) in &names {
        out.push_str(&format!("#[path = \"{}/src/domains/{}.rs\"] pub mod {};\n", root, n, n));
    }
    out.push_str("pub fn case_fn(domain: &str) -> Option<fn(&str) -> String> {\n    match domain {\n");
    for (n, whole) in &names {
        if !whole {
            out.push_str(&format!("        \"{}\" => Some({}::case),\n", n, n));
        }
    }
    out.push_str("        _ => None,\n    }\n}\n");
    out.push_str("pub fn whole_fn(domain: &str) -> Option<fn(&mut dyn std::io::Write)> {\n    match domain {\n");
    for (n, whole) in &names {
        if *whole {
            out.push_str(&format!("        \"{}\" => Some({}::run),\n", n, n));
        }
    }
    out.push_str("        _ => None,\n    }\n}\n");
    let dest = Path::new(&env::var("OUT_DIR").unwrap()).join("domains.rs");
    fs::write(dest, out).unwrap();
    println!("cargo:rerun-if-changed=src/domains");
}
