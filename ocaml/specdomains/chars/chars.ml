(* chars: value of every specification class at its thresholds *)
let () = register_whole "chars" (fun () ->
  List.iter (fun (name, obs) ->
      print_string ("thr " ^ ascii name);
      List.iter (fun (t, v) -> Printf.printf " %d:%d" (int_of_n t) (if v then 1 else 0)) obs;
      print_newline ()) spec_obs)
