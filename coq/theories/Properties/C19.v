(** C19 -- parsing and querying are deterministic and side-effect free (evaluation context).
    This file only names the theorems; proofs live in Proofs/XPathCtx.v, Proofs/XPathTotal.v.

    The model ([Model/XPathEval.v]) threads the evaluation context -- position stack, size stack,
    namespace bindings -- through every function and returns it, so "the context is restored" is a
    statement about the model; the tie to the code is the `xpath` correspondence, which evaluates
    sequences of queries against ONE shared [Context] and probes [position()]/[last()] after each.
    A panic unwinds without popping: it is the one outcome after which the context may differ, and
    [C19_eval_restores_context_wf] shows it cannot happen on a well-formed table. *)
From Coq Require Import List NArith Bool.
From XmlRs Require Import Base.CPred Model.XPathAst Model.XDoc Model.XPathEval.
From XmlRs Require Import Proofs.XPathCtx Proofs.XPathNav Proofs.XPathAstPred Proofs.XPathTotal
  Proofs.XPathExamples Proofs.XPathWitness.
Import ListNotations.

(** the two stacks of a context *)
Definition stacks (c : ctx) : list N * list N := (c_size c, c_position c).

(** Evaluating any expression at any node with any context, on ANY document table: if the evaluation
    ends with a value or an error, the whole context (hence both stacks) is what it was. *)
Theorem C19_eval_restores_context :
  forall (doc : xdoc) (c : ctx) (e : expr) (n : node) (r : res xvalue) (c' : ctx),
    eval_expr doc e n c = (r, c') -> settled r -> c' = c /\ stacks c' = stacks c.
Proof.
  intros doc c e n r c' H Hs. assert (c' = c) by (eapply eval_restores_context_lemma; eauto).
  subst. split; reflexivity.
Qed.

(** On a well-formed table (no panic possible, C06) the side condition disappears. *)
Theorem C19_eval_restores_context_wf :
  forall (doc : xdoc) (c : ctx) (e : expr) (n : node),
    DocWf doc -> expr_total e = true -> valid doc n -> snd (eval_expr doc e n c) = c.
Proof. intros doc c e n Hwf. exact (eval_restores_total doc Hwf e n c). Qed.

(** A series of queries against one shared context answers as each query does on its own:
    including the ones that ended in an error. *)
Theorem C19_query_sequence_independent :
  forall (doc : xdoc) (es : list expr) (c : ctx),
    (forall e, In e es -> settled (fst (query doc e c))) ->
    map fst (run_shared doc es c) = map (fun e => fst (query doc e c)) es.
Proof.
  intros doc es c. induction es as [|e t IH]; intros Hs; [reflexivity|].
  cbn [run_shared map]. destruct (query doc e c) as [r c'] eqn:E. cbn [map fst].
  assert (c' = c).
  { unfold query in E. eapply eval_restores_context_lemma; [exact E|].
    specialize (Hs e (or_introl eq_refl)). unfold query in Hs. rewrite E in Hs. exact Hs. }
  subst c'. f_equal. apply IH. intros e' He'. apply Hs. right. exact He'.
Qed.

(** A query does not change the result of any later query. *)
Theorem C19_query_does_not_affect_later :
  forall (doc : xdoc) (e1 e2 : expr) (c : ctx),
    settled (fst (query doc e1 c)) -> query doc e2 (snd (query doc e1 c)) = query doc e2 c.
Proof.
  intros doc e1 e2 c Hs. destruct (query doc e1 c) as [r c'] eqn:E. cbn [fst snd] in *.
  assert (c' = c) by (unfold query in E; eapply eval_restores_context_lemma; eauto). subst. reflexivity.
Qed.

(** [query_pure]: the evaluator has no access to a mutator -- in the model by typing: [query] takes
    the table and returns a value and a context, there is no document in its result.  Tie to the
    code: the harness compares the serialisation and the XDoc dump of the document before and after
    every series of queries (section [U] of its output; checks/C19.py requires [U 1]). *)

(** the premise is satisfiable by a failing query: //b[nosuch()] *)
Example C19_error_example :
  query ex_doc ex_doc_e4 ctx_default = (Err (XErrNotFoundFunction [110; 111; 115; 117; 99; 104]%N), ctx_default).
Proof. exact ex_error_restores. Qed.

Print Assumptions C19_eval_restores_context.
Print Assumptions C19_eval_restores_context_wf.
Print Assumptions C19_query_sequence_independent.
Print Assumptions C19_query_does_not_affect_later.
