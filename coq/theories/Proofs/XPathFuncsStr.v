(** C09: the string functions of the model (Rust [str] methods on code points) compute the
    functions of XPath 1.0 section 4.2, for every string.  One lemma per Rust function. *)
From Coq Require Import ZArith NArith List Bool Lia.
From Coq Require Import Floats.SpecFloat.
From XmlRs Require Import Base.CPred Base.Float64 Spec.XPathCore Model.XPathFuncs Proofs.XPathFuncsTable.
Import ListNotations.
Open Scope N_scope.

(** ** starts-with, contains, substring-before, substring-after *)
Lemma rs_starts_with_prefixb : forall p s, rs_starts_with s p = prefixb p s.
Proof.
  induction p as [|x p IH]; intros [|y s]; cbn [rs_starts_with prefixb]; try reflexivity.
  now rewrite IH.
Qed.

Lemma rs_find_before_after : forall a b,
  match rs_find a b with
  | Some i => before_first a b = Some (firstn i a) /\ after_first a b = Some (skipn (i + List.length b) a)
  | None => before_first a b = None /\ after_first a b = None
  end.
Proof.
  induction a as [|c a IH]; intros b.
  - cbn [rs_find before_first after_first]. rewrite rs_starts_with_prefixb.
    destruct (prefixb b []); cbn [firstn]; auto.
  - cbn [rs_find before_first after_first]. rewrite rs_starts_with_prefixb.
    destruct (prefixb b (c :: a)) eqn:Hp.
    + cbn [firstn Nat.add]. auto.
    + specialize (IH b). destruct (rs_find a b) as [i|].
      * destruct IH as [-> ->]. cbn [firstn Nat.add skipn]. auto.
      * destruct IH as [-> ->]. auto.
Qed.

Lemma rs_contains_spec : forall a b, rs_contains a b = xp_contains a b.
Proof.
  unfold rs_contains. induction a as [|c a IH]; intros b; cbn [rs_find xp_contains];
    rewrite rs_starts_with_prefixb; destruct (prefixb b _); cbn [orb]; try reflexivity.
  rewrite <- IH. now destruct (rs_find a b).
Qed.

Lemma split_once_before a b :
  match rs_split_once a b with Some (x, _) => x | None => [] end = xp_substring_before a b.
Proof.
  unfold rs_split_once, xp_substring_before. pose proof (rs_find_before_after a b) as H.
  destruct (rs_find a b); destruct H as [-> _]; reflexivity.
Qed.

Lemma split_once_after a b :
  match rs_split_once a b with Some (_, y) => y | None => [] end = xp_substring_after a b.
Proof.
  unfold rs_split_once, xp_substring_after. pose proof (rs_find_before_after a b) as H.
  destruct (rs_find a b); destruct H as [_ ->]; reflexivity.
Qed.

(** ** concat *)
Lemma fold_left_app_concat (f : value -> str) : forall args acc,
  fold_left (fun s a => s ++ f a) args acc = acc ++ List.concat (map f args).
Proof.
  induction args as [|a args IH]; intros acc; cbn [fold_left map List.concat].
  - now rewrite app_nil_r.
  - rewrite IH. now rewrite app_assoc.
Qed.

(** ** string-length *)
Lemma str_len_length s : str_len s = N.of_nat (List.length s).
Proof. induction s as [|c s IH]; cbn [str_len List.length]; [reflexivity|]. rewrite IH. lia. Qed.

(** ** substring: the enumerate/filter loop is the position filter of the specification *)
Lemma filter_enumerate_pos (k : f64 -> bool) : forall s i0,
  rs_filter_enumerate (fun i => k (f64_of_N (i + 1))) i0 s = filter_pos k (i0 + 1) s.
Proof.
  induction s as [|c s IH]; intros i0; cbn [rs_filter_enumerate filter_pos]; [reflexivity|].
  rewrite IH. reflexivity.
Qed.

Lemma filter_pos_ext (k1 k2 : f64 -> bool) : (forall p, k1 p = k2 p) ->
  forall s i, filter_pos k1 i s = filter_pos k2 i s.
Proof.
  intros H. induction s as [|c s IH]; intros i; cbn [filter_pos]; [reflexivity|].
  now rewrite H, IH.
Qed.

(** [a >= b] of Rust (partial_cmp is Greater or Equal) is [b <= a] *)
Lemma compare_antisym (x y : f64) :
  f64_compare y x = match f64_compare x y with Some c => Some (CompOpp c) | None => None end.
Proof.
  unfold f64_compare, SFcompare.
  destruct x as [sx|sx| |sx mx ex], y as [sy|sy| |sy my ey]; try reflexivity;
    try (destruct sx; reflexivity); try (destruct sy; reflexivity);
    try (destruct sx, sy; reflexivity).
  destruct sx, sy; cbn [CompOpp]; try reflexivity.
  - rewrite (Z.compare_antisym ex ey). destruct (ex ?= ey)%Z; cbn [CompOpp]; try reflexivity.
    f_equal. rewrite (ZC4 my mx). reflexivity.
  - rewrite (Z.compare_antisym ex ey). destruct (ex ?= ey)%Z; cbn [CompOpp]; try reflexivity.
    f_equal. rewrite (ZC4 my mx). reflexivity.
Qed.

Lemma f64_geb_leb p s : f64_geb p s = f64_leb s p.
Proof.
  unfold f64_geb, f64_leb, SFleb. change SFcompare with f64_compare.
  rewrite (compare_antisym p s). destruct (f64_compare p s) as [[| |]|]; reflexivity.
Qed.

(** ** normalize-space *)
Lemma rs_xml_ws_is_ws c : rs_xml_ws c = is_ws c.
Proof. reflexivity. Qed.

Definition ne_piece (v : str) : bool := negb (match v with [] => true | _ => false end).

Lemma rs_join_cons sep x l :
  rs_join sep (x :: l) = match l with [] => x | _ => x ++ sep ++ rs_join sep l end.
Proof. destruct l; reflexivity. Qed.

Lemma split_first_nonempty p : forall s cur, cur <> [] ->
  filter ne_piece (rs_split p s cur) <> [].
Proof.
  induction s as [|c s IH]; intros cur Hc; cbn [rs_split].
  - cbn [filter]. destruct (rev cur) eqn:E; [|cbn; discriminate].
    apply (f_equal (@rev _)) in E. rewrite rev_involutive in E. cbn in E. contradiction.
  - destruct (p c).
    + cbn [filter]. destruct (rev cur) eqn:E; [|cbn; discriminate].
      apply (f_equal (@rev _)) in E. rewrite rev_involutive in E. cbn in E. contradiction.
    + apply IH. discriminate.
Qed.

Lemma rev_nonempty (cur : str) : cur <> [] -> ne_piece (rev cur) = true.
Proof.
  intros H. destruct (rev cur) eqn:E; [|reflexivity].
  apply (f_equal (@rev _)) in E. rewrite rev_involutive in E. cbn in E. contradiction.
Qed.

Lemma normalize_space_aux : forall s,
  (forall cur, cur <> [] ->
     rs_join [32] (filter ne_piece (rs_split is_ws s cur)) = rev cur ++ norm_space true false s) /\
  rs_join [32] (filter ne_piece (rs_split is_ws s [])) = norm_space false false s /\
  norm_space true true s =
    match filter ne_piece (rs_split is_ws s []) with
    | [] => []
    | l => 32 :: rs_join [32] l
    end.
Proof.
  induction s as [|c s (IH1 & IH2 & IH3)]; cbn [rs_split norm_space].
  - split; [|split].
    + intros cur Hc. cbn [filter]. rewrite rev_nonempty by assumption. cbn [rs_join]. now rewrite app_nil_r.
    + reflexivity.
    + reflexivity.
  - destruct (is_ws c) eqn:Hw.
    + split; [|split].
      * intros cur Hc. cbn [filter]. rewrite rev_nonempty by assumption.
        rewrite rs_join_cons, IH3.
        destruct (filter ne_piece (rs_split is_ws s [])); [now rewrite app_nil_r|reflexivity].
      * cbn [filter rev ne_piece negb]. exact IH2.
      * cbn [filter rev ne_piece negb]. exact IH3.
    + split; [|split].
      * intros cur Hc. rewrite IH1 by discriminate. cbn [rev app]. now rewrite <- app_assoc.
      * rewrite IH1 by discriminate. reflexivity.
      * pose proof (split_first_nonempty is_ws s [c]) as Hne.
        destruct (filter ne_piece (rs_split is_ws s [c])) as [|w l] eqn:E; [elim Hne; [discriminate|reflexivity]|].
        rewrite <- E, IH1 by discriminate. reflexivity.
Qed.

Lemma normalize_space_refines r :
  rs_join [32] (filter (fun v => negb (match v with [] => true | _ => false end)) (rs_split rs_xml_ws r []))
  = xp_normalize_space r.
Proof. exact (proj1 (proj2 (normalize_space_aux r))). Qed.

(** ** translate *)
Lemma translate_map_position c : forall from to,
  translate_map from to c =
  match rs_position c from with
  | Some i => Some (nth_error to i)
  | None => None
  end.
Proof.
  induction from as [|x from IH]; intros to; cbn [translate_map rs_position]; [reflexivity|].
  destruct (x =? c).
  - destruct to; reflexivity.
  - rewrite IH. destruct (rs_position c from) as [i|]; [|reflexivity].
    destruct to as [|y to]; cbn [nth_error]; [now destruct i|reflexivity].
Qed.

Lemma translate_refines s1 s2 s3 :
  flat_map (fun ch => match rs_position ch s2 with
                      | Some index => match nth_error s3 index with Some r => [r] | None => [] end
                      | None => [ch]
                      end) s1
  = xp_translate s1 s2 s3.
Proof.
  unfold xp_translate. induction s1 as [|c s1 IH]; cbn [flat_map]; [reflexivity|].
  rewrite IH, translate_map_position. destruct (rs_position c s2); reflexivity.
Qed.

(** ** sanity of the specification itself: [contains] and [substring-before/after] mean what
    the recommendation says (an occurrence; the first occurrence) *)
Lemma prefixb_app p s : prefixb p s = true <-> exists r, s = p ++ r.
Proof.
  revert s. induction p as [|x p IH]; intros s; cbn [prefixb].
  - split; [intros _; now exists s|reflexivity].
  - destruct s as [|y s]; [split; [discriminate|intros [r Hr]; discriminate]|].
    rewrite andb_true_iff, N.eqb_eq, IH. split.
    + intros [-> [r ->]]. now exists r.
    + intros [r Hr]. injection Hr as -> ->. split; [reflexivity|now exists r].
Qed.

Theorem xp_contains_iff a b : xp_contains a b = true <-> exists l r, a = l ++ b ++ r.
Proof.
  induction a as [|c a IH]; cbn [xp_contains].
  - rewrite orb_false_r, prefixb_app. split.
    + intros [r Hr]. now exists [], r.
    + intros (l & r & H). destruct l; [now exists r|discriminate].
  - rewrite orb_true_iff, prefixb_app, IH. split.
    + intros [[r Hr]|(l & r & ->)]; [now exists [], r|now exists (c :: l), r].
    + intros ([|x l] & r & H); [left; now exists r|right].
      injection H as -> ->. now exists l, r.
Qed.

Theorem before_after_first a b x y :
  before_first a b = Some x -> after_first a b = Some y ->
  a = x ++ b ++ y /\ (forall l r, a = l ++ b ++ r -> (List.length x <= List.length l)%nat).
Proof.
  revert x y. induction a as [|c a IH]; intros x y; cbn [before_first after_first].
  - destruct (prefixb b []) eqn:Hp; [|discriminate]. intros [= <-] [= <-].
    apply prefixb_app in Hp as [r Hr]. destruct b; [|discriminate]. cbn. split; [reflexivity|intros; lia].
  - destruct (prefixb b (c :: a)) eqn:Hp.
    + intros [= <-] [= <-]. apply prefixb_app in Hp as [r Hr]. split; [|intros; cbn; lia].
      rewrite Hr at 1. cbn [app]. f_equal. rewrite Hr.
      clear. induction b as [|z b IHb]; [reflexivity|exact IHb].
    + destruct (before_first a b) as [x'|] eqn:Hb; [|discriminate].
      intros [= <-] Ha. destruct (IH x' y eq_refl Ha) as [-> Hmin]. split; [reflexivity|].
      intros [|z l] r H.
      * exfalso. assert (prefixb b (c :: x' ++ b ++ y) = true) as Hc by (apply prefixb_app; now exists r).
        congruence.
      * injection H as -> H. cbn [List.length]. apply le_n_S. now apply (Hmin l r).
Qed.
