(** * The languages of the name productions (second half of C18).

    For the grammar REGENERATED from the Rust source: the strings completely accepted by
    [ncname], [qname], [nmtoken] are exactly NCName, QName, Nmtoken of the recommendations;
    [name] and [pi_target] are characterised exactly too, and differ from Name / PITarget
    only on the inputs of known finding D04 (first character not checked), see
    [name_language_refuted] and the conditional theorems. *)
From Coq Require Import List NArith Arith Lia Bool.
From XmlRs Require Import Base.CPred Spec.XmlChars Model.Peg Gen.XmlcharGen Gen.GrammarXmlGen
  Proofs.XmlcharProofs Proofs.PegTermination.
Import ListNotations.
Local Open Scope nat_scope.

Notation R := GrammarXmlGen.G_xml_R.
Definition accepts (n : nat) (s : str) : Prop := exists t, run G_xml R n s = Ok (t, []).

(** ** generic facts about [span] and [consumed] *)
Lemma span_spec f s a b : span f s = (a, b) ->
  s = a ++ b /\ forallb f a = true /\ match b with [] => True | x :: _ => f x = false end.
Proof.
  revert a b; induction s as [|c s IH]; intros a b; cbn [span].
  - intros H; injection H as <- <-. auto.
  - destruct (f c) eqn:E.
    + destruct (span f s) as [a' b'] eqn:E'. intros H; injection H as <- <-.
      destruct (IH a' b' eq_refl) as (-> & Ha & Hb). cbn [app forallb]. rewrite E, Ha. auto.
    + intros H; injection H as <- <-. cbn. rewrite E. auto.
Qed.

Lemma span_all f s : forallb f s = true -> span f s = (s, []).
Proof.
  induction s as [|c s IH]; cbn [forallb span]; [reflexivity|].
  intros H. apply andb_true_iff in H. destruct H as [-> H]. now rewrite (IH H).
Qed.

Lemma span_app_stop f a x b : forallb f a = true -> f x = false -> span f (a ++ x :: b) = (a, x :: b).
Proof.
  induction a as [|c a IH]; cbn [forallb app span]; intros Ha Hx.
  - now rewrite Hx.
  - apply andb_true_iff in Ha. destruct Ha as [-> Ha]. now rewrite (IH Ha Hx).
Qed.

Lemma span_sub (f g : char -> bool) : (forall c, f c = true -> g c = true) ->
  forall s a b c d, span f s = (a, b) -> span g b = (c, d) -> span g s = (a ++ c, d).
Proof.
  intros Hfg; induction s as [|x s IH]; intros a b c d; cbn [span].
  - intros H; injection H as <- <-. cbn [span]. intros H; injection H as <- <-. reflexivity.
  - destruct (f x) eqn:E.
    + destruct (span f s) as [a' b'] eqn:E'. intros H; injection H as <- <-. intros H2.
      rewrite (Hfg _ E). rewrite (IH _ _ _ _ eq_refl H2). reflexivity.
    + intros H; injection H as <- <-. cbn [app]. intros H2. cbn [span] in H2. exact H2.
Qed.

Lemma consumed_app u d : consumed (u ++ d) d = u.
Proof.
  unfold consumed. rewrite app_length. replace (length u + length d - length d) with (length u) by lia.
  rewrite firstn_app, Nat.sub_diag, firstn_all. cbn. apply app_nil_r.
Qed.

(** ** one-step evaluation helpers *)
Lemma den_NT f n s : denote G_xml (S f) (NT n) s = denote G_xml f (body G_xml n) s.
Proof. rewrite denote_eq. reflexivity. Qed.

Lemma den_Chars0 f p s : denote G_xml f (Chars0 p) s = (let (a, b) := span (eval p) s in Ok (TStr a, b)).
Proof. rewrite denote_eq. reflexivity. Qed.

Lemma den_Chars1 f p s : denote G_xml f (Chars1 p) s =
  match span (eval p) s with ([], _) => Fail | (a, b) => Ok (TStr a, b) end.
Proof. rewrite denote_eq. reflexivity. Qed.

(** ** character classes of the generated predicates, in terms of the specification *)
Definition NSC (c : N) : bool := eval spec_NameStartChar c.
Definition NC (c : N) : bool := eval spec_NameChar c.
Definition P1 (c : N) : bool := NSC c && negb (N.eqb c colon).
Definition P0 (c : N) : bool := NC c && negb (N.eqb c colon).

Lemma NSC_NC c : NSC c = true -> NC c = true.
Proof. unfold NSC, NC, spec_NameChar. cbn [eval]. intros ->. reflexivity. Qed.
Lemma P1_P0 c : P1 c = true -> P0 c = true.
Proof. unfold P1, P0. intros H. apply andb_true_iff in H. destruct H as [H ->]. now rewrite (NSC_NC _ H). Qed.

Lemma eval_P1 c : eval (is_name_start_char_except [58%N]) c = P1 c.
Proof. rewrite is_name_start_char_except_equiv. unfold P1, NSC, colon. cbn [existsb]. now rewrite orb_false_r. Qed.
Lemma eval_P0 c : eval (is_name_char_except [58%N]) c = P0 c.
Proof. rewrite is_name_char_except_equiv. unfold P0, NC, colon. cbn [existsb]. now rewrite orb_false_r. Qed.
Lemma eval_NSC c : eval is_name_start_char c = NSC c.
Proof. apply is_name_start_char_equiv. Qed.
Lemma eval_NC c : eval is_name_char c = NC c.
Proof. apply is_name_char_equiv. Qed.

Lemma span_ext (f g : char -> bool) s : (forall c, f c = g c) -> span f s = span g s.
Proof. intros H; induction s as [|c s IH]; cbn [span]; [reflexivity|]. now rewrite H, IH. Qed.

(** ** ncname *)
Lemma body_ncname : body G_xml nt_ncname =
  Recognize (Seq (Chars1 (is_name_start_char_except [58%N])) (Chars0 (is_name_char_except [58%N]))).
Proof. reflexivity. Qed.

Definition ncname_spec (s : str) : res (tree * str) :=
  match s with
  | x :: t => if P1 x then let (c, d) := span P0 t in Ok (TStr (x :: c), d) else Fail
  | [] => Fail
  end.

Lemma den_ncname f s : denote G_xml (S f) (NT nt_ncname) s = ncname_spec s.
Proof.
  rewrite den_NT, body_ncname. rewrite denote_eq. cbn [den1].
  rewrite (denote_eq _ _ (Seq _ _)). cbn [den1]. rewrite den_Chars1.
  rewrite (span_ext _ P1 s eval_P1).
  destruct s as [|x t]; cbn [span ncname_spec bind]; [reflexivity|].
  destruct (P1 x) eqn:E1; [|reflexivity].
  destruct (span P1 t) as [a b] eqn:Ea. cbn [bind fst snd].
  rewrite den_Chars0. rewrite (span_ext _ P0 b eval_P0).
  destruct (span P0 b) as [c d] eqn:Ec. cbn [bind fst snd].
  pose proof (span_sub P1 P0 P1_P0 t a b c d Ea Ec) as Hs. rewrite Hs.
  destruct (span_spec _ _ _ _ Ea) as (-> & _ & _).
  destruct (span_spec _ _ _ _ Ec) as (-> & _ & _).
  replace (x :: a ++ c ++ d) with ((x :: a ++ c) ++ d) by (cbn; now rewrite app_assoc).
  rewrite consumed_app. reflexivity.
Qed.

Lemma ncname_spec_accepts s : (exists t, ncname_spec s = Ok (t, [])) <-> is_NCName s = true.
Proof.
  unfold is_NCName. destruct s as [|x t]; cbn [ncname_spec is_Name].
  - split; [intros [? H]; discriminate|discriminate].
  - fold (NSC x). unfold P1. cbn [existsb].
    replace (N.eqb colon x) with (N.eqb x colon) by apply N.eqb_sym.
    split.
    + intros [tr H]. destruct (NSC x && negb (N.eqb x colon)) eqn:E1; [|discriminate].
      destruct (span P0 t) as [c d] eqn:Ec. injection H as _ ->.
      destruct (span_spec _ _ _ _ Ec) as (-> & Hc & _). rewrite app_nil_r.
      apply andb_true_iff in E1. destruct E1 as [-> E1]. cbn [andb].
      apply negb_true_iff in E1. rewrite E1. cbn [orb].
      clear Ec. induction c as [|y c IH]; cbn [forallb existsb] in *; [reflexivity|].
      apply andb_true_iff in Hc. destruct Hc as [Hy Hc]. unfold P0 in Hy.
      apply andb_true_iff in Hy. destruct Hy as [Hy1 Hy2]. fold (NC y). rewrite Hy1. cbn [andb].
      apply negb_true_iff in Hy2. rewrite (N.eqb_sym colon y), Hy2. cbn [orb]. apply IH, Hc.
    + intros H. apply andb_true_iff in H. destruct H as [H1 H2].
      apply andb_true_iff in H1. destruct H1 as [Hx Ht]. rewrite Hx. cbn [andb].
      apply negb_true_iff in H2. apply orb_false_iff in H2. destruct H2 as [Hxc Htc].
      rewrite Hxc. cbn [negb].
      assert (Hall : forallb P0 t = true).
      { clear Hx Hxc. induction t as [|y t IH]; cbn [forallb existsb] in *; [reflexivity|].
        apply andb_true_iff in Ht. destruct Ht as [Hy Ht]. apply orb_false_iff in Htc. destruct Htc as [Hyc Htc].
        unfold P0. fold (NC y) in Hy. rewrite Hy, (N.eqb_sym y colon), Hyc. cbn. apply IH; assumption. }
      rewrite (span_all _ _ Hall). eauto.
Qed.

Lemma fuel4 s : exists k, fuel_bound R s = S (S (S (S k))).
Proof. unfold fuel_bound. exists (length s * S (S R) + R + R). lia. Qed.

Theorem ncname_language : forall s, accepts nt_ncname s <-> is_NCName s = true.
Proof.
  intros s. unfold accepts, run. destruct (fuel4 s) as [k ->]. rewrite den_ncname. apply ncname_spec_accepts.
Qed.

(** ** nmtoken *)
Lemma body_nmtoken : body G_xml nt_nmtoken = Chars1 is_name_char.
Proof. reflexivity. Qed.

Theorem nmtoken_language : forall s, accepts nt_nmtoken s <-> is_Nmtoken s = true.
Proof.
  intros s. unfold accepts, run. destruct (fuel4 s) as [k ->]. rewrite den_NT, body_nmtoken, den_Chars1.
  rewrite (span_ext _ NC s eval_NC). unfold is_Nmtoken. change (eval spec_NameChar) with NC.
  destruct (span NC s) as [a b] eqn:E. destruct (span_spec _ _ _ _ E) as (-> & Ha & Hb).
  destruct a as [|x a].
  - split; [intros [? H]; discriminate|]. cbn [app]. destruct b as [|y b]; [discriminate|].
    cbn [forallb]. rewrite Hb. discriminate.
  - split.
    + intros [t H]. injection H as _ ->. rewrite app_nil_r. exact Ha.
    + intros H. cbn [app] in H. destruct b as [|y b]; [eauto|].
      exfalso. change (x :: a ++ y :: b) with ((x :: a) ++ y :: b) in H.
      rewrite forallb_app in H. apply andb_true_iff in H. destruct H as [_ H]. cbn [forallb] in H.
      rewrite Hb in H. discriminate.
Qed.

(** ** name: NameStartChar* NameChar*, i.e. any run of name characters (finding D04) *)
Lemma body_name : body G_xml nt_name = Recognize (Seq (NT nt_multinamestartchar0) (NT nt_multinamechar0)).
Proof. reflexivity. Qed.
Lemma body_mnsc0 : body G_xml nt_multinamestartchar0 = Chars0 is_name_start_char.
Proof. reflexivity. Qed.
Lemma body_mnc0 : body G_xml nt_multinamechar0 = Chars0 is_name_char.
Proof. reflexivity. Qed.

Definition name_spec (s : str) : res (tree * str) := let (c, d) := span NC s in Ok (TStr c, d).

Lemma den_name f s : denote G_xml (S (S f)) (NT nt_name) s = name_spec s.
Proof.
  rewrite den_NT, body_name. rewrite denote_eq. cbn [den1].
  rewrite (denote_eq _ _ (Seq _ _)). cbn [den1].
  rewrite den_NT, body_mnsc0, den_Chars0. rewrite (span_ext _ NSC s eval_NSC).
  destruct (span NSC s) as [a b] eqn:Ea. cbn [bind fst snd].
  rewrite den_NT, body_mnc0, den_Chars0. rewrite (span_ext _ NC b eval_NC).
  destruct (span NC b) as [c d] eqn:Ec. cbn [bind fst snd].
  unfold name_spec. rewrite (span_sub NSC NC NSC_NC s a b c d Ea Ec).
  destruct (span_spec _ _ _ _ Ea) as (-> & _ & _).
  destruct (span_spec _ _ _ _ Ec) as (-> & _ & _).
  rewrite app_assoc, consumed_app. reflexivity.
Qed.

Lemma name_spec_accepts s : (exists t, name_spec s = Ok (t, [])) <-> forallb NC s = true.
Proof.
  unfold name_spec. destruct (span NC s) as [c d] eqn:E. destruct (span_spec _ _ _ _ E) as (-> & Hc & Hd). split.
  - intros [t H]. injection H as _ ->. now rewrite app_nil_r.
  - intros H. rewrite forallb_app in H. apply andb_true_iff in H. destruct H as [_ H].
    destruct d as [|y d]; [eauto|]. cbn [forallb] in H. rewrite Hd in H. discriminate.
Qed.

Theorem name_language_exact : forall s, accepts nt_name s <-> forallb NC s = true.
Proof.
  intros s. unfold accepts, run. destruct (fuel4 s) as [k ->]. rewrite den_name. apply name_spec_accepts.
Qed.

(** the inputs of finding D04: empty, or first character a NameChar that is not a NameStartChar *)
Definition KnownD04 (s : str) : bool :=
  match s with [] => true | x :: _ => NC x && negb (NSC x) end.

Lemma is_Name_NC s : KnownD04 s = false -> (forallb NC s = true <-> is_Name s = true).
Proof.
  destruct s as [|x t]; cbn [KnownD04 forallb is_Name]; [discriminate|]. change (eval spec_NameStartChar x) with (NSC x). change (eval spec_NameChar) with NC.
  intros H. split; intros H2; apply andb_true_iff in H2; destruct H2 as [H2 H3]; rewrite H3.
  - rewrite H2 in H. cbn [andb] in H. apply negb_false_iff in H. now rewrite H.
  - now rewrite (NSC_NC _ H2).
Qed.

Theorem name_language_except_D04 : forall s, KnownD04 s = false -> (accepts nt_name s <-> is_Name s = true).
Proof. intros s H. rewrite name_language_exact. apply is_Name_NC, H. Qed.

Theorem name_language_refuted : exists s, accepts nt_name s /\ is_Name s = false /\ KnownD04 s = true.
Proof.
  exists [49%N]. split; [|split; reflexivity].
  apply name_language_exact. vm_compute. reflexivity.
Qed.

(** ** pi_target = name except (case-insensitively) "xml" *)
Lemma body_pi_target : body G_xml nt_pi_target = TakeExcept (NT nt_name) [120%N; 109%N; 108%N].
Proof. reflexivity. Qed.

Lemma ci_reject_xml v : ci_reject [120%N; 109%N; 108%N] v = is_xml_ci v.
Proof.
  unfold ci_reject, is_xml_ci.
  destruct v as [|a [|b [|c [|d v]]]]; cbn [ci_zip_eq length Nat.eqb andb]; try reflexivity.
  - now rewrite andb_false_r.
  - now rewrite andb_false_r.
  - rewrite !andb_true_r. change (Peg.lower 120) with 120%N. change (Peg.lower 109) with 109%N. change (Peg.lower 108) with 108%N.
    change Peg.lower with XmlChars.lower.
    rewrite (N.eqb_sym 120 (XmlChars.lower a)), (N.eqb_sym 109 (XmlChars.lower b)), (N.eqb_sym 108 (XmlChars.lower c)). now rewrite andb_assoc.
  - now rewrite andb_false_r.
Qed.

Theorem pi_target_language_exact : forall s,
  accepts nt_pi_target s <-> (forallb NC s = true /\ is_xml_ci s = false).
Proof.
  intros s. unfold accepts, run. destruct (fuel4 s) as [k ->].
  rewrite den_NT, body_pi_target. rewrite denote_eq. cbn [den1]. rewrite den_name.
  unfold name_spec. destruct (span NC s) as [c d] eqn:E. cbn [bind fst snd].
  destruct (span_spec _ _ _ _ E) as (-> & Hc & Hd). rewrite consumed_app, ci_reject_xml.
  split.
  - intros [t H]. destruct (is_xml_ci c) eqn:Ex; [discriminate|]. injection H as _ ->.
    rewrite app_nil_r. auto.
  - intros [H1 H2]. rewrite forallb_app in H1. apply andb_true_iff in H1. destruct H1 as [_ H1].
    destruct d as [|y d]; [|cbn [forallb] in H1; rewrite Hd in H1; discriminate].
    rewrite app_nil_r in H2. rewrite H2. eauto.
Qed.

Theorem pi_target_language_except_D04 : forall s, KnownD04 s = false ->
  (accepts nt_pi_target s <-> is_PITarget s = true).
Proof.
  intros s H. rewrite pi_target_language_exact. unfold is_PITarget.
  rewrite (is_Name_NC s H). rewrite andb_true_iff, negb_true_iff. reflexivity.
Qed.
