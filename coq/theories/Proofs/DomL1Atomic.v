(** * C13: a call that fails leaves the documents as they were

    For every operation other than [SetAttribute] the statement is the strongest possible one:
    the world after a failed call IS the world before it ([fst (step w o) = w]), so every
    observation whatsoever -- tree, attributes, data, order keys, serialisation -- is unchanged.
    A failed [set_attribute] has by then built the attribute node it wanted to add (the code calls
    [create_attribute] first): the world is the old one plus ONE new node that has no parent, no
    children and that nothing refers to ([Garbage]); the identifier counter has advanced.  No
    observation through a node that existed before can tell the difference. *)
From Coq Require Import List NArith Bool Lia.
From XmlRs Require Import Base.CPred Model.Store Model.DomOps Proofs.DomBase Proofs.DomTree Proofs.DomAnc Proofs.DomOpsInv.
Import ListNotations.
Open Scope N_scope.

(** ** putting a store back where it came from *)
Lemma set_nth_same {A} (l : list A) : forall n x, nth_error l n = Some x -> set_nth n x l = l.
Proof.
  induction l as [|y t IH]; intros [|n] x H; cbn in *; try discriminate.
  - inversion H; reflexivity.
  - f_equal. apply IH. exact H.
Qed.

Lemma set_doc_same w k s : doc_at w k = Some s -> set_doc w k s = w.
Proof. intros H. unfold set_doc. unfold doc_at in H. rewrite (set_nth_same _ _ _ H). destruct w; reflexivity. Qed.

Definition atomic_s (e : exc) (s : store) (r : store * outcome) : Prop := snd r = Failed e -> fst r = s.

Lemma on_node_atomic w r f e :
  WInv w ->
  (forall s k, TreeInv s -> kind_of s (snd r) = Some k -> atomic_s e s (f s k)) ->
  snd (on_node w r f) = Failed e -> fst (on_node w r f) = w.
Proof.
  intros Hw Hf. unfold on_node. destruct (doc_at w (fst r)) as [s|] eqn:D; [|cbn; discriminate].
  destruct (kind_of s (snd r)) as [k|] eqn:K; [|cbn; discriminate].
  specialize (Hf s k (doc_at_P TreeInv w _ s Hw D) K). unfold atomic_s in Hf.
  destruct (f s k) as [s1 o]. cbn [fst snd] in *. intros E. rewrite (Hf E). apply set_doc_same. exact D.
Qed.

Lemma on_element_atomic w r f e :
  WInv w ->
  (forall s, TreeInv s -> has_kind s KEl (snd r) = true -> atomic_s e s (f s)) ->
  snd (on_element w r f) = Failed e -> fst (on_element w r f) = w.
Proof.
  intros Hw Hf. unfold on_element. apply on_node_atomic; [exact Hw|]. intros s k T K.
  destruct k; try (unfold atomic_s; cbn; discriminate). apply Hf; [exact T|]. rewrite has_kind_kind_of, K. reflexivity.
Qed.

Lemma on_document_atomic w r f e :
  WInv w -> (forall s, TreeInv s -> atomic_s e s (f s)) ->
  snd (on_document w r f) = Failed e -> fst (on_document w r f) = w.
Proof.
  intros Hw Hf. unfold on_document. apply on_node_atomic; [exact Hw|]. intros s k T K.
  destruct k; try (unfold atomic_s; cbn; discriminate). apply Hf. exact T.
Qed.

Lemma factory_atomic e k s it : atomic_s e s (factory k s it).
Proof. unfold factory, atomic_s. destruct (create s it). cbn. discriminate. Qed.

(** ** the child-list calls *)
Lemma dom_insert_before_atomic w r n ref e :
  snd (dom_insert_before w r n ref) = Failed e -> fst (dom_insert_before w r n ref) = w.
Proof.
  unfold dom_insert_before. destruct (doc_at w (fst r)) as [s|]; [|reflexivity].
  destruct (kind_in w r) as [k|]; [|reflexivity].
  destruct (container k); [|reflexivity].
  destruct (wrong_doc w r n); [reflexivity|].
  destruct ref as [f|].
  - destruct (wrong_doc w r f); [reflexivity|].
    destruct (info_insert_before s (snd r) (snd n) (snd f)) as [s1 [er|]]; [destruct er; reflexivity | cbn; discriminate].
  - destruct (info_append s (snd r) (snd n)) as [s1 [er|]]; [reflexivity | cbn; discriminate].
Qed.

Lemma dom_remove_child_atomic w r o e :
  snd (dom_remove_child w r o) = Failed e -> fst (dom_remove_child w r o) = w.
Proof.
  unfold dom_remove_child. destruct (doc_at w (fst r)) as [s|]; [|reflexivity].
  destruct (kind_in w r) as [k|]; [|reflexivity].
  destruct (container k); [|reflexivity].
  destruct (wrong_doc w r o); [reflexivity|].
  destruct (info_delete s (snd r) (snd o)) as [s1 [|]]; [cbn; discriminate | reflexivity].
Qed.

(** after a successful [insert_before(new, old)] the old child is still a child: the removal that
    completes [replace_child] cannot fail *)
Lemma check_insert_ne s r x : check_insert s r x = None -> x <> r.
Proof.
  unfold check_insert, kind_of. intros H E. subst x.
  destruct (get s r) as [it|]; cbn [option_map] in H; [|discriminate].
  destruct (ikind it) eqn:K; try discriminate.
  - rewrite N.eqb_refl in H. discriminate.
  - rewrite N.eqb_refl in H. discriminate.
Qed.

Lemma children_of_upd_other s i f r : r <> i -> children_of (upd s i f) r = children_of s r.
Proof. intros H. unfold children_of. rewrite get_upd_other by exact H. reflexivity. Qed.

Lemma children_of_unlink_keeps s x r o : In o (children_of s r) -> o <> x -> r <> x -> In o (children_of (unlink s x) r).
Proof.
  intros Ho Hox Hrx. unfold unlink. destruct (parent_of s x) as [p|]; [|exact Ho].
  destruct (get s p) as [pit|] eqn:Hp; [|exact Ho]. destruct (container (ikind pit)); [|exact Ho].
  unfold delete_by_id. destruct (mem x (children_of s p)); [|exact Ho].
  rewrite children_of_upd_other by exact Hrx.
  destruct (N.eq_dec r p) as [->|Hrp].
  - unfold children_of in *. rewrite get_upd_same, Hp in *. cbn. apply remove_first_in_ne; assumption.
  - rewrite children_of_upd_other by exact Hrp. exact Ho.
Qed.

Lemma children_of_link_keeps s r x ref o :
  In o (children_of s r) -> o <> x -> r <> x -> In o (children_of (link s r x ref) r).
Proof.
  intros Ho Hox Hrx. unfold link.
  pose proof (children_of_unlink_keeps s x r o Ho Hox Hrx) as H1.
  assert (H2 : In o (children_of (upd (unlink s x) x (with_parent (Some r))) r)).
  { rewrite children_of_upd_other by exact Hrx. exact H1. }
  set (s2 := upd (unlink s x) x (with_parent (Some r))) in *.
  unfold children_of in *. rewrite get_upd_same. destruct (get s2 r) as [it|]; [|contradiction]. cbn.
  destruct ref as [f|]; [destruct (index_of f (ichildren it))|].
  - apply insert_at_in. right. exact H2.
  - apply in_app_single. right. exact H2.
  - apply in_app_single. right. exact H2.
Qed.

Lemma doc_at_set_doc w k s s0 : doc_at w k = Some s0 -> doc_at (set_doc w k s) k = Some s.
Proof.
  unfold doc_at, set_doc. cbn. generalize (N.to_nat k). intros n. generalize (docs w).
  induction n as [|n IH]; intros [|y t] H; cbn in *; try discriminate; [reflexivity | apply IH; exact H].
Qed.

Lemma replace_child_tail w r n o w1 ret :
  exists_in w o = true ->
  dom_insert_before w r n (Some o) = (w1, Ok ret) -> forall e, snd (dom_remove_child w1 r o) <> Failed e.
Proof.
  intros Eo H e. unfold dom_insert_before in H.
  destruct (doc_at w (fst r)) as [s|] eqn:D; [|discriminate].
  destruct (kind_in w r) as [k|] eqn:K; [|discriminate].
  destruct (container k) eqn:C; [|discriminate].
  destruct (wrong_doc w r n) eqn:Wn; [discriminate|].
  destruct (wrong_doc w r o) eqn:Wo; [discriminate|].
  unfold info_insert_before in H.
  destruct (mem (snd o) (children_of s (snd r))) eqn:M; [|discriminate].
  destruct (check_insert s (snd r) (snd n)) as [er|] eqn:CI; [destruct er; discriminate|].
  assert (Hfst : fst o = fst r).
  { unfold wrong_doc in Wo. destruct (kind_in w o) as [[]|]; try discriminate; apply negb_false_iff in Wo; apply N.eqb_eq in Wo; exact Wo. }
  apply mem_spec in M.
  (* the store of the receiver's document after the insertion, and what it says about [o] *)
  assert (G : exists s1, w1 = set_doc w (fst r) s1 /\ In (snd o) (children_of s1 (snd r))
                         /\ (forall y, kind_of s1 y = kind_of s y)).
  { destruct (snd n =? snd o) eqn:E.
    - inversion H; subst. exists s. repeat split; [exact M].
    - inversion H; subst. exists (invalidate (link s (snd r) (snd n) (Some (snd o)))). split; [reflexivity|]. split.
      + change (children_of (invalidate ?x) ?y) with (children_of x y).
        apply children_of_link_keeps; [exact M | apply N.eqb_neq in E; congruence |].
        intros Er. apply (check_insert_ne _ _ _ CI). symmetry. exact Er.
      + intros y. change (kind_of (invalidate ?x) y) with (kind_of x y). apply kind_of_link. }
  destruct G as [s1 [-> [Hin Hkind]]].
  unfold dom_remove_child. rewrite (doc_at_set_doc _ _ _ _ D).
  assert (K1 : kind_in (set_doc w (fst r) s1) r = Some k).
  { unfold kind_in in *. rewrite (doc_at_set_doc _ _ _ _ D). rewrite D in K. rewrite Hkind. exact K. }
  rewrite K1, C.
  assert (W1 : wrong_doc (set_doc w (fst r) s1) r o = false).
  { unfold wrong_doc, kind_in in *. rewrite Hfst in *. rewrite (doc_at_set_doc _ _ _ _ D). rewrite D in Wo.
    rewrite Hkind. exact Wo. }
  rewrite W1. unfold info_delete.
  assert (M1 : mem (snd o) (children_of s1 (snd r)) = true) by (apply mem_spec; exact Hin).
  rewrite M1. cbn. discriminate.
Qed.

(** ** data *)
Lemma edit_data_atomic e s n k off cnt x : atomic_s e s (edit_data s n k off cnt x).
Proof.
  unfold edit_data, atomic_s. destruct (len (data_of s n) <? off); [reflexivity|].
  destruct (valid_str k _); [cbn; discriminate | reflexivity].
Qed.

Lemma delete_data_atomic e s n off cnt : atomic_s e s (delete_data s n off cnt).
Proof. unfold delete_data. destruct (kind_of s n); [apply edit_data_atomic | unfold atomic_s; reflexivity]. Qed.

Lemma pi_set_atomic e s n d : atomic_s e s (pi_set s n d).
Proof. unfold pi_set, atomic_s. destruct (d_pi d) as [[c|]|]; cbn; try discriminate. reflexivity. Qed.

Lemma set_values_false s a d : snd (set_values s a d) = false -> fst (set_values s a d) = s.
Proof.
  unfold set_values. destruct (d_attr d) as [l|]; [|reflexivity].
  destruct (add_values (detach_values s a) a l); [cbn; discriminate | reflexivity].
Qed.

(** ** attributes *)
Lemma dom_set_attribute_node_atomic e w k s el a : atomic_s e s (dom_set_attribute_node w k s el a).
Proof.
  unfold dom_set_attribute_node, atomic_s. destruct (negb (fst a =? k)); [reflexivity|].
  destruct (parent_of s (snd a)); [reflexivity|].
  destruct (get s (snd a)) as [ait|]; [|reflexivity].
  destruct (kind_eqb (ikind ait) KAt && has_kind s KEl el); [|reflexivity].
  destruct (remove_attribute_q s el (iprefix ait) (ilocal ait)). cbn. discriminate.
Qed.

(** ** split_text: once the tail has been created the insertion cannot be refused *)
Lemma par_set_str s n d c p : par (set_str s n d) c p -> par s c p.
Proof.
  intros [cit [H1 H2]]. unfold set_str in H1. rewrite get_upd in H1. destruct (N.eqb_spec c n) as [->|].
  - destruct (get s n) as [it|] eqn:E; [|discriminate]. cbn in H1. inversion H1; subst. cbn in H2. exists it. split; assumption.
  - exists cit. split; assumption.
Qed.

Lemma split_text_atomic e k s n kd off : TreeInv s -> atomic_s e s (split_text k s n kd off).
Proof.
  intros T. unfold split_text, atomic_s.
  destruct (len (data_of s n) <? off); [reflexivity|].
  destruct (parent_of s n) as [p|] eqn:Hpar; [|reflexivity].
  destruct (kind_of s p) as [kp|] eqn:Kp; [|reflexivity].
  match goal with |- snd (if ?c then _ else _) = _ -> _ => destruct c eqn:Hok end; [|reflexivity].
  set (d1 := firstn (N.to_nat (N.min off (len (data_of s n)))) (data_of s n)).
  set (d2 := skipn (N.to_nat (N.min off (len (data_of s n)))) (data_of s n)).
  set (s1 := set_str s n d1).
  assert (T1 : TreeInv s1) by (apply set_str_inv; exact T).
  destruct (create_spec s1 (new_item kd None [] d2 false None)) as [Hi [Hn [Hr [Hg Ho]]]].
  destruct (create s1 (new_item kd None [] d2 false None)) as [i s2] eqn:C. cbn [fst snd] in *. subst i.
  assert (Hns : next s1 = next s) by apply next_upd.
  (* the parent exists, is not the new node, and accepts it *)
  unfold kind_of in Kp. destruct (get s p) as [pit|] eqn:Hp; [|discriminate]. cbn in Kp. inversion Kp as [Hkp].
  assert (Hp1 : get s1 p = Some (if p =? n then with_data d1 (iflag pit) pit else pit)).
  { unfold s1, set_str. rewrite get_upd. destruct (N.eqb_spec p n) as [->|]; [rewrite Hp; reflexivity | exact Hp]. }
  assert (Hpk : kind_of s1 p = Some kp).
  { unfold kind_of. rewrite Hp1. destruct (p =? n); cbn; congruence. }
  assert (Hpne : p <> next s1).
  { intros E. pose proof (ti_bound s T p pit Hp). lia. }
  assert (Hp2 : kind_of s2 p = Some kp) by (unfold kind_of in *; rewrite Ho by exact Hpne; exact Hpk).
  assert (Hi2 : kind_of s2 (next s1) = Some kd) by (unfold kind_of; rewrite Hg; reflexivity).
  assert (Hanc : ancestor s2 p (next s1) = false).
  { destruct (ancestor s2 p (next s1)) eqn:A; [|reflexivity]. exfalso.
    unfold ancestor in A. apply anc_fuel_sound in A.
    destruct (anc_has_parent s2 _ _ A) as [q [[qit [Hq Hqp]] _]].
    destruct (N.eq_dec q (next s1)) as [->|Hqn].
    - rewrite Hg in Hq. inversion Hq; subst. cbn in Hqp. discriminate.
    - rewrite Ho in Hq by exact Hqn.
      assert (par s1 q (next s1)) as Hpar1 by (exists qit; split; assumption).
      apply (ti_par_lists s1 T1) in Hpar1. destruct Hpar1 as [nit [Hnit _]].
      pose proof (ti_bound s1 T1 _ _ Hnit). lia. }
  assert (CI : check_insert s2 p (next s1) = None).
  { unfold check_insert. rewrite Hp2, Hi2.
    assert (Hne : (next s1 =? p) = false) by (apply N.eqb_neq; intros E; apply Hpne; symmetry; exact E).
    rewrite Hne, Hanc. cbn [orb]. destruct kd, kp; try discriminate; reflexivity. }
  (* whichever way the insertion goes, it is accepted *)
  unfold info_insert_after. destruct (index_of n (children_of s2 p)) as [ix|] eqn:Ix.
  - destruct (nth_error (children_of s2 p) (S ix)) as [nx|] eqn:Nx.
    + unfold info_insert_before.
      assert (M : mem nx (children_of s2 p) = true) by (apply mem_spec; eapply nth_error_In; exact Nx).
      rewrite M, CI. destruct (next s1 =? nx); cbn; discriminate.
    + unfold info_append. rewrite CI. cbn. discriminate.
  - unfold info_append. rewrite CI. cbn. discriminate.
Qed.

(** ** the theorem for every operation but [SetAttribute] *)
Definition is_set_attribute (o : op) : bool := match o with SetAttribute _ _ _ => true | _ => false end.

Theorem failure_atomic_strict : forall w o e,
  WInv w -> is_set_attribute o = false -> snd (step w o) = Failed e -> fst (step w o) = w.
Proof.
  intros w o e Hw Hsa. destruct o; cbn [step]; cbn [is_set_attribute] in Hsa; try discriminate.
  - destruct (kind_in w r) as [k|]; [|reflexivity]. destruct (node_mut k); [|reflexivity].
    destruct (exists_in w n); [apply dom_insert_before_atomic | reflexivity].
  - destruct (kind_in w r) as [k|]; [|reflexivity]. destruct (node_mut k); [|reflexivity].
    destruct (exists_in w n && exists_in w f); [apply dom_insert_before_atomic | reflexivity].
  - (* ReplaceChild *)
    destruct (kind_in w r) as [k|]; [|reflexivity]. destruct (node_mut k); [|reflexivity].
    destruct (exists_in w n && exists_in w o) eqn:Ex; [|reflexivity].
    apply andb_true_iff in Ex. destruct Ex as [_ Eo].
    pose proof (dom_insert_before_atomic w r n (Some o)) as A.
    pose proof (replace_child_tail w r n o) as B.
    destruct (dom_insert_before w r n (Some o)) as [w1 oc]. cbn [fst snd] in *.
    destruct oc as [ret|e1| |]; try (intros H; apply (A _ H)); try (cbn; discriminate).
    intros H. exfalso. exact (B w1 ret Eo eq_refl e H).
  - destruct (kind_in w r) as [k|]; [|reflexivity]. destruct (node_mut k); [|reflexivity].
    destruct (exists_in w o); [apply dom_remove_child_atomic | reflexivity].
  - destruct (attr_local w a) as [nm|]; [|reflexivity]. apply on_element_atomic; [exact Hw|].
    intros s T _. apply dom_set_attribute_node_atomic.
  - apply on_element_atomic; [exact Hw|]. intros s T _. unfold atomic_s. cbn. discriminate.
  - destruct (attr_q w a) as [[p l]|]; [|reflexivity]. apply on_element_atomic; [exact Hw|]. intros s T _.
    unfold atomic_s. destruct (attribute_q s (snd r) p l) as [f|]; [|reflexivity].
    destruct ((f =? snd a) && (fst a =? fst r)); [cbn; discriminate | reflexivity].
  - destruct (attr_local w a) as [nm|]; [|reflexivity]. apply on_element_atomic; [exact Hw|].
    intros s T _. apply dom_set_attribute_node_atomic.
  - apply on_element_atomic; [exact Hw|]. intros s T _. unfold atomic_s.
    destruct (get_attribute_node s (snd r) name); [cbn; discriminate | reflexivity].
  - apply on_document_atomic; [exact Hw|]. intros s T. destruct (n_elem name) as [[p l]|]; [apply factory_atomic | unfold atomic_s; reflexivity].
  - apply on_document_atomic; [exact Hw|]. intros s T. destruct (n_attr name) as [[p l]|]; [apply factory_atomic | unfold atomic_s; reflexivity].
  - apply on_document_atomic; [exact Hw|]. intros s T. destruct (valid_str KTx (d_str data)); [apply factory_atomic | unfold atomic_s; cbn; discriminate].
  - apply on_document_atomic; [exact Hw|]. intros s T. destruct (valid_str KCm (d_str data)); [apply factory_atomic | unfold atomic_s; cbn; discriminate].
  - apply on_document_atomic; [exact Hw|]. intros s T. destruct (valid_str KCd (d_str data)); [apply factory_atomic | unfold atomic_s; cbn; discriminate].
  - apply on_document_atomic; [exact Hw|]. intros s T. destruct (n_pi target) as [t|]; [|unfold atomic_s; reflexivity].
    destruct (d_pi data) as [[c|]|]; try apply factory_atomic. unfold atomic_s; reflexivity.
  - apply on_document_atomic; [exact Hw|]. intros s T. destruct (n_ref name); [|unfold atomic_s; reflexivity].
    destruct (entity_declared s (n_str name)); [apply factory_atomic | unfold atomic_s; reflexivity].
  - apply on_document_atomic; [exact Hw|]. intros s T. apply factory_atomic.
  - (* SetNodeValue *)
    apply on_node_atomic; [exact Hw|]. intros s k T K. destruct k; try (unfold atomic_s; reflexivity).
    + unfold atomic_s. pose proof (set_values_false s (snd r) v) as F.
      destruct (set_values s (snd r) v) as [s1 [|]]; cbn [fst snd] in *; [discriminate | intros _; apply F; reflexivity].
    + apply edit_data_atomic.
    + apply edit_data_atomic.
    + apply pi_set_atomic.
    + apply edit_data_atomic.
  - apply on_node_atomic; [exact Hw|]. intros s k T K. destruct (chardata k); [apply edit_data_atomic | unfold atomic_s; reflexivity].
  - apply on_node_atomic; [exact Hw|]. intros s k T K. destruct (chardata k); [apply edit_data_atomic | unfold atomic_s; reflexivity].
  - apply on_node_atomic; [exact Hw|]. intros s k T K. destruct (chardata k); [apply edit_data_atomic | unfold atomic_s; reflexivity].
  - apply on_node_atomic; [exact Hw|]. intros s k T K. destruct (chardata k); [apply delete_data_atomic | unfold atomic_s; reflexivity].
  - apply on_node_atomic; [exact Hw|]. intros s k T K. destruct (chardata k); [apply edit_data_atomic | unfold atomic_s; reflexivity].
  - apply on_node_atomic; [exact Hw|]. intros s k T K. destruct k; try (unfold atomic_s; reflexivity); apply split_text_atomic; exact T.
  - apply on_node_atomic; [exact Hw|]. intros s k T K. destruct k; try (unfold atomic_s; reflexivity). apply pi_set_atomic.
Qed.

(** every observation function agrees before and after *)
Corollary failure_atomic_observe : forall (A : Type) (observe : world -> A) w o e,
  WInv w -> is_set_attribute o = false -> snd (step w o) = Failed e -> observe (fst (step w o)) = observe w.
Proof. intros A observe w o e Hw Hs H. rewrite (failure_atomic_strict w o e Hw Hs H). reflexivity. Qed.

(** ** [SetAttribute]: unchanged, or one unattached node more *)
Definition Garbage (w w' : world) : Prop :=
  w' = w \/ exists k s it, doc_at w k = Some s /\ iparent it = None /\ ichildren it = [] /\ iattrs it = []
                           /\ w' = set_doc w k (snd (create s it)).

(** [set_values] on the fresh attribute keeps it unattached *)
Lemma parent_of_link_other s a i ref y : y <> i -> y <> a -> parent_of (link s a i ref) y = parent_of (unlink s i) y.
Proof. intros H1 H2. unfold link, parent_of. rewrite get_upd_other by exact H2. rewrite get_upd_other by exact H1. reflexivity. Qed.

Lemma parent_of_link_recv s a i ref : a <> i -> parent_of (link s a i ref) a = parent_of (unlink s i) a.
Proof.
  intros H. unfold link, parent_of. rewrite get_upd_same. rewrite get_upd_other by exact H.
  destruct (get (unlink s i) a); reflexivity.
Qed.

Lemma unlink_no_parent s x : parent_of s x = None -> unlink s x = s.
Proof. intros H. unfold unlink. rewrite H. reflexivity. Qed.

Lemma add_values_keeps_parent l : forall s a s',
  a < next s -> add_values s a l = Some s' -> parent_of s' a = parent_of s a.
Proof.
  induction l as [|v t IH]; intros s a s' Ha H; cbn [add_values] in H; [inversion H; reflexivity|].
  assert (Step : forall it, iparent it = None -> forall i s1, create s it = (i, s1) ->
            a < next (link s1 a i None) /\ parent_of (link s1 a i None) a = parent_of s a).
  { intros it Hpi i s1 C. destruct (create_spec s it) as [Hi [Hn [_ [Hg Ho]]]]. rewrite C in *. cbn [fst snd] in *. subst i.
    assert (Hne : a <> next s) by lia.
    assert (Hu : unlink s1 (next s) = s1) by (apply unlink_no_parent; unfold parent_of; rewrite Hg; exact Hpi).
    split.
    - unfold link. rewrite !next_upd, Hu, Hn. lia.
    - rewrite parent_of_link_recv by exact Hne. rewrite Hu. unfold parent_of. rewrite Ho by exact Hne. reflexivity. }
  destruct v as [tx|name ch|name].
  - destruct tx as [|c tx]; [eapply IH; eassumption|].
    destruct (create s (new_item KTx None [] (c :: tx) false None)) as [i s1] eqn:C.
    destruct (Step (new_item KTx None [] (c :: tx) false None) eq_refl i s1 C) as [H1 H2]. rewrite <- H2. eapply IH; eassumption.
  - destruct ch as [ch|]; [|discriminate].
    destruct (create s (new_item KCr None name ch false None)) as [i s1] eqn:C.
    destruct (Step (new_item KCr None name ch false None) eq_refl i s1 C) as [H1 H2]. rewrite <- H2. eapply IH; eassumption.
  - destruct (entity_known s name); [|discriminate].
    destruct (create s (new_item KEr None name [] false None)) as [i s1] eqn:C.
    destruct (Step (new_item KEr None name [] false None) eq_refl i s1 C) as [H1 H2]. rewrite <- H2. eapply IH; eassumption.
Qed.

Lemma fold_unparent_nil s : fold_left (fun acc x => upd acc x (with_parent None)) [] s = s.
Proof. reflexivity. Qed.

Lemma set_values_fresh_parent s a d s2 :
  a < next s -> parent_of s a = None -> children_of s a = [] -> set_values s a d = (s2, true) -> parent_of s2 a = None.
Proof.
  intros Ha Hp Hc H. unfold set_values in H. destruct (d_attr d) as [l|]; [|discriminate].
  destruct (add_values (detach_values s a) a l) as [s1|] eqn:A; [|discriminate]. inversion H; subst.
  change (parent_of (invalidate s1) a) with (parent_of s1 a).
  assert (Hd : parent_of (detach_values s a) a = None).
  { unfold detach_values. rewrite Hc. cbn [fold_left]. unfold parent_of in *. rewrite get_upd_same.
    destruct (get s a); [cbn; exact Hp | reflexivity]. }
  rewrite <- Hd. eapply add_values_keeps_parent; [|exact A].
  unfold detach_values. rewrite Hc. cbn [fold_left]. rewrite next_upd. exact Ha.
Qed.

Theorem failure_atomic_set_attribute : forall w r name value e,
  WInv w -> snd (step w (SetAttribute r name value)) = Failed e -> Garbage w (fst (step w (SetAttribute r name value))).
Proof.
  intros w r name value e Hw. cbn [step]. unfold on_element, on_node.
  destruct (doc_at w (fst r)) as [s|] eqn:D; [|cbn; discriminate].
  destruct (kind_of s (snd r)) as [k|] eqn:K; [|cbn; discriminate].
  destruct k; try (cbn; discriminate).
  destruct (n_attr name) as [[p l]|]; [|cbn; intros _; left; apply set_doc_same; exact D].
  set (it := new_item KAt p l [] false None).
  assert (Gb : Garbage w (set_doc w (fst r) (snd (create s it)))).
  { right. exists (fst r), s, it. repeat split. exact D. }
  destruct (create_spec s it) as [Hi [Hn [_ [Hg Ho]]]].
  destruct (create s it) as [a s1] eqn:C. cbn [fst snd] in *. subst a.
  destruct (attribute_q s1 (snd r) p l) as [present|].
  - pose proof (set_values_false s1 present value) as F.
    destruct (set_values s1 present value) as [s2 [|]]; cbn [fst snd] in *; [discriminate|].
    intros _. rewrite (F eq_refl). exact Gb.
  - pose proof (set_values_false s1 (next s) value) as F.
    destruct (set_values s1 (next s) value) as [s2 [|]] eqn:SV; cbn [fst snd] in *.
    + (* the value was accepted: [set_attribute_node] cannot refuse a fresh attribute of this document *)
      assert (Hp2 : parent_of s2 (next s) = None).
      { eapply (set_values_fresh_parent s1 (next s) value s2); [lia | | | exact SV].
        - unfold parent_of. rewrite Hg. reflexivity.
        - unfold children_of. rewrite Hg. reflexivity. }
      unfold dom_set_attribute_node. cbn [fst snd]. rewrite N.eqb_refl. cbn [negb]. rewrite Hp2.
      destruct (get s2 (next s)) as [ait|]; [|cbn; discriminate].
      destruct (kind_eqb (ikind ait) KAt && has_kind s2 KEl (snd r)); [|cbn; discriminate].
      destruct (remove_attribute_q s2 (snd r) (iprefix ait) (ilocal ait)). cbn. discriminate.
    + intros _. rewrite (F eq_refl). exact Gb.
Qed.
