(** * C04, converse direction, rung 2: attributes, content, elements as the parser returns them. *)
From Coq Require Import List NArith Arith Lia Bool.
From XmlRs Require Import Base.CPred Model.Peg Gen.XmlcharGen Gen.GrammarXmlGen Model.ParseActions Model.Info Model.Display
     Proofs.PegTermination Proofs.PegLemmas Proofs.PegInv Proofs.Expansion
     Proofs.DisplayLex Proofs.ActionLemmas Proofs.DisplayElem Proofs.ParseInv.
Import ListNotations.
Local Open Scope N_scope.

(** ** invariants of the typed parse model *)
Definition att_name_ok (n : att_name) : Prop :=
  match n with AnDefaultNamespace => True | AnNamespace s => ncname_ok s | AnQName q => qname_ok q end.

Definition p_attribute_ok (a : attribute) : Prop :=
  att_name_ok (at_name a) /\ exists q, (q = 34 \/ q = 39) /\ av_ok q false (at_value a).

Definition att_name_canon (n : att_name) : Prop :=
  match n with
  | AnQName (Prefixed p _) => p <> s_xmlns
  | AnQName (Unprefixed x) => x <> s_xmlns
  | _ => True
  end.

(** the invariant of an attribute as the parser returns it *)
Definition p_attribute_ok' (a : attribute) : Prop := p_attribute_ok a /\ att_name_canon (at_name a).

Definition text_opt_ok (o : option str) : Prop := match o with Some t => text_ok t | None => True end.

Section PE.
Variable Q : element -> Prop.
Definition contents_ok (c : contents) : Prop :=
  match c with
  | CsElement e => Q e
  | CsReference x => reference_ok x
  | CsCData s => cdata_ok s
  | CsPI p => pi_ok p
  | CsComment s => comment_ok s
  end.
Fixpoint cells_ok (l : list cell) : Prop :=
  match l with [] => True | (ch, tl) :: l' => contents_ok ch /\ text_opt_ok tl /\ cells_ok l' end.
End PE.

Fixpoint p_element_ok (e : element) : Prop :=
  match e with
  | Element n attrs c =>
    qname_ok n /\ Forall p_attribute_ok' attrs
    /\ match c with None => True | Some (h, cells) => text_opt_ok h /\ cells_ok p_element_ok cells end
  end.

(** ** attributes *)
Lemma inv_ns_att_name s t r : S (NT nt_ns_att_name) s t r -> exists n, eval_tree t = VAttName n /\ att_name_ok n /\ (n = AnDefaultNamespace \/ exists x, n = AnNamespace x).
Proof.
  intros H. inv_nt H body_ns_att_name. inv_alt; invs.
  - match goal with H : succ _ (NT nt_ncname) _ _ _ |- _ => apply inv_ncname in H; destruct H as [n [-> [Hn _]]] end.
    exists (AnNamespace n). split; [reflexivity|]. split; [exact Hn|right; eauto].
  - exists AnDefaultNamespace. split; [reflexivity|]. split; [exact I|left; reflexivity].
Qed.

Lemma inv_attribute s t r : S (NT nt_attribute) s t r -> exists a, eval_tree t = VAttribute a /\ p_attribute_ok a.
Proof.
  intros H. inv_nt H body_attribute. invs. inv_alt; invs.
  - match goal with H : succ _ (NT nt_ns_att_name) _ _ _ |- _ => apply inv_ns_att_name in H; destruct H as [n [En [Hn _]]] end.
    match goal with H : succ _ (NT nt_att_value) _ _ _ |- _ => apply inv_att_value in H; destruct H as [q [l [Hq [El Hl]]]] end.
    exists (Attribute n l). split; [cbn [eval_tree]; rewrite En, El; apply al_attribute|]. split; [exact Hn|eauto].
  - match goal with H : succ _ (NT nt_qname) _ _ _ |- _ => apply inv_qname in H; destruct H as [qn [-> [Hqn _]]] end.
    match goal with H : succ _ (NT nt_att_value) _ _ _ |- _ => apply inv_att_value in H; destruct H as [q [l [Hq [El Hl]]]] end.
    exists (Attribute (AnQName qn) l). split; [cbn [eval_tree]; rewrite eval_tree_qname, El; apply al_attribute|]. split; [exact Hqn|eauto].
Qed.

(** the parser never returns `xmlns` / `xmlns:p` as a QName attribute name: the [ns_att_name]
    alternative of [attribute] is tried first (this is the one place where the ORDER of a choice
    matters for the converse direction: argued on [denote] itself) *)
Lemma ns_alt_parses (q : qname) (r1 : str) t2 r :
  qname_ok q -> stops (eval (is_name_char_except [58])) r1 ->
  match q with Prefixed p _ => p = s_xmlns | Unprefixed x => x = s_xmlns end ->
  parses G_xml (SeqR (NT nt_eq) (NT nt_att_value)) r1 t2 r ->
  exists t, parses G_xml (Seq (NT nt_ns_att_name) (SeqR (NT nt_eq) (NT nt_att_value))) (d_qname q ++ r1) t r.
Proof.
  intros Hq Hr1 Hns Hp. destruct q as [p l|x]; cbn [d_qname qname_ok] in *; subst.
  - destruct Hq as [_ Hl]. eexists. rewrite <- app_assoc. eapply parses_seq; [|exact Hp].
    apply parses_nt. rewrite body_ns_att_name. apply parses_alt_l. apply parses_map. unfold s_xmlns. cbn [app].
    eapply parses_seqr; [apply parses_tag_lit; reflexivity|]. apply parses_ncname; assumption.
  - eexists. eapply parses_seq; [|exact Hp].
    apply parses_nt. rewrite body_ns_att_name.
    (* `xmlns` followed by something that is not ':' (the NCName stopped there) *)
    apply parses_alt_r.
    + apply fails_map. apply fails_seqr_l. apply fails_tag. unfold s_xmlns. cbn [app prefix]. rewrite !N.eqb_refl.
      destruct r1 as [|c r1']; [reflexivity|]. cbn [stops] in Hr1.
      destruct (N.eqb_spec 58 c) as [<-|]; [|reflexivity]. exfalso.
      eapply parses_fails_false; [exact Hp|]. apply fails_seqr_l. apply fails_nt. rewrite body_eq.
      eapply fails_seqr_r; [apply parses_chars0_nil; exact eq_refl|]. apply fails_seql_l. apply fails_tag. reflexivity.
    + apply parses_map. apply parses_tag.
Qed.

Lemma qname_ns_dec (q : qname) :
  match q with Prefixed p _ => p = s_xmlns | Unprefixed x => x = s_xmlns end \/ att_name_canon (AnQName q).
Proof.
  destruct q as [p l|x]; cbn [att_name_canon].
  - destruct (str_eqb p s_xmlns) eqn:E; [left; apply str_eqb_eq; exact E|right; intros ->; rewrite str_eqb_refl in E; discriminate].
  - destruct (str_eqb x s_xmlns) eqn:E; [left; apply str_eqb_eq; exact E|right; intros ->; rewrite str_eqb_refl in E; discriminate].
Qed.

Lemma inv_attribute_canon s t r : S (NT nt_attribute) s t r ->
  exists a, eval_tree t = VAttribute a /\ p_attribute_ok a /\ att_name_canon (at_name a).
Proof.
  intros H. inv H. match goal with H : exists f, _ |- _ => destruct H as [f Hd] end.
  destruct f as [|f]; [rewrite (denote_eq G_xml) in Hd; discriminate Hd|].
  rewrite (denote_eq G_xml) in Hd. cbn [den1 callnt] in Hd. rewrite body_attribute in Hd.
  rewrite (denote_eq G_xml) in Hd. cbn [den1] in Hd.
  match type of Hd with bind ?x _ = _ => destruct x as [[t0 r0]| |] eqn:E; try discriminate Hd end.
  cbn [bind fst snd] in Hd. injection Hd as <- <-.
  rewrite (denote_eq G_xml) in E. cbn [den1] in E.
  match type of E with match ?x with _ => _ end = _ => destruct x as [[tA rA]| |] eqn:EA; try discriminate E end.
  - (* the namespace alternative *)
    injection E as <- <-. pose proof (den_S _ _ _ _ _ EA eq_refl) as HA. invs.
    match goal with H : succ _ (NT nt_ns_att_name) _ _ _ |- _ => apply inv_ns_att_name in H; destruct H as [n [En [Hn Hform]]] end.
    match goal with H : succ _ (NT nt_att_value) _ _ _ |- _ => apply inv_att_value in H; destruct H as [q [l [Hq [El Hl]]]] end.
    exists (Attribute n l). split; [cbn [eval_tree]; rewrite En, El; apply al_attribute|]. split; [split; [exact Hn|eauto]|].
    cbn [at_name]. destruct Hform as [->|[x ->]]; exact I.
  - (* the QName alternative, taken because the first one FAILED *)
    rewrite (denote_eq G_xml) in E. cbn [den1] in E.
    match type of E with bind ?x _ = _ => destruct x as [[t1 r1]| |] eqn:E1; try discriminate E end.
    cbn [bind fst snd] in E.
    match type of E with bind ?x _ = _ => destruct x as [[t2 r2]| |] eqn:E2; try discriminate E end.
    cbn [bind fst snd] in E. injection E as <- <-.
    pose proof (den_S _ _ _ _ _ E1 eq_refl) as H1'.
    pose proof (den_S _ _ _ _ _ E2 eq_refl) as H2'.
    pose proof (parses_of_denote G_xml _ _ _ _ _ E2) as P2. invs.
    match goal with H : succ _ (NT nt_qname) _ _ _ |- _ => apply inv_qname in H; destruct H as [qn [-> [Hqn [Es Hst]]]] end.
    match goal with H : succ _ (NT nt_att_value) _ _ _ |- _ => apply inv_att_value in H; destruct H as [q [l [Hq [El Hl]]]] end.
    exists (Attribute (AnQName qn) l). split; [cbn [eval_tree]; rewrite eval_tree_qname, El; apply al_attribute|].
    split; [split; [exact Hqn|eauto]|]. cbn [at_name].
    destruct (qname_ns_dec qn) as [Hns|Hc]; [|exact Hc]. exfalso.
    destruct (ns_alt_parses qn _ _ _ Hqn Hst Hns P2) as [tx Px]. rewrite <- Es in Px.
    pose proof (parses_at G_xml _ _ _ _ f Px) as Hx. rewrite EA in Hx. specialize (Hx ltac:(discriminate)). discriminate Hx.
Qed.

Lemma inv_attrs_many s ts r : SM attr_item s ts r -> exists l, map eval_tree ts = map VAttribute l /\ Forall p_attribute_ok' l.
Proof.
  intros H. remember attr_item as e eqn:Ee. induction H as [e s|e s t r1 ts r Hs Hlt Hm IH]; subst e.
  - exists []. split; [reflexivity|constructor].
  - destruct (IH eq_refl) as [l [El Hl]]. unfold attr_item in Hs. invs.
    match goal with H : succ _ (NT nt_attribute) _ _ _ |- _ => apply inv_attribute_canon in H; destruct H as [at0 [Ea [Ha Hcn]]] end.
    exists (at0 :: l). split; [cbn [map]; rewrite Ea, El; reflexivity|constructor; [split; assumption|assumption]].
Qed.

(** `<name attrs` of either kind of tag *)
Lemma inv_tag_open s t r : S (Seq (NT nt_qname) (Many0 attr_item)) s t r ->
  exists q l, eval_tree t = VPair (VQName q) (VList (map VAttribute l)) /\ qname_ok q /\ Forall p_attribute_ok' l
              /\ exists ta, t = TPair (tree_qname q) ta.
Proof.
  intros H. invs.
  match goal with H : succ _ (NT nt_qname) _ _ _ |- _ => apply inv_qname in H; destruct H as [q [-> [Hq _]]] end.
  match goal with H : succ_many _ attr_item _ _ _ |- _ => apply inv_attrs_many in H; destruct H as [l [El Hl]] end.
  exists q, l. split; [cbn [eval_tree]; rewrite eval_tree_qname, El; reflexivity|]. repeat split; try assumption. eauto.
Qed.

(** ** content and elements, by induction on the length of the input *)
Definition elem_inv (L : nat) : Prop :=
  forall s t r, (length s <= L)%nat -> S (NT nt_element) s t r -> exists e, eval_tree t = VElement e /\ p_element_ok e.

Lemma inv_child (L : nat) : elem_inv L -> forall s t r, (length s <= L)%nat -> S child_alt s t r ->
  exists c, eval_tree t = VContents c /\ contents_ok p_element_ok c.
Proof.
  intros IH s t r Hlen H. unfold child_alt in H. repeat (inv_alt; invs).
  - match goal with H : succ _ (NT nt_element) _ _ _ |- _ => destruct (IH _ _ _ Hlen H) as [e [Ee He]] end.
    exists (CsElement e). split; [cbn [eval_tree]; rewrite Ee; reflexivity|exact He].
  - match goal with H : succ _ (NT nt_reference) _ _ _ |- _ => apply inv_reference in H; destruct H as [x [Ex Hx]] end.
    exists (CsReference x). split; [cbn [eval_tree]; rewrite Ex; reflexivity|exact Hx].
  - match goal with H : succ _ (NT nt_cdsect) _ _ _ |- _ => apply inv_cdsect in H; destruct H as [x [Ex Hx]] end.
    exists (CsCData x). split; [cbn [eval_tree]; rewrite Ex; reflexivity|exact Hx].
  - match goal with H : succ _ (NT nt_pi) _ _ _ |- _ => apply inv_pi in H; destruct H as [x [Ex Hx]] end.
    exists (CsPI x). split; [cbn [eval_tree]; rewrite Ex; reflexivity|exact Hx].
  - match goal with H : succ _ (NT nt_comment) _ _ _ |- _ => apply inv_comment in H; destruct H as [x [Ex Hx]] end.
    exists (CsComment x). split; [cbn [eval_tree]; rewrite Ex; reflexivity|exact Hx].
Qed.

Lemma inv_opt_char_data s t r : S (Opt (NT nt_char_data)) s t r ->
  exists o : option str, eval_tree t = (match o with Some x => VSome (VStr x) | None => VNone end) /\ text_opt_ok o.
Proof.
  intros H. inv H; [|exists None; split; [reflexivity|exact I]].
  match goal with H : succ _ (NT nt_char_data) _ _ _ |- _ => apply inv_char_data in H; destruct H as [x [-> Hx]] end.
  exists (Some x). split; [reflexivity|exact Hx].
Qed.

Lemma as_cell_opt (c : contents) (o : option str) :
  as_cell (VPair (VContents c) (match o with Some x => VSome (VStr x) | None => VNone end)) = Some (c, o).
Proof. destruct o; reflexivity. Qed.

Lemma inv_cells_many (L : nat) : elem_inv L -> forall s ts r, (length s <= L)%nat -> SM cell_expr s ts r ->
  exists cs : list cell, all_some (map as_cell (map eval_tree ts)) = Some cs /\ cells_ok p_element_ok cs.
Proof.
  intros IH s ts r Hlen H. remember cell_expr as e eqn:Ee. revert Hlen.
  induction H as [e s|e s t r1 ts r Hs Hlt Hm IHm]; intros Hlen; subst e.
  - exists []. split; [reflexivity|exact I].
  - destruct (IHm eq_refl) as [cs [Ecs Hcs]]; [lia|]. unfold cell_expr in Hs. inv Hs.
    match goal with H : succ _ child_alt _ _ _ |- _ => destruct (inv_child L IH _ _ _ Hlen H) as [c [Ec Hc]] end.
    match goal with H : succ _ (Opt (NT nt_char_data)) _ _ _ |- _ => apply inv_opt_char_data in H; destruct H as [o [Eo Ho]] end.
    exists ((c, o) :: cs). split; [|cbn [cells_ok]; repeat split; assumption].
    cbn [map eval_tree all_some]. rewrite Ec, Eo, as_cell_opt, Ecs. reflexivity.
Qed.

Lemma inv_content (L : nat) : elem_inv L -> forall s t r, (length s <= L)%nat -> S (NT nt_content) s t r ->
  exists c : content, eval_tree t = VContent c /\ text_opt_ok (fst c) /\ cells_ok p_element_ok (snd c).
Proof.
  intros IH s t r Hlen H. inv_nt H body_content. fold cell_expr in *.
  match goal with H : succ _ (Map _ _) _ _ _ |- _ => inv H end.
  match goal with H : succ _ (Seq _ _) _ _ _ |- _ => inv H end.
  match goal with H : succ _ (Many0 _) _ _ _ |- _ => inv H end.
  match goal with H : succ _ (Opt (NT nt_char_data)) _ _ _ |- _ =>
    pose proof (succ_suffix _ _ _ _ _ H) as Hsuf; apply inv_opt_char_data in H; destruct H as [o [Eo Ho]] end.
  match goal with H : succ_many _ cell_expr _ _ _ |- _ =>
    destruct (inv_cells_many L IH _ _ _ (Nat.le_trans _ _ _ (suffix_length _ _ Hsuf) Hlen) H) as [cs [Ecs Hcs]] end.
  exists (o, cs). split; [|split; assumption].
  cbn [eval_tree]. rewrite Eo.
  change (apply_label L_closure_11e3fda0 (VPair (match o with Some x => VSome (VStr x) | None => VNone end) (VList (map eval_tree ts))))
    with (match as_opt as_str (match o with Some x => VSome (VStr x) | None => VNone end), as_list as_cell (VList (map eval_tree ts)) with
          | Some h', Some c' => VContent (h', c') | _, _ => VBad end).
  cbn [as_list]. rewrite Ecs. destruct o; reflexivity.
Qed.

Lemma tag_consumes (e1 e2 : pexpr) s t r : S (SeqR (Tag [60]) e1) s t r -> (length r < length s)%nat.
Proof.
  intros H. inv H. match goal with H : succ _ (Tag _) _ _ _ |- _ => inv H end.
  match goal with H : succ _ e1 _ _ _ |- _ => apply succ_suffix in H; apply suffix_length in H end.
  cbn [app length]. lia.
Qed.

Theorem inv_element : forall L, elem_inv L.
Proof.
  induction L as [|L IH]; intros s t r Hlen H.
  - (* the empty input: the tag `<` cannot match *)
    destruct s; [|cbn in Hlen; lia]. exfalso. inv_nt H body_element. inv_alt.
    + match goal with H : succ _ (NT nt_empty_entity_tag) _ _ _ |- _ => inv_nt H body_empty_tag end. invs.
      match goal with H : [] = _ ++ _ |- _ => discriminate H end.
    + invs. match goal with H : succ _ (NT nt_stag) _ _ _ |- _ => inv_nt H body_stag end. invs.
      match goal with H : [] = _ ++ _ |- _ => discriminate H end.
  - inv_nt H body_element. inv_alt.
    + (* <q attrs/> *)
      match goal with H : succ _ (NT nt_empty_entity_tag) _ _ _ |- _ => inv_nt H body_empty_tag end. fold attr_item in *.
      match goal with H : succ _ (Map _ _) _ _ _ |- _ => inv H end.
      match goal with H : succ _ (SeqR _ _) _ _ _ |- _ => inv H end.
      match goal with H : succ _ (SeqL _ _) _ _ _ |- _ => inv H end.
      match goal with H : succ _ (Seq (NT nt_qname) _) _ _ _ |- _ => apply inv_tag_open in H; destruct H as [q [l [Et [Hq [Hl _]]]]] end.
      exists (Element q l None). split; [cbn [eval_tree]; rewrite Et; apply al_element|].
      cbn [p_element_ok]. repeat split; assumption.
    + (* <q attrs>content</q> *)
      match goal with H : succ _ (Map _ _) _ _ _ |- _ => inv H end.
      match goal with H : succ _ (VerifyEq _ _ _) _ _ _ |- _ => inv H end.
      match goal with H : succ _ (Seq (NT nt_stag) _) _ _ _ |- _ => inv H end.
      match goal with H : succ _ (Seq (NT nt_content) _) _ _ _ |- _ => inv H end.
      match goal with H : succ _ (NT nt_stag) _ _ _ |- _ => inv_nt H body_stag end. fold attr_item in *.
      match goal with H : succ _ (Map _ (SeqR (Tag [60]) _)) _ _ _ |- _ => inv H end.
      match goal with H : succ _ (SeqR (Tag [60]) _) _ _ _ |- _ => pose proof (tag_consumes _ (Tag []) _ _ _ H) as Hlt; inv H end.
      match goal with H : succ _ (SeqL _ _) _ _ _ |- _ => inv H end.
      match goal with H : succ _ (Seq (NT nt_qname) _) _ _ _ |- _ => apply inv_tag_open in H; destruct H as [q [l [Et [Hq [Hl _]]]]] end.
      match goal with H : succ _ (NT nt_content) ?rr _ _ |- _ =>
        assert (length rr <= L)%nat as Hle by lia; destruct (inv_content L IH _ _ _ Hle H) as [c [Ec [Hh Hc]]] end.
      exists (Element q l (Some c)). split.
      * cbn [eval_tree]. rewrite Et, Ec. rewrite al_element. apply al_set_content.
      * cbn [p_element_ok]. destruct c as [h cs]. repeat split; assumption.
Qed.
