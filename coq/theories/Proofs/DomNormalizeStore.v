(** * [normalize] (Model/DomNormalize.v) as a function on ONE store

    The model is a program over [step] on worlds.  Everything it does happens in the document of the receiver:
    [ns fuel s r] is the same loop written on the store of that document ([merge] = what the pair
    [append_data] (accepted) + [remove_child] does), and [normalize_run_store] says that the two agree -- for
    every world, no invariant needed.  In the merged-text view the loop sees no Text child at all:
    [normalize_run_merged] (the world is unchanged).  The functional specification is then proved about [ns]
    (Proofs/DomNormalizeSteps.v, DomNormalizeLoop.v). *)
From Coq Require Import List NArith Bool Lia.
From XmlRs Require Import Base.CPred Model.Store Model.DomOps Model.DomNormalize
  Proofs.DomBase Proofs.DomTree Proofs.DomOpsInv Proofs.DomL1Atomic.
Import ListNotations.
Open Scope N_scope.

(** the Text child [c] of element [e] is appended to the Text child [p] and taken out of the child list *)
Definition merge (s : store) (e p c : id) : store :=
  fst (info_delete (set_str s p (data_of s p ++ data_of s c)) e c).

(** the loop of [norm_children] over the raw child list *)
Fixpoint nl (rec : store -> id -> store) (s : store) (r : id) (prev : option id) (l : list id) : store :=
  match l with
  | [] => s
  | c :: t =>
    match kind_of s c with
    | Some KTx =>
      match prev with
      | Some p =>
        if valid_str KTx (data_of s p ++ data_of s c)
        then nl rec (merge s r p c) r prev t
        else nl rec s r (Some c) t
      | None => nl rec s r (Some c) t
      end
    | Some KEl => nl rec (rec s c) r None t
    | _ => nl rec s r None t
    end
  end.

Fixpoint ns (fuel : nat) (s : store) (r : id) : store :=
  match fuel with
  | O => s
  | S f =>
    match kind_of s r with
    | Some KEl => nl (ns f) s r None (children_of s r)
    | _ => s
    end
  end.

(** ** kinds *)
Lemma kind_of_set_str s p d y : kind_of (set_str s p d) y = kind_of s y.
Proof. unfold set_str. apply kind_of_upd. reflexivity. Qed.

Lemma kind_of_info_delete s e c y : kind_of (fst (info_delete s e c)) y = kind_of s y.
Proof. unfold info_delete. destruct (mem c (children_of s e)); cbn [fst]; [|reflexivity]. apply kind_of_delete_by_id. Qed.

Lemma kind_of_merge s e p c y : kind_of (merge s e p c) y = kind_of s y.
Proof. unfold merge. rewrite kind_of_info_delete. apply kind_of_set_str. Qed.

Lemma nl_kind (rec : store -> id -> store) :
  (forall s c y, kind_of (rec s c) y = kind_of s y) ->
  forall l s r prev y, kind_of (nl rec s r prev l) y = kind_of s y.
Proof.
  intros Hrec. induction l as [|c t IH]; intros s r prev y; cbn [nl]; [reflexivity|].
  destruct (kind_of s c) as [k|]; [|apply IH]. destruct k; try apply IH.
  - rewrite IH. apply Hrec.
  - destruct prev as [p|]; [|apply IH]. destruct (valid_str KTx _); [|apply IH].
    rewrite IH. apply kind_of_merge.
Qed.

Lemma ns_kind : forall f s r y, kind_of (ns f s r) y = kind_of s y.
Proof.
  induction f as [|f IH]; intros s r y; cbn [ns]; [reflexivity|].
  destruct (kind_of s r) as [k|]; [|reflexivity]. destruct k; try reflexivity.
  apply nl_kind. exact IH.
Qed.

(** ** the two calls [normalize] is made of, on the store of the document *)
Lemma splice_end (d x : str) : splice (cut d (len d) 0) (len d) x = d ++ x.
Proof.
  assert (C : cut d (len d) 0 = d).
  { unfold cut. rewrite N.min_id, N.add_0_r, N.min_id. unfold len. rewrite Nat2N.id.
    rewrite firstn_all, skipn_all. apply app_nil_r. }
  rewrite C. unfold splice. rewrite N.min_id. unfold len. rewrite Nat2N.id.
  rewrite firstn_all, skipn_all, app_nil_r. reflexivity.
Qed.

Lemma step_append_text w k p d s :
  doc_at w k = Some s -> kind_of s p = Some KTx ->
  step w (AppendData (k, p) (text_arg d))
  = if valid_str KTx (data_of s p ++ d)
    then (set_doc w k (set_str s p (data_of s p ++ d)), Ok RUnit)
    else (w, Failed InfoErr).
Proof.
  intros D K. cbn [step]. unfold on_node. cbn [fst snd]. rewrite D, K. cbn [chardata].
  unfold insert_data, edit_data. rewrite N.ltb_irrefl. cbn [d_str text_arg]. rewrite splice_end.
  destruct (valid_str KTx (data_of s p ++ d)); [reflexivity|]. rewrite (set_doc_same w k s D). reflexivity.
Qed.

Lemma step_remove_text w k r c s :
  doc_at w k = Some s -> kind_of s r = Some KEl -> kind_of s c = Some KTx ->
  fst (step w (RemoveChild (k, r) (k, c))) = set_doc w k (fst (info_delete s r c)).
Proof.
  intros D Kr Kc. cbn [step]. unfold kind_in. cbn [fst snd]. rewrite D, Kr. cbn [node_mut].
  unfold exists_in. cbn [fst snd]. rewrite D.
  assert (G : exists cit, get s c = Some cit).
  { unfold kind_of in Kc. destruct (get s c) as [cit|]; [exists cit; reflexivity | discriminate]. }
  destruct G as [cit G]. rewrite G.
  unfold dom_remove_child. cbn [fst snd]. rewrite D. unfold kind_in. cbn [fst snd]. rewrite D, Kr. cbn [container].
  unfold wrong_doc, kind_in. cbn [fst snd]. rewrite D, Kc, N.eqb_refl. cbn [negb].
  unfold info_delete. destruct (mem c (children_of s r)); cbn [fst]; [reflexivity|].
  symmetry. apply set_doc_same. exact D.
Qed.

Lemma set_nth_twice {A} (x y : A) : forall n l, set_nth n x (set_nth n y l) = set_nth n x l.
Proof. induction n as [|n IH]; intros [|z t]; cbn; try reflexivity. f_equal. apply IH. Qed.

Lemma set_doc_twice w k a b : set_doc (set_doc w k a) k b = set_doc w k b.
Proof. unfold set_doc. cbn [docs]. rewrite set_nth_twice. reflexivity. Qed.

(** ** the loop on the world is the loop on the store *)
Lemma norm_children_store (rec : world -> nref -> world) (srec : store -> id -> store) k :
  (forall w s c, doc_at w k = Some s -> kind_of s c = Some KEl -> rec w (k, c) = set_doc w k (srec s c)) ->
  (forall s c y, kind_of (srec s c) y = kind_of s y) ->
  forall l w s r prev,
    doc_at w k = Some s -> kind_of s r = Some KEl ->
    (forall p, prev = Some p -> kind_of s p = Some KTx) ->
    norm_children rec w (k, r) prev (map Plain l) = set_doc w k (nl srec s r prev l).
Proof.
  intros Hrec Hk. induction l as [|c t IH]; intros w s r prev D Kr Kp; cbn [map norm_children nl].
  - symmetry. apply set_doc_same. exact D.
  - unfold kind_in at 1. cbn [fst snd]. rewrite D.
    destruct (kind_of s c) as [kc|] eqn:Kc; [|apply IH; [exact D | exact Kr | intros p E; discriminate]].
    destruct kc; try (apply IH; [exact D | exact Kr | intros p E; discriminate]).
    + (* element child *)
      rewrite (Hrec w s c D Kc).
      rewrite (IH (set_doc w k (srec s c)) (srec s c) r None).
      * apply set_doc_twice.
      * eapply doc_at_set_doc. exact D.
      * rewrite Hk. exact Kr.
      * intros p E. discriminate.
    + (* text child *)
      destruct prev as [p|]; [|apply IH; [exact D | exact Kr | intros p E; inversion E; subst; exact Kc]].
      unfold data_in. cbn [fst snd]. rewrite D.
      rewrite (step_append_text w k p (data_of s c) s D (Kp p eq_refl)).
      destruct (valid_str KTx (data_of s p ++ data_of s c)).
      * set (s1 := set_str s p (data_of s p ++ data_of s c)).
        assert (D1 : doc_at (set_doc w k s1) k = Some s1) by (eapply doc_at_set_doc; exact D).
        rewrite (step_remove_text (set_doc w k s1) k r c s1 D1)
          by (unfold s1; rewrite kind_of_set_str; assumption).
        rewrite set_doc_twice.
        rewrite (IH (set_doc w k (fst (info_delete s1 r c))) (merge s r p c) r (Some p)).
        -- apply set_doc_twice.
        -- eapply doc_at_set_doc. exact D.
        -- rewrite kind_of_merge. exact Kr.
        -- intros q E. inversion E; subst q. rewrite kind_of_merge. exact (Kp p eq_refl).
      * apply IH; [exact D | exact Kr | intros q E; inversion E; subst; exact Kc].
Qed.

Lemma child_view_raw s r : kind_of s r = Some KEl -> child_view s false r = map Plain (children_of s r).
Proof.
  unfold kind_of, child_view, children_of. destruct (get s r) as [it|]; [|discriminate]. cbn [option_map].
  intros H. inversion H as [H1]. rewrite H1. reflexivity.
Qed.

Theorem normalize_run_store : forall f w k r s,
  doc_at w k = Some s -> normalize_run false f w (k, r) = set_doc w k (ns f s r).
Proof.
  induction f as [|f IH]; intros w k r s D; cbn [normalize_run ns fst snd].
  - symmetry. apply set_doc_same. exact D.
  - rewrite D. destruct (kind_of s r) as [kd|] eqn:K; [|symmetry; apply set_doc_same; exact D].
    destruct kd; try (symmetry; apply set_doc_same; exact D).
    rewrite (child_view_raw s r K).
    apply (norm_children_store (normalize_run false f) (ns f) k).
    + intros w' s' c D' _. apply IH. exact D'.
    + intros s' c y. apply ns_kind.
    + exact D.
    + exact K.
    + intros p E. discriminate.
Qed.

(** ** the merged-text view: no child is a Text node, nothing happens *)
Lemma merge_run_plain s : forall l b x, In (Plain x) (merge_run s l b) ->
  match kind_of s x with Some k => textish k = false | None => True end.
Proof.
  induction l as [|y t IH]; intros b x H; cbn [merge_run] in H; [contradiction|].
  unfold kind_of. destruct (get s y) as [it|] eqn:G.
  - destruct (textish (ikind it)) eqn:Tx.
    + destruct b; [apply (IH true x H)|]. destruct H as [H|H]; [discriminate | apply (IH true x H)].
    + destruct H as [H|H]; [|apply (IH false x H)]. inversion H; subst y. unfold kind_of. rewrite G. exact Tx.
  - destruct H as [H|H]; [|apply (IH false x H)]. inversion H; subst y. unfold kind_of. rewrite G. exact I.
Qed.

Lemma norm_children_quiet (rec : world -> nref -> world) :
  (forall w n, rec w n = w) ->
  forall l w r prev,
    (forall x, In (Plain x) l -> kind_in w (fst r, x) <> Some KTx) ->
    norm_children rec w r prev l = w.
Proof.
  intros Hrec. induction l as [|v t IH]; intros w r prev H; cbn [norm_children]; [reflexivity|].
  assert (Ht : forall x, In (Plain x) t -> kind_in w (fst r, x) <> Some KTx) by (intros x Hx; apply H; right; exact Hx).
  destruct v as [c|c]; [|apply IH; exact Ht].
  destruct (kind_in w (fst r, c)) as [kd|] eqn:K; [|apply IH; exact Ht].
  destruct kd; try (apply IH; exact Ht).
  - rewrite Hrec. apply IH. exact Ht.
  - exfalso. apply (H c); [left; reflexivity | exact K].
Qed.

Theorem normalize_run_merged : forall f w r, normalize_run true f w r = w.
Proof.
  induction f as [|f IH]; intros w r; cbn [normalize_run]; [reflexivity|].
  destruct (doc_at w (fst r)) as [s|] eqn:D; [|reflexivity].
  destruct (kind_of s (snd r)) as [kd|] eqn:K; [|reflexivity]. destruct kd; try reflexivity.
  apply norm_children_quiet; [exact IH|].
  intros x Hx. unfold kind_in. cbn [fst snd]. rewrite D.
  unfold child_view in Hx. unfold kind_of in K. destruct (get s (snd r)) as [it|]; [|discriminate].
  cbn [option_map] in K. inversion K as [K1]. rewrite K1 in Hx.
  pose proof (merge_run_plain s _ _ _ Hx) as P.
  destruct (kind_of s x) as [kx|]; [|discriminate]. intros E. inversion E; subst kx. discriminate.
Qed.
