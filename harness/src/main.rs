//! Correspondence harness: runs the real xml-rs crates on cases read from stdin and prints
//! one canonical observation line per case.  The extracted Coq model (ocaml/driver.ml)
//! speaks the same protocol; tools/ and checks/ diff the two.
//!
//! Strings travel as decimal code points separated by ',' ("-" is the empty string).

mod chars;
mod prod;
mod util;

use std::io::{self, BufRead, Write};

fn main() {
    let args: Vec<String> = std::env::args().collect();
    let domain = args.get(1).map(|s| s.as_str()).unwrap_or("");
    // panics are observations, not noise
    std::panic::set_hook(Box::new(|_| {}));
    let stdin = io::stdin();
    let stdout = io::stdout();
    let mut out = io::BufWriter::new(stdout.lock());
    match domain {
        "chars" => chars::run(&mut out),
        _ => {
            let f: fn(&str) -> String = match domain {
                "prod" => prod::case,
                _ => {
                    eprintln!("unknown domain {}", domain);
                    std::process::exit(2);
                }
            };
            for line in stdin.lock().lines() {
                let line = line.unwrap();
                if line.is_empty() {
                    continue;
                }
                let l2 = line.clone();
                let r = std::panic::catch_unwind(move || f(&l2));
                let s = match r {
                    Ok(s) => s,
                    Err(_) => "panic".to_string(),
                };
                writeln!(out, "{}", s).unwrap();
            }
        }
    }
    out.flush().unwrap();
}
