(** C13 -- DOM mutators: DOM Level 1 effect, specified exceptions, atomic failure.

    "Each DOM Level 1 mutator (append_child, insert_before, replace_child, remove_child, attribute
    set/remove, set_named_item, the create_* factories, value and data setters) applied to any
    nodes either performs exactly the change DOM Level 1 specifies - including moving a node that
    is already in the tree - or fails with the specified exception class (hierarchy request, wrong
    document, not found, in-use attribute, index size, invalid character, no modification
    allowed).  It never panics, and a call that fails leaves the document observably unchanged."

    Spec: Spec/DomL1.v ([dom_step], readings R1-R6 in its header).  Model: Model/Store.v +
    Model/DomOps.v (the repaired code), tied to the crates by the [dom] correspondence; the
    implementation itself is compared with the extracted [dom_step] call by call (checks/C13.py).

    Full statements (DESIGN 5.13):
      step_refines   : forall w op, TreeInv w -> abs (fst (step w op)) = fst (dom_step (abs w) op)
                                              /\ outcome_class (snd (step w op)) = snd (dom_step (abs w) op)
      failure_atomic : forall w op e, snd (step w op) = Failed e -> observe (fst (step w op)) = observe w
      step_no_panic  : forall w op, TreeInv w -> snd (step w op) <> Panicked

    Status of each, see below. *)
From Coq Require Import List NArith Bool.
From XmlRs Require Import Base.CPred Model.Store Model.DomOps Proofs.DomTree Proofs.DomOpsInv
  Proofs.DomL1NoPanic Proofs.DomL1Atomic Proofs.DomL1Abs Proofs.DomL1Refine Proofs.DomL1RefineInsert Proofs.DomL1RefineAttr Proofs.DomPrintable Proofs.DomExample Proofs.DomC12.
From XmlRs Require Spec.DomCharData Spec.DomL1.
Import ListNotations.
Open Scope N_scope.

(** ** refinement.  FULL STATEMENT (not proved in full):

      step_refines : forall w o ao, WInv w -> abs_op o = Some ao ->
        abs (fst (step w o)) = fst (DomL1.dom_step (abs w) ao)
        /\ outcome_class (snd (step w o)) = snd (DomL1.dom_step (abs w) ao)      (= [refines_on w o ao])

    with, where [dom_step] answers [AUnspecified] (reading R1), [DomL1.conforms] in place of the two
    equations.  [abs : world -> adom] forgets order keys, the dirty flag and the serialisation-only
    fields; [abs_op] forgets the parser facts and keeps the strings; [outcome_class] maps exceptions
    to DOM codes ([InfoErr] -> [Refused]).

    PROVED RUNGS (every receiver, argument, offset, count and string; reachable worlds):
    - rung "child lists":
      [C13_step_refines_partial_append], [C13_step_refines_partial_insert]: append_child and
      insert_before on every receiver with every argument (self, ancestors, descendants, detached
      subtrees, foreign nodes, attributes, the reference child itself) -- the move of a node that is
      already in the tree is "detach, then attach" -- outside the finding class C13-DOC-MOVE
      ([KnownDocMove]: the Document refuses to move its own element / document type);
      [C13_step_refines_partial_replace]: replace_child on every receiver that is not the Document;
      [C13_step_refines_partial_remove]: remove_child, outside the finding class C13-LEAF-RM
      ([KnownLeafRm]: the receiver is a Text / Comment / CDATASection / PI; the code answers
      HIERARCHY_REQUEST_ERR, Level 1 NOT_FOUND_ERR; pinned by test_text_node_mut_remove_child_err2).
      Where Level 1 is silent (insertBefore(x, x), replaceChild(x, x)) the statement is
      [DomL1.conforms]: no panic, and the state is the unchanged one or the one the specification
      offers.
    - rung "attribute nodes" [C13_step_refines_partial_set_attribute_node],
      [C13_step_refines_partial_set_named_item]: set_attribute_node and set_named_item replace the
      attribute with the same nodeName, raise WRONG_DOCUMENT_ERR / INUSE_ATTRIBUTE_ERR as specified
      (an attribute that already belongs to the receiver: Level 1 is silent, [conforms]); under the
      additional hypothesis [WPrintable] (names are NCNames with an optional NCName prefix -- an
      invariant of every reachable world, C15), which makes "same qualified name" and "same
      nodeName" coincide;
      [C13_step_refines_partial_remove_attribute], [C13_step_refines_partial_remove_named_item]:
      by-name removal -- where the name designates at most one attribute in both readings the
      effect is Level 1's, where prefixes make it ambiguous (reading R1) the model does one of the
      two admissible things; remove_named_item outside the finding class C13-NS-HIDDEN
      ([KnownNsHidden]: the name is the local part of a namespace declaration of the element);
    - rung "character data" [C13_step_refines_partial_data]: set_data, append_data, insert_data,
      delete_data, replace_data -- unconditional;
    - rung "text factories" [C13_step_refines_partial_factories]: create_text_node, create_comment,
      create_cdata_section, create_document_fragment, outside D42 ([Known42]).
    NOT PROVED: replace_child on the Document, set_attribute, remove_attribute_node (it needs that
    qualified names are unique within an element), split_text, the PI calls and
    the factories that take names (the last three groups need the agreement of the
    implementation's parser facts with the grammar of the specification).  Those are compared with
    the extracted [dom_step] on the implementation, call by call, by checks/C13.py (the matrix of
    receiver kind x argument kind x position for every mutator and random histories). *)
Theorem C13_step_refines_partial_append : forall w r n,
  WInv w -> KnownDocMove w r n = false ->
  DomL1.conforms (abs w) (DomL1.AAppendChild r n) (abs (fst (step w (AppendChild r n)))) (outcome_class (snd (step w (AppendChild r n)))).
Proof. exact step_refines_partial_append. Qed.

Theorem C13_step_refines_partial_insert : forall w r n f,
  WInv w -> KnownDocMove w r n = false ->
  DomL1.conforms (abs w) (DomL1.AInsertBefore r n f) (abs (fst (step w (InsertBefore r n f))))
                 (outcome_class (snd (step w (InsertBefore r n f)))).
Proof. exact step_refines_partial_insert. Qed.

Theorem C13_step_refines_partial_replace : forall w (r n o : nref),
  WInv w -> receiver_is_document w r = false ->
  DomL1.conforms (abs w) (DomL1.AReplaceChild r n o) (abs (fst (step w (ReplaceChild r n o))))
                 (outcome_class (snd (step w (ReplaceChild r n o)))).
Proof. exact step_refines_partial_replace. Qed.

Theorem C13_step_refines_partial_set_attribute_node : forall w (r a : nref),
  WInv w -> WPrintable w ->
  DomL1.conforms (abs w) (DomL1.ASetAttributeNode r a) (abs (fst (step w (SetAttributeNode r a))))
                 (outcome_class (snd (step w (SetAttributeNode r a)))).
Proof. exact step_refines_partial_set_attribute_node. Qed.

Theorem C13_step_refines_partial_set_named_item : forall w (r a : nref),
  WInv w -> WPrintable w ->
  DomL1.conforms (abs w) (DomL1.ASetNamedItem r a) (abs (fst (step w (SetNamedItem r a))))
                 (outcome_class (snd (step w (SetNamedItem r a)))).
Proof. exact step_refines_partial_set_named_item. Qed.

Theorem C13_step_refines_partial_remove_attribute : forall w (r : nref) name,
  WInv w -> WPrintable w ->
  DomL1.conforms (abs w) (DomL1.ARemoveAttribute r name) (abs (fst (step w (RemoveAttribute r name))))
                 (outcome_class (snd (step w (RemoveAttribute r name)))).
Proof. exact step_refines_partial_remove_attribute. Qed.

Theorem C13_step_refines_partial_remove_named_item : forall w (r : nref) name,
  WInv w -> WPrintable w -> KnownNsHidden w r name = false ->
  DomL1.conforms (abs w) (DomL1.ARemoveNamedItem r name) (abs (fst (step w (RemoveNamedItem r name))))
                 (outcome_class (snd (step w (RemoveNamedItem r name)))).
Proof. exact step_refines_partial_remove_named_item. Qed.

Theorem C13_step_refines_partial_data : forall w o ao,
  WInv w -> is_data_op o = true -> abs_op o = Some ao -> refines_on w o ao.
Proof. exact step_refines_partial_data. Qed.

Theorem C13_step_refines_partial_remove : forall w r x,
  WInv w -> KnownLeafRm w (RemoveChild r x) = false -> refines_on w (RemoveChild r x) (DomL1.ARemoveChild r x).
Proof. exact step_refines_partial_remove. Qed.

Theorem C13_step_refines_partial_factories : forall w o ao,
  WInv w -> is_text_factory o = true -> Known42 o = false -> abs_op o = Some ao -> refines_on w o ao.
Proof. exact step_refines_partial_factories. Qed.

(** the rungs along histories *)
Theorem C13_data_refines_reachable : forall init ops o ao,
  WInv init -> is_data_op o = true -> abs_op o = Some ao -> refines_on (run init ops) o ao.
Proof. intros init ops o ao Hi. apply step_refines_partial_data. apply run_inv. exact Hi. Qed.

(** ** no panic.  The full statement is REFUTED by the faithful model (defect D42, a listed
    finding: the three factories whose signature has no [Result] unwrap the validation result);
    the conditional theorem holds for every other call -- every receiver, every argument, every
    string, with or without the tree invariant. *)
Theorem C13_step_no_panic_refuted : exists w o, snd (step w o) = Panicked.
Proof. exact step_no_panic_refuted. Qed.

Theorem C13_step_no_panic : forall w o, Known42 o = false -> snd (step w o) <> Panicked.
Proof. exact step_no_panic_but_D42. Qed.

Theorem C13_run_no_panic : forall ops w, forallb (fun o => negb (Known42 o)) ops = true ->
  forall pre o post, ops = pre ++ o :: post -> snd (step (run w pre) o) <> Panicked.
Proof. exact run_no_panic. Qed.

(** ** failure atomicity.  For every operation except [SetAttribute] the world after a failed call
    IS the world before: whatever is observed (tree, attributes, data, order ranks,
    serialisation ...) is unchanged.  A failed [set_attribute] leaves one unattached node behind
    ([Garbage]: the attribute it had already created) and nothing else. *)
Theorem C13_failure_atomic : forall w o e,
  WInv w -> is_set_attribute o = false -> snd (step w o) = Failed e -> fst (step w o) = w.
Proof. exact failure_atomic_strict. Qed.

Theorem C13_failure_atomic_observe : forall (A : Type) (observe : world -> A) w o e,
  WInv w -> is_set_attribute o = false -> snd (step w o) = Failed e -> observe (fst (step w o)) = observe w.
Proof. exact failure_atomic_observe. Qed.

Theorem C13_failure_atomic_set_attribute : forall w r name value e,
  WInv w -> snd (step w (SetAttribute r name value)) = Failed e -> Garbage w (fst (step w (SetAttribute r name value))).
Proof. exact failure_atomic_set_attribute. Qed.

(** along histories: the hypothesis [WInv] holds in every reachable world (C12) *)
Theorem C13_failure_atomic_reachable : forall init ops o e,
  WInv init -> is_set_attribute o = false -> snd (step (run init ops) o) = Failed e ->
  fst (step (run init ops) o) = run init ops.
Proof. intros init ops o e Hi. apply failure_atomic_strict. apply run_inv. exact Hi. Qed.

(** the hypotheses are satisfiable by a non-trivial world and calls: on <r><a x="1">t</a><b/></r>
    (Proofs/DomExample.v), replace_data(0, 1, "]]>") on the text "t" is refused by both sides and
    leaves the world unchanged; insert_data(1, "u") is done by both; remove_child(a, t) is done *)
Definition dinf (s : str) : data_info := mkData s false false false None None.
Example C13_example :
  WInv ex_world
  /\ snd (step ex_world (ReplaceData (0, 6) 0 1 (dinf [93; 93; 62]))) = Failed InfoErr
  /\ snd (DomL1.dom_step (abs ex_world) (DomL1.AReplaceData (0, 6) 0 1 [93; 93; 62])) = DomL1.ARaised DomL1.Refused
  /\ fst (step ex_world (ReplaceData (0, 6) 0 1 (dinf [93; 93; 62]))) = ex_world
  /\ snd (step ex_world (InsertData (0, 6) 1 (dinf [117]))) = Ok RUnit
  /\ option_map (fun s => data_of s 6) (doc_at (fst (step ex_world (InsertData (0, 6) 1 (dinf [117])))) 0) = Some [116; 117]
  /\ KnownDocMove ex_world (0, 7) (0, 3) = false
  /\ snd (DomL1.dom_step (abs ex_world) (DomL1.AAppendChild (0, 7) (0, 3))) = DomL1.ADone (DomL1.ANode (0, 3))
  /\ snd (DomL1.dom_step (abs ex_world) (DomL1.AAppendChild (0, 3) (0, 2))) = DomL1.ARaised (DomL1.Dom DomCharData.HierarchyRequestErr)
  /\ KnownLeafRm ex_world (RemoveChild (0, 3) (0, 6)) = false
  /\ snd (DomL1.dom_step (abs ex_world) (DomL1.ARemoveChild (0, 3) (0, 6))) = DomL1.ADone (DomL1.ANode (0, 6)).
Proof.
  split; [exact ex_world_inv|]. split; [vm_compute; reflexivity|]. split; [vm_compute; reflexivity|].
  split; [apply (failure_atomic_strict ex_world (ReplaceData (0, 6) 0 1 (dinf [93; 93; 62])) InfoErr ex_world_inv eq_refl); vm_compute; reflexivity|].
  repeat split; vm_compute; reflexivity.
Qed.

Print Assumptions C13_step_refines_partial_append.
Print Assumptions C13_step_refines_partial_insert.
Print Assumptions C13_step_refines_partial_replace.
Print Assumptions C13_step_refines_partial_set_attribute_node.
Print Assumptions C13_step_refines_partial_set_named_item.
Print Assumptions C13_step_refines_partial_remove_attribute.
Print Assumptions C13_step_refines_partial_remove_named_item.
Print Assumptions C13_step_refines_partial_data.
Print Assumptions C13_step_refines_partial_remove.
Print Assumptions C13_step_refines_partial_factories.
Print Assumptions C13_data_refines_reachable.
Print Assumptions C13_step_no_panic_refuted.
Print Assumptions C13_step_no_panic.
Print Assumptions C13_run_no_panic.
Print Assumptions C13_failure_atomic.
Print Assumptions C13_failure_atomic_observe.
Print Assumptions C13_failure_atomic_set_attribute.
Print Assumptions C13_failure_atomic_reachable.
