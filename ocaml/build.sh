#!/bin/sh
# One driver binary per extracted area:
#   gen/model_<area>.ml + domains/<area>/*.ml      -> _build/model_<area>
#   gen/spec_<area>.ml  + specdomains/<area>/*.ml  -> _build/spec_<area>
# usage: build.sh [model_<area>|spec_<area> ...]   (default: every gen/*.ml present)
cd "$(dirname "$0")"
mkdir -p _build
rc=0
one() { # $1 = model_<area> | spec_<area>
  kind=${1%%_*}; area=${1#*_}
  if [ "$kind" = model ]; then dir="domains/$area"; else dir="specdomains/$area"; fi
  [ -f "gen/$1.ml" ] || { echo "gen/$1.ml missing"; return 1; }
  [ -d "$dir" ] || { echo "$dir missing"; return 1; }
  mod=$(echo "$1" | sed 's/^./\U&/')
  { echo "open $mod"; cat proto.ml; for f in $(ls "$dir"/*.ml | sort); do echo "# 1 \"$f\""; cat "$f"; done; echo "let () = main ()"; } > "_build/$1_main.ml.new"
  if [ -f "_build/$1" ] && cmp -s "gen/$1.ml" "_build/$1.ml" && cmp -s "_build/$1_main.ml.new" "_build/$1_main.ml"; then rm "_build/$1_main.ml.new"; return 0; fi
  mv "_build/$1_main.ml.new" "_build/$1_main.ml"
  cp "gen/$1.ml" "gen/$1.mli" _build/
  (cd _build && rm -f "$1" && { ocamlfind ocamlopt -O3 -unboxed-types -w -a -package str,unix "$1.mli" "$1.ml" "$1_main.ml" -linkpkg -o "$1" 2>/dev/null \
    || ocamlfind ocamlopt -w -a -package str,unix "$1.mli" "$1.ml" "$1_main.ml" -linkpkg -o "$1"; })
}
if [ $# -eq 0 ]; then set -- $(ls gen/*.ml 2>/dev/null | sed 's|gen/||; s|\.ml$||'); fi
for t in "$@"; do one "$t" || rc=1; done
exit $rc
