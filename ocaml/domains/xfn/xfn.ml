(* xfn: XPath core functions and operators on scalar arguments (C09).
   Case and observation syntax: see harness/src/domains/xfn.rs. *)
let rec pos_of_bits (bits : bool list) (acc : positive option) : positive option =
  (* bits most significant first *)
  match bits with
  | [] -> acc
  | b :: tl ->
    let acc' = match acc, b with
      | None, false -> None
      | None, true -> Some XH
      | Some p, false -> Some (XO p)
      | Some p, true -> Some (XI p) in
    pos_of_bits tl acc'
let z_of_hex (h : string) : z =
  let bits = ref [] in
  String.iter (fun ch ->
      let v = int_of_string ("0x" ^ String.make 1 ch) in
      bits := !bits @ [v land 8 <> 0; v land 4 <> 0; v land 2 <> 0; v land 1 <> 0]) h;
  match pos_of_bits !bits None with None -> Z0 | Some p -> Zpos p
let rec bits_of_pos (p : positive) : bool list = (* least significant first *)
  match p with XH -> [true] | XO q -> false :: bits_of_pos q | XI q -> true :: bits_of_pos q
let hex_of_z (x : z) : string =
  let bits = match x with Zpos p -> bits_of_pos p | _ -> [] in
  let a = Array.make 64 false in
  List.iteri (fun i b -> if i < 64 then a.(i) <- b) bits;
  let buf = Buffer.create 16 in
  for d = 15 downto 0 do
    let v = (if a.(4*d+3) then 8 else 0) + (if a.(4*d+2) then 4 else 0)
            + (if a.(4*d+1) then 2 else 0) + (if a.(4*d) then 1 else 0) in
    Buffer.add_char buf "0123456789abcdef".[v]
  done;
  Buffer.contents buf

let parse_value (w : string) : value option =
  match String.index_opt w ':' with
  | None -> None
  | Some i ->
    let t = String.sub w 0 i and r = String.sub w (i + 1) (String.length w - i - 1) in
    (match t with
     | "s" -> Some (VStr (dec r))
     | "n" -> Some (VNum (f64_of_bits (z_of_hex r)))
     | "b" -> Some (VBool (r = "1"))
     | _ -> None)

let show_value (v : value) : string =
  match v with
  | VBool b -> if b then "b:1" else "b:0"
  | VNum x -> "n:" ^ hex_of_z (f64_to_bits x)
  | VStr s -> "s:" ^ enc s
  | VNodes l -> "nodes:" ^ string_of_int (List.length l)

let show_res (r : fres) : string =
  match r with
  | ROk v -> show_value v
  | RErr EInvalidType -> "err:InvalidType"
  | RErr EInvalidArgumentCount -> "err:InvalidArgumentCount"
  | RErr ENotFoundFunction -> "err:NotFoundFunction"
  | RPanic -> "panic"
  | RNeedsNode -> "needsnode"

let str_of_ascii (s : string) : n list =
  List.init (String.length s) (fun i -> n_of_int (Char.code s.[i]))

(* string-value of the context node: the document of the harness is "<r> 12 €x </r>" *)
let ctx : n list = List.map n_of_int [32; 49; 50; 32; 8364; 120; 32]

let binop_of (o : string) : binop option =
  match o with
  | "eq" -> Some OEq | "ne" -> Some ONe | "lt" -> Some OLt | "le" -> Some OLe
  | "gt" -> Some OGt | "ge" -> Some OGe | "add" -> Some OAdd | "sub" -> Some OSub
  | "mul" -> Some OMul | "div" -> Some ODiv | "mod" -> Some OMod | _ -> None

let rec all_some (l : 'a option list) : 'a list option =
  match l with
  | [] -> Some []
  | None :: _ -> None
  | Some x :: tl -> (match all_some tl with Some r -> Some (x :: r) | None -> None)

let xfn_case fn_ op_ neg_ lit_ (words : string list) : string =
  match words with
  | ("fn" | "qfn") :: name :: vs ->
    (match all_some (List.map parse_value vs) with
     | Some args -> show_res (fn_ ctx (str_of_ascii name) args)
     | None -> "err:case")
  | ["op"; "neg"; v] ->
    (match parse_value v with Some a -> show_res (neg_ a) | None -> "err:case")
  | ["op"; ("neg2" | "neg3") as k; v] ->
    (* `--v` / `---v`: unary minus applied to the result of a unary minus (each application converts to a number) *)
    let rec app n a = if n = 0 then ROk a else (match neg_ a with ROk b -> app (n - 1) b | r -> r) in
    (match parse_value v with Some a -> show_res (app (if k = "neg2" then 2 else 3) a) | None -> "err:case")
  | ["op"; o; v1; v2] ->
    (match binop_of o, parse_value v1, parse_value v2 with
     | Some o, Some a, Some b -> show_res (op_ o a b)
     | _ -> "err:case")
  | ["lit"; v] ->
    (match parse_value v with Some (VStr s) -> show_res (lit_ s) | _ -> "err:case")
  | ["arity"; name; n] ->
    let args = List.init (int_of_string n) (fun _ -> VNum (f64_of_bits (z_of_hex "3ff0000000000000"))) in
    (match fn_ ctx (str_of_ascii name) args with
     | RErr EInvalidArgumentCount -> "err:InvalidArgumentCount"
     | RErr ENotFoundFunction -> "err:NotFoundFunction"
     | _ -> "ok")
  | _ -> "err:case"
let () = register "xfn" (xfn_case model_fn model_op model_neg model_literal)
