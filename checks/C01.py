"""C01 -- well-formed documents are accepted and yield the infoset they denote.

Cases: (1) generated triples (abstract document d, choice oracles c1, c2) of Spec.Infoset; the two
renderings `render d c1`, `render d c2` (computed by the extracted Coq function) go to the real
`XmlDocument::from_raw`, which must accept both with empty rest and expose `denote d` in the
merged-text view (directly) and in the raw view (after merging adjacent text / CDATA / reference
children); (2) hand-written documents of the profile, where the expected infoset is
`Spec.Infoset.infoset_of_string`.  expat's infoset of the same text is the independent oracle of
the specification: a spec-vs-expat difference is an "oracle disagreement", never a violation."""
import hashlib, json, os, sys, time
from . import lib, wfcommon as W
sys.path.insert(0, os.path.join(lib.VERIF, 'tools', 'gen'))
import expat_oracle, wfgen

FINDINGS = {
    'D13': 'a general entity whose replacement text contains markup or a reference ("<" or "&", written directly or as a character reference) is referenced: its content is exposed as text',
    'D36': 'an ATTLIST definition is #REQUIRED and the element does not specify the attribute: an attribute with an empty value is materialised',
    'WF23': 'a general entity whose literal holds "&name;" inside a comment, CDATA section or processing instruction of its replacement text is referenced: the pseudo-reference is checked as a reference (Entity Declared / Parsed Entity / No Recursion) and the well-formed document is refused',
    'WF24': 'the document type declaration names an external subset (not standalone="yes") and an entity that the internal subset does not declare is referenced directly: refused, although Entity Declared is only a validity constraint then (XML 1.0 4.1)',
    'WF14': 'a maximal run of character data / CDATA / references whose expansion is empty (empty CDATA section, reference to an entity with empty replacement text): the merged view has an empty text node',
    'WF15': 'an attribute name, element name or ATTLIST attribute name starts with the letters xmlns without being xmlns or xmlns:...: rejected (ns_att_name matches the prefix)',
    'WF16': 'a literal CR (or CR LF) in character data, attribute values, comments, PIs or CDATA sections is not normalized to LF (XML 1.0 section 2.11)',
    'WF17': 'a public identifier is not normalized (XML 1.0 section 4.2.2: white space collapsed and trimmed)',
    'WF18': 'an entity reference inside an attribute-list default value: the document is refused (the entity table is not visible while the DOCTYPE is built)',
    'D37': 'an attribute value references an entity whose literal contains a character reference to tab, LF or CR: the character is not normalized to a space',
    'D38': 'a second ATTLIST declaration for the same element type is ignored',
    'WF19': 'a defaulted attribute of a tokenized type: the default value is not normalized',
    'WF21': 'an entity whose replacement text contains tab, LF or CR is referenced in CONTENT: the merged text has spaces (the value of the reference is computed with the attribute-value normalization)',
    'WF22': 'an unparsed entity name is declared more than once: every declaration is listed among the unparsed entities (the first declaration is binding)',
    'WF20': 'the document type name has a prefix: the DOM name() reports only the local part',
}

def merge_raw(tokens):
    """raw-view dump -> merged-text dump (adjacent t/d/h/r tokens become one text token; empty runs vanish)"""
    res, acc = [], None
    for t in tokens:
        k = t[:2]
        if k in ('t:', 'd:', 'h:'):
            acc = (acc or '') + lib.dec(t[2:])
        elif k == 'r:':
            n, v = t[2:].split(':')
            acc = (acc or '') + (lib.dec(v) if v != '!' else '�!')
        else:
            if acc is not None:
                if acc != '':
                    res.append('t:' + lib.enc(acc))
                acc = None
            res.append(t)
    return res

def decl_bodies(text, keyword):
    """bodies of the `<!KEYWORD ... >` declarations of a text; a '>' inside a quoted literal does not end one"""
    out, i = [], 0
    while True:
        i = text.find('<!' + keyword, i)
        if i < 0:
            return out
        j, q = i + 2 + len(keyword), None
        while j < len(text):
            c = text[j]
            if q:
                if c == q: q = None
            elif c in '"\'':
                q = c
            elif c == '>':
                break
            j += 1
        out.append(text[i + 2 + len(keyword):j])
        i = j

def attr_decls(text):
    """[(element, attr, type, default)] of the ATTLIST declarations of a text (for classifiers only)"""
    import re
    out = []
    for body in decl_bodies(text, 'ATTLIST'):
        m = re.match(r'\s+(\S+)(.*)$', body, re.S)
        if not m:
            continue
        for d in re.finditer(r'\s+(\S+)\s+(NOTATION\s*\([^)]*\)|\([^)]*\)|[A-Z]+)\s+(#REQUIRED|#IMPLIED|(?:#FIXED\s+)?(?:"[^"]*"|\'[^\']*\'))', m.group(2), re.S):
            out.append((m.group(1), d.group(1), d.group(2), d.group(3)))
    return out

def unwritten_required_nsdecl(text):
    """an ATTLIST definition `xmlns` / `xmlns:p` is #REQUIRED and an element of that type does not write it: since /repo
    bf629dc (D67) nothing is materialised for it (namespace_attributes() takes default VALUES only, attributes() skips
    namespace declarations) -- unlike an ordinary #REQUIRED attribute (D36).  Only counted (evidence)."""
    import re
    body = re.sub(r'<!DOCTYPE.*?\]\s*>', '', text, flags=re.S)
    for el, a, ty, dflt in attr_decls(text):
        if dflt == '#REQUIRED' and (a == 'xmlns' or a.startswith('xmlns:')):
            for m in re.finditer(r'<%s(?=[\s/>])([^>]*)>' % re.escape(el), body):
                if not re.search(r'(^|\s)%s\s*=' % re.escape(a), m.group(1)):
                    return True
    return False

def entity_with_ws_referenced_in_content(text):
    """a general entity whose literal contains tab / LF / CR (literally or as a character reference) is
    referenced (directly or through another entity) outside attribute values"""
    import re
    ents = W.entity_literals(text)
    def has_ws(nm, seen=()):
        lit = ents.get(nm)
        if lit is None or nm in seen:
            return False
        if re.search(r'[\t\n\r]|&#(x0*[9aAdD]|0*(9|10|13));', lit):
            return True
        return any(has_ws(m, seen + (nm,)) for m in re.findall(r'&([^;#&\s]+);', lit))
    body = re.sub(r'<!DOCTYPE.*?\]\s*>', '', text, flags=re.S)
    body = re.sub(r'"[^"<]*"|\'[^\'<]*\'', '', body)
    return any(has_ws(m) for m in re.findall(r'&([^;#&\s]+);', body))

def only_text_differs(a, b):
    return len(a) == len(b) and all(x == y or (x[:2] == 't:' and y[:2] == 't:') for x, y in zip(a, b))

def explain(text, impl_tokens, spec_tokens, verdict, run=None):
    """the list of known-finding ids that together account for the difference between what the
    implementation exposes and what the text denotes, or None when some part of the difference
    matches no listed shape.  Each step undoes exactly one listed effect."""
    import re
    if verdict != 'accept':
        # WF23 (repair-based): the text with the "&" of every pseudo-reference that sits inside a comment, CDATA
        # section or PI of an entity literal taken out is accepted
        if run is not None and re.search(r'<!ENTITY', text):
            def neutral(m):
                return m.group(0).replace('&', '')
            def fix_literal(m):
                lit = m.group(2)
                lit2 = re.sub(r'<!--.*?-->|<!\[CDATA\[.*?\]\]>|<\?.*?\?>', neutral, lit, flags=re.S)
                return m.group(1) + lit2 + m.group(3)
            t2 = re.sub(r'''(<!ENTITY\s+[^\s%][^\s]*\s+")([^"]*)(")''', fix_literal, text)
            t2 = re.sub(r'''(<!ENTITY\s+[^\s%][^\s]*\s+')([^']*)(')''', fix_literal, t2)
            if t2 != text and W.run_impl(run, [t2], 'v')[0] == 'accept':
                return ['WF23']
        # WF24: an external subset is declared (not standalone="yes") and an entity that the internal subset does
        # not declare is referenced directly: the same text with those references taken out is accepted
        if run is not None and re.search(r'<!DOCTYPE\s+[^\s\[>]+\s+(SYSTEM|PUBLIC)\b', text) and not re.search(r'''standalone\s*=\s*["']yes''', text):
            declared = set(W.entity_literals(text)) | {'lt', 'gt', 'amp', 'apos', 'quot'} | set(re.findall(r'<!ENTITY\s+([^\s%]\S*)\s+(?:SYSTEM|PUBLIC)', text))
            body = text[len(W.prolog_head(text)):] if W.prolog_head(text) else text[text.find('>', text.find('<!DOCTYPE')) + 1:]
            und = {n for n in re.findall(r'&([^#;&\s][^;&\s]*);', body) if n not in declared}
            if und:
                b2 = body
                for n in und:
                    b2 = b2.replace('&%s;' % n, '')
                t2 = text[:len(text) - len(body)] + b2
                if W.run_impl(run, [t2], 'v')[0] == 'accept':
                    return ['WF24']
        if re.search(r'[\s<]xmlns[^\s:=>/]', text):
            return ['WF15']
        for el, an, ty, df in attr_decls(text):
            if re.search(r'&(?!lt;|gt;|amp;|apos;|quot;|#)', df):
                return ['WF18']
        return None
    a, b = list(impl_tokens), list(spec_tokens)
    ids = []
    if a == b:
        return ids
    # WF16 (repair-based): the same text with its line ends normalized is handled as denoted
    if '\r' in text and run is not None:
        t2 = text.replace('\r\n', '\n').replace('\r', '\n')
        o = W.run_impl(run, [t2], 'd')[0]
        if o.startswith('accept'):
            a2 = o[len('accept R '):].split(' M ')[1].split(' ')
            if a2 != a:
                ids.append('WF16'); a = a2
                if a == b:
                    return ids
    # WF14: empty merged text nodes
    if 't:-' in a and 't:-' not in b:
        ids.append('WF14'); a = [t for t in a if t != 't:-']
        if a == b:
            return ids
    decls = attr_decls(text)
    is_attr = lambda t: t[:2] in ('a:', 'b:')
    na, nb = [t for t in a if not is_attr(t)], [t for t in b if not is_attr(t)]
    aa, ab = [t for t in a if is_attr(t)], [t for t in b if is_attr(t)]
    # --- attribute tokens
    if aa != ab:
        req = {an for el, an, ty, df in decls if df == '#REQUIRED'}
        aa2 = [t for t in aa if not (t.startswith('b:') and t.endswith(':-') and lib.dec(t.split(':')[1]) in req and t not in ab)]
        if aa2 != aa:
            ids.append('D36'); aa = aa2
        if aa != ab:
            names = re.findall(r'<!ATTLIST\s+([^\s>]+)', text)
            if W.references_entity_with_markup(text):
                ids.append('D13')
            elif len(set(names)) < len(names):
                ids.append('D38')
            elif any(t.startswith('b:') for t in aa + ab if t not in aa or t not in ab) and any(ty != 'CDATA' for el, an, ty, df in decls):
                ids.append('WF19')
            elif any(re.search(r'&#(x0*[9aAdD]|0*(9|10|13));', lit) for lit in W.entity_literals(text).values()):
                ids.append('D37')
            else:
                return None
    # --- everything else
    if na != nb:
        if only_text_differs(na, nb):
            if W.references_entity_with_markup(text):
                ids.append('D13')
            elif entity_with_ws_referenced_in_content(text):
                ids.append('WF21')
            else:
                return None
        elif W.references_entity_with_markup(text):
            ids.append('D13')
        elif [t for k, t in enumerate(na) if not (t[:2] == 'u:' and any(x[:2] == 'u:' and x.split(':')[1] == t.split(':')[1] for x in na[:k]))] == nb:
            ids.append('WF22')
        elif len(na) == len(nb) and all(x == y or x[:2] == y[:2] and x[:2] in ('n:', 'u:', 'T:') for x, y in zip(na, nb)):
            if re.search(r'<!DOCTYPE\s+[^\s\[>]*:', text) and any(x != y and x[:2] == 'T:' for x, y in zip(na, nb)):
                ids.append('WF20')
            else:
                ids.append('WF17')
        else:
            return None
    return ids

PROFILE_EXTRA = [
    # (family, document): hand-written documents of the profile aimed at the known soft spots
    ('entity-markup', '<!DOCTYPE a [<!ENTITY e "<b/>">]><a>&e;</a>'),
    ('entity-markup', '<!DOCTYPE a [<!ENTITY e "x<b>y</b>z">]><a>&e;&e;</a>'),
    ('entity-markup', '<!DOCTYPE a [<!ENTITY e "&#38;#60;">]><a>&e;</a>'),
    ('entity-markup', '<!DOCTYPE a [<!ENTITY e "&#38;lt;">]><a x="&e;">&e;</a>'),
    ('entity-markup', '<!DOCTYPE a [<!ENTITY e "<!--c--><?p d?>">]><a>&e;</a>'),
    ('entity-pseudo-reference', '<!DOCTYPE a [<!ENTITY e "<!-- &u; -->">]><a>&e;</a>'),
    ('entity-pseudo-reference', '<!DOCTYPE a [<!ENTITY e "<![CDATA[&u;]]>">]><a>&e;</a>'),
    ('entity-pseudo-reference', '<!DOCTYPE a [<!ENTITY e "<?p &u;?>">]><a>&e;</a>'),
    ('entity-pseudo-reference', '<!DOCTYPE a [<!ENTITY e "<!-- &e; -->x">]><a>&e;</a>'),
    ('external-subset', '<!DOCTYPE a SYSTEM "x.dtd"><a>&u;</a>'), ('external-subset', '<!DOCTYPE a SYSTEM "x.dtd"><a k="&u;"/>'),
    ('external-subset', '<!DOCTYPE a PUBLIC "p" "x.dtd" [<!ENTITY e "v">]><a>&e;&u;</a>'),
    ('external-subset', '<?xml version="1.0" standalone="no"?><!DOCTYPE a SYSTEM "x.dtd" [<!ENTITY e "&u;">]><a>&e;</a>'),
    ('entity-text', '<!DOCTYPE a [<!ENTITY e "v"><!ENTITY f "[&e;&e;]">]><a x="&f;">&f;</a>'),
    ('entity-text', '<!DOCTYPE a [<!ENTITY e "">]><a>&e;</a>'),
    ('entity-text', '<!DOCTYPE a [<!ENTITY e "">]><a>x&e;y</a>'),
    ('entity-text', '<!DOCTYPE a [<!ENTITY e "a&#10;b">]><a x="&e;">&e;</a>'),
    ('entity-text', '<!DOCTYPE a [<!ENTITY e "a\nb\tc">]><a x="&e;">&e;</a>'),
    ('empty-cdata', '<a><![CDATA[]]></a>'), ('empty-cdata', '<a>x<![CDATA[]]>y</a>'), ('empty-cdata', '<a><b/><![CDATA[]]><b/></a>'),
    ('eol', '<a>x\r\ny\rz</a>'), ('eol', '<a x="a\r\nb\rc"/>'), ('eol', '<a><!--x\r\ny--><?p a\r\nb?><![CDATA[a\r\nb]]></a>'), ('eol', '<a\r\nx="1"\r/>'),
    ('eol', '<a>&#13;&#10;</a>'), ('eol', '<!DOCTYPE a [<!ENTITY e "a\r\nb">]><a>&e;</a>'),
    ('pubid', '<!DOCTYPE a [<!NOTATION n PUBLIC " a  b ">]><a/>'), ('pubid', '<!DOCTYPE a PUBLIC " a\n b " "s"><a/>'),
    ('pubid', '<!DOCTYPE a [<!NOTATION n PUBLIC "a b" "s"><!ENTITY u PUBLIC "p" "s" NDATA n>]><a/>'),
    ('xmlns-like', '<a xmlnsx="1"/>'), ('xmlns-like', '<xmlnsfoo/>'), ('xmlns-like', '<a xmlns2="u"/>'), ('xmlns-like', '<!DOCTYPE a [<!ATTLIST a xmlnsx CDATA "1">]><a/>'),
    ('attlist', '<!DOCTYPE a [<!ATTLIST a x CDATA "1"><!ATTLIST a y CDATA "2">]><a/>'),
    ('attlist', '<!DOCTYPE a [<!ATTLIST a x CDATA "1" x CDATA "2">]><a/>'),
    ('attlist', '<!DOCTYPE a [<!ATTLIST a x NMTOKENS #IMPLIED>]><a x="  a   b  "/>'),
    ('attlist', '<!DOCTYPE a [<!ATTLIST a x NMTOKENS " a   b ">]><a/>'),
    ('attlist', '<!DOCTYPE a [<!ATTLIST a x CDATA #REQUIRED>]><a/>'),
    ('attlist', '<!DOCTYPE a [<!ATTLIST a x CDATA #FIXED "v" y ID #IMPLIED>]><a y=" i "/>'),
    ('attlist', '<!DOCTYPE a [<!ENTITY e "v"><!ATTLIST a x CDATA "&e;">]><a/>'),
    ('attlist', '<!DOCTYPE a [<!ATTLIST b x CDATA "d">]><a><b/><b x="s"/></a>'),
    ('attlist', '<!DOCTYPE a [<!ATTLIST a xmlns:p CDATA "u">]><a xmlns:p="v"/>'), ('attlist', '<!DOCTYPE a [<!ATTLIST a xmlns CDATA "u">]><a xmlns="v"/>'),    # D65 (repaired in 703c414)
    # D67 (repaired in bf629dc): namespace declarations supplied by ATTLIST defaults move from attributes() to namespace_attributes()
    ('attlist-nsdefault', '<!DOCTYPE r [<!ATTLIST r xmlns:p CDATA "urn:p" xmlns CDATA "urn:d">]><r><p:a p:x="1"/></r>'),
    ('attlist-nsdefault', '<!DOCTYPE a [<!ATTLIST a xmlns CDATA "">]><a/>'), ('attlist-nsdefault', '<!DOCTYPE a [<!ATTLIST a xmlns:p CDATA #FIXED "u">]><a p:x="1"/>'),
    ('attlist-nsdefault', '<!DOCTYPE a [<!ATTLIST a xmlns:p CDATA #IMPLIED xmlns CDATA #IMPLIED>]><a/>'),
    ('attlist-nsdefault', '<!DOCTYPE a [<!ATTLIST a xmlns:p CDATA #REQUIRED>]><a xmlns:p="v"/>'),
    ('attlist-nsdefault', '<!DOCTYPE a [<!ATTLIST p:b xmlns:p CDATA "u" xmlns:q CDATA "w" q:y CDATA "d">]><a><p:b/><p:b xmlns:p="v" q:y="s"/></a>'),
    ('attlist-nsdefault', '<!DOCTYPE a [<!ATTLIST a xmlns:p CDATA "u"><!ATTLIST a xmlns:p CDATA "w" xmlns:q CDATA "w">]><a x="1"/>'),
    ('attlist-nsdefault', '<!DOCTYPE a [<!ATTLIST a xmlns:p CDATA #IMPLIED xmlns:p CDATA "w" y NMTOKENS " 1  2 ">]><a/>'),
    ('attlist-nsdefault', '<!DOCTYPE a [<!ENTITY e "urn:e"><!ATTLIST a xmlns:p CDATA " &e; " xmlns NMTOKEN " t ">]><a/>'),
    ('attlist-nsdefault-required', '<!DOCTYPE a [<!ATTLIST a xmlns:p CDATA #REQUIRED>]><a/>'),
    ('doctype', '<!DOCTYPE p:a [<!ELEMENT p:a EMPTY>]><p:a xmlns:p="u"/>'),
    ('doctype', '<!DOCTYPE a [<?p in dtd?><!--c--><!NOTATION n SYSTEM "s"><!ENTITY u SYSTEM "f" NDATA n><!ENTITY u SYSTEM "g" NDATA n>]><a/>'),
    ('pi', '<?p?><a/>'), ('pi', '<?p ?><a/>'), ('pi', '<?p   x ?><a/>'), ('pi', '<a><?p a?b?></a><?q  ?>'),
    ('text', '<a> x &lt;&#60;<![CDATA[<]]> y </a>'), ('text', '<a>&#x1F600;\U0001F600</a>'), ('text', "<a x='&quot;\"' y=\"&apos;'\"/>"),
    ('text', '<a x="&#9;&#10;&#13; \t\n"/>'), ('text', '<a>]]&gt;]]<![CDATA[>]]></a>'),
    ('xmldecl', '<?xml version="1.0"?><a/>'), ('xmldecl', "<?xml version='1.1' encoding='UTF-8' standalone='yes'?><a/>"), ('xmldecl', '<?xml version="1.0" standalone="no" ?>\n<a/>'),
]

def check(run):
    run.trusted = ['Coq 8.16.1 kernel + VM', 'Spec/Infoset.v + Spec/XmlWF.v (cross-validated against expat on every case of this run)',
                   'extraction (ExtrOcamlBasic only) + ocaml/specdomains/wf/wfdoc.ml (reader of the serialised abstract document, dump printer)',
                   'harness/src/domains/wfdoc.rs (dump through the public accessors)', 'tools/gen/wfgen.py (generator; its output is re-validated by the extracted `valid`)']
    if os.environ.get('VERIF_SEARCH_ONLY'):
        run.notes.append('VERIF_SEARCH_ONLY set: proof step skipped')
    else:
        lib.proof_step(run, 'C01', ['T1', 'T2'])
    okr, mok, sok = lib.build_binaries(run, model_areas=['wfview'], spec_areas=['wf'])
    if not (okr and sok.get('wf')):
        return run.finish(level='proof', rule='(binaries did not build)')
    t0 = time.time()
    n = 2000 if run.tier == 'quick' else 60000
    failures = []       # (text, family, verdict, impl tokens, spec tokens, view)
    disagreements = run.extra.setdefault('oracle_disagreements', [])
    # ---- (1) generated triples
    gens = W.generated(run, n)
    texts, meta = [], []
    invalid = 0
    for g in gens:
        if not g['valid']:
            invalid += 1; continue
        if not (g['w1'] and g['w2'] and g['i1'] and g['i2']):
            if len(run.tie_breaks) < 5:
                run.tie_breaks.append('specification self-consistency: wf(render)=%s/%s infoset_of_string(render)=denote: %s/%s on %r' % (g['w1'], g['w2'], g['i1'], g['i2'], g['r1'][:120]))
            continue
        for r in (g['r1'], g['r2']):
            texts.append(r); meta.append(g)
    run.extra['generated_invalid'] = invalid
    impl = W.run_impl(run, texts, 'd')
    sizes = {}
    for k, (t, g, o) in enumerate(zip(texts, meta, impl)):
        run.evaluations += 1
        if k % 2 == 0:
            h = hashlib.sha1(wfgen.serialise(g['adoc']).encode()).hexdigest()
            if len(g['features']) >= 3:
                run.nontrivial.add(h)
            for f in g['features']:
                run.count('feature:' + f)
            run.count('items:%d-%d' % (wfgen.count_items(g['adoc']) // 10 * 10, wfgen.count_items(g['adoc']) // 10 * 10 + 9))
            run.count('depth:%d' % wfgen.depth(g['adoc']['root']))
            run.count('feature-classes:%d' % min(len(g['features']), 12))
        den = g['denote'].split(' ')
        # oracle
        ex = expat_oracle.infoset(t)
        if ex is None or ex.split(' ') != den:
            kd = expat_oracle.known_difference(t, True, ex is not None)
            run.count('oracle:%s' % ('known-difference' if kd else 'DISAGREEMENT'))
            if not kd and len(disagreements) < 20:
                disagreements.append({'input': t, 'spec': g['denote'][:400], 'expat': (ex or 'rejected')[:400]})
        else:
            run.count('oracle:agree')
        if not o.startswith('accept'):
            run.count('impl:' + o.split(' ')[0])
            failures.append((t, 'generated', o.split(' ')[0], [], den, 'verdict', g))
            continue
        run.count('impl:accept')
        body = o[len('accept R '):]
        R, M = body.split(' M ')
        Mt = M.split(' ')
        Rt = merge_raw(R.split(' '))
        if Mt != den:
            failures.append((t, 'generated', 'accept', Mt, den, 'merged', g))
        elif Rt != den:
            failures.append((t, 'generated', 'accept', Rt, den, 'raw', g))
    # ---- (2) hand-written documents of the profile
    hand = [(fam, d) for fam, d, e10, ens in W.crafted() if ens] + PROFILE_EXTRA
    # generated documents whose DTD supplies namespace declarations (and prefixed attributes) by default: the documents of
    # the C10 campaign (checks/C10.py random_dtd_case / small_universe_dtd), here through the infoset and the dom view
    from . import C10 as _C10
    nsd = []
    uni = _C10.small_universe(run.rng)
    for i, dd in enumerate(run.rng.sample(uni, 130 if run.tier == 'quick' else 1300)):
        fam, doc, dtd = _C10.small_universe_dtd(run.rng, dd, i)
        nsd.append((doc, dtd))
    for _ in range(400 if run.tier == 'quick' else 6000):
        nsd.append(_C10.random_dtd_case(run.rng))
    nsd = [('attlist-nsdefault-generated', _C10.render_case_xml({'doc': doc, 'dtd': dtd})) for doc, dtd in nsd if _C10.nswf(_C10.apply_defaults(dtd, doc))]
    run.extra['generated_with_attlist_namespace_defaults'] = len(nsd)
    hand += nsd
    sv = W.spec_verdicts(run, [d for _, d in hand], 'd')
    docs2 = []
    for (fam, d), (x10, ns, inf) in zip(hand, sv):
        import re as _re
        ext = _re.search(r'<!DOCTYPE\s+\S+\s+(SYSTEM|PUBLIC)', d)
        declared = set(W.entity_literals(d)) | set(_re.findall(r'<!ENTITY\s+(\S+)\s+(?:SYSTEM|PUBLIC)', d)) | {'lt', 'gt', 'amp', 'apos', 'quot'}
        undeclared = [m for m in _re.findall(r'&([^;#&\s]+);', d) if m not in declared]
        if ns != 'wf' or inf is None or ('<!ENTITY %' in d) or (' x:' in inf and not (ext and undeclared)):
            run.count('hand:outside-profile'); continue
        # (a direct reference to an entity that only an unread external subset can declare stays in the list: the
        # text is well-formed -- Entity Declared is a validity constraint there -- and denotes an unexpanded
        # entity reference item; listed finding WF24)
        docs2.append((fam, d, inf))
    verdict_only = {d for _, d, inf in docs2 if ' x:' in inf}     # unexpanded references: outside the infoset profile, only acceptance is claimed
    impl2 = W.run_impl(run, [d for _, d, _ in docs2], 'd')
    for (fam, d, inf), o in zip(docs2, impl2):
        run.evaluations += 1
        run.count('hand:' + fam)
        run.nontrivial.add('hand:' + d)
        ex = expat_oracle.infoset(d)
        if ex is None or ex != inf:
            kd = expat_oracle.known_difference(d, True, ex is not None)
            run.count('oracle:%s' % ('known-difference' if kd else 'DISAGREEMENT'))
            if not kd and len(disagreements) < 20:
                disagreements.append({'input': d, 'spec': inf[:400], 'expat': (ex or 'rejected')[:400]})
        else:
            run.count('oracle:agree')
        den = inf.split(' ')
        if not o.startswith('accept'):
            failures.append((d, fam, o.split(' ')[0], [], den, 'verdict', None)); continue
        if d in verdict_only:
            continue
        R, M = o[len('accept R '):].split(' M ')
        if M.split(' ') != den:
            failures.append((d, fam, 'accept', M.split(' '), den, 'merged', None))
        elif merge_raw(R.split(' ')) != den:
            failures.append((d, fam, 'accept', merge_raw(R.split(' ')), den, 'raw', None))
    # ---- (3) the model of the DOM accessors (Model/DomView.v, extracted; domain wfview) against the implementation:
    # same texts (renderings of the generated documents, hand-written documents of the profile), same dump format
    if mok.get('wfview'):
        vt = texts + [d for _, d, _ in docs2]
        _, vm = lib.run_bin(lib.model_bin('wfview'), ['wfview'], ['d ' + lib.enc(t) for t in vt], timeout=2400, shards=lib.NPROC)
        run.extra['dom_view_unwritten_required_nsdecl'] = sum(1 for t in vt if unwritten_required_nsdecl(t))
        run.extra['dom_view_with_defaulted_namespace_declaration'] = sum(
            1 for t in vt if any((a == 'xmlns' or a.startswith('xmlns:')) and (dflt[0] != '#' or dflt.startswith('#FIXED')) for _, a, _, dflt in attr_decls(t)))
        vd = [(t, a, b) for t, a, b in zip(vt, impl + impl2, vm + ['crash'] * (len(vt) - len(vm))) if a != b]
        run.extra['dom_view_compared'], run.extra['dom_view_differences'] = len(vt), len(vd)
        for t, a, b in vd[:5]:
            run.tie_breaks.append('dom view correspondence: %d of %d texts differ, e.g. %r: implementation %s / model %s' % (len(vd), len(vt), t[:120], a[:200], b[:200]))
    run.extra['search_seconds'] = round(time.time() - t0, 1)
    # ---- verdict
    listed = {e.get('id') for e in lib.known_findings('C01')}
    for t, fam, verdict, a, b, view, g in failures:
        ids = explain(t, a, b, verdict, run)
        first = next(((x, y) for x, y in zip(a, b) if x != y), (a[len(b):len(b) + 1], b[len(a):len(a) + 1]))
        if ids and all(i in listed for i in ids):
            for fid in ids:
                what, cnt = run.known_hits.get(fid, (FINDINGS[fid] + ' e.g. %r' % t[:80], 0))
                run.known_hits[fid] = (what, cnt + 1)
        else:
            run.failing_inputs.append({'property': 'C01', 'class': '%s:%s' % (view, ('rejected' if verdict != 'accept' else 'infoset differs')),
                                       'what': ('well-formed document of the profile refused (%s)' % verdict) if verdict != 'accept'
                                               else 'the %s view exposes %s where the text denotes %s' % (view, first[0], first[1]),
                                       'input': t, 'input_codepoints': lib.enc(t), 'family': fam, 'implementation': ' '.join(a), 'denotes': ' '.join(b),
                                       'partial_explanation': ids,
                                       'abstract': wfgen.serialise(g['adoc'])[:4000] if g else None})
    for g in gens[:3]:
        run.sample({'rendering1': g['r1'][:160], 'rendering2': g['r2'][:160], 'features': g['features'], 'denote': g['denote'][:160]})
    for fam, d, inf in docs2[:3]:
        run.sample({'hand': d, 'denotes': inf[:160]})
    return run.finish(level='proof',
        rule='cases = rendered texts (2 per generated abstract document) + hand-written profile documents; distinct = hash of the abstract document (or the text); non-trivial = uses >= 3 feature classes; histogram: feature classes, item counts, depth, implementation verdicts, oracle agreement',
        assumptions=['Rust String = sequence of Unicode scalar values', 'readings of DESIGN 7.3 for C01 (PI data "" vs absent are distinct abstract documents)',
                     'expat differences listed in tools/gen/expat_oracle.py are not specification bugs'])

def replay(path):
    d = json.load(open(path))
    print(json.dumps({k: v for k, v in d.items() if k not in ('input_codepoints', 'abstract')}, indent=1, ensure_ascii=False))
    if 'input' in d:
        class R:
            def count(self, *a): pass
            tie_breaks = []
        s = d['input']
        print('implementation :', W.run_impl(R(), [s], 'd')[0][:600])
        print('specification  :', W.spec_verdicts(R(), [s], 'd')[0])
        print('expat          :', expat_oracle.infoset(s))
    return 0
