(** * Facts about the tree interpretation [ParseActionsXPath.act] and the abstraction
    [XPathAstAbs.abs_*] (no strings, no parsing): how the value of an operator chain grows when
    one more operation is appended, for each of the seven chain productions. *)
From Coq Require Import List NArith Arith Lia Bool.
From XmlRs Require Import Base.CPred Spec.XPathSyntax Model.Peg Model.XPathAst
  Model.ParseActionsXPath Model.XPathAstAbs Gen.GrammarXPathGen.
Import ListNotations.

Definition clean (v : val) : Prop := poisoned v = None.

Lemma first_poison_app l1 l2 :
  first_poison l1 = None -> first_poison (l1 ++ l2) = first_poison l2.
Proof.
  induction l1 as [|v l1 IH]; cbn [first_poison app]; [reflexivity|].
  destruct (poisoned v); [discriminate|]. exact IH.
Qed.

Lemma act_list_vals l vs : act (TList l) = VList vs -> vs = map act l /\ first_poison (map act l) = None.
Proof.
  cbn [act]. destruct (first_poison (map act l)) as [p|] eqn:E.
  - intros H. exfalso. clear -E H. induction (map act l) as [|v l' IH]; cbn [first_poison] in E; [discriminate|].
    destruct v; cbn [poisoned] in E; try (apply IH; exact E); injection E as <-; discriminate.
  - intros H. injection H as <-. auto.
Qed.

Lemma act_list_nil : act (TList []) = VList [].
Proof. reflexivity. Qed.

Lemma act_list_snoc l vs t v :
  act (TList l) = VList vs -> act t = v -> clean v -> act (TList (l ++ [t])) = VList (vs ++ [v]).
Proof.
  intros Hl Ht Hv. destruct (act_list_vals _ _ Hl) as [-> Hp]. cbn [act].
  rewrite map_app. cbn [map]. rewrite (first_poison_app _ _ Hp). cbn [first_poison].
  rewrite Ht. unfold clean in Hv. rewrite Hv. reflexivity.
Qed.

Lemma act_list_cons t l v vs :
  act t = v -> clean v -> act (TList l) = VList vs -> act (TList (t :: l)) = VList (v :: vs).
Proof.
  intros Ht Hv Hl. destruct (act_list_vals _ _ Hl) as [-> Hp]. cbn [act map first_poison].
  rewrite Ht. unfold clean in Hv. rewrite Hv, Hp. reflexivity.
Qed.

Lemma act_pair a b x y : act a = x -> clean x -> act b = y -> clean y -> act (TPair a b) = VPair x y.
Proof. intros Ha Hx Hb Hy. cbn [act]. rewrite Ha, Hb. unfold clean in *. now rewrite Hx, Hy. Qed.

(** ** appending one operation to each kind of operation list *)
Fixpoint snoc_and (l : and_list) (a : and_expr) : and_list :=
  match l with AndNil => AndCons a AndNil | AndCons x t => AndCons x (snoc_and t a) end.
Fixpoint snoc_eq (l : eq_list) (a : eq_expr) : eq_list :=
  match l with EqNil => EqCons a EqNil | EqCons x t => EqCons x (snoc_eq t a) end.
Fixpoint snoc_eqop (l : eqop_list) (o : eq_op) (a : rel_expr) : eqop_list :=
  match l with EqopNil => EqopCons o a EqopNil | EqopCons o' x t => EqopCons o' x (snoc_eqop t o a) end.
Fixpoint snoc_relop (l : relop_list) (o : rel_op) (a : add_expr) : relop_list :=
  match l with RelopNil => RelopCons o a RelopNil | RelopCons o' x t => RelopCons o' x (snoc_relop t o a) end.
Fixpoint snoc_addop (l : addop_list) (o : add_op) (a : mul_expr) : addop_list :=
  match l with AddopNil => AddopCons o a AddopNil | AddopCons o' x t => AddopCons o' x (snoc_addop t o a) end.
Fixpoint snoc_mulop (l : mulop_list) (o : mul_op) (a : unary_expr) : mulop_list :=
  match l with MulopNil => MulopCons o a MulopNil | MulopCons o' x t => MulopCons o' x (snoc_mulop t o a) end.
Fixpoint snoc_path (l : path_list) (a : path_expr) : path_list :=
  match l with PathNil => PathCons a PathNil | PathCons x t => PathCons x (snoc_path t a) end.

Lemma to_ands_snoc vs l a : to_ands vs = Some l -> to_ands (vs ++ [VAnd a]) = Some (snoc_and l a).
Proof.
  revert l; induction vs as [|v vs IH]; intros l; cbn [to_ands app].
  - intros H; injection H as <-. reflexivity.
  - destruct v; try discriminate. destruct (to_ands vs) as [rs|]; [|discriminate].
    intros H; injection H as <-. now rewrite (IH rs eq_refl).
Qed.
Lemma abs_ands_snoc l a acc : abs_ands acc (snoc_and l a) = XBin BOr (abs_ands acc l) (abs_and a).
Proof. revert acc; induction l as [|x t IH]; intros acc; cbn [snoc_and abs_ands]; [reflexivity|apply IH]. Qed.

Lemma to_eqs_snoc vs l a : to_eqs vs = Some l -> to_eqs (vs ++ [VEq a]) = Some (snoc_eq l a).
Proof.
  revert l; induction vs as [|v vs IH]; intros l; cbn [to_eqs app].
  - intros H; injection H as <-. reflexivity.
  - destruct v; try discriminate. destruct (to_eqs vs) as [rs|]; [|discriminate].
    intros H; injection H as <-. now rewrite (IH rs eq_refl).
Qed.
Lemma abs_eqs_snoc l a acc : abs_eqs acc (snoc_eq l a) = XBin BAnd (abs_eqs acc l) (abs_eq a).
Proof. revert acc; induction l as [|x t IH]; intros acc; cbn [snoc_eq abs_eqs]; [reflexivity|apply IH]. Qed.

Lemma to_paths_snoc vs l a : to_paths vs = Some l -> to_paths (vs ++ [VPath a]) = Some (snoc_path l a).
Proof.
  revert l; induction vs as [|v vs IH]; intros l; cbn [to_paths app].
  - intros H; injection H as <-. reflexivity.
  - destruct v; try discriminate. destruct (to_paths vs) as [rs|]; [|discriminate].
    intros H; injection H as <-. now rewrite (IH rs eq_refl).
Qed.
Lemma abs_paths_snoc l a acc : abs_paths acc (snoc_path l a) = XBin BUnion (abs_paths acc l) (abs_path a).
Proof. revert acc; induction l as [|x t IH]; intros acc; cbn [snoc_path abs_paths]; [reflexivity|apply IH]. Qed.

Lemma to_eqops_snoc vs l o a :
  to_eqops vs = Some l -> to_eqops (vs ++ [VPair (VEqOp o) (VRel a)]) = Some (snoc_eqop l o a).
Proof.
  revert l; induction vs as [|v vs IH]; intros l; cbn [to_eqops app].
  - intros H; injection H as <-. reflexivity.
  - destruct v as [| x y | | | | | | | | | | | | | | | | | | | | | | | | | | | | | | | ]; try discriminate.
    destruct x; try discriminate. destruct y; try discriminate.
    destruct (to_eqops vs) as [rs|]; [|discriminate].
    intros H; injection H as <-. now rewrite (IH rs eq_refl).
Qed.
Lemma abs_eqops_snoc l o a acc :
  abs_eqops acc (snoc_eqop l o a) = XBin (abs_eq_op o) (abs_eqops acc l) (abs_rel a).
Proof. revert acc; induction l as [|o' x t IH]; intros acc; cbn [snoc_eqop abs_eqops]; [reflexivity|apply IH]. Qed.

Lemma to_relops_snoc vs l o a :
  to_relops vs = Some l -> to_relops (vs ++ [VPair (VRelOp o) (VAdd a)]) = Some (snoc_relop l o a).
Proof.
  revert l; induction vs as [|v vs IH]; intros l; cbn [to_relops app].
  - intros H; injection H as <-. reflexivity.
  - destruct v as [| x y | | | | | | | | | | | | | | | | | | | | | | | | | | | | | | | ]; try discriminate.
    destruct x; try discriminate. destruct y; try discriminate.
    destruct (to_relops vs) as [rs|]; [|discriminate].
    intros H; injection H as <-. now rewrite (IH rs eq_refl).
Qed.
Lemma abs_relops_snoc l o a acc :
  abs_relops acc (snoc_relop l o a) = XBin (abs_rel_op o) (abs_relops acc l) (abs_add a).
Proof. revert acc; induction l as [|o' x t IH]; intros acc; cbn [snoc_relop abs_relops]; [reflexivity|apply IH]. Qed.

Lemma to_addops_snoc vs l o a :
  to_addops vs = Some l -> to_addops (vs ++ [VPair (VAddOp o) (VMul a)]) = Some (snoc_addop l o a).
Proof.
  revert l; induction vs as [|v vs IH]; intros l; cbn [to_addops app].
  - intros H; injection H as <-. reflexivity.
  - destruct v as [| x y | | | | | | | | | | | | | | | | | | | | | | | | | | | | | | | ]; try discriminate.
    destruct x; try discriminate. destruct y; try discriminate.
    destruct (to_addops vs) as [rs|]; [|discriminate].
    intros H; injection H as <-. now rewrite (IH rs eq_refl).
Qed.
Lemma abs_addops_snoc l o a acc :
  abs_addops acc (snoc_addop l o a) = XBin (abs_add_op o) (abs_addops acc l) (abs_mul a).
Proof. revert acc; induction l as [|o' x t IH]; intros acc; cbn [snoc_addop abs_addops]; [reflexivity|apply IH]. Qed.

Lemma to_mulops_snoc vs l o a :
  to_mulops vs = Some l -> to_mulops (vs ++ [VPair (VMulOp o) (VUnary a)]) = Some (snoc_mulop l o a).
Proof.
  revert l; induction vs as [|v vs IH]; intros l; cbn [to_mulops app].
  - intros H; injection H as <-. reflexivity.
  - destruct v as [| x y | | | | | | | | | | | | | | | | | | | | | | | | | | | | | | | ]; try discriminate.
    destruct x; try discriminate. destruct y; try discriminate.
    destruct (to_mulops vs) as [rs|]; [|discriminate].
    intros H; injection H as <-. now rewrite (IH rs eq_refl).
Qed.
Lemma abs_mulops_snoc l o a acc :
  abs_mulops acc (snoc_mulop l o a) = XBin (abs_mul_op o) (abs_mulops acc l) (abs_unary a).
Proof. revert acc; induction l as [|o' x t IH]; intros acc; cbn [snoc_mulop abs_mulops]; [reflexivity|apply IH]. Qed.

(** ** expression lists (arguments, predicates) *)
Fixpoint exprs_of (l : list or_expr) : expr_list :=
  match l with [] => ExprNil | e :: t => ExprCons e (exprs_of t) end.

Lemma to_exprs_map l : to_exprs (map VOr l) = Some (exprs_of l).
Proof. induction l as [|e l IH]; cbn [map to_exprs exprs_of]; [reflexivity|]. now rewrite IH. Qed.

Lemma abs_exprs_of l : abs_exprs (exprs_of l) = map abs_or l.
Proof. induction l as [|e l IH]; cbn [exprs_of abs_exprs map]; [reflexivity|]. now rewrite IH. Qed.
