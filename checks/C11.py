"""C11 -- attribute values are normalized and defaulted as XML 1.0 3.3.3 requires.

An abstract case (the object the theorems of Properties/C11.v quantify over) is
  {'decls': [('e', name, pieces) | ('l', element, [(attr, TYPE, kind, pieces)])...],   # internal subset, in order
   'el': name, 'attrs': [(attr, pieces)]}                                            # the start-tag
with pieces = [('t', text) | ('c', code point) | ('r', entity name)], kind in I R D F.
It is rendered to XML text for the real crates (harness domain `attr`) and to the word form read by the
extracted model and specification (ocaml/{domains,specdomains}/nsattr/attr.ml)."""
import itertools, json, os
from . import lib

TYPES = ['CDATA', 'ID', 'IDREF', 'IDREFS', 'ENTITY', 'ENTITIES', 'NMTOKEN', 'NMTOKENS', 'NOTATION', 'ENUM']
KINDS = ['I', 'R', 'D', 'F']
PREDEF = ['lt', 'gt', 'amp', 'apos', 'quot']

# ------------------------------------------------------------------ the piece universe of DESIGN 5.11
TEXTS = ['x', ' ', '\t', '\n', '\r', ' x ', '  ', '\u00a0', 'a\u3000b', '\u2028x', '\u0085']   # the last four: white space for Unicode, NOT for XML (3.3.3 names #x20 #xD #xA #x9 only)
CREFS = [9, 10, 13, 32, 60, 38, 34, 39, 120, 160, 0x3000]
# entities of nesting depth 1..3 whose literals mix text, white space, character and entity references
ENTS = {
    'e1': [('t', ' '), ('c', 10), ('t', 'y')],
    'e2': [('c', 9)],
    'e3': [('t', '\r\n')],
    'e4': [('c', 32), ('t', ' '), ('c', 32)],
    'e5': [],
    'e6': [('t', '\u00a0'), ('c', 0x2003), ('t', 'w')],
    'f1': [('r', 'e1'), ('t', ' '), ('r', 'e2')],
    'f2': [('c', 13), ('r', 'e3')],
    'f3': [('r', 'lt'), ('r', 'amp'), ('r', 'quot'), ('c', 39)],
    'g1': [('t', 'z'), ('r', 'f1'), ('c', 10), ('r', 'f2')],
    'g2': [('r', 'f3'), ('r', 'e4'), ('r', 'e5')],
}
ALPHABET = [('t', t) for t in TEXTS] + [('c', c) for c in CREFS] + [('r', n) for n in list(ENTS) + PREDEF]

def reach(pieces, table, seen=None):
    """names of the declared entities a literal needs, dependencies first"""
    seen = [] if seen is None else seen
    for k, v in pieces:
        if k == 'r' and v in table and v not in seen:
            reach(table[v], table, seen)
            if v not in seen:
                seen.append(v)
    return seen

# ------------------------------------------------------------------ rendering
def r_pieces(pieces, hexrefs=False):
    out = []
    for k, v in pieces:
        if k == 't': out.append(v)
        elif k == 'c': out.append('&#x%X;' % v if hexrefs else '&#%d;' % v)
        else: out.append('&%s;' % v)
    return ''.join(out)

def r_type(t):
    return {'NOTATION': 'NOTATION (n)', 'ENUM': '(x|y)'}.get(t, t)

def render_xml(case, hexrefs=False):
    ds = []
    for d in case['decls']:
        if d[0] == 'e':
            ds.append('<!ENTITY %s "%s">' % (d[1], r_pieces(d[2], hexrefs)))
        else:
            defs = []
            for a, ty, k, ps in d[2]:
                dv = {'I': '#IMPLIED', 'R': '#REQUIRED'}.get(k) or (('#FIXED ' if k == 'F' else '') + '"%s"' % r_pieces(ps, hexrefs))
                defs.append(' %s %s %s' % (a, r_type(ty), dv))
            ds.append('<!ATTLIST %s%s>' % (d[1], ''.join(defs)))
    attrs = ''.join(' %s="%s"' % (a, r_pieces(ps, hexrefs)) for a, ps in case['attrs'])
    dt = '<!DOCTYPE %s [%s]>' % (case['el'], ''.join(ds)) if ds else ''
    return '%s<%s%s/>' % (dt, case['el'], attrs)

def w_name(s):
    return '.'.join(str(ord(c)) for c in s) if s else '-'

def w_pieces(pieces):
    if not pieces: return '-'
    return '+'.join({'t': 't', 'c': 'c', 'r': 'r'}[k] + (str(v) if k == 'c' else w_name(v)) for k, v in pieces)

def render_words(case):
    ws = []
    for d in case['decls']:
        if d[0] == 'e':
            ws.append('e:%s:%s' % (w_name(d[1]), w_pieces(d[2])))
        else:
            ws.append('l:%s:%s' % (w_name(d[1]), '|'.join('%s,%s,%s,%s' % (w_name(a), ty, k, w_pieces(ps)) for a, ty, k, ps in d[2])))
    ws.append('x:%s:%s' % (w_name(case['el']), '|'.join('%s,%s' % (w_name(a), w_pieces(ps)) for a, ps in case['attrs'])))
    return ' '.join(ws)

def canon(line):
    """observation lines are compared after mapping every refusal to `err`"""
    return 'err' if line.startswith('err') else line

# ------------------------------------------------------------------ abstract readings used by the classifiers
def merged_defs(case):
    out = []
    for d in case['decls']:
        if d[0] == 'l' and d[1] == case['el']:
            for df in d[2]:
                if all(x[0] != df[0] for x in out):
                    out.append(df)
    return out

def known36(case):
    """D36: a #REQUIRED definition (after merging, first wins) whose attribute is not written"""
    written = {a for a, _ in case['attrs']}
    return any(k == 'R' and a not in written and not is_nsdecl(a) for a, ty, k, ps in merged_defs(case))

def is_nsdecl(a):
    """xmlns or xmlns:p -- never a member of [attributes], written or defaulted (D67: a #REQUIRED one is not materialised either)"""
    return a == 'xmlns' or a.startswith('xmlns:')

def known_esc(case):
    """D56: an entity literal contains a character reference to '&'"""
    return any(d[0] == 'e' and any(k == 'c' and v == 38 for k, v in d[2]) for d in case['decls'])

def all_pieces(case):
    for d in case['decls']:
        if d[0] == 'e': yield from d[2]
        else:
            for a, ty, k, ps in d[2]: yield from ps
    for a, ps in case['attrs']: yield from ps

def nontrivial(case):
    return any(k in ('c', 'r') or (k == 't' and any(ch in '\t\n\r' for ch in v)) for k, v in all_pieces(case))

# ------------------------------------------------------------------ generators
OTHER = [('t', ' d  d ')]      # the default literal when the literal under test is written

def mk_case(lit, ty, kind, written, layout, table=ENTS, a='a'):
    """the attribute under test is `a` on element `e` (or a namespace declaration `xmlns` / `xmlns:p`: it must never
    be listed, written or defaulted -- XML Infoset 2.2, D67).
    layout: 0 no ATTLIST | 1 one ATTLIST | 2 two ATTLISTs, a in the second | 3 two ATTLISTs both declare a
            | 4 one ATTLIST declares a twice | 5 an ATTLIST of another element first"""
    dflt = OTHER if written else lit
    need = reach(lit + (dflt if kind in 'DF' and layout else []), table)
    decls = [('e', n, table[n]) for n in need]
    d = (a, ty, kind, dflt if kind in 'DF' else [])
    shadow = (a, 'NMTOKENS' if ty == 'CDATA' else 'CDATA', 'D', [('t', ' ZZ ')])
    if layout == 1: decls.append(('l', 'e', [d]))
    elif layout == 2: decls += [('l', 'e', [('b', 'CDATA', 'D', [('t', '1')])]), ('l', 'e', [d])]
    elif layout == 3: decls += [('l', 'e', [d]), ('l', 'e', [shadow, ('c', 'NMTOKEN', 'F', [('t', ' 2 ')])])]
    elif layout == 4: decls.append(('l', 'e', [d, shadow]))
    elif layout == 5: decls += [('l', 'f', [shadow]), ('l', 'e', [d])]
    return {'decls': decls, 'el': 'e', 'attrs': [(a, lit)] if written else []}

NS_NAMES = ['xmlns', 'xmlns:p', 'xmlns:q']

def nsdecl_cases(rng):
    """namespace declarations in attribute-list declarations (D67): every kind x written x layout for xmlns / xmlns:p next to
    an ordinary default, plus the ordinary look-alikes q:xmlns and xmlnsx"""
    out = []
    lits = [[('t', 'u')], [], [('t', ' u  v ')], [('c', 117), ('r', 'e5')]]
    for a in NS_NAMES[:2] + ['q:xmlns', 'xmlnsx']:
        for kind in KINDS:
            for written in (True, False):
                for layout in (1, 2, 3, 4, 5):
                    for ty in ('CDATA', 'NMTOKENS'):
                        c = mk_case(rng.choice(lits), ty, kind, written, layout, a=a)
                        c['decls'].append(('l', 'e', [('z', 'CDATA', 'D', [('t', '9')]), ('xmlns:q', 'CDATA', rng.choice('DFI'), [('t', 'w')])]))
                        if rng.random() < 0.5: c['attrs'].append(('xmlns:q', [('t', 'written')]))
                        out.append(c)
    return out

def literals(maxlen):
    for n in range(maxlen + 1):
        for tup in itertools.product(ALPHABET, repeat=n):
            yield list(tup)

def exhaustive_cases(tier, rng):
    """every literal of <= 3 pieces in three declaration contexts, and every (type, kind, written, layout)
    with the shorter literals"""
    out = []
    lits3 = list(literals(3))
    for lit in lits3:
        out.append(mk_case(lit, 'CDATA', 'I', True, 0))
        out.append(mk_case(lit, 'NMTOKENS', 'I', True, 1))
        out.append(mk_case(lit, 'IDREFS', 'D', False, 2))
    short = list(literals(1)) + [list(t) for t in rng.sample(list(itertools.product(ALPHABET, repeat=2)), 120)]
    for lit in short:
        for ty in TYPES:
            for kind in KINDS:
                for written in (True, False):
                    if not written and kind in 'IR' and lit:
                        continue
                    for layout in (1, 2, 3, 4, 5):
                        out.append(mk_case(lit, ty, kind, written, layout))
    return out

def rand_pieces(rng, names, n):
    out = []
    for _ in range(n):
        r = rng.random()
        if r < 0.4: out.append(('t', ''.join(rng.choice(' \t\n\rxy\'') for _ in range(rng.randint(1, 4)))))
        elif r < 0.65: out.append(('c', rng.choice(CREFS + [65, 0x3042, 0x1F600])))
        elif names: out.append(('r', rng.choice(names + PREDEF[:2])))
        else: out.append(('r', rng.choice(PREDEF)))
    return out

def random_case(rng):
    """random tables (depth <= 4, re-declarations, an unused cycle-free tail), longer literals, several
    attributes, several ATTLISTs; a few ill-formed ones (entity declared after its use in a default,
    undeclared nested reference)"""
    n = rng.randint(0, 5)
    names = ['n%d' % i for i in range(n)]
    table = {}
    for i, nm in enumerate(names):
        table[nm] = [p for p in rand_pieces(rng, names[:i], rng.randint(0, 4)) if not (p[0] == 'c' and p[1] in (38, 60))]
    decls = [('e', nm, table[nm]) for nm in reversed(names)]       # users before used: order is free for entities
    if names and rng.random() < 0.2:
        decls.append(('e', rng.choice(names), [('t', 'LATER')]))      # ignored re-declaration
    bad = rng.random()
    if bad < 0.05 and names:
        decls[rng.randrange(len(decls))] = ('e', 'u0', [('r', 'nowhere')])
        names = names + ['u0']
    elif bad < 0.13 and names:
        # a reference cycle (WFC No Recursion) or a '<' smuggled in by a character reference
        k = rng.randrange(len(decls))
        extra = [('r', rng.choice(names))] if bad < 0.10 else [('c', 60)]
        decls[k] = ('e', decls[k][1], decls[k][2] + extra)
    attrs_all = ['a', 'b', 'p:c', 'c', 'd'] + (['xmlns', 'xmlns:p', 'q:xmlns'] if rng.random() < 0.35 else [])
    nl = rng.randint(0, 3)
    lists = []
    for _ in range(nl):
        el = 'e' if rng.random() < 0.8 else 'f'
        defs = []
        for _ in range(rng.randint(1, 3)):
            k = rng.choice(['I', 'D', 'D', 'F', 'R'] if rng.random() < 0.5 else ['I', 'D', 'F'])
            defs.append((rng.choice(attrs_all), rng.choice(TYPES), k, rand_pieces(rng, names, rng.randint(0, 4)) if k in 'DF' else []))
        lists.append(('l', el, defs))
    if 0.13 <= bad < 0.18 and lists:
        decls = lists + decls                                          # ATTLISTs before the entities they use
    else:
        decls = decls + lists
        rng.shuffle(lists)
    written = []
    for a in attrs_all:
        if rng.random() < 0.45:
            written.append((a, rand_pieces(rng, names, rng.randint(0, 6))))
    return {'decls': decls, 'el': 'e', 'attrs': written}

def corpus_cases():
    """minimised reproductions of every defect found so far (corpus/C11_regressions.json); they run first"""
    try:
        raw = json.load(open(os.path.join(lib.VERIF, 'corpus', 'C11_regressions.json')))
    except OSError:
        return []
    out = []
    for c in raw:
        decls = [('e', x[1], [tuple(p) for p in x[2]]) if x[0] == 'e' else
                 ('l', x[1], [(a, t, k, [tuple(p) for p in ps]) for a, t, k, ps in x[2]]) for x in c['decls']]
        out.append({'decls': decls, 'el': c['el'], 'attrs': [(a, [tuple(p) for p in ps]) for a, ps in c['attrs']]})
    return out

def esc_cases():
    """double escaping in entity literals (finding D56) and '<' through an entity (D06, property C02)"""
    out = []
    for body in ([('c', 38), ('t', '#60;')], [('c', 38), ('t', '#38;')], [('c', 38), ('t', '#10;x')], [('c', 60)],
                 [('t', 'a'), ('c', 38), ('t', '#9;')]):
        for name in ('lt', 'amp', 'q'):
            out.append({'decls': [('e', name, body)], 'el': 'e', 'attrs': [('a', [('t', 'v'), ('r', name)])]})
    return out

# ------------------------------------------------------------------ running
def run_three(cases, okr, okm, oks):
    xml = [lib.enc(render_xml(c, hexrefs=(i % 3 == 2))) for i, c in enumerate(cases)]
    words = [render_words(c) for c in cases]
    r = m = s = None
    if okr:
        rc, r = lib.run_bin(lib.rust_bin(), ['attr'], xml, timeout=1200, shards=lib.NPROC)
        r = [canon(x) for x in r]
    if okm:
        rc, m = lib.run_bin(lib.model_bin('nsattr'), ['attr'], words, timeout=1200, shards=lib.NPROC)
    if oks:
        rc, s = lib.run_bin(lib.spec_bin('nsattr'), ['attr'], words, timeout=1200, shards=lib.NPROC)
    return r, m, s

def shrink(case, still_fails):
    """greedy delta debugging on the abstract case: drop a piece, a definition, a declaration, an attribute"""
    def candidates(c):
        for i, d in enumerate(c['decls']):
            yield dict(c, decls=c['decls'][:i] + c['decls'][i + 1:])
            if d[0] == 'e':
                for j in range(len(d[2])):
                    yield dict(c, decls=c['decls'][:i] + [('e', d[1], d[2][:j] + d[2][j + 1:])] + c['decls'][i + 1:])
            else:
                for j, df in enumerate(d[2]):
                    if len(d[2]) > 1:
                        yield dict(c, decls=c['decls'][:i] + [('l', d[1], d[2][:j] + d[2][j + 1:])] + c['decls'][i + 1:])
                    for k in range(len(df[3])):
                        nd = (df[0], df[1], df[2], df[3][:k] + df[3][k + 1:])
                        yield dict(c, decls=c['decls'][:i] + [('l', d[1], d[2][:j] + [nd] + d[2][j + 1:])] + c['decls'][i + 1:])
        for i, (a, ps) in enumerate(c['attrs']):
            yield dict(c, attrs=c['attrs'][:i] + c['attrs'][i + 1:])
            for k in range(len(ps)):
                yield dict(c, attrs=c['attrs'][:i] + [(a, ps[:k] + ps[k + 1:])] + c['attrs'][i + 1:])
    cur = case
    for _ in range(40):
        cands = list(candidates(cur))
        if not cands: break
        flags = still_fails(cands)
        nxt = next((c for c, f in zip(cands, flags) if f), None)
        if nxt is None: break
        cur = nxt
    return cur

def classify(case):
    if known36(case): return 'D36'
    if known_esc(case): return 'D56'
    return None

def check(run):
    run.trusted = ['Coq 8.16.1 kernel + VM', 'Spec/AttrNorm.v: transcription of XML 1.0 3.3, 3.3.2, 3.3.3, 4.5, 4.6 (readings R1-R4 stated there)',
                   'Model/AttrModel.v: hand-written model of info::{normalized_value, entity_value_from_name, normalize_ws, attributes, declaration_att_defs}, tied by the attr correspondence below',
                   'renderer of abstract cases to XML text and to model words (checks/C11.py), xml-parser for the concrete syntax',
                   'harness/src/domains/attr.rs, extraction (ExtrOcamlBasic only) + ocaml glue']
    lib.proof_step(run, 'C11', [])
    okr, mok, sok = lib.build_binaries(run, model_areas=['nsattr'], spec_areas=['nsattr'])
    okm, oks = mok.get('nsattr', False), sok.get('nsattr', False)
    ex = exhaustive_cases(run.tier, run.rng)
    run.extra['exhaustive_universe'] = len(ex)
    if run.tier == 'quick':
        ex = run.rng.sample(ex, 7000)
    else:
        run.extra['exhaustive'] = 'literals of <= 3 pieces over %d pieces x 3 contexts; literals of <= 1 piece (+120 of 2) x %d types x 4 default kinds x written/omitted x 5 layouts' % (len(ALPHABET), len(TYPES))
    rnd = [random_case(run.rng) for _ in range(3000 if run.tier == 'quick' else 60000)]
    corpus = corpus_cases()
    run.extra['corpus_cases'] = len(corpus)
    nsd = nsdecl_cases(run.rng)
    run.extra['namespace_declaration_definitions'] = len(nsd)
    cases = corpus + nsd + ex + rnd + esc_cases()
    r, m, s = run_three(cases, okr, okm, oks)
    findings = {e['id']: e for e in lib.known_findings('C11')}
    ties, fails = 0, []
    if r is not None:
        for i, c in enumerate(cases):
            run.evaluations += 1
            if nontrivial(c):
                run.nontrivial.add(render_words(c))
            run.count('result:' + r[i].split(' ')[0])
            run.count('attlists:%d' % sum(1 for d in c['decls'] if d[0] == 'l'))
            run.count('entities:%d' % min(4, sum(1 for d in c['decls'] if d[0] == 'e')))
            for d in c['decls']:
                if d[0] == 'l':
                    for a, ty, k, ps in d[2]:
                        run.count('type:' + ty); run.count('default:' + k)
                        if is_nsdecl(a) and d[1] == c['el']:
                            run.count('nsdecl-definition:' + k + ('/written' if any(x == a for x, _ in c['attrs']) else '/omitted'))
            for k, v in all_pieces(c):
                run.count('piece:' + ({'t': 'text', 'c': 'charref', 'r': 'entref'}[k]))
            if i % 1499 == 0:
                run.sample({'xml': render_xml(c), 'implementation': r[i], 'model': m[i] if m else None, 'spec': s[i] if s else None})
            if m is not None and m[i] != r[i]:
                ties += 1
                if ties <= 5:
                    run.tie_breaks.append('model and implementation differ on %s: model `%s`, implementation `%s`' % (json.dumps(render_xml(c)), m[i], r[i]))
            if s is not None and s[i] != r[i]:
                fails.append(i)
        if ties > 5:
            run.tie_breaks.append('... and %d more model / implementation differences' % (ties - 5))
    # failing inputs: implementation vs specification; known classes first, the rest shrunk
    unknown = []
    for i in fails:
        cls = classify(cases[i])
        if cls and cls in findings:
            what = findings[cls]['what']
            run.known_hits[cls] = (what, run.known_hits.get(cls, (what, 0))[1] + 1)
        else:
            unknown.append(i)
    def still_fails(cands):
        rr, _, ss = run_three(cands, okr, False, oks)
        return [a != b and classify(c) not in findings for a, b, c in zip(rr, ss, cands)]
    reported = set()
    for i in unknown[:12]:
        small = shrink(cases[i], still_fails)
        if render_words(small) in reported or len(reported) >= 6:
            continue
        reported.add(render_words(small))
        rr, mm, ss = run_three([small], okr, okm, oks)
        run.failing_inputs.append({
            'property': 'C11', 'class': 'attr-normalization',
            'what': 'attributes of %s: implementation `%s`, XML 1.0 `%s`' % (json.dumps(render_xml(small)), rr[0], ss[0]),
            'case': small, 'xml': render_xml(small), 'implementation': rr[0], 'model': mm[0] if mm else None, 'spec': ss[0],
            'original_xml': render_xml(cases[i]), 'replay': 'bin/check C11 --replay <this file>'})
    if unknown:
        run.notes.append('%d failing inputs in all, %d distinct after shrinking the first 12' % (len(unknown), len(reported)))
    # reading order: the attribute values may not depend on whether the content (which refers to the same
    # entities) was read before them -- expansion results are per use (attribute value: 3.3.3 applies;
    # content: it does not), never per entity name
    if okr:
        sel = [c for c in cases if any(d[0] == 'e' for d in c['decls'])]
        run.rng.shuffle(sel)
        sel = sel[:1500 if run.tier == 'quick' else 20000]
        def with_content(c):
            x = render_xml(c)
            assert x.endswith('/>')
            return x[:-2] + '>' + ''.join('&%s;' % d[1] for d in c['decls'] if d[0] == 'e') + '</%s>' % c['el']
        xs = [with_content(c) for c in sel]
        rc, plain = lib.run_bin(lib.rust_bin(), ['attr'], [lib.enc(x) for x in xs], timeout=1200, shards=lib.NPROC)
        rc, cfirst = lib.run_bin(lib.rust_bin(), ['attr'], ['c ' + lib.enc(x) for x in xs], timeout=1200, shards=lib.NPROC)
        nrep = 0
        for x, a, b in zip(xs, plain, cfirst):
            run.evaluations += 1
            run.count('reading-order:' + ('accepted' if a.startswith('ok') else 'refused'))
            if a.startswith('ok'):
                run.nontrivial.add(('reading-order', x))
            if a.startswith('ok') and b.startswith('ok') and a != b and nrep < 3:
                nrep += 1
                run.failing_inputs.append({'property': 'C11', 'class': 'reading-order',
                    'what': 'attribute values of %s depend on what was read before: `%s` when read first, `%s` after the content has been read' % (json.dumps(x), a, b),
                    'xml': x, 'attributes_first': a, 'content_first': b})
    # entity cycles: refused when the document is built since commits d2b7d1e / ed2c470 (was defect D09 of C03)
    if okr:
        cyc = {'decls': [('e', 'x', [('r', 'y')]), ('e', 'y', [('r', 'x')])], 'el': 'e', 'attrs': [('a', [('r', 'x')])]}
        cls, out = lib.run_isolated(lib.rust_bin(), ['attr'], lib.enc(render_xml(cyc)), timeout=20)
        run.notes.append('entity cycle <!ENTITY x "&y;"><!ENTITY y "&x;"> a="&x;": implementation -> %s %s (expected: ok err ...)' % (cls, out))
        if cls != 'ok' or not out.startswith('err'):
            run.tie_breaks.append('an entity cycle is no longer refused: %s %s' % (cls, out))
    return run.finish(level='proof',
        rule='one case = (internal subset, start-tag) as abstract pieces; distinct by the abstract case; non-trivial = some literal contains a reference or a white-space character other than space',
        assumptions=['reading R1: 3.3.3 applies to replacement text in which character references are already replaced (DESIGN 7.3)',
                     'reading R3: each literal white-space character becomes one space; the end-of-line handling of XML 1.0 2.11 is not part of this property',
                     'theorems: well-formed documents (doc_wf: entities before attribute lists, references declared, no cycle); ill-formed ones are compared by the correspondence and the search only',
                     'no parameter entities, no external subset (xml-rs supports neither)'])

def replay(path):
    d = json.load(open(path))
    print(json.dumps(d, indent=1, ensure_ascii=False))
    case = d.get('case')
    if case:
        case = {'decls': [tuple(x[:2]) + ([tuple(p) for p in x[2]],) if x[0] == 'e' else (x[0], x[1], [(a, t, k, [tuple(p) for p in ps]) for a, t, k, ps in x[2]]) for x in case['decls']],
                'el': case['el'], 'attrs': [(a, [tuple(p) for p in ps]) for a, ps in case['attrs']]}
        print('document      : ' + render_xml(case))
        for name, b, line in (('implementation', lib.rust_bin(), lib.enc(render_xml(case))),
                              ('model', lib.model_bin('nsattr'), render_words(case)),
                              ('specification', lib.spec_bin('nsattr'), render_words(case))):
            if os.path.exists(b):
                rc, out = lib.run_bin(b, ['attr'], [line], timeout=60)
                print('%-14s: %s' % (name, out[0] if out else '(no answer)'))
    return 0
