(** * C10, part 2: expanded names of elements and attributes (xml-dom [as_expanded_name], xml-info
      [namespace_name]) are those of Namespaces in XML; name tests; selection. *)
From Coq Require Import List NArith Bool Lia.
From XmlRs Require Import Base.CPred Spec.AttrNorm Spec.Namespaces Model.NsModel
  Proofs.AttrNormProofs Proofs.NamespacesScope.
Import ListNotations.
Open Scope N_scope.

Lemma str_eqb_sym (a b : str) : str_eqb a b = str_eqb b a.
Proof.
  destruct (str_eqb a b) eqn:E.
  - apply str_eqb_eq in E. subst. symmetry. apply str_eqb_refl.
  - destruct (str_eqb b a) eqn:E2; [|reflexivity]. apply str_eqb_eq in E2. subst. rewrite str_eqb_refl in E. discriminate.
Qed.

(** the pseudo-prefix "xmlns" is harmless as long as no real prefix is spelled that way *)
Lemma key_inj (a b : prefix) : not_xmlns a = true -> not_xmlns b = true ->
  str_eqb (key_of a) (key_of b) = prefix_eqb a b.
Proof.
  destruct a as [s|], b as [t|]; cbn [not_xmlns key_of prefix_eqb]; intros Ha Hb.
  - reflexivity.
  - apply negb_true_iff in Ha. exact Ha.
  - apply negb_true_iff in Hb. rewrite str_eqb_sym. exact Hb.
  - apply str_eqb_refl.
Qed.

Definition prefixes_ok (l : list nsdecl) : bool := forallb (fun d => not_xmlns (fst d)) l.

Lemma find_key_assoc l p : prefixes_ok l = true -> not_xmlns p = true ->
  option_map snd (find (fun v => str_eqb (key_of (fst v)) (key_of p)) l) = assoc l p.
Proof.
  intros Hl Hp. induction l as [|(q, u) r IH]; [reflexivity|].
  cbn [prefixes_ok forallb fst] in Hl. apply andb_prop in Hl as [Hq Hr].
  cbn [find assoc fst]. rewrite (key_inj q p Hq Hp).
  destruct (prefix_eqb q p); [reflexivity|]. apply IH. exact Hr.
Qed.

Lemma scope_rel_assoc S E p : scope_rel S E -> assoc S p = ns_lookup E p.
Proof.
  intros [Hnd Hmem]. destruct (assoc S p) as [u|] eqn:Ea.
  - symmetry. apply Hmem. apply assoc_some_in. exact Ea.
  - destruct (ns_lookup E p) as [u|] eqn:El; [|reflexivity].
    apply Hmem in El. rewrite (assoc_nodup S p u Hnd El) in Ea. discriminate.
Qed.

Lemma elem_ok_parts x : elem_ok x = true ->
  NoDup (map fst (el_decls x)) /\ prefixes_ok (el_decls x) = true /\
  not_xmlns (qn_prefix (el_name x)) = true /\ forallb (fun q => not_xmlns (qn_prefix q)) (el_attrs x) = true.
Proof.
  unfold elem_ok. rewrite !andb_true_iff. intros [[[H1 H2] H3] H4].
  repeat split; try assumption. apply nodup_prefixes_spec. exact H1.
Qed.

Lemma env_prefixes_ok chain : chain_ok chain = true -> prefixes_ok (env_of chain) = true.
Proof.
  induction chain as [|x up IH]; intros H; [reflexivity|].
  cbn [chain_ok forallb] in H. apply andb_prop in H as [Hx Hup]. cbn [env_of]. unfold prefixes_ok.
  rewrite forallb_app. apply andb_true_intro. split; [apply (elem_ok_parts x Hx)|apply IH; exact Hup].
Qed.

Lemma scope_prefixes_ok chain : chain <> [] -> chain_ok chain = true -> prefixes_ok (m_in_scope chain) = true.
Proof.
  intros Hne Hok. apply forallb_forall. intros (q, u) Hin.
  destruct (in_scope_char chain Hne (chain_ok_nodup chain Hok)) as [_ Hmem].
  apply Hmem in Hin. unfold ns_lookup in Hin.
  destruct (assoc (env_of chain) q) as [v|] eqn:Ea; [|discriminate].
  apply assoc_some_in in Ea. pose proof (env_prefixes_ok chain Hok) as He.
  unfold prefixes_ok in He. rewrite forallb_forall in He. exact (He (q, v) Ea).
Qed.

(** the two look-ups of the code are the look-up of the specification *)
Lemma find_by_key_lookup chain p : chain <> [] -> chain_ok chain = true -> not_xmlns p = true ->
  m_find_by_key (m_in_scope chain) (key_of p) = ns_lookup (env_of chain) p.
Proof.
  intros Hne Hok Hp. unfold m_find_by_key.
  rewrite (find_key_assoc _ p (scope_prefixes_ok chain Hne Hok) Hp).
  apply scope_rel_assoc. apply in_scope_char; [exact Hne|apply chain_ok_nodup; exact Hok].
Qed.

Lemma find_namespace_uri_lookup x up p : chain_ok (x :: up) = true -> not_xmlns p = true ->
  m_find_namespace_uri (x :: up) (key_of p) = ns_lookup (env_of (x :: up)) p.
Proof.
  intros Hok Hp. pose proof Hok as Hok'. cbn [chain_ok forallb] in Hok'. apply andb_prop in Hok' as [Hx _].
  destruct (elem_ok_parts x Hx) as (_ & Hdx & _ & _).
  unfold m_find_namespace_uri. pose proof (find_key_assoc (el_decls x) p Hdx Hp) as Hf.
  destruct (find (fun d => str_eqb (key_of (fst d)) (key_of p)) (el_decls x)) as [d|] eqn:Ef; cbn [option_map] in Hf.
  - unfold ns_lookup. cbn [env_of]. rewrite assoc_app, <- Hf. destruct (snd d); reflexivity.
  - rewrite find_by_key_lookup by (try discriminate; assumption).
    reflexivity.
Qed.

(** *** expanded names *)
Theorem elem_name_refines : forall x up en,
  chain_ok (x :: up) = true ->
  resolve_elem (env_of (x :: up)) (el_name x) = Some en ->
  m_elem_dom (x :: up) = Some en /\ m_elem_info (x :: up) = Some en.
Proof.
  intros x up en Hok Hr. pose proof Hok as Hok'. cbn [chain_ok forallb] in Hok'. apply andb_prop in Hok' as [Hx _].
  destruct (elem_ok_parts x Hx) as (_ & _ & Hn & _).
  unfold m_elem_dom, m_elem_info. rewrite find_namespace_uri_lookup by assumption.
  rewrite find_by_key_lookup by (try discriminate; assumption).
  unfold resolve_elem in Hr. destruct (qn_prefix (el_name x)) as [p|].
  - destruct (ns_lookup (env_of (x :: up)) (Some p)); [|discriminate]. injection Hr as <-. auto.
  - injection Hr as <-. auto.
Qed.

Theorem attr_name_refines : forall x up q en,
  chain_ok (x :: up) = true -> In q (el_attrs x) ->
  resolve_attr (env_of (x :: up)) q = Some en ->
  m_attr_dom (x :: up) q = en /\ m_attr_info (x :: up) q = en.
Proof.
  intros x up q en Hok Hq Hr. pose proof Hok as Hok'. cbn [chain_ok forallb] in Hok'. apply andb_prop in Hok' as [Hx _].
  destruct (elem_ok_parts x Hx) as (_ & _ & _ & Ha). rewrite forallb_forall in Ha. specialize (Ha q Hq).
  unfold m_attr_dom, m_attr_info, resolve_attr in *. destruct (qn_prefix q) as [p|].
  - change p with (key_of (Some p)).
    rewrite find_namespace_uri_lookup by assumption.
    rewrite find_by_key_lookup by (try discriminate; assumption).
    destruct (ns_lookup (env_of (x :: up)) (Some p)); [|discriminate]. injection Hr as <-. auto.
  - injection Hr as <-. auto.
Qed.

(** when the document is not namespace-well-formed (unbound prefix) the code answers "no namespace" *)
Theorem unbound_prefix_model : forall x up,
  chain_ok (x :: up) = true -> resolve_elem (env_of (x :: up)) (el_name x) = None ->
  m_elem_dom (x :: up) = Some (qn_local (el_name x), None).
Proof.
  intros x up Hok Hr. pose proof Hok as Hok'. cbn [chain_ok forallb] in Hok'. apply andb_prop in Hok' as [Hx _].
  destruct (elem_ok_parts x Hx) as (_ & _ & Hn & _). unfold m_elem_dom.
  rewrite find_by_key_lookup by (try discriminate; assumption).
  unfold resolve_elem in Hr. destruct (qn_prefix (el_name x)) as [p|]; [|discriminate].
  destruct (ns_lookup (env_of (x :: up)) (Some p)); [discriminate|reflexivity].
Qed.

(** ** name tests *)
Definition some_keys (c : m_ctx) : Prop := forall v, In v c -> fst v <> None.

Lemma add_ns_some c p u : some_keys c -> some_keys (m_add_ns c (Some p) u).
Proof.
  intros H v Hv. unfold m_add_ns in Hv. apply in_app_or in Hv as [Hv|[<-|[]]]; [|discriminate].
  apply filter_In in Hv as [Hv _]. exact (H v Hv).
Qed.

Lemma ctx_of_some b : forall c, some_keys c -> some_keys (fold_left (fun c pu => m_add_ns c (Some (fst pu)) (snd pu)) b c).
Proof. induction b as [|pu r IH]; intros c H; [exact H|]. cbn [fold_left]. apply IH, add_ns_some, H. Qed.

Lemma get_none_some_keys c : some_keys c -> m_get_ns_uri c None = None.
Proof.
  intros H. unfold m_get_ns_uri. induction c as [|[q u] r IH]; [reflexivity|]. cbn [find fst].
  destruct q as [s|].
  - cbn [prefix_eqb]. apply IH. intros w Hw. apply H. right. exact Hw.
  - exfalso. apply (H (None, u)); [left; reflexivity|reflexivity].
Qed.

(** looking a prefix up in the context built by successive [add_ns] = the LAST binding given for it;
    the specification's [binding] takes the FIRST: they agree when each prefix is bound once *)
Definition m_lookup_last (b : bindings) (p : str) : option uri := binding (rev b) p.

Lemma find_app {A} (f : A -> bool) a b :
  find f (a ++ b) = match find f a with Some x => Some x | None => find f b end.
Proof. induction a as [|x r IH]; [reflexivity|]. cbn [app find]. destruct (f x); [reflexivity|exact IH]. Qed.

Lemma find_filter_none {A} (f g : A -> bool) c : (forall v, f v = true -> g v = false) -> find f (filter g c) = None.
Proof.
  intros H. induction c as [|x r IH]; [reflexivity|]. cbn [filter].
  destruct (g x) eqn:Eg; [|exact IH]. cbn [find]. destruct (f x) eqn:Ef; [|exact IH].
  rewrite (H x Ef) in Eg. discriminate.
Qed.

Lemma find_filter_same {A} (f g : A -> bool) c : (forall v, f v = true -> g v = true) -> find f (filter g c) = find f c.
Proof.
  intros H. induction c as [|x r IH]; [reflexivity|]. cbn [filter find].
  destruct (f x) eqn:Ef.
  - rewrite (H x Ef). cbn [find]. rewrite Ef. reflexivity.
  - destruct (g x); [cbn [find]; rewrite Ef|]; exact IH.
Qed.

Lemma get_add_ns c q u p :
  m_get_ns_uri (m_add_ns c (Some q) u) (Some p) = if str_eqb q p then Some u else m_get_ns_uri c (Some p).
Proof.
  unfold m_get_ns_uri, m_add_ns. rewrite find_app. destruct (str_eqb q p) eqn:E.
  - rewrite find_filter_none.
    + cbn [find fst prefix_eqb]. rewrite E. reflexivity.
    + intros v Hv. apply prefix_eqb_eq in Hv. rewrite Hv. cbn [prefix_eqb]. rewrite str_eqb_sym, E. reflexivity.
  - rewrite find_filter_same.
    + cbn [find fst prefix_eqb]. rewrite E. destruct (find (fun v : prefix * uri => prefix_eqb (fst v) (Some p)) c); reflexivity.
    + intros v Hv. apply prefix_eqb_eq in Hv. rewrite Hv. cbn [prefix_eqb]. rewrite str_eqb_sym, E. reflexivity.
Qed.

Lemma binding_app b1 b2 p : binding (b1 ++ b2) p = match binding b1 p with Some u => Some u | None => binding b2 p end.
Proof. induction b1 as [|(q, u) r IH]; [reflexivity|]. cbn [app binding]. destruct (str_eqb q p); [reflexivity|exact IH]. Qed.

Lemma ctx_of_lookup b : forall c p,
  m_get_ns_uri (fold_left (fun c pu => m_add_ns c (Some (fst pu)) (snd pu)) b c) (Some p)
  = match binding (rev b) p with Some u => Some u | None => m_get_ns_uri c (Some p) end.
Proof.
  induction b as [|(q, u) r IH]; intros c p; [reflexivity|]. cbn [fold_left fst snd rev].
  rewrite IH, binding_app, get_add_ns. cbn [binding].
  destruct (binding (rev r) p); [reflexivity|]. destruct (str_eqb q p); reflexivity.
Qed.

Lemma binding_nodup b p u : NoDup (map fst b) -> In (p, u) b -> binding b p = Some u.
Proof.
  induction b as [|(q, v) r IH]; intros Hnd Hin; [destruct Hin|].
  cbn [map fst] in Hnd. inversion Hnd as [|? ? Hq Hr]; subst. cbn [binding].
  destruct Hin as [E|Hin].
  - injection E as -> ->. rewrite str_eqb_refl. reflexivity.
  - destruct (str_eqb q p) eqn:E; [|auto]. apply str_eqb_eq in E. subst q. exfalso.
    apply Hq. apply in_map_iff. exists (p, u). auto.
Qed.

Lemma binding_in b p u : binding b p = Some u -> In (p, u) b.
Proof.
  induction b as [|(q, v) r IH]; cbn [binding]; [discriminate|].
  destruct (str_eqb q p) eqn:E; intros H.
  - injection H as ->. apply str_eqb_eq in E. subst q. left. reflexivity.
  - right. auto.
Qed.

Lemma binding_rev b p : NoDup (map fst b) -> binding (rev b) p = binding b p.
Proof.
  intros Hnd. assert (Hnd' : NoDup (map fst (rev b))) by (rewrite map_rev; apply NoDup_rev; exact Hnd).
  destruct (binding b p) as [u|] eqn:E.
  - apply binding_nodup; [exact Hnd'|]. apply in_rev. rewrite rev_involutive. apply binding_in. exact E.
  - destruct (binding (rev b) p) as [u|] eqn:E2; [|reflexivity].
    apply binding_in, in_rev in E2. rewrite (binding_nodup b p u Hnd E2) in E. discriminate.
Qed.

Lemma ctx_lookup b p : NoDup (map fst b) -> m_get_ns_uri (m_ctx_of b) (Some p) = binding b p.
Proof.
  intros Hnd. unfold m_ctx_of. rewrite ctx_of_lookup, binding_rev by exact Hnd.
  destruct (binding b p); reflexivity.
Qed.

Lemma ouri_eqb_sym a b : ouri_eqb a b = ouri_eqb b a.
Proof. destruct a, b; cbn [ouri_eqb]; try reflexivity. apply str_eqb_sym. Qed.

(** *** name tests: [eval_node_test] with the caller's bindings is XPath 1.0 2.3 *)
Theorem name_test_refines : forall b t n, NoDup (map fst b) ->
  m_name_test (m_ctx_of b) t n = name_test b t n.
Proof.
  intros b t n Hnd. destruct t as [|p|[p|] l]; cbn [m_name_test name_test].
  - reflexivity.
  - rewrite ctx_lookup by exact Hnd. destruct (binding b p); [|reflexivity]. rewrite ouri_eqb_sym. reflexivity.
  - rewrite ctx_lookup by exact Hnd. reflexivity.
  - rewrite get_none_some_keys; [reflexivity|]. unfold m_ctx_of. apply ctx_of_some. intros v [].
Qed.
